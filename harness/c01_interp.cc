// C01 correspondence harness.
//
// One request per line on stdin:
//     scn <set> <seed> <rows> <patch> <steps> <nex>      random individuals of vita's own constructor over
//                                                        symbol set <set>, then a chain of mutation /
//                                                        crossover / get_block
//     chain <seed> <rows> <nex>                          hand-built DAG with maximal sharing
//     long <set> <seed> <kmax>                           ONE interpreter object reused for thousands of runs of a
//                                                        small conditional program whose lazily evaluated branch is
//                                                        needed only at run indices separated by gaps 2^k-1, 2^k,
//                                                        2^k+1 (k = 1..kmax), with fresh inputs each time
//     wide <seed> <rows> <nex>                           examples with 70000 features, programs over variables whose
//                                                        indices sit around 2^8 and 2^16
//     pen <set> <seed>                                   a comparison / conditional function with engineered equalities
//                                                        among its argument indices at the start locus; the same
//                                                        individual built directly and through storage that held a
//                                                        gene of another arity before
//     team <set> <seed> <rows> <members> <nex>           a team<i_mep> run through reg_lambda_f<team<i_mep>>: every
//                                                        member on its own (reused) interpreter object
//     layout <set> <seed> <rows> <nex>                   the same expression tree laid out differently: 2·rows rows,
//                                                        every active gene copied to rows 2i and 2i+1, every argument
//                                                        pointing to one of the two copies at random (shared genes get
//                                                        unshared or stay shared at random), other rows random
//     intron <set> <seed> <rows> <nex>                   the same active code, every inactive gene replaced at random
//     numload <set> <seed> <rows> <nex> <mode>           integer ephemeral constants (`integer::number`) whose parameter is
//                                                        outside what `init` draws: mode load = the program is written
//                                                        as text and read with i_mep::load (values >= 2^31, <= -2^31,
//                                                        fractions, 1e300 …; libstdc++ does not read "nan" / "inf": such
//                                                        a text is reported as `load=0`), mode par = NaN / ±inf / … put
//                                                        into the public member gene::par and installed with replace
//     swap <set> <seed> <rows> <nex>                     ONE src_interpreter object; the individual it points to is
//                                                        assigned other programs (of the same shape) between runs
// one answer line per request: a transcript of items separated by " ;; "
//     P <rows> <cats> <bi> <bc> ; i c desc par n a0 c0 … ; …       a program (active AND inactive genes)
//     R<k> <example tokens> = <vita's answer> <oracle's answer>
//          k = F  vita::run(ind, example)                (fresh src_interpreter)
//              S  one src_interpreter object reused over the examples, in order
//              0  vita::run(ind)                          (interpreter<i_mep>, no example)
//              L  one reg_lambda_f object reused over the examples
//     RR<k> <n> <example tokens> = <vita's last answer> <oracle's answer> bad=<runs whose answer was not the oracle's>
//          the same example run <n> times in a row on the object of the preceding R<k> items (k = S or L)
//     N<k> = <vita's penalty()> <oracle's penalty>        k = F fresh interpreter<i_mep>, S the reused src_interpreter
//     Q <rows> <cats> <bi> <bc> ; …                       the program now behind the SAME interpreter object (swap)
//     E <what> <example tokens> = <a> <b>                 two answers of vita that must be identical (layout / intron /
//                                                        penalty of equal individuals)
//     T <example tokens> = <team lambda> <own running mean of the members' oracle values>
//     an example may be written sparsely:  @<size> <default token> <index>:<token> …
// The oracle is written here and is independent of vita's interpreter AND of the Lean model: the
// active expression tree is evaluated recursively, without memo and without an instruction
// pointer, by calling symbol::eval with a params object that recurses ("skip" when the tree is
// larger than a budget); a variable is NOT evaluated through vita::variable::eval: the oracle reads the
// feature whose index this harness gave the variable when it built the symbol set; an integer ephemeral constant is
// NOT evaluated through integer::number::eval: the oracle converts the gene's parameter itself (documented
// behaviour: truncation towards zero, saturation at INT_MIN / INT_MAX, NaN -> 0).
#include "c01_wire.h"

#include "kernel/vita.h"
#include "kernel/gp/src/primitive/bool.h"
#include "kernel/gp/src/primitive/int.h"
#include "kernel/gp/src/primitive/real.h"
#include "kernel/gp/src/primitive/string.h"
#include "kernel/gp/src/constant.h"
#include "kernel/gp/src/lambda_f.h"
#include "kernel/gp/src/variable.h"

#include <cmath>
#include <limits>
#include <map>
#include <memory>
#include <set>
#include <sstream>
#include <variant>

using namespace vita;

namespace
{
struct budget_exceeded {};

// ---- the oracle ---------------------------------------------------------------------------
using var_index_t = std::map<const symbol *, unsigned long>;

// integer ephemeral constants of the symbol sets (filled by symset::num)
std::set<const symbol *> &number_symbols()
{
  static std::set<const symbol *> s;
  return s;
}

// the documented double -> int conversion of integer::number, written independently of int.h
value_t own_number_value(double v)
{
  if (std::isnan(v)) return value_t(0);
  if (v >= 2147483647.0) return value_t(std::numeric_limits<int>::max());
  if (v <= -2147483648.0) return value_t(std::numeric_limits<int>::min());
  return value_t(static_cast<int>(std::trunc(v)));
}

struct tree_params : symbol_params
{
  const i_mep &prg;
  locus l;
  const std::vector<value_t> *ex;
  unsigned long *steps;
  const var_index_t *vars;

  tree_params(const i_mep &p, locus loc, const std::vector<value_t> *e, unsigned long *s,
              const var_index_t *v)
    : prg(p), l(loc), ex(e), steps(s), vars(v) {}

  value_t eval_here()
  {
    if (++*steps > 400000) throw budget_exceeded();
    if (const auto it = vars->find(prg[l].sym); it != vars->end())
      return (ex && it->second < ex->size()) ? (*ex)[it->second] : value_t();
    if (number_symbols().count(prg[l].sym))
      return own_number_value(prg[l].par);
    return prg[l].sym->eval(*this);
  }
  value_t fetch_arg(unsigned i) override
  {
    tree_params sub(prg, prg[l].locus_of_argument(i), ex, steps, vars);
    return sub.eval_here();
  }
  value_t fetch_opaque_arg(unsigned i) override { return fetch_arg(i); }
  terminal_param_t fetch_param() const override { return prg[l].par; }
  value_t fetch_var(unsigned i) override
  {
    return (ex && i < ex->size()) ? (*ex)[i] : value_t();
  }
};

// as a value (for the team mean); throws what the evaluation throws
value_t oracle_value(const var_index_t &vars, const i_mep &ind, const std::vector<value_t> *ex)
{
  unsigned long steps = 0;
  tree_params p(ind, ind.best(), ex, &steps, &vars);
  return p.eval_here();
}

std::string oracle(const var_index_t &vars, const i_mep &ind, const std::vector<value_t> *ex)
{
  unsigned long steps = 0;
  try
  {
    tree_params p(ind, ind.best(), ex, &steps, &vars);
    return wire::enc(p.eval_here());
  }
  catch (const std::bad_variant_access &) { return "T"; }
  catch (const budget_exceeded &) { return "skip"; }
}

// ---- symbol sets --------------------------------------------------------------------------
struct symset
{
  problem prob;
  std::map<const symbol *, std::string> desc;
  var_index_t var_index;       // variable symbol -> the feature index this harness gave it
  std::vector<char> var_dom;   // domain of variable k: 'd', 'i', 's'
  std::vector<symbol *> var_sym;

  template<class S, class... A> symbol *fn(A &&... a)
  {
    symbol *s = prob.sset.insert<S>(std::forward<A>(a)...);
    desc[s] = "F:" + s->name();
    return s;
  }
  template<class... A> symbol *num(A &&... a)     // an integer ephemeral constant
  {
    symbol *s = fn<integer::number>(std::forward<A>(a)...);
    number_symbols().insert(s);
    return s;
  }
  void var(char dom, category_t c)
  {
    const unsigned k = var_dom.size();
    symbol *s = prob.sset.insert<variable>("X" + std::to_string(k), k, c);
    desc[s] = "X:" + std::to_string(k);
    var_index[s] = k;
    var_dom.push_back(dom);
    var_sym.push_back(s);
  }
  void wide_var(unsigned long k)    // a real variable reading feature k (any k, not consecutive)
  {
    symbol *s = prob.sset.insert<variable>("X" + std::to_string(k), static_cast<unsigned>(k), category_t(0));
    desc[s] = "X:" + std::to_string(k);
    var_index[s] = k;
  }
  void kd(double v, category_t c)
  {
    auto *s = static_cast<constant<double> *>(prob.sset.insert<constant<double>>(v, c));
    desc[s] = "K:" + wire::enc(s->eval());
  }
  void ki(int v, category_t c)
  {
    auto *s = static_cast<constant<int> *>(prob.sset.insert<constant<int>>(v, c));
    desc[s] = "K:" + wire::enc(s->eval());
  }
  void ks(const std::string &v, category_t c)
  {
    auto *s = static_cast<constant<std::string> *>(prob.sset.insert<constant<std::string>>(v, c));
    desc[s] = "K:" + wire::enc(s->eval());
  }
};

void real_functions(symset &s, category_t c)
{
  s.fn<real::abs>(cvect{c});   s.fn<real::add>(cvect{c});   s.fn<real::aq>(cvect{c});
  s.fn<real::cos>(cvect{c});   s.fn<real::div>(cvect{c});   s.fn<real::idiv>(cvect{c});
  s.fn<real::ifb>(cvect{c, c}); s.fn<real::ife>(cvect{c, c}); s.fn<real::ifl>(cvect{c, c});
  s.fn<real::ifz>(cvect{c});   s.fn<real::ln>(cvect{c});    s.fn<real::max>(cvect{c});
  s.fn<real::mod>(cvect{c});   s.fn<real::mul>(cvect{c});   s.fn<real::sin>(cvect{c});
  s.fn<real::sqrt>(cvect{c});  s.fn<real::sub>(cvect{c});   s.fn<real::sigmoid>(cvect{c});
}

void int_functions(symset &s, category_t c)
{
  s.fn<integer::add>(cvect{c}); s.fn<integer::sub>(cvect{c}); s.fn<integer::mul>(cvect{c});
  s.fn<integer::div>(cvect{c}); s.fn<integer::mod>(cvect{c}); s.fn<integer::shl>(cvect{c});
  s.fn<integer::ife>(cvect{c, c}); s.fn<integer::ifl>(cvect{c, c}); s.fn<integer::ifz>(cvect{c});
}

std::unique_ptr<symset> make_set(const std::string &name)
{
  auto s = std::make_unique<symset>();
  s->prob.env.init();
  if (name == "real")               // single category, every real function
  {
    real_functions(*s, 0);
    for (int k = 0; k < 3; ++k) s->var('d', 0);
    s->fn<real::real>(cvect{0});
    s->fn<real::integer>(cvect{0}, -8, 8);
    s->kd(0.5, 0); s->kd(-3.0, 0); s->kd(1e154, 0);
  }
  else if (name == "int")           // single category, every integer function
  {
    int_functions(*s, 0);
    for (int k = 0; k < 3; ++k) s->var('i', 0);
    s->num(cvect{0});
    s->num(cvect{0}, 2000000000, 2147483647);
    s->ki(0, 0); s->ki(-1, 0); s->ki(31, 0); s->ki(std::numeric_limits<int>::min(), 0);
  }
  else if (name == "str2")          // two categories: 0 = real, 1 = string
  {
    real_functions(*s, 0);
    s->fn<real::length>(cvect{1, 0});
    s->fn<str::ife>(cvect{1, 0});   // compares strings, hands back reals
    s->fn<str::ife>(cvect{1, 1});   // compares strings, hands back strings
    s->fn<real::ife>(cvect{0, 1});  // compares reals, hands back strings
    s->fn<real::ifl>(cvect{0, 1});
    s->var('d', 0); s->var('s', 1); s->var('d', 0); s->var('s', 1);
    s->fn<real::real>(cvect{0});
    s->kd(2.0, 0); s->ks("abc", 1); s->ks("", 1); s->ks("plane", 1);
  }
  else if (name == "typed3")        // three categories: 0 = real, 1 = int / boolean, 2 = string
  {
    real_functions(*s, 0);
    int_functions(*s, 1);
    s->fn<real::gt>(cvect{0, 1});       // reals -> boolean (int)
    s->fn<real::lt>(cvect{0, 1});
    s->fn<boolean::l_and>(cvect{1}); s->fn<boolean::l_or>(cvect{1}); s->fn<boolean::l_not>(cvect{1});
    s->fn<boolean::zero>(cvect{1}); s->fn<boolean::one>(cvect{1});
    s->fn<integer::ife>(cvect{1, 0});   // compares ints, hands back reals
    s->fn<integer::ifl>(cvect{1, 2});   // compares ints, hands back strings
    s->fn<real::length>(cvect{2, 0});
    s->fn<str::ife>(cvect{2, 1});       // compares strings, hands back ints
    s->fn<real::ifl>(cvect{0, 2});
    s->var('d', 0); s->var('i', 1); s->var('s', 2); s->var('d', 0);
    s->fn<real::real>(cvect{0}); s->num(cvect{1});
    s->kd(-0.0, 0); s->ki(7, 1); s->ks("car", 2); s->ks("plane", 2);
  }
  else if (name == "illtyped")      // NOT strongly typed: booleans and strings leak into real arguments
  {                                 // (exceptions leave eval; outside the property, exercises unwinding)
    real_functions(*s, 0);
    s->fn<real::gt>(cvect{0, 0});
    s->fn<real::lt>(cvect{0, 0});
    s->var('d', 0); s->var('d', 0); s->var('s', 0);
    s->fn<real::real>(cvect{0});
    s->kd(1.0, 0);
  }
  else if (name == "wide")          // single category; variables reading features around 2^8 and 2^16
  {
    s->fn<real::add>(cvect{0}); s->fn<real::sub>(cvect{0}); s->fn<real::mul>(cvect{0});
    s->fn<real::max>(cvect{0}); s->fn<real::ifl>(cvect{0, 0});
    for (unsigned long k : {0ul, 3ul, 4ul, 254ul, 255ul, 256ul, 257ul, 259ul, 4463ul, 65534ul, 65535ul, 65536ul,
                            65537ul, 65539ul, 65791ul, 65792ul, 69999ul})
      s->wide_var(k);
    s->kd(1.5, 0);
  }
  else
    return nullptr;
  return s;
}

// ---- penalty ------------------------------------------------------------------------------------
std::string pen_enc(double v)
{
  if (v >= 0.0 && v < 1e6 && v == std::floor(v)) return std::to_string(static_cast<long>(v));
  return "D" + wire::hex16(verif::bits(v));
}

// The documented rule (comp_penalty.h, real.h, int.h): the four-term comparisons `if a0 ∘ a1 then a2 else a3`
// are penalised once when the two compared terms are the same gene and once when the two results are the
// same gene; the penalty of a program is that of the symbol at its start locus; nothing else is penalised.
// Computed from the gene's own arguments, never beyond its arity.
std::string penalty_oracle(const std::map<const symbol *, std::string> &desc, const i_mep &ind)
{
  static const std::set<std::string> four = {"F:FIFE", "F:FIFL", "F:IFE", "F:IFL"};
  const gene &g = ind[ind.best()];
  const auto it = desc.find(g.sym);
  if (it == desc.end() || !four.count(it->second) || g.sym->arity() != 4 || g.args.size() != 4) return "0";
  return std::to_string(int(g.args[0] == g.args[1]) + int(g.args[2] == g.args[3]));
}

// ---- serialisation ---------------------------------------------------------------------------
std::string program(const symset &ss, const i_mep &ind)
{
  std::string out = "P " + std::to_string(ind.size()) + " " + std::to_string(ind.categories()) + " " +
                    std::to_string(ind.best().index) + " " + std::to_string(ind.best().category);
  for (index_t i = 0; i < ind.size(); ++i)
    for (category_t c = 0; c < ind.categories(); ++c)
    {
      const gene &g = ind[locus{i, c}];
      const auto it = ss.desc.find(g.sym);
      if (it == ss.desc.end()) continue;
      const bool parametric = g.sym->terminal() && terminal::cast(g.sym)->parametric();
      out += " ; " + std::to_string(i) + " " + std::to_string(c) + " " + it->second + " " +
             wire::hex16(parametric ? verif::bits(g.par) : 0) + " " + std::to_string(g.sym->arity());
      for (unsigned k = 0; k < g.sym->arity(); ++k)
      {
        const locus a = g.locus_of_argument(k);
        out += " " + std::to_string(a.index) + " " + std::to_string(a.category);
      }
    }
  return out;
}

const double DVALS[] = {0.0, -0.0, 1.0, -1.0, 2.0, 0.5, -2.5, 3.0, 7.0, 4.4408920985006262e-16,
                        4.4408920985006267e-16, 4.4408920985006257e-16, 1.0000000000000002, 5e-324, -5e-324,
                        2.2250738585072014e-308, 1.7976931348623157e308, -1.7976931348623157e308, 1e154,
                        -1e154, 1e-154, 3.141592653589793, 1e22, 709.782712893384, -745.2, 123456.789};
const int IVALS[] = {0, 1, -1, 2, 3, 7, 31, 32, 33, -7, 46341, 65536, 2147483647, -2147483647 - 1,
                     2147483646, 1073741824, -1073741825};
const char *SVALS[] = {"", "a", "abc", "car", "plane", "abcd efgh", "A"};

value_t draw(verif::splitmix &r, char dom)
{
  switch (dom)
  {
  case 'd':
    if (r.chance(0.25)) return value_t(double(r.between(-20, 21)) / 4.0);
    return value_t(DVALS[r.below(sizeof DVALS / sizeof *DVALS)]);
  case 'i':
    if (r.chance(0.3)) return value_t(int(r.between(-40, 41)));
    return value_t(IVALS[r.below(sizeof IVALS / sizeof *IVALS)]);
  default:
    return value_t(std::string(SVALS[r.below(sizeof SVALS / sizeof *SVALS)]));
  }
}

std::string tokens(const std::vector<value_t> &ex)
{
  std::string s;
  for (const auto &v : ex) s += (s.empty() ? "" : " ") + wire::enc(v);
  return s;
}

template<class F> std::string guarded(F f)
{
  try { return wire::enc(f()); }
  catch (const std::bad_variant_access &) { return "T"; }
}

struct example_t
{
  std::vector<value_t> v;
  std::string tok;
};

void exercise(const symset &ss, const i_mep &ind, const std::vector<example_t> &exs, std::string &out)
{
  out += (out.empty() ? "" : " ;; ") + program(ss, ind);
  // fresh interpreter per example
  for (const auto &ex : exs)
    out += " ;; RF " + ex.tok + " = " + guarded([&] { return vita::run(ind, ex.v); }) + " " +
           oracle(ss.var_index, ind, &ex.v);
  // one src_interpreter object over all the examples
  {
    src_interpreter<i_mep> it(&ind);
    for (const auto &ex : exs)
      out += " ;; RS " + ex.tok + " = " + guarded([&] { return it.run(ex.v); }) + " " +
             oracle(ss.var_index, ind, &ex.v);
    // penalty() on the same object between the runs (sets ip_, must not disturb anything)
    out += " ;; NS = " + pen_enc(it.penalty()) + " " + penalty_oracle(ss.desc, ind);
    // … and once more in reverse order on the same object
    for (auto e = exs.rbegin(); e != exs.rend(); ++e)
      out += " ;; RS " + e->tok + " = " + guarded([&] { return it.run(e->v); }) + " " +
             oracle(ss.var_index, ind, &e->v);
  }
  // no example at all
  out += " ;; R0 = " + guarded([&] { return vita::run(ind); }) + " " + oracle(ss.var_index, ind, nullptr);
  out += " ;; NF = " + pen_enc(interpreter<i_mep>(&ind).penalty()) + " " + penalty_oracle(ss.desc, ind);
  // the regression lambda keeps one interpreter as well
  {
    const reg_lambda_f<i_mep> lam(ind);
    for (const auto &ex : exs)
    {
      dataframe::example de;
      de.input = ex.v;
      out += " ;; RL " + ex.tok + " = " + guarded([&] { return lam(de); }) + " " +
             oracle(ss.var_index, ind, &ex.v);
    }
  }
}

std::vector<example_t> draw_examples(const symset &ss, verif::splitmix &r, unsigned nex);

void exercise(const symset &ss, const i_mep &ind, verif::splitmix &r, unsigned nex, std::string &out)
{
  exercise(ss, ind, draw_examples(ss, r, nex), out);
}

std::vector<example_t> draw_examples(const symset &ss, verif::splitmix &r, unsigned nex)
{
  std::vector<example_t> exs;
  for (unsigned e = 0; e < nex; ++e)
  {
    example_t ex;
    for (char d : ss.var_dom) ex.v.push_back(draw(r, d));
    ex.tok = tokens(ex.v);
    exs.push_back(ex);
  }
  return exs;
}

// ---- engineered layouts -----------------------------------------------------------------------
std::set<locus> active_loci(const i_mep &ind)
{
  std::set<locus> seen;
  std::vector<locus> todo{ind.best()};
  while (!todo.empty())
  {
    const locus l = todo.back();
    todo.pop_back();
    if (!seen.insert(l).second) continue;
    const gene &g = ind[l];
    for (unsigned k = 0; k < g.sym->arity(); ++k) todo.push_back(g.locus_of_argument(k));
  }
  return seen;
}

// are the expression trees rooted at la / lb the same (symbol, parameter, sub-trees)?  Own recursion, budgeted.
bool same_tree(const i_mep &a, locus la, const i_mep &b, locus lb, unsigned long &steps)
{
  if (++steps > 400000) throw budget_exceeded();
  const gene &ga = a[la], &gb = b[lb];
  if (ga.sym != gb.sym) return false;
  if (ga.sym->terminal() && terminal::cast(ga.sym)->parametric() && verif::bits(ga.par) != verif::bits(gb.par))
    return false;
  for (unsigned k = 0; k < ga.sym->arity(); ++k)
    if (!same_tree(a, ga.locus_of_argument(k), b, gb.locus_of_argument(k), steps)) return false;
  return true;
}

// first function of the individual as the start locus (vita's constructor starts at [0,0] whatever is there)
i_mep start_at_function(const i_mep &a)
{
  if (!a[a.best()].sym->terminal()) return a;
  for (index_t i = 0; i < a.size(); ++i)
    for (category_t c = 0; c < a.categories(); ++c)
      if (a[locus{i, c}].sym->arity()) return a.get_block(locus{i, c});
  return a;
}

void equal_items(const char *what, const i_mep &a, const i_mep &b, const std::vector<example_t> &exs, std::string &out)
{
  for (const auto &ex : exs)
    out += std::string(" ;; E ") + what + " " + ex.tok + " = " + guarded([&] { return vita::run(a, ex.v); }) + " " +
           guarded([&] { return vita::run(b, ex.v); });
}

// ---- teams --------------------------------------------------------------------------------------
struct team_peek : reg_lambda_f<team<i_mep>>
{
  using reg_lambda_f<team<i_mep>>::reg_lambda_f;
  std::size_t members() const { return this->team_.size(); }
  // the very interpreter object the team lambda uses for member k
  value_t member(std::size_t k, const std::vector<value_t> &ex) const { return this->team_[k].run(ex); }
};

// basic_reg_lambda_f<team>::eval as documented: running mean of the members' defined outputs
value_t own_team_value(const std::vector<value_t> &vals)
{
  double avg = 0.0, count = 0.0;
  for (const auto &v : vals)
  {
    double x;
    if (std::holds_alternative<D_DOUBLE>(v)) x = std::get<D_DOUBLE>(v);
    else if (std::holds_alternative<D_INT>(v)) x = static_cast<double>(std::get<D_INT>(v));
    else continue;
    count += 1.0;
    avg += (x - avg) / count;
  }
  if (count > 0.0 && std::isfinite(avg)) return value_t(avg);
  return {};
}

// ---- wide examples --------------------------------------------------------------------------
const unsigned long WIDE_N = 70000;
const unsigned long WIDE_VARS[] = {0, 3, 4, 254, 255, 256, 257, 259, 4463, 65534, 65535, 65536, 65537, 65539,
                                   65791, 65792, 69999};

// every feature is `def` except the features a (possibly truncated) variable index could hit: those
// get pairwise different values, so reading the wrong feature is visible
example_t wide_example(verif::splitmix &r)
{
  example_t ex;
  const double def = double(r.between(-8, 9)) + 0.125;
  ex.v.assign(WIDE_N, value_t(def));
  std::map<unsigned long, double> special;
  for (unsigned long k : WIDE_VARS)
    for (unsigned long m : {k, k % 65536ul, k % 256ul, (k + 1) % WIDE_N, k ? k - 1 : 0ul})
      special[m] = 0.0;
  double x = double(r.between(-50, 51));
  for (auto &kv : special)
  {
    x += 1.0 + double(r.below(7)) * 0.25;
    kv.second = x;
  }
  ex.tok = "@" + std::to_string(WIDE_N) + " " + wire::enc(value_t(def));
  for (auto &kv : special)
  {
    ex.v[kv.first] = value_t(kv.second);
    ex.tok += " " + std::to_string(kv.first) + ":" + wire::enc(value_t(kv.second));
  }
  return ex;
}

// ---- long reuse of one interpreter object -----------------------------------------------------
struct cond_info { const char *name; int tests; };
const cond_info CONDS[] = {{"FIFL", 2}, {"FIFE", 2}, {"FIFZ", 1}, {"IFL", 2}, {"IFE", 2}, {"IFZ", 1}, {"SIFE", 2}};

const cond_info *cond_of(const symbol *s)
{
  for (const auto &c : CONDS) if (s->name() == c.name) return &c;
  return nullptr;
}

value_t fresh_value(char dom, unsigned long j)
{
  switch (dom)
  {
  case 'd': return value_t(double(j) * 1.25 + 0.5);
  case 'i': return value_t(int(j % 100000) * 3 + 1);
  default:  return value_t("s" + std::to_string(j));
  }
}

// the values of the (one or two) tested variables that make the condition of `name` true / false;
// `j` makes them different from run to run where the condition leaves room for that
void set_tests(const std::string &name, bool truth, unsigned long j, value_t &t0, value_t &t1)
{
  const double d = double(j % 1000) * 2.0;
  const int n = int(j % 100000);
  if (name == "FIFL")      { t0 = truth ? d : d + 3.0;  t1 = truth ? d + 1.0 : d; }
  else if (name == "FIFE") { t0 = d + 0.5;              t1 = truth ? d + 0.5 : d + 1.5; }
  else if (name == "FIFZ") { t0 = truth ? 0.0 : d + 1.0; }
  else if (name == "IFL")  { t0 = truth ? n : n + 3;    t1 = truth ? n + 1 : n; }
  else if (name == "IFE")  { t0 = n;                    t1 = truth ? n : n + 1; }
  else if (name == "IFZ")  { t0 = truth ? 0 : n + 1; }
  else /* SIFE */          { t0 = "k" + std::to_string(j); t1 = truth ? "k" + std::to_string(j) : std::string("other"); }
}
}  // namespace

int main()
{
  log::reporting_level = log::lOFF;

  std::map<std::string, std::unique_ptr<symset>> sets;
  for (const char *n : {"real", "int", "str2", "typed3", "illtyped", "wide"}) sets[n] = make_set(n);

  std::string line;
  while (std::getline(std::cin, line))
  {
    const auto t = verif::split(line);
    std::string out;
    try
    {
      if (t.size() == 7 && t[0] == "scn" && sets.count(t[1]))
      {
        symset &ss = *sets[t[1]];
        const unsigned long seed = std::stoul(t[2]);
        ss.prob.env.mep.code_length = std::stoul(t[3]);
        ss.prob.env.mep.patch_length = std::stoul(t[4]);
        const unsigned steps = std::stoul(t[5]), nex = std::stoul(t[6]);
        random::seed(seed);
        verif::splitmix r(seed);
        i_mep a(ss.prob), b(ss.prob);
        if (a[a.best()].sym->terminal() && r.chance(0.8))
        {
          // vita's constructor starts at [0,0] whatever is there; move the start to the first function
          bool done = false;
          for (index_t i = 0; i < a.size() && !done; ++i)
            for (category_t c = 0; c < a.categories() && !done; ++c)
              if (a[locus{i, c}].sym->arity()) { a = a.get_block(locus{i, c}); done = true; }
        }
        exercise(ss, a, r, nex, out);
        for (unsigned s = 0; s < steps; ++s)
        {
          switch (r.below(5))
          {
          case 0: a.mutation(0.3, ss.prob); break;
          case 1: a = crossover(a, b); break;
          case 2: b = crossover(b, a); a.mutation(0.1, ss.prob); break;
          case 3:
          {
            const auto bl = a.blocks();
            if (!bl.empty())
            {
              auto it = bl.begin();
              std::advance(it, r.below(bl.size()));
              exercise(ss, a.get_block(*it), r, nex, out);
            }
            break;
          }
          default:   // (i_mep::cse() is deliberately not used: it has undefined behaviour of its own – its
            {        // std::map comparator is not a strict weak order – which is not an interpreter matter)
              i_mep c(ss.prob);
              a = crossover(c, a);
            }
          }
          exercise(ss, a, r, nex, out);
        }
      }
      else if (t.size() == 4 && t[0] == "chain")
      {
        // X0 at the bottom, every other gene adds / multiplies the next gene with itself:
        // 2^(rows-1) leaves in the tree, rows genes in the genome
        symset &ss = *sets["real"];
        const unsigned long seed = std::stoul(t[1]);
        const unsigned rows = std::stoul(t[2]), nex = std::stoul(t[3]);
        verif::splitmix r(seed);
        std::vector<symbol *> f2, term;
        for (auto &kv : ss.desc)
        {
          if (kv.second == "F:FADD" || kv.second == "F:FSUB" || kv.second == "F:FMAX" || kv.second == "F:AQ")
            f2.push_back(const_cast<symbol *>(kv.first));
          if (kv.second[0] == 'X') term.push_back(const_cast<symbol *>(kv.first));
        }
        std::vector<gene> gv;
        for (unsigned i = 0; i + 1 < rows; ++i)
          gv.emplace_back(std::make_pair(f2[r.below(f2.size())], std::vector<index_t>{i + 1, i + 1}));
        gv.emplace_back(std::make_pair(term[r.below(term.size())], std::vector<index_t>{}));
        const i_mep ind(gv);
        exercise(ss, ind, r, nex, out);
      }
      else if (t.size() == 4 && t[0] == "wide")
      {
        symset &ss = *sets["wide"];
        const unsigned long seed = std::stoul(t[1]);
        ss.prob.env.mep.code_length = std::stoul(t[2]);
        ss.prob.env.mep.patch_length = 1 + seed % 3;
        const unsigned nex = std::stoul(t[3]);
        random::seed(seed);
        verif::splitmix r(seed);
        std::vector<example_t> exs;
        for (unsigned e = 0; e < nex; ++e) exs.push_back(wide_example(r));
        i_mep a(ss.prob);
        for (unsigned round = 0; round < 3; ++round)
        {
          // start at a function whenever there is one, so that several variables are read
          bool done = false;
          for (index_t i = 0; i < a.size() && !done; ++i)
            if (a[locus{i, 0}].sym->arity()) { exercise(ss, a.get_block(locus{i, 0}), exs, out); done = true; }
          if (!done) exercise(ss, a, exs, out);
          a.mutation(0.5, ss.prob);
        }
      }
      else if (t.size() == 4 && t[0] == "long" && sets.count(t[1]) && t[1] != "wide")
      {
        symset &ss = *sets[t[1]];
        const unsigned long seed = std::stoul(t[2]);
        const unsigned kmax = std::stoul(t[3]);
        random::seed(seed);
        verif::splitmix r(seed);
        ss.prob.env.mep.code_length = 17;
        ss.prob.env.mep.patch_length = 2;

        auto vars_of = [&](category_t c)
        {
          std::vector<unsigned> v;
          for (unsigned k = 0; k < ss.var_sym.size(); ++k) if (ss.var_sym[k]->category() == c) v.push_back(k);
          return v;
        };
        // conditionals of this set whose tested category offers enough different variables
        std::vector<const function *> conds;
        for (auto &kv : ss.desc)
          if (kv.second.rfind("F:", 0) == 0 && kv.first->arity())
            if (const cond_info *ci = cond_of(kv.first))
            {
              const function *f = function::cast(kv.first);
              if (vars_of(f->arg_category(0)).size() >= unsigned(ci->tests)) conds.push_back(f);
            }
        if (conds.empty()) { std::cout << "bad-op no conditional\n"; continue; }
        const function *f = conds[r.below(conds.size())];
        const cond_info *ci = cond_of(f);

        i_mep ind(ss.prob);
        auto put_var = [&](index_t row, unsigned k)
        {
          ind = ind.replace(locus{row, ss.var_sym[k]->category()}, gene(*terminal::cast(ss.var_sym[k])));
        };
        // rows 1, 2: the tested variables
        auto tv = vars_of(f->arg_category(0));
        const unsigned i0 = r.below(tv.size());
        const unsigned test0 = tv[i0];
        const unsigned test1 = ci->tests == 2 ? tv[(i0 + 1 + r.below(tv.size() - 1)) % tv.size()] : test0;
        put_var(1, test0);
        if (ci->tests == 2) put_var(2, test1);
        // rows 3, 4: the two branches; their arguments on rows 5.. and 10..
        auto branch = [&](index_t row, index_t arg_row, category_t c)
        {
          std::vector<const symbol *> fs;
          for (auto &kv : ss.desc)
            if (kv.first->category() == c && kv.first->arity() && kv.second.rfind("F:", 0) == 0)
            {
              const function *g = function::cast(kv.first);
              bool ok = true;
              for (unsigned a = 0; a < g->arity(); ++a) ok = ok && !vars_of(g->arg_category(a)).empty();
              if (ok) fs.push_back(kv.first);
            }
          if (fs.empty() || r.chance(0.1))
          {
            const auto v = vars_of(c);
            if (v.empty()) return false;
            put_var(row, v[r.below(v.size())]);
            return true;
          }
          const function *g = function::cast(fs[r.below(fs.size())]);
          std::vector<index_t> args;
          for (unsigned a = 0; a < g->arity(); ++a)
          {
            const auto v = vars_of(g->arg_category(a));
            put_var(arg_row + a, v[r.below(v.size())]);
            args.push_back(arg_row + a);
          }
          ind = ind.replace(locus{row, c}, gene(std::make_pair(const_cast<symbol *>(static_cast<const symbol *>(g)), args)));
          return true;
        };
        const category_t cb = f->arg_category(ci->tests);
        if (!branch(3, 5, cb) || !branch(4, 10, cb)) { std::cout << "bad-op no branch\n"; continue; }
        {
          std::vector<index_t> args{1};
          if (ci->tests == 2) args.push_back(2);
          args.push_back(3);
          args.push_back(4);
          ind = ind.replace(locus{0, f->category()},
                            gene(std::make_pair(const_cast<symbol *>(static_cast<const symbol *>(f)), args)));
        }
        ind = ind.get_block(locus{0, f->category()});
        out = program(ss, ind);

        const bool lazy_then = r.chance(0.5);
        auto make = [&](bool truth, unsigned long j)
        {
          example_t ex;
          for (unsigned k = 0; k < ss.var_dom.size(); ++k) ex.v.push_back(fresh_value(ss.var_dom[k], j));
          value_t t0, t1;
          set_tests(f->name(), truth, j, t0, t1);
          ex.v[test0] = t0;
          if (ci->tests == 2) ex.v[test1] = t1;
          ex.tok = tokens(ex.v);
          return ex;
        };
        std::vector<unsigned long> gaps;
        for (unsigned k = 1; k <= kmax; ++k)
          for (long d : {-1l, 0l, 1l}) gaps.push_back((1ul << k) + d);
        for (std::size_t i = gaps.size(); i > 1; --i) std::swap(gaps[i - 1], gaps[r.below(i)]);

        const example_t fill = make(!lazy_then, 7);
        const std::string fill_orc = oracle(ss.var_index, ind, &fill.v);
        const bool use_lambda = r.chance(0.3);
        src_interpreter<i_mep> it(&ind);
        const reg_lambda_f<i_mep> lam(ind);
        const std::string k = use_lambda ? "L" : "S";
        auto run1 = [&](const example_t &ex)
        {
          if (!use_lambda) return guarded([&] { return it.run(ex.v); });
          dataframe::example de;
          de.input = ex.v;
          return guarded([&] { return lam(de); });
        };
        unsigned long j = 100;
        for (unsigned long g : gaps)
        {
          if (g > 1)
          {
            unsigned long bad = 0;
            std::string last;
            for (unsigned long q = 0; q + 1 < g; ++q)
            {
              last = run1(fill);
              if (last != fill_orc) ++bad;
            }
            out += " ;; RR" + k + " " + std::to_string(g - 1) + " " + fill.tok + " = " + last + " " + fill_orc +
                   " bad=" + std::to_string(bad);
          }
          const example_t ex = make(lazy_then, ++j);
          out += " ;; R" + k + " " + ex.tok + " = " + run1(ex) + " " + oracle(ss.var_index, ind, &ex.v);
        }
      }
      else if (t.size() == 3 && t[0] == "pen" && sets.count(t[1]) && t[1] != "wide")
      {
        symset &ss = *sets[t[1]];
        const unsigned long seed = std::stoul(t[2]);
        random::seed(seed);
        verif::splitmix r(seed);
        ss.prob.env.mep.code_length = 12;
        ss.prob.env.mep.patch_length = 3;
        const i_mep base(ss.prob);
        std::vector<const function *> fs;      // functions with >= 3 arguments: conditionals / comparisons
        for (auto &kv : ss.desc)
          if (kv.second.rfind("F:", 0) == 0 && kv.first->arity() >= 3) fs.push_back(function::cast(kv.first));
        if (fs.empty()) { std::cout << "bad-op no conditional\n"; continue; }
        const function *f = fs[r.below(fs.size())];
        const category_t c = f->category();
        // argument rows 1..8 (functions or terminals, whatever the random individual has there)
        const index_t x = 1 + r.below(8), y = 1 + r.below(8), z = 1 + r.below(8), w = 1 + r.below(8);
        std::vector<index_t> args;
        if (f->arity() >= 4) args = {x, r.chance(0.5) ? x : y, z, r.chance(0.5) ? z : w};
        else                 args = {x, r.chance(0.5) ? x : y, r.chance(0.5) ? x : z};
        while (args.size() < f->arity()) args.push_back(1 + r.below(8));
        const gene target(std::make_pair(const_cast<symbol *>(static_cast<const symbol *>(f)), args));
        const i_mep direct = base.replace(locus{0, c}, target).get_block(locus{0, c});
        // the same individual, but the storage of the start gene held a gene of another function before
        // (its trailing argument indices chosen to collide with the target's)
        std::vector<const function *> others;
        for (auto &kv : ss.desc)
          if (kv.second.rfind("F:", 0) == 0 && kv.first->arity() && kv.first->category() == c && kv.first != f)
            others.push_back(function::cast(kv.first));
        i_mep via = direct;
        if (!others.empty())
        {
          const function *f2 = others[r.below(others.size())];
          std::vector<index_t> a2;
          for (unsigned k = 0; k < f2->arity(); ++k)
            a2.push_back(k < args.size() ? args[k] : (r.chance(0.7) ? args.back() : index_t(1 + r.below(8))));
          via = base.replace(locus{0, c}, gene(std::make_pair(const_cast<symbol *>(static_cast<const symbol *>(f2)), a2)))
                    .replace(locus{0, c}, target).get_block(locus{0, c});
        }
        if (!(direct == via)) { std::cout << "bad-op pen construction\n"; continue; }
        const auto exs = draw_examples(ss, r, 2);
        exercise(ss, direct, exs, out);
        exercise(ss, via, exs, out);
        out += " ;; E penalty = N" + pen_enc(interpreter<i_mep>(&direct).penalty()) + " N" +
               pen_enc(interpreter<i_mep>(&via).penalty());
      }
      else if (t.size() == 6 && t[0] == "team" && (t[1] == "real" || t[1] == "int"))
      {
        symset &ss = *sets[t[1]];
        const unsigned long seed = std::stoul(t[2]);
        const unsigned rows = std::stoul(t[3]), members = std::stoul(t[4]), nex = std::stoul(t[5]);
        ss.prob.env.mep.code_length = rows;
        ss.prob.env.mep.patch_length = 1 + seed % std::min<unsigned long>(rows - 1, 4);
        ss.prob.env.team.individuals = members;
        random::seed(seed);
        verif::splitmix r(seed);
        team<i_mep> ta(ss.prob), tb(ss.prob);
        for (unsigned s = r.below(3); s > 0; --s)
        {
          if (r.chance(0.5)) ta.mutation(0.3, ss.prob);
          else               ta = crossover(ta, tb);
        }
        const auto exs = draw_examples(ss, r, nex);
        const team_peek lam(ta);
        if (lam.members() != members) { std::cout << "bad-op team size\n"; continue; }
        std::vector<std::string> per(members);
        std::string tl;
        for (unsigned pass = 0; pass < 2; ++pass)      // the examples forwards, then backwards
          for (unsigned q = 0; q < exs.size(); ++q)
          {
            const example_t &ex = exs[pass ? exs.size() - 1 - q : q];
            dataframe::example de;
            de.input = ex.v;
            const std::string tv = guarded([&] { return lam(de); });     // runs every member once
            std::vector<value_t> ov;
            bool thrown = false;
            for (unsigned k = 0; k < members; ++k)
            {
              std::string os;
              try { ov.push_back(oracle_value(ss.var_index, ta[k], &ex.v)); os = wire::enc(ov.back()); }
              catch (const std::bad_variant_access &) { thrown = true; os = "T"; }
              catch (const budget_exceeded &) { thrown = true; os = "skip"; }
              // … and once more, observed, on the member's own interpreter object
              per[k] += " ;; RRL 2 " + ex.tok + " = " + guarded([&] { return lam.member(k, ex.v); }) + " " + os + " bad=0";
            }
            if (!thrown) tl += " ;; T " + ex.tok + " = " + tv + " " + wire::enc(own_team_value(ov));
          }
        for (unsigned k = 0; k < members; ++k)
          out += (out.empty() ? "" : " ;; ") + program(ss, ta[k]) + per[k];
        out += tl;
      }
      else if (t.size() == 6 && t[0] == "numload" && (t[1] == "int" || t[1] == "typed3") &&
               (t[5] == "load" || t[5] == "par"))
      {
        symset &ss = *sets[t[1]];
        const unsigned long seed = std::stoul(t[2]);
        const unsigned rows = std::stoul(t[3]), nex = std::stoul(t[4]);
        const bool by_load = t[5] == "load";
        ss.prob.env.mep.code_length = rows;
        ss.prob.env.mep.patch_length = 1 + seed % std::min<unsigned long>(rows - 1, 4);
        random::seed(seed);
        verif::splitmix r(seed);
        i_mep a(ss.prob);
        if (r.chance(0.5)) a.mutation(0.3, ss.prob);
        a = start_at_function(a);
        // more ephemeral constants among the active terminals
        std::vector<const symbol *> nums;
        for (const symbol *n : number_symbols())
          if (ss.desc.count(n)) nums.push_back(n);
        if (nums.empty()) { std::cout << "bad-op no number\n"; continue; }
        for (const locus &l : active_loci(a))
          if (a[l].sym->terminal() && a[l].sym->category() == nums[0]->category() && r.chance(0.6))
            a = a.replace(l, gene(*terminal::cast(nums[r.below(nums.size())])));
        static const char *TXT[] = {"2147483647", "2147483648", "-2147483648", "-2147483649", "1e10", "-3e9", "1e300",
                                    "-1e300", "0.5", "-0.99", "2147483647.5", "-2147483648.5", "4294967296", "1e19",
                                    "2.5e9", "2147483646.999", "-2147483647.999", "1e-320", "-0.0", "9007199254740993",
                                    "2147483646", "-2147483647", "1.7976931348623157e308", "-1.7976931348623157e308"};
        static const double SPC[] = {std::numeric_limits<double>::quiet_NaN(), -std::numeric_limits<double>::quiet_NaN(),
                                     std::numeric_limits<double>::infinity(), -std::numeric_limits<double>::infinity(),
                                     2147483648.0, -2147483649.0, 1e300, -1e300, 5e-324, -0.0, 2147483647.5,
                                     -2147483648.5, 4294967296.0, 2147483646.5, -2147483647.5};
        i_mep b;
        if (by_load)
        {
          // the text form of individual::save, the parameters of (most) ephemeral constants replaced
          std::ostringstream txt;
          txt << "0\n" << a.size() << ' ' << a.categories() << '\n';
          for (index_t i = 0; i < a.size(); ++i)
            for (category_t c = 0; c < a.categories(); ++c)
            {
              const gene &g = a[locus{i, c}];
              txt << g.sym->opcode();
              if (g.sym->terminal() && terminal::cast(g.sym)->parametric())
              {
                txt << ' ';
                if (number_symbols().count(g.sym) && r.chance(0.8)) txt << TXT[r.below(sizeof TXT / sizeof *TXT)];
                else save_float_to_stream(txt, g.par);
              }
              for (unsigned k = 0; k < g.sym->arity(); ++k) txt << ' ' << g.args[k];
              txt << '\n';
            }
          txt << a.best().index << ' ' << a.best().category << '\n';
          std::istringstream in(txt.str());
          if (!b.load(in, ss.prob.sset) || !b.is_valid()) { std::cout << "bad-op numload: load failed\n"; continue; }
          // what libstdc++ does with "nan" / "inf": the individual is not loaded (recorded, not an error)
          out = "L nan-text-loads=";
          {
            std::ostringstream o2;
            o2 << "0\n1 1\n" << nums[0]->opcode() << " nan\n0 0\n";
            std::istringstream i2(o2.str());
            i_mep c2;
            out += c2.load(i2, ss.prob.sset) ? "1" : "0";
          }
          out += " ;; ";
          std::string tr;
          exercise(ss, b, draw_examples(ss, r, nex), tr);
          out += tr;
        }
        else
        {
          b = a;
          for (const locus &l : active_loci(a))
            if (number_symbols().count(a[l].sym) && r.chance(0.8))
            {
              gene g(a[l]);
              g.par = SPC[r.below(sizeof SPC / sizeof *SPC)];
              b = b.replace(l, g);
            }
          if (!b.is_valid()) { std::cout << "bad-op numload: invalid\n"; continue; }
          exercise(ss, b, draw_examples(ss, r, nex), out);
        }
      }
      else if (t.size() == 5 && (t[0] == "layout" || t[0] == "intron" || t[0] == "swap") && sets.count(t[1]) &&
               t[1] != "wide")
      {
        symset &ss = *sets[t[1]];
        const unsigned long seed = std::stoul(t[2]);
        const unsigned rows = std::stoul(t[3]), nex = std::stoul(t[4]);
        const unsigned patch = 1 + seed % std::min<unsigned long>(rows - 1, 4);
        ss.prob.env.mep.code_length = rows;
        ss.prob.env.mep.patch_length = patch;
        random::seed(seed);
        verif::splitmix r(seed);
        i_mep a(ss.prob), a2(ss.prob);
        for (unsigned s = r.below(3); s > 0; --s)
        {
          if (r.chance(0.5)) a.mutation(0.3, ss.prob);
          else               a = crossover(a, a2);
        }
        a = start_at_function(a);
        const auto exs = draw_examples(ss, r, nex);
        if (t[0] == "layout")
        {
          ss.prob.env.mep.code_length = 2 * rows;
          ss.prob.env.mep.patch_length = 2 * patch;
          i_mep b(ss.prob);
          for (const locus &l : active_loci(a))
            for (index_t d = 0; d < 2; ++d)
            {
              const gene &g = a[l];
              if (g.sym->arity())
              {
                std::vector<index_t> args;
                for (unsigned k = 0; k < g.sym->arity(); ++k) args.push_back(2 * g.args[k] + r.below(2));
                b = b.replace(locus{2 * l.index + d, l.category},
                              gene(std::make_pair(const_cast<symbol *>(g.sym), args)));
              }
              else
                b = b.replace(locus{2 * l.index + d, l.category}, g);
            }
          b = b.get_block(locus{2 * a.best().index + r.below(2), a.best().category});
          unsigned long steps = 0;
          bool same = false, big = false;
          try { same = same_tree(a, a.best(), b, b.best(), steps); } catch (const budget_exceeded &) { big = true; }
          if (!b.is_valid() || (!same && !big)) { std::cout << "bad-op layout construction\n"; continue; }
          exercise(ss, a, exs, out);
          exercise(ss, b, exs, out);
          equal_items("layout", a, b, exs, out);
        }
        else if (t[0] == "intron")
        {
          const i_mep rnd(ss.prob);
          const auto act = active_loci(a);
          i_mep b(a);
          for (index_t i = 0; i < a.size(); ++i)
            for (category_t c = 0; c < a.categories(); ++c)
              if (!act.count(locus{i, c}) && r.chance(0.9)) b = b.replace(locus{i, c}, rnd[locus{i, c}]);
          if (!b.is_valid() || active_loci(b) != act) { std::cout << "bad-op intron construction\n"; continue; }
          exercise(ss, a, exs, out);
          exercise(ss, b, exs, out);
          equal_items("intron", a, b, exs, out);
        }
        else
        {
          i_mep b(ss.prob);
          b = start_at_function(b);
          i_mep cur(a);
          src_interpreter<i_mep> it(&cur);
          bool on_a = true;
          out = program(ss, a);
          for (unsigned q = 0; q < 3 * nex + 3; ++q)
          {
            if (q && r.chance(0.6))
            {
              on_a = !on_a;
              cur = on_a ? a : b;                                   // the object keeps pointing to `cur`
              out += " ;; Q" + program(ss, cur).substr(1);
            }
            const example_t &ex = exs[r.below(exs.size())];
            if (r.chance(0.25))
              out += " ;; NS = " + pen_enc(it.penalty()) + " " + penalty_oracle(ss.desc, cur);
            out += " ;; RS " + ex.tok + " = " + guarded([&] { return it.run(ex.v); }) + " " +
                   oracle(ss.var_index, cur, &ex.v);
          }
        }
      }
      else
        out = "bad-op";
    }
    catch (const std::exception &e)
    {
      out = std::string("bad-op ") + e.what();
    }
    std::cout << out << "\n";
  }
  return 0;
}
