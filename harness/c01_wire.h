// Line-protocol encoding of vita::value_t shared by the C13 and C01 harnesses
// (mirrors lean/Vita/C13/Wire.lean):
//   V  undefined | I<decimal> int | D<16 hex> double bits | S<hex> string bytes ("S-" empty) | T exception
#ifndef VERIF_C01_WIRE_H
#define VERIF_C01_WIRE_H

#include "common/verif.h"
#include "kernel/value.h"

#include <cstdio>
#include <stdexcept>

namespace wire
{
inline std::string hex16(std::uint64_t u)
{
  char b[17];
  std::snprintf(b, sizeof b, "%016llx", static_cast<unsigned long long>(u));
  return b;
}

inline std::string enc(const vita::value_t &v)
{
  switch (v.index())
  {
  case 0:  return "V";
  case 1:  return "I" + std::to_string(std::get<int>(v));
  case 2:  return "D" + hex16(verif::bits(std::get<double>(v)));
  default: return "S" + verif::hex(std::get<std::string>(v));
  }
}

inline vita::value_t dec(const std::string &t)
{
  if (t.empty()) throw std::runtime_error("empty token");
  switch (t[0])
  {
  case 'V': return {};
  case 'I': return vita::value_t(int(std::stoll(t.substr(1))));
  case 'D': return vita::value_t(verif::from_bits(std::stoull(t.substr(1), nullptr, 16)));
  case 'S': return vita::value_t(verif::unhex(t.substr(1)));
  default:  throw std::runtime_error("bad token " + t);
  }
}
}  // namespace wire

#endif
