// C02 relational-refinement harness.
//
//   c02_ops sets <seed>                   print the symbol sets (`ss …` lines for the Lean driver);
//                                         sets 0..8 are fixed, 9..14 are generated from <seed>
//   c02_ops run <seed> <first> <last>     run scenarios first..last-1 (deterministic in seed, index)
//   c02_ops replay <seed> [reps] < requests   `<op> <ss> <params> <pre individuals>`, e.g.
//                                         `mutation <ss> <env code_length> <env patch_length> <zero?> IND`
//   c02_ops big                           admissibility probe for very long genomes
//
// `run` executes REAL operator calls (i_mep(problem), mutation, crossover with every flavour
// forced through the VITA_VERIF hook, get_block, replace, destroy_block, cse, and the team
// counterparts) on real individuals and prints, for every call,
// (the ENVIRONMENT of the problem – code_length, patch_length, team size – is edited between the
// calls of a history: an operator receives individuals / teams that were built under an earlier
// environment, shorter or longer than the current code_length, possibly no longer than the current
// patch_length; the pool holds individuals of different sizes)
//
//   L <op> <ss> <params> <pre individuals> <post individuals>       (request for the Lean driver)
//   O <scenario> <op#> <op> wf=<0|1> step=<0|1> valid=<0|1> exec=<ok|exc> expect=<ok|bad> why=<text>
//
// The `L` line is written in two parts: everything known before the call is flushed first,
// so that a sanitizer abort inside the operator is attributable to that call.
// `wf` / `step` come from an independent C++ oracle written here from the property text
// (NOT i_mep::is_valid): well-formedness of the result and provenance of every gene.
// Every result is executed with vita::run under ASan/UBSan.
#include "common/verif.h"

#include "kernel/vita.h"
#include "kernel/gp/src/primitive/int.h"
#include "kernel/gp/src/primitive/real.h"
#include "kernel/gp/src/primitive/string.h"

#include <algorithm>
#include <functional>
#include <memory>
#include <set>
#include <sstream>

#include <sys/time.h>
#include <unistd.h>

using namespace vita;

namespace
{

// watchdog in CPU time (robust on a loaded machine): an operator that never returns kills the
// process with SIGPROF and is attributed to the request that was being executed
void watchdog(unsigned seconds)
{
  itimerval t{};
  t.it_value.tv_sec = seconds;
  setitimer(ITIMER_PROF, &t, nullptr);
}

// ---------------------------------------------------------------- user-defined symbols
// "A gene supports functions with more than 4 arguments" (gene.h): the argument pack of such a
// gene lives on the heap (small_vector<packed_index_t, gene::k_args>), that of the shipped
// primitives (arity <= 4) in the gene itself.  The sets below mix both kinds.  Every
// user-defined symbol works on doubles; a function fetches EVERY argument (so that executing a
// result walks each argument it carries) and adds up the available values.
class uconst final : public terminal
{
public:
  uconst(const std::string &n, category_t c, double v) : terminal(n, c), v_(v) {}
  value_t eval(symbol_params &) const override { return v_; }
private:
  double v_;
};

class uparam final : public terminal
{
public:
  uparam(const std::string &n, category_t c) : terminal(n, c) {}
  bool parametric() const override { return true; }
  terminal_param_t init() const override { return double(vita::random::between(-8, 9)) / 4.0; }
  value_t eval(symbol_params &p) const override { return double(p.fetch_param()); }
};

class nary final : public function
{
public:
  nary(const std::string &n, category_t c, cvect a) : function(n, c, std::move(a)) {}
  value_t eval(symbol_params &p) const override
  {
    double acc = 0.0;
    for (unsigned k = 0; k < arity(); ++k)
    {
      const value_t v(p[k]);
      if (has_value(v) && std::holds_alternative<D_DOUBLE>(v))
      {
        const double d = std::get<D_DOUBLE>(v);
        if (std::isfinite(d)) acc = acc / 2.0 + d;
      }
    }
    return acc;
  }
};

std::string uname(const char *p, unsigned a, unsigned b) { return std::string(p) + std::to_string(a) + "_" + std::to_string(b); }

// ---------------------------------------------------------------- symbol sets
constexpr unsigned NFIXED = 9;    // hand-written sets
constexpr unsigned NGEN = 6;      // sets generated from the seed
constexpr unsigned NSETS = NFIXED + NGEN;
constexpr unsigned MAXSYMS = 96;

// a symbol set drawn from the seed: 1..4 categories; in every category 1..3 terminals (some
// parametric, weights from 0.01 to 3 and possibly one of weight 0 beside a selectable one) and
// 0..5 functions of arity 1..8 (now and then up to 12) with arbitrary argument categories, so that
// one category mixes inline (<= gene::k_args) and heap argument packs
void build_generated_set(std::uint64_t seed, unsigned id, problem &p)
{
  verif::splitmix g(seed * 7777777ull + id * 1009ull + 5);
  static const double ws[] = {0.01, 0.02, 0.5, 1.0, 1.0, 2.0, 3.0};
  auto &s = p.sset;
  const unsigned cats = 1 + unsigned(g.below(4));
  bool heap = false;
  for (unsigned c = 0; c < cats; ++c)
  {
    const unsigned nt = 1 + unsigned(g.below(3));
    for (unsigned t = 0; t < nt; ++t)
    {
      double w = ws[g.below(7)];
      if (t > 0 && g.below(8) == 0) w = 0.0;       // never selectable (the first one always is)
      if (g.below(3) == 0) s.insert(std::make_unique<uparam>(uname("P", c, t), c), w);
      else                 s.insert(std::make_unique<uconst>(uname("K", c, t), c, double(c) + t / 4.0), w);
    }
    unsigned nf = unsigned(g.below(6));
    if (c + 1 == cats && !heap && nf == 0) nf = 1;
    for (unsigned f = 0; f < nf; ++f)
    {
      unsigned ar = 1 + unsigned(g.below(8));
      if (g.below(12) == 0) ar = 9 + unsigned(g.below(4));
      if (c + 1 == cats && !heap && f + 1 == nf) ar = 5 + unsigned(g.below(4));   // at least one heap pack per set
      heap = heap || ar > gene::k_args;
      cvect a(ar);
      for (auto &x : a) x = category_t(g.below(cats));
      s.insert(std::make_unique<nary>(uname("F", c, f) + "_" + std::to_string(ar), c, a), ws[g.below(7)]);
    }
  }
}

void build_set(unsigned id, problem &p)
{
  symbol_factory f;
  auto &s = p.sset;
  auto all = [](unsigned n, category_t c) { return cvect(n, c); };
  switch (id)
  {
  case 6:   // one category, arities 0..8 side by side (mixed with shipped primitives), a rare heap function
    s.insert(std::make_unique<uparam>("P", 0), 2.0);
    s.insert(std::make_unique<uconst>("K1", 0, 1.0));
    s.insert(std::make_unique<uconst>("K2", 0, 2.0), 0.01);       // rare terminal
    s.insert(std::make_unique<real::add>(cvect{0}));
    s.insert(std::make_unique<real::ifl>(cvect{0, 0}));
    for (unsigned ar = 1; ar <= 8; ++ar)
      s.insert(std::make_unique<nary>("N" + std::to_string(ar), 0, all(ar, 0)),
               ar == 8 ? 0.02 : ar == 5 ? 2.0 : ar == 3 ? 0.5 : 1.0);
    break;
  case 7:   // three categories, strongly typed, every category mixes inline and heap packs
    s.insert(std::make_unique<uconst>("A", 0, 0.5));
    s.insert(std::make_unique<uparam>("PA", 0), 0.5);
    s.insert(std::make_unique<nary>("G2", 0, cvect{0, 1}));
    s.insert(std::make_unique<nary>("G5", 0, cvect{0, 1, 2, 0, 1}), 2.0);
    s.insert(std::make_unique<nary>("G6", 0, all(6, 0)));
    s.insert(std::make_unique<nary>("G3", 0, cvect{2, 2, 0}), 0.5);
    s.insert(std::make_unique<uconst>("B", 1, 1.5), 3.0);
    s.insert(std::make_unique<uconst>("B2", 1, 2.5), 0.02);       // rare
    s.insert(std::make_unique<nary>("H7", 1, cvect{1, 0, 2, 1, 0, 2, 1}));
    s.insert(std::make_unique<nary>("H1", 1, cvect{0}));
    s.insert(std::make_unique<nary>("H4", 1, cvect{1, 1, 2, 2}), 0.5);
    s.insert(std::make_unique<uparam>("PC", 2));
    s.insert(std::make_unique<uconst>("C", 2, 3.0), 0.0);         // never selectable
    s.insert(std::make_unique<nary>("J8", 2, all(8, 2)), 0.5);
    s.insert(std::make_unique<nary>("J5", 2, cvect{0, 1, 2, 1, 0}));
    break;
  case 8:   // the boundary gene::k_args / k_args + 1; a category whose functions are all on the heap
    s.insert(std::make_unique<real::real>(cvect{0}));
    s.insert(std::make_unique<uconst>("Z", 0, 0.0), 0.5);
    s.insert(std::make_unique<nary>("Q4", 0, all(gene::k_args, 0)));
    s.insert(std::make_unique<nary>("Q5", 0, all(gene::k_args + 1, 0)));
    s.insert(std::make_unique<nary>("Q5m", 0, cvect{1, 0, 1, 0, 1}));
    s.insert(std::make_unique<uconst>("Y", 1, 1.0));
    s.insert(std::make_unique<uparam>("PY", 1), 0.5);
    s.insert(std::make_unique<nary>("R5", 1, cvect{0, 0, 1, 1, 0}));
    s.insert(std::make_unique<nary>("R6", 1, all(6, 1)), 0.5);
    break;
  case 0:   // one category, reals, parametric terminal
    s.insert(std::make_unique<real::real>(cvect{0}), 2.0);
    s.insert(f.make("1.0", {0}));
    s.insert(f.make("2.0", {0}), 0.5);
    s.insert(std::make_unique<real::add>(cvect{0}));
    s.insert(std::make_unique<real::sub>(cvect{0}));
    s.insert(std::make_unique<real::mul>(cvect{0}), 2.0);
    s.insert(std::make_unique<real::abs>(cvect{0}));
    s.insert(std::make_unique<real::ln>(cvect{0}));
    s.insert(std::make_unique<real::ifl>(cvect{0, 0}));
    s.insert(std::make_unique<real::ifz>(cvect{0}));
    break;
  case 1:   // two categories, strongly typed: 0 reals, 1 strings
    s.insert(std::make_unique<real::real>(cvect{0}));
    s.insert(f.make("1.0", {0}));
    s.insert(std::make_unique<real::add>(cvect{0}));
    s.insert(std::make_unique<real::mul>(cvect{0}));
    s.insert(std::make_unique<real::length>(cvect{1, 0}));   // string -> real
    s.insert(std::make_unique<str::ife>(cvect{1, 0}));       // (s, s, r, r) -> real
    s.insert(std::make_unique<real::ife>(cvect{0, 0}));
    s.insert(f.make("apple", {1}));
    s.insert(f.make("pear", {1}), 2.0);
    s.insert(f.make("plum", {1}));
    s.insert(std::make_unique<str::ife>(cvect{1, 1}));       // (s, s, s, s) -> string
    s.insert(std::make_unique<real::ife>(cvect{0, 1}));      // (r, r, s, s) -> string
    break;
  case 2:   // three categories: 0 reals, 1 strings, 2 integers (parametric INT)
    s.insert(std::make_unique<real::integer>(cvect{0}));
    s.insert(std::make_unique<real::add>(cvect{0}));
    s.insert(std::make_unique<real::length>(cvect{1, 0}));
    s.insert(std::make_unique<integer::ife>(cvect{2, 0}));   // (i, i, r, r) -> real
    s.insert(f.make("apple", {1}));
    s.insert(f.make("pear", {1}));
    s.insert(std::make_unique<str::ife>(cvect{1, 1}));
    s.insert(std::make_unique<real::ifl>(cvect{0, 1}));      // (r, r, s, s) -> string
    s.insert(std::make_unique<integer::number>(cvect{2}), 3.0);
    s.insert(std::make_unique<integer::add>(cvect{2}));
    s.insert(std::make_unique<integer::mul>(cvect{2}), 0.5);
    s.insert(std::make_unique<integer::ifl>(cvect{2, 2}));
    s.insert(std::make_unique<str::ife>(cvect{1, 2}));       // (s, s, i, i) -> integer
    s.insert(std::make_unique<real::ife>(cvect{0, 2}));      // (r, r, i, i) -> integer
    break;
  case 3:   // terminals only
    s.insert(std::make_unique<real::real>(cvect{0}));
    s.insert(f.make("1.0", {0}));
    s.insert(f.make("2.0", {0}));
    s.insert(f.make("3.0", {0}), 3.0);
    break;
  case 5:   // two categories, few symbols: many equal genes (the set on which cse() first failed)
    s.insert(std::make_unique<real::add>(cvect{0}));
    s.insert(f.make("1.0", {0}));
    s.insert(f.make("2.0", {0}));
    s.insert(std::make_unique<real::length>(cvect{1, 0}));
    s.insert(std::make_unique<str::ife>(cvect{0, 1}));       // (r, r, s, s) -> string
    s.insert(f.make("apple", {1}));
    s.insert(f.make("pear", {1}));
    break;
  default:  // two categories, the second one without functions and with a zero-weight terminal
    s.insert(f.make("1.0", {0}), 2.0);
    s.insert(f.make("2.0", {0}));
    s.insert(std::make_unique<real::add>(cvect{0}));
    s.insert(std::make_unique<real::length>(cvect{1, 0}));
    s.insert(std::make_unique<str::ife>(cvect{1, 0}));
    s.insert(f.make("a", {1}));
    s.insert(f.make("b", {1}), 0.0);
    s.insert(f.make("c", {1}), 1.5);
    break;
  }
}

struct setinfo
{
  problem prob;
  std::vector<const symbol *> syms;   // registry, in opcode order
  unsigned max_arity = 0;
};

std::vector<std::unique_ptr<setinfo>> sets;

void build_sets(std::uint64_t seed)
{
  for (unsigned id = 0; id < NSETS; ++id)
  {
    auto si = std::make_unique<setinfo>();
    si->prob.env.init();
    if (id < NFIXED) build_set(id, si->prob); else build_generated_set(seed, id, si->prob);
    // the registry is read back from the symbol set through its public interface
    for (opcode_t o = 0; o < 100000 && si->syms.size() < MAXSYMS; ++o)
      if (const symbol *s = si->prob.sset.decode(o))
        si->syms.push_back(s);
    for (const symbol *s : si->syms)
      si->max_arity = std::max(si->max_arity, s->arity());
    sets.push_back(std::move(si));
  }
}

std::string ss_line(unsigned id)
{
  const auto &si = *sets[id];
  std::ostringstream o;
  o << "ss " << id << ' ' << si.prob.sset.categories() << ' ' << si.syms.size();
  for (const symbol *s : si.syms)
  {
    const bool par = s->terminal() && terminal::cast(s)->parametric();
    o << ' ' << s->opcode() << ' ' << s->category() << ' ' << (par ? 1 : 0) << ' '
      << si.prob.sset.weight(*s) << ' ' << s->arity();
    for (unsigned k = 0; k < s->arity(); ++k)
      o << ' ' << function::cast(s)->arg_category(k);
  }
  return o.str();
}

// ---------------------------------------------------------------- printing
bool parametric(const gene &g) { return g.sym->terminal() && terminal::cast(g.sym)->parametric(); }

void put_gene(std::ostream &o, const gene &g)
{
  o << ' ' << g.sym->opcode() << ' ' << (parametric(g) ? verif::bits(g.par) : 0) << ' ' << g.args.size();
  for (auto a : g.args) o << ' ' << a;
}

void put_ind(std::ostream &o, const i_mep &x)
{
  o << ' ' << x.size() << ' ' << x.categories() << ' ' << x.best().index << ' ' << x.best().category
    << ' ' << x.age() << ' ' << int(x.verif_crossover_type());
  for (index_t i = 0; i < x.size(); ++i)
    for (category_t c = 0; c < x.categories(); ++c)
      put_gene(o, x[{i, c}]);
}

// ---------------------------------------------------------------- the C++ oracle
bool same_gene(const gene &a, const gene &b)   // bit-level equality of what is observable
{
  if (a.sym != b.sym || a.args.size() != b.args.size()) return false;
  for (std::size_t k = 0; k < a.args.size(); ++k)
    if (a.args[k] != b.args[k]) return false;
  if (parametric(a) && verif::bits(a.par) != verif::bits(b.par)) return false;
  return true;
}

struct oracle
{
  const setinfo &si;
  std::string why;

  bool known(const symbol *s) const
  { return std::find(si.syms.begin(), si.syms.end(), s) != si.syms.end(); }

  bool fail(const std::string &w) { if (why.empty()) why = w; return false; }

  // may gene g sit at (i, c) of a rows x cols genome?
  bool gene_ok(const gene &g, index_t i, category_t c, index_t rows, category_t cols)
  {
    std::ostringstream at; at << '[' << i << ',' << c << ']';
    if (!g.sym || !known(g.sym)) return fail(at.str() + "symbol");
    if (g.sym->category() != c) return fail(at.str() + "category");
    if (g.args.size() != g.sym->arity()) return fail(at.str() + "arity");
    for (unsigned k = 0; k < g.args.size(); ++k)
    {
      if (!(g.args[k] > i && g.args[k] < rows)) return fail(at.str() + "arg-range");
      if (!(function::cast(g.sym)->arg_category(k) < cols)) return fail(at.str() + "arg-category");
    }
    return true;
  }

  bool wf(const i_mep &x)
  {
    const index_t rows = x.size();
    const category_t cols = x.categories();
    if (!rows) return fail("rows");
    if (cols != si.prob.sset.categories()) return fail("cols");
    if (!(x.best().index < rows && x.best().category < cols)) return fail("best");
    for (index_t i = 0; i < rows; ++i)
      for (category_t c = 0; c < cols; ++c)
      {
        const gene &g = x[{i, c}];
        if (!gene_ok(g, i, c, rows, cols)) return false;
        // the designated position holds a symbol of the category the argument requires
        for (unsigned k = 0; k < g.args.size(); ++k)
        {
          const locus l = g.locus_of_argument(k);
          if (x[l].sym->category() != function::cast(g.sym)->arg_category(k))
            return fail("arg-type");
        }
      }
    for (category_t c = 0; c < cols; ++c)
      if (x[{rows - 1, c}].sym->arity()) return fail("last-row");
    return true;
  }

  // loci reached from l (explicit stack, bounds checked: never leaves the genome?)
  bool closure(const i_mep &x, locus l, std::set<locus> *out)
  {
    std::vector<locus> st{l};
    while (!st.empty())
    {
      const locus c = st.back(); st.pop_back();
      if (!(c.index < x.size() && c.category < x.categories())) return fail("walk-leaves-genome");
      if (!out->insert(c).second) continue;
      const gene &g = x[c];
      for (unsigned k = 0; k < g.args.size() && k < g.sym->arity(); ++k)
        st.push_back(g.locus_of_argument(k));
    }
    return true;
  }

  bool same_meta(const i_mep &pre, const i_mep &post, bool best = true)
  {
    if (post.size() != pre.size() || post.categories() != pre.categories()) return fail("shape");
    if (best && post.best() != pre.best()) return fail("best-changed");
    if (post.age() != pre.age()) return fail("age");
    if (post.verif_crossover_type() != pre.verif_crossover_type()) return fail("flavour");
    return true;
  }

  bool fresh_ok(const gene &g, index_t i, category_t c, index_t rows, category_t cols, index_t pl)
  {
    if (!gene_ok(g, i, c, rows, cols)) return false;
    // the last `pl` rows (all of them when the individual is no longer than `pl`) hold terminals
    if ((pl >= rows || i >= rows - pl) && g.sym->arity()) return fail("function-in-patch");
    return true;
  }

  bool random_step(const i_mep &x, index_t rows, index_t pl)
  {
    if (x.size() != rows || x.categories() != si.prob.sset.categories()) return fail("shape");
    if (x.best() != locus{0, 0}) return fail("best");
    if (x.age() != 0) return fail("age");
    if (int(x.verif_crossover_type()) >= int(i_mep::NUM_CROSSOVERS)) return fail("flavour");
    for (index_t i = 0; i < rows; ++i)
      for (category_t c = 0; c < x.categories(); ++c)
        if (!fresh_ok(x[{i, c}], i, c, rows, x.categories(), pl)) return false;
    return true;
  }

  unsigned changed(const i_mep &pre, const i_mep &post)
  {
    unsigned n = 0;
    for (index_t i = 0; i < pre.size(); ++i)
      for (category_t c = 0; c < pre.categories(); ++c)
        if (!same_gene(pre[{i, c}], post[{i, c}])) ++n;
    return n;
  }

  bool mutation_step(const i_mep &pre, const i_mep &post, index_t pl, unsigned n, bool zero)
  {
    if (!same_meta(pre, post)) return false;
    std::set<locus> act;
    if (!closure(post, post.best(), &act)) return false;
    unsigned ch = 0;
    for (index_t i = 0; i < pre.size(); ++i)
      for (category_t c = 0; c < pre.categories(); ++c)
        if (!same_gene(pre[{i, c}], post[{i, c}]))
        {
          ++ch;
          if (!fresh_ok(post[{i, c}], i, c, pre.size(), pre.categories(), pl)) return false;
          if (!act.count({i, c})) return fail("intron-mutated");
        }
    if (ch != n) return fail("mutation-count");
    if (zero && (ch || n)) return fail("p=0-changed-something");
    return true;
  }

  bool flavour_step(int k, const i_mep &from, const i_mep &to, const i_mep &post)
  {
    const index_t n = from.size();
    const category_t cs = from.categories();
    auto rows_from = [&](index_t i)
    { for (category_t c = 0; c < cs; ++c) if (!same_gene(post[{i, c}], from[{i, c}])) return false; return true; };
    auto rows_to = [&](index_t i)
    { for (category_t c = 0; c < cs; ++c) if (!same_gene(post[{i, c}], to[{i, c}])) return false; return true; };

    if (k == i_mep::one_point)
    {
      // documented: a common cut in [1, n-1); the offspring is `to` before it, `from` from it on
      const index_t lo = 1, hi = n > 2 ? n - 1 : 2;
      for (index_t cut = lo; cut < hi; ++cut)
      {
        bool ok = true;
        for (index_t i = 0; i < n && ok; ++i) ok = i < cut ? rows_to(i) : rows_from(i);
        if (ok) return true;
      }
      return false;
    }
    if (k == i_mep::two_points)
    {
      for (index_t c1 = 0; c1 + 1 < n; ++c1)
        for (index_t c2 = c1 + 1; c2 < n; ++c2)
        {
          bool ok = true;
          for (index_t i = 0; i < n && ok; ++i) ok = (c1 <= i && i < c2) ? rows_from(i) : rows_to(i);
          if (ok) return true;
        }
      return false;
    }
    if (k == i_mep::uniform)
    {
      for (index_t i = 0; i < n; ++i)
        for (category_t c = 0; c < cs; ++c)
          if (!same_gene(post[{i, c}], from[{i, c}]) && !same_gene(post[{i, c}], to[{i, c}])) return false;
      return true;
    }
    // tree: a complete tree of `from`, rooted at one of its active loci, is copied over `to`
    std::set<locus> act;
    if (!closure(from, from.best(), &act)) return false;
    for (const locus &start : act)
    {
      std::set<locus> sub;
      if (!closure(from, start, &sub)) return false;
      bool ok = true;
      for (index_t i = 0; i < n && ok; ++i)
        for (category_t c = 0; c < cs && ok; ++c)
          ok = same_gene(post[{i, c}], sub.count({i, c}) ? from[{i, c}] : to[{i, c}]);
      if (ok) return true;
    }
    return false;
  }

  bool cross_dir(const i_mep &from, const i_mep &to, const i_mep &post)
  {
    if (post.size() != to.size() || post.categories() != to.categories()) return false;
    if (post.best() != to.best()) return false;
    if (post.verif_crossover_type() != from.verif_crossover_type()) return false;
    if (post.age() != std::max(to.age(), from.age())) return false;
    return flavour_step(int(from.verif_crossover_type()), from, to, post);
  }

  bool cross_step(const i_mep &lhs, const i_mep &rhs, const i_mep &post)
  {
    // the property's own clauses first: size, age of the older parent, every gene from a parent
    if (post.size() != lhs.size() || post.categories() != lhs.categories()) return fail("offspring-size");
    if (post.age() != std::max(lhs.age(), rhs.age())) return fail("offspring-age");
    for (index_t i = 0; i < lhs.size(); ++i)
      for (category_t c = 0; c < lhs.categories(); ++c)
        if (!same_gene(post[{i, c}], lhs[{i, c}]) && !same_gene(post[{i, c}], rhs[{i, c}]))
          return fail("gene-from-neither-parent");
    if (cross_dir(rhs, lhs, post) || cross_dir(lhs, rhs, post)) return true;
    return fail("not-the-documented-recombination");
  }

  bool getblock_step(const i_mep &pre, locus l, const i_mep &post)
  {
    if (!same_meta(pre, post, false)) return false;
    if (post.best() != l) return fail("best");
    if (changed(pre, post)) return fail("genes-changed");
    return true;
  }

  bool replace_step(const i_mep &pre, locus l, const i_mep &post)
  {
    if (!same_meta(pre, post)) return false;
    for (index_t i = 0; i < pre.size(); ++i)
      for (category_t c = 0; c < pre.categories(); ++c)
        if (!(locus{i, c} == l) && !same_gene(pre[{i, c}], post[{i, c}])) return fail("other-gene-changed");
    return gene_ok(post[l], l.index, l.category, pre.size(), pre.categories());
  }

  bool destroy_step(const i_mep &pre, index_t idx, const i_mep &post)
  {
    if (!same_meta(pre, post)) return false;
    for (index_t i = 0; i < pre.size(); ++i)
      for (category_t c = 0; c < pre.categories(); ++c)
        if (i == idx)
        {
          if (!gene_ok(post[{i, c}], i, c, pre.size(), pre.categories())) return false;
          if (post[{i, c}].sym->arity()) return fail("function-in-destroyed-row");
        }
        else if (!same_gene(pre[{i, c}], post[{i, c}])) return fail("other-row-changed");
    return true;
  }

  bool cse_step(const i_mep &pre, const i_mep &post)
  {
    if (!same_meta(pre, post)) return false;
    for (index_t i = 0; i < pre.size(); ++i)
      for (category_t c = 0; c < pre.categories(); ++c)
      {
        const gene &g = pre[{i, c}], &h = post[{i, c}];
        if (g.sym != h.sym || g.args.size() != h.args.size()) return fail("cse-symbol");
        if (parametric(g) && verif::bits(g.par) != verif::bits(h.par)) return fail("cse-parameter");
        for (unsigned k = 0; k < g.args.size(); ++k)
        {
          const category_t ac = function::cast(g.sym)->arg_category(k);
          if (!(h.args[k] > i && h.args[k] < pre.size())) return fail("cse-redirect-not-later");
          if (!same_gene(post[{h.args[k], ac}], post[{g.args[k], ac}])) return fail("cse-redirect-to-different-gene");
        }
      }
    return true;
  }
};

// ---------------------------------------------------------------- running
// The pool of operands only ever COPY-CONSTRUCTS individuals (never assigns one over another): the
// bookkeeping of the harness must not run library code (gene / small_vector assignment) that could
// itself damage an operand; what an operator receives is what an earlier operator returned.
template<class T> struct pool_t
{
  std::vector<std::unique_ptr<const T>> v;
  std::size_t size() const { return v.size(); }
  bool empty() const { return v.empty(); }
  const T &operator[](std::size_t k) const { return *v[k]; }
  void push_back(const T &x) { v.push_back(std::make_unique<const T>(x)); }
  void set(std::size_t k, const T &x) { v[k] = std::make_unique<const T>(x); }
};

struct runner
{
  unsigned scenario = 0, opn = 0;
  verif::splitmix rng{0};
  std::string info;   // extra evidence about the current call (key:value,…)

  void begin(const std::string &head) { std::cout << "L " << head << std::flush; }

  void end(const std::string &op, const std::string &post, bool wf, bool step, bool valid,
           const std::string &exec, bool expect_ok, const std::string &why)
  {
    std::cout << post << "\n"
              << "O " << scenario << ' ' << opn++ << ' ' << op << " wf=" << wf << " step=" << step
              << " valid=" << valid << " exec=" << exec << " expect=" << (expect_ok ? "ok" : "bad")
              << " why=" << (why.empty() ? "-" : why) << " info=" << (info.empty() ? "-" : info)
              << "\n" << std::flush;
    info.clear();
  }

  template<class T> void note(const std::string &k, T v)
  { info += (info.empty() ? "" : ",") + k + ":" + std::to_string(v); }

  bool last_ok = true;   // the last result was well-formed (only such results are reused / executed)

  static std::string exec(const i_mep &x)
  {
    try { const value_t v(run(x)); (void)v; return "ok"; }
    catch (const std::exception &e) { return std::string("exc:") + typeid(e).name(); }
  }

  static std::string S(const i_mep &x) { std::ostringstream o; put_ind(o, x); return o.str(); }
  template<class T> static std::string N(T v) { return " " + std::to_string(v); }

  // evidence: histogram of the REAL argument counts (gene::args.size(), not the symbol's arity) of
  // the genes of the result (ar9 = more than 8) …
  unsigned ar_[10] = {};
  void hist_add(const i_mep &x)
  {
    for (index_t i = 0; i < x.size(); ++i)
      for (category_t c = 0; c < x.categories(); ++c)
        ++ar_[std::min<std::size_t>(x[{i, c}].args.size(), 9)];
  }
  void hist_note()
  {
    for (unsigned k = 0; k < 10; ++k)
    { if (ar_[k]) note("ar" + std::to_string(k), ar_[k]); ar_[k] = 0; }
  }
  // … and the loci overwritten across the inline / heap boundary of the argument pack
  // (`shrink`: a heap pack assigned a shorter one; `grow`: an inline pack assigned a heap one;
  // `heap2heap`: a heap pack assigned one at least as long)
  unsigned tr_[3] = {};
  void trans_add(const i_mep &pre, const i_mep &post)
  {
    if (pre.size() != post.size() || pre.categories() != post.categories()) return;
    for (index_t i = 0; i < pre.size(); ++i)
      for (category_t c = 0; c < pre.categories(); ++c)
      {
        const gene &a = pre[{i, c}], &b = post[{i, c}];
        if (same_gene(a, b)) continue;
        const std::size_t o = a.sym ? a.sym->arity() : 0, n = b.sym ? b.sym->arity() : 0;
        if (o > gene::k_args && n < o) ++tr_[0];
        else if (o > gene::k_args) ++tr_[2];
        else if (n > gene::k_args) ++tr_[1];
      }
  }
  // crossover: which parent is overwritten is a draw; count the loci where the parents' packs differ
  // in length, one of them is on the heap and the offspring holds the gene of one of them
  void trans_add2(const i_mep &l, const i_mep &r, const i_mep &post)
  {
    if (l.size() != post.size() || r.size() != post.size() || l.categories() != post.categories()) return;
    for (index_t i = 0; i < l.size(); ++i)
      for (category_t c = 0; c < l.categories(); ++c)
      {
        const std::size_t a = l[{i, c}].sym->arity(), b = r[{i, c}].sym->arity();
        if (a != b && std::max(a, b) > gene::k_args) ++tr_[post[{i, c}].args.size() == std::min(a, b) ? 0 : 1];
      }
  }
  void trans_note(bool cross = false)
  {
    static const char *n1[] = {"shrink", "grow", "heap2heap"}, *n2[] = {"xshort", "xlong", "-"};
    for (unsigned k = 0; k < 3; ++k)
    { if (tr_[k]) note(cross ? n2[k] : n1[k], tr_[k]); tr_[k] = 0; }
  }

  void shape(unsigned id, const i_mep &x)
  { note("set", id); note("rows", x.size()); note("cols", x.categories()); hist_add(x); hist_note(); }

  // ---- one real operator call each; prints the request/answer pair, returns the result
  i_mep op_random(unsigned id, index_t pl)
  {
    setinfo &si = *sets[id];
    begin("random" + N(id) + N(pl));
    i_mep x(si.prob);
    oracle o{si};
    const bool st = o.random_step(x, si.prob.env.mep.code_length, pl), wf = o.wf(x);
    shape(id, x); note("pl", pl); note("flavour", int(x.verif_crossover_type()));
    end("random", S(x), wf, st, wf && x.is_valid(), wf ? exec(x) : "skipped", true, o.why);
    last_ok = wf;
    return x;
  }

  // how the size of an operand relates to the environment the operator is given
  void env_note(const problem &p, index_t size)
  {
    const index_t cl = p.env.mep.code_length, pl = p.env.mep.patch_length;
    note("envlen", cl);
    note("szenv", size < cl ? 0 : size == cl ? 1 : 2);      // shorter / equal / longer than code_length
    note("szpl", size < pl ? 0 : size == pl ? 1 : 2);       // shorter / equal / longer than patch_length
  }

  // mutation under the environment the problem holds NOW (not necessarily the one `a` was built under)
  i_mep op_mutation(unsigned id, double pgm, const i_mep &a)
  {
    setinfo &si = *sets[id];
    oracle o{si};
    i_mep x(a);
    const index_t cl = si.prob.env.mep.code_length, pl = si.prob.env.mep.patch_length;
    // the returned count is only known after the call: it closes the request
    begin("mutation" + N(id) + N(cl) + N(pl) + N(pgm == 0.0 ? 1 : 0) + S(a));
    const unsigned n = x.mutation(pgm, si.prob);
    const bool st = o.mutation_step(a, x, pl, n, pgm == 0.0), wf = o.wf(x);
    shape(id, x); note("pl", pl); env_note(si.prob, a.size());
    note("pgm%", int(pgm * 100)); note("n", n); trans_add(a, x); trans_note();
    note("trivial", o.changed(a, x) == 0);
    end("mutation", S(x) + N(n), wf, st, wf && x.is_valid(), wf ? exec(x) : "skipped", true, o.why);
    last_ok = wf;
    return x;
  }

  i_mep op_crossover(unsigned id, const i_mep &l, const i_mep &r)
  {
    setinfo &si = *sets[id];
    oracle o{si};
    begin("crossover" + N(id) + S(l) + S(r));
    const i_mep x(crossover(l, r));
    const bool st = o.cross_step(l, r, x), wf = o.wf(x);
    shape(id, x); note("flavour", int(x.verif_crossover_type())); trans_add2(l, r, x); trans_note(true);
    note("forced", l.verif_crossover_type() == r.verif_crossover_type());
    note("ages_differ", l.age() != r.age());
    note("trivial", o.changed(l, x) == 0 || o.changed(r, x) == 0);
    end("crossover", S(x), wf, st, wf && x.is_valid(), wf ? exec(x) : "skipped", true, o.why);
    last_ok = wf;
    return x;
  }

  i_mep op_getblock(unsigned id, const i_mep &a, locus l)
  {
    setinfo &si = *sets[id];
    oracle o{si};
    begin("getblock" + N(id) + N(l.index) + N(l.category) + S(a));
    const i_mep x(a.get_block(l));
    const bool st = o.getblock_step(a, l, x), wf = o.wf(x);
    shape(id, x); note("trivial", l == a.best());
    end("getblock", S(x), wf, st, wf && x.is_valid(), wf ? exec(x) : "skipped", true, o.why);
    last_ok = wf;
    return x;
  }

  i_mep op_replace(unsigned id, const i_mep &a, locus l, const gene &g, bool at_best, bool expect_ok)
  {
    setinfo &si = *sets[id];
    oracle o{si};
    begin("replace" + N(id) + N(l.index) + N(l.category) + S(a));
    const i_mep x(at_best ? a.replace(g) : a.replace(l, g));
    const bool wf = o.wf(x);
    const bool st = o.replace_step(a, l, x);
    shape(id, x); note("at_best", at_best); note("trivial", o.changed(a, x) == 0);
    if (expect_ok) { trans_add(a, x); trans_note(); }
    if (expect_ok)
    {
      end("replace", S(x), wf, st, wf && x.is_valid(), wf ? exec(x) : "skipped", true, o.why);
      last_ok = wf;
    }
    else   // ill-formed on purpose: never validated by vita, never executed
      end("replace", S(x), wf, st, false, "skipped", false, o.why);
    return x;
  }

  i_mep op_destroy(unsigned id, const i_mep &a, index_t idx)
  {
    setinfo &si = *sets[id];
    oracle o{si};
    begin("destroy" + N(id) + N(idx) + S(a));
    const i_mep x(a.destroy_block(idx, si.prob.sset));
    const bool st = o.destroy_step(a, idx, x), wf = o.wf(x);
    shape(id, x); note("trivial", o.changed(a, x) == 0); trans_add(a, x); trans_note();
    end("destroy", S(x), wf, st, wf && x.is_valid(), wf ? exec(x) : "skipped", true, o.why);
    last_ok = wf;
    return x;
  }

  // ageing (individual::inc_age, done by the evolution loop) makes "age of the older parent" observable
  i_mep op_incage(unsigned id, const i_mep &a)
  {
    setinfo &si = *sets[id];
    oracle o{si};
    begin("incage" + N(id) + S(a));
    i_mep x(a);
    x.inc_age();
    bool st = x.size() == a.size() && x.categories() == a.categories() && x.best() == a.best()
              && x.verif_crossover_type() == a.verif_crossover_type() && o.changed(a, x) == 0;
    if (st && x.age() != a.age() + 1) { st = false; o.fail("age"); }
    const bool wf = o.wf(x);
    shape(id, x);
    end("incage", S(x), wf, st, wf && x.is_valid(), wf ? exec(x) : "skipped", true, o.why);
    last_ok = wf;
    return x;
  }

  i_mep op_cse(unsigned id, const i_mep &a)
  {
    setinfo &si = *sets[id];
    oracle o{si};
    begin("cse" + N(id) + S(a));
    const i_mep x(a.cse());
    const bool st = o.cse_step(a, x), wf = o.wf(x);
    unsigned red = 0;
    for (index_t i = 0; i < a.size(); ++i)
      for (category_t c = 0; c < a.categories(); ++c)
        for (unsigned k = 0; k < a[{i, c}].args.size() && k < x[{i, c}].args.size(); ++k)
          red += a[{i, c}].args[k] != x[{i, c}].args[k];
    shape(id, x); note("redirects", red); note("trivial", red == 0);
    end("cse", S(x), wf, st, wf && x.is_valid(), wf ? exec(x) : "skipped", true, o.why);
    last_ok = wf;
    return x;
  }

  using team_t = team<i_mep>;
  static std::string ST(const team_t &t) { std::string s; for (const auto &x : t) s += S(x); return s; }
  static bool twf(oracle &o, const team_t &t, unsigned k)
  { bool ok = t.individuals() == k; for (const auto &x : t) ok = o.wf(x) && ok; return ok; }
  static std::string texec(const team_t &t)
  { std::string r = "ok"; for (const auto &x : t) { auto e = exec(x); if (e != "ok") r = e; } return r; }

  team_t op_trandom(unsigned id, index_t pl, unsigned k)
  {
    setinfo &si = *sets[id];
    si.prob.env.team.individuals = k;
    begin("trandom" + N(id) + N(pl) + N(k));
    team_t t(si.prob);
    oracle o{si};
    bool st = t.individuals() == k;
    for (const auto &x : t) st = o.random_step(x, si.prob.env.mep.code_length, pl) && st;
    note("set", id); note("rows", si.prob.env.mep.code_length); note("team", k);
    for (const auto &x : t) hist_add(x);
    hist_note();
    const bool wf = twf(o, t, k);
    end("trandom", ST(t), wf, st, wf && t.is_valid(), wf ? texec(t) : "skipped", true, o.why);
    last_ok = wf;
    return t;
  }

  team_t op_tmutation(unsigned id, double pgm, const team_t &a)
  {
    setinfo &si = *sets[id];
    oracle o{si};
    const unsigned k = a.individuals();
    team_t t(a);
    const index_t cl = si.prob.env.mep.code_length, pl = si.prob.env.mep.patch_length;
    begin("tmutation" + N(id) + N(cl) + N(pl) + N(pgm == 0.0 ? 1 : 0) + N(k) + ST(a));
    const unsigned n = t.mutation(pgm, si.prob);
    bool st = t.individuals() == k;
    unsigned tot = 0;
    for (unsigned m = 0; m < k && st; ++m)
    {
      const unsigned ch = o.changed(a[m], t[m]);
      tot += ch;
      st = o.mutation_step(a[m], t[m], pl, ch, pgm == 0.0);
    }
    if (st && tot != n) { st = false; o.fail("team-mutation-count"); }
    note("set", id); note("rows", a[0].size()); note("team", k); note("n", n); note("trivial", tot == 0);
    note("pl", pl); note("envteam", si.prob.env.team.individuals);
    {
      index_t mn = a[0].size(), mx = a[0].size();
      for (unsigned m = 0; m < k; ++m) { mn = std::min<index_t>(mn, a[m].size()); mx = std::max<index_t>(mx, a[m].size()); }
      env_note(si.prob, mn); note("mixed", mn != mx);
    }
    for (unsigned m = 0; m < k && m < t.individuals(); ++m) { hist_add(t[m]); trans_add(a[m], t[m]); }
    hist_note(); trans_note();
    const bool wf = twf(o, t, k);
    end("tmutation", ST(t) + N(n), wf, st, wf && t.is_valid(), wf ? texec(t) : "skipped", true, o.why);
    last_ok = wf;
    return t;
  }

  team_t op_tcrossover(unsigned id, const team_t &l, const team_t &r)
  {
    setinfo &si = *sets[id];
    oracle o{si};
    const unsigned k = l.individuals();
    begin("tcrossover" + N(id) + N(k) + ST(l) + ST(r));
    const team_t t(crossover(l, r));
    bool st = t.individuals() == k;
    for (unsigned m = 0; m < k && st; ++m) st = o.cross_step(l[m], r[m], t[m]);
    note("set", id); note("rows", l[0].size()); note("team", k);
    for (unsigned m = 0; m < k && m < t.individuals(); ++m) { hist_add(t[m]); trans_add2(l[m], r[m], t[m]); }
    hist_note(); trans_note(true);
    const bool wf = twf(o, t, k);
    end("tcrossover", ST(t), wf, st, wf && t.is_valid(), wf ? texec(t) : "skipped", true, o.why);
    last_ok = wf;
    return t;
  }

  // team<T>::inc_age(): every member ages, nothing else changes
  team_t op_tincage(unsigned id, const team_t &a)
  {
    setinfo &si = *sets[id];
    oracle o{si};
    const unsigned k = a.individuals();
    begin("tincage" + N(id) + N(k) + ST(a));
    team_t t(a);
    t.inc_age();
    bool st = t.individuals() == k;
    for (unsigned m = 0; m < k && st; ++m)
    {
      st = t[m].size() == a[m].size() && t[m].categories() == a[m].categories() && t[m].best() == a[m].best()
           && t[m].verif_crossover_type() == a[m].verif_crossover_type() && o.changed(a[m], t[m]) == 0;
      if (!st) o.fail("team-inc-age-changed-a-member");
      else if (t[m].age() != a[m].age() + 1) { st = false; o.fail("age"); }
    }
    note("set", id); note("rows", a[0].size()); note("team", k);
    for (unsigned m = 0; m < k && m < t.individuals(); ++m) hist_add(t[m]);
    hist_note();
    const bool wf = twf(o, t, k);
    end("tincage", ST(t), wf, st, wf && t.is_valid(), wf ? texec(t) : "skipped", true, o.why);
    last_ok = wf;
    return t;
  }

  // team(std::vector<T>): the team made of the given individuals, in order
  team_t op_tmembers(unsigned id, const std::vector<i_mep> &v)
  {
    setinfo &si = *sets[id];
    oracle o{si};
    const unsigned k = unsigned(v.size());
    std::string pre;
    for (const auto &x : v) pre += S(x);
    begin("tmembers" + N(id) + N(k) + pre);
    const team_t t(v);
    bool st = t.individuals() == k;
    for (unsigned m = 0; m < k && st; ++m)
    {
      st = o.same_meta(v[m], t[m], true);
      if (st && o.changed(v[m], t[m])) { st = false; o.fail("team-member-differs-from-the-given-individual"); }
    }
    note("set", id); note("rows", v[0].size()); note("team", k); note("trivial", 0);
    for (unsigned m = 0; m < k && m < t.individuals(); ++m) hist_add(t[m]);
    hist_note();
    const bool wf = twf(o, t, k);
    end("tmembers", ST(t), wf, st, wf && t.is_valid(), wf ? texec(t) : "skipped", true, o.why);
    last_ok = wf;
    return t;
  }

  // ---- scenarios
  // The environment of the problem is EDITED during a history (`problem` is a long-lived, mutable
  // object and the operators receive it as a parameter): `code_length` and `patch_length` are raised
  // or lowered between the creation of an individual and its mutation / crossover / replace …, new
  // individuals are built under the new environment, so the pool holds individuals of different
  // sizes, shorter and longer than the current code_length, some no longer than the current
  // patch_length.  `drift` = 0: the environment never changes (every operand was built under it).
  static constexpr index_t LENS[] = {2, 3, 4, 5, 6, 7, 8, 10, 12, 16, 20, 24, 32, 48, 64};

  void new_env(problem &p, index_t cap)
  {
    index_t len = LENS[rng.below(15)];
    if (rng.below(4) == 0) len = index_t(2 + rng.below(63));
    if (rng.below(3) == 0)                                   // one off the current value, either side
      len = rng.below(2) ? p.env.mep.code_length + 1 : std::max<index_t>(3, p.env.mep.code_length) - 1;
    len = std::min(len, cap);
    index_t pl = 1;
    if (rng.below(2) == 0) pl = index_t(1 + rng.below(len - 1));       // 1 .. len-1
    p.env.mep.code_length = len;
    p.env.mep.patch_length = pl;
  }

  void individual_scenario(unsigned id, index_t len, index_t pl, unsigned hist, unsigned drift)
  {
    setinfo &si = *sets[id];
    problem &p = si.prob;
    p.env.mep.code_length = len;
    p.env.mep.patch_length = pl;
    pool_t<i_mep> pool;
    unsigned flav = unsigned(rng.below(4));

    auto add = [&](const i_mep &x)
    { if (!last_ok) return; if (pool.size() < 8) pool.push_back(x); else pool.set(rng.below(pool.size()), x); };

    const unsigned n0 = 2 + unsigned(rng.below(3));
    for (unsigned k = 0; k < n0; ++k)
    {
      const i_mep x(op_random(id, p.env.mep.patch_length));
      if (last_ok) pool.push_back(x);
    }
    if (pool.empty()) return;

    for (unsigned h = 0; h < hist && last_ok; ++h)
    {
      if (drift && (h == 0 || rng.below(drift == 1 ? 8 : 3) == 0))
      {
        // the user edits the environment; individuals built from now on have the new geometry
        new_env(p, 64);
        note("drift", 1);
        const unsigned nn = unsigned(rng.below(3));
        for (unsigned k = 0; k < nn && last_ok; ++k)
          add(op_random(id, p.env.mep.patch_length));
        if (!last_ok) break;
      }
      const unsigned r = unsigned(rng.below(100));
      const i_mep a(pool[rng.below(pool.size())]);
      const index_t alen = a.size();
      if (r < 30)
      {
        static const double ps[] = {0.0, 0.05, 0.3, 0.7, 1.0};
        add(op_mutation(id, ps[rng.below(5)], a));
      }
      else if (r < 60)
      {
        // the second parent: an individual of the same size (crossover's precondition)
        std::vector<std::size_t> same;
        for (std::size_t k = 0; k < pool.size(); ++k)
          if (pool[k].size() == alen) same.push_back(k);
        i_mep l(a), rr(pool[same[rng.below(same.size())]]);
        if (rng.below(10) < 8)
        {
          flav = (flav + 1) % 4;
          l.verif_crossover_type(i_mep::crossover_t(flav));
          rr.verif_crossover_type(i_mep::crossover_t(flav));
        }
        add(op_crossover(id, l, rr));
      }
      else if (r < 68)
      {
        locus l{index_t(rng.below(alen)), category_t(rng.below(a.categories()))};
        const auto bl(a.blocks());
        if (!bl.empty() && rng.below(10) < 6)
          l = *std::next(bl.begin(), long(rng.below(bl.size())));
        add(op_getblock(id, a, l));
      }
      else if (r < 78)
      {
        const bool at_best = rng.below(4) == 0;
        const locus l = at_best ? a.best()
                                : locus{index_t(rng.below(alen)), category_t(rng.below(a.categories()))};
        // a compatible gene, built with the library's own constructors
        const gene g = l.index + 1 < alen ? gene(p.sset.roulette(l.category), l.index + 1, alen)
                                          : gene(p.sset.roulette_terminal(l.category));
        add(op_replace(id, a, l, g, at_best, true));
      }
      else if (r < 85)
        add(op_destroy(id, a, index_t(rng.below(alen))));
      else if (r < 90)
        add(op_incage(id, a));
      else if (r < 97)
        add(op_cse(id, a));
      else
      {
        // malformed stream: replace() with an INCOMPATIBLE gene really builds an ill-formed
        // individual (release build); both checkers must reject it.  Never executed, never reused.
        std::vector<locus> fl;
        for (index_t i = 0; i < alen; ++i)
          for (category_t c = 0; c < a.categories(); ++c)
            if (a[{i, c}].sym->arity()) fl.push_back({i, c});
        const unsigned kind = unsigned(rng.below(4));
        locus l{index_t(rng.below(alen)), category_t(rng.below(a.categories()))};
        gene g(a[l]);
        if (kind == 3)
        {
          // argument count != arity: one argument too few / too many (possibly a terminal carrying one)
          if (!fl.empty() && rng.below(3)) { l = fl[rng.below(fl.size())]; g = a[l]; }
          if (g.args.size() && rng.below(2)) g.args.resize(g.args.size() - 1);
          else g.args.push_back(gene::packed_index_t(std::min<index_t>(l.index + 1, alen - 1)));
        }
        else if (kind == 0 && !fl.empty())
        { l = fl[rng.below(fl.size())]; g = a[l]; g.args[rng.below(g.args.size())] = gene::packed_index_t(l.index); }
        else if (kind == 1 && !fl.empty())
        { l = fl[rng.below(fl.size())]; g = a[l]; g.args[rng.below(g.args.size())] = gene::packed_index_t(alen + rng.below(3)); }
        else if (a.categories() > 1)
          g = a[{l.index, (l.category + 1) % a.categories()}];            // wrong column
        else if (!fl.empty())
        { g = a[fl[0]]; l = {alen - 1, 0}; }                               // a function in the last row
        else
          continue;
#if defined(NDEBUG)
        op_replace(id, a, l, g, false, false);
        last_ok = true;    // deliberately ill-formed, not reused
#endif                     // (the assertion-enabled build would stop at Ensures(is_valid()))
      }
    }
  }

  // two teams can be recombined when they have the same number of members and corresponding
  // members have the same size (the preconditions of crossover(team, team) / crossover(i_mep, i_mep))
  static bool team_compatible(const team_t &a, const team_t &b)
  {
    if (a.individuals() != b.individuals()) return false;
    for (unsigned m = 0; m < a.individuals(); ++m)
      if (a[m].size() != b[m].size()) return false;
    return true;
  }

  void team_scenario(unsigned id, index_t len, index_t pl, unsigned hist, unsigned k, unsigned drift)
  {
    setinfo &si = *sets[id];
    problem &p = si.prob;
    p.env.mep.code_length = len;
    p.env.mep.patch_length = pl;
    pool_t<team_t> pool;
    unsigned flav = unsigned(rng.below(4));
    for (unsigned j = 0; j < 2; ++j)
    {
      const team_t t(op_trandom(id, p.env.mep.patch_length, k));
      if (last_ok) pool.push_back(t);
    }
    if (pool.empty()) return;
    for (unsigned h = 0; h < hist && last_ok; ++h)
    {
      if (drift && (h == 0 || rng.below(drift == 1 ? 6 : 3) == 0))
      {
        // new geometry AND a new team size; teams built from now on follow the new environment
        new_env(p, 24);
        if (rng.below(2)) k = 1 + unsigned(rng.below(6));
        note("drift", 1);
        if (rng.below(2))
        {
          const team_t t(op_trandom(id, p.env.mep.patch_length, k));
          if (!last_ok) break;
          if (pool.size() < 5) pool.push_back(t); else pool.set(rng.below(pool.size()), t);
        }
        else
          p.env.team.individuals = k;       // only the stored team size changes
      }
      const team_t a(pool[rng.below(pool.size())]);
      const unsigned ka = a.individuals();
      team_t t;
      const unsigned r = unsigned(rng.below(20));
      if (r < 8)
      {
        static const double ps[] = {0.0, 0.1, 0.5, 1.0};
        t = op_tmutation(id, ps[rng.below(4)], a);
      }
      else if (r < 10)
        t = op_tincage(id, a);
      else if (r < 12)
      {
        // a team assembled from members of (possibly different) teams of the pool – hence possibly of
        // different sizes – and fresh individuals
        std::vector<i_mep> v;
        const unsigned kv = drift && rng.below(3) == 0 ? 1 + unsigned(rng.below(6)) : ka;
        for (unsigned m = 0; m < kv && last_ok; ++m)
        {
          const team_t &src = pool[rng.below(pool.size())];
          if (rng.below(4) == 0) v.push_back(op_random(id, p.env.mep.patch_length));
          else v.push_back(src[unsigned(rng.below(src.individuals()))]);
        }
        if (!last_ok) break;
        t = op_tmembers(id, v);
      }
      else
      {
        std::vector<std::size_t> comp;
        for (std::size_t j = 0; j < pool.size(); ++j)
          if (team_compatible(a, pool[j])) comp.push_back(j);
        const team_t &b = comp.empty() ? a : pool[comp[rng.below(comp.size())]];
        std::vector<i_mep> va(a.begin(), a.end()), vb(b.begin(), b.end());
        for (unsigned m = 0; m < ka; ++m)      // ageing, as the evolution loop does
        {
          if (rng.below(3) == 0) va[m].inc_age();
          if (rng.below(4) == 0) vb[m].inc_age();
        }
        if (rng.below(10) < 8)
          for (unsigned m = 0; m < ka; ++m)
          {
            flav = (flav + 1) % 4;
            va[m].verif_crossover_type(i_mep::crossover_t(flav));
            vb[m].verif_crossover_type(i_mep::crossover_t(flav));
          }
        t = op_tcrossover(id, team_t(va), team_t(vb));
      }
      if (!last_ok) break;
      if (pool.size() < 5) pool.push_back(t); else pool.set(rng.below(pool.size()), t);
    }
  }

  void run_scenario(std::uint64_t seed, unsigned k)
  {
    scenario = k;
    opn = 0;
    last_ok = true;
    watchdog(20);
    rng = verif::splitmix(seed * 1000003ull + k);
    vita::random::seed(unsigned(rng.next() & 0x7fffffff));
    const unsigned id = k % NSETS;
    index_t len = LENS[(k / NSETS) % 15];
    if (rng.below(8) == 0) len = index_t(2 + rng.below(63));
    index_t pl = 1;
    if (rng.below(3) == 0) pl = index_t(1 + rng.below(len - 1));       // 1 .. len-1
    const unsigned hist = 1 + unsigned(rng.below(40));
    const bool team_mode = rng.below(5) == 0;
    if (team_mode && len > 24) { len = LENS[rng.below(10)]; pl = std::min(pl, len - 1); }
    // 0: the environment is never edited; 1: now and then; 2: often
    const unsigned drift = unsigned(rng.below(3));
    std::cout << "S " << k << " set=" << id << " len=" << len << " pl=" << pl << " hist=" << hist
              << " team=" << team_mode << " drift=" << drift << "\n";
    if (team_mode)
      team_scenario(id, len, pl, std::min(hist, 12u), 1 + unsigned(rng.below(6)), drift);
    else
      individual_scenario(id, len, pl, hist, drift);
  }

  // ---- replay of explicit requests (corpus, replay files):
  //   <op> <ss> <params> <pre individuals>     (the part of an `L` line known before the call)
  struct reader
  {
    std::vector<std::string> t; std::size_t p = 0;
    std::uint64_t u() { if (p >= t.size()) throw std::runtime_error("short request"); return std::stoull(t[p++]); }
  };

  static i_mep read_ind(reader &rd, const setinfo &si)
  {
    const auto rows = rd.u(), cols = rd.u(), bi = rd.u(), bc = rd.u(), age = rd.u(), xo = rd.u();
    std::ostringstream o;
    o.precision(17);
    o << age << '\n' << rows << ' ' << cols << '\n';
    for (std::uint64_t j = 0; j < rows * cols; ++j)
    {
      const auto op = rd.u(), par = rd.u(), n = rd.u();
      const symbol *s = si.prob.sset.decode(opcode_t(op));
      if (!s) throw std::runtime_error("unknown opcode");
      o << op;
      if (s->terminal() && terminal::cast(s)->parametric()) o << ' ' << verif::from_bits(par);
      for (std::uint64_t k = 0; k < n; ++k) o << ' ' << rd.u();
      o << '\n';
    }
    o << bi << ' ' << bc << '\n';
    std::istringstream in(o.str());
    i_mep x;
    if (!x.load(in, si.prob.sset)) throw std::runtime_error("i_mep::load refused the individual");
    x.verif_crossover_type(i_mep::crossover_t(xo));
    return x;
  }

  void replay_request(const std::string &line)
  {
    reader rd; rd.t = verif::split(line);
    if (rd.t.size() < 2) return;
    const std::string op = rd.t[rd.p++];
    const unsigned id = unsigned(rd.u());
    if (id >= NSETS) throw std::runtime_error("unknown symbol set");
    setinfo &si = *sets[id];
    auto fit = [&](const i_mep &x, index_t pl) { si.prob.env.mep.code_length = x.size(); si.prob.env.mep.patch_length = pl; };
    if (op == "random")
    { const index_t pl = rd.u(), len = rd.u(); si.prob.env.mep.code_length = len; si.prob.env.mep.patch_length = pl; op_random(id, pl); }
    else if (op == "mutation")
    { // the environment handed to mutation is part of the request (it need not fit the individual)
      const index_t cl = rd.u(), pl = rd.u(); const bool z = rd.u(); const i_mep a(read_ind(rd, si));
      si.prob.env.mep.code_length = cl; si.prob.env.mep.patch_length = pl;
      static const double ps[] = {0.05, 0.3, 0.7, 1.0};
      op_mutation(id, z ? 0.0 : ps[rng.below(4)], a); }
    else if (op == "crossover")
    { const i_mep l(read_ind(rd, si)), r(read_ind(rd, si)); fit(l, 1); op_crossover(id, l, r); }
    else if (op == "getblock")
    { const index_t i = rd.u(); const category_t c = rd.u(); const i_mep a(read_ind(rd, si)); fit(a, 1); op_getblock(id, a, {i, c}); }
    else if (op == "destroy")
    { const index_t i = rd.u(); const i_mep a(read_ind(rd, si)); fit(a, 1); op_destroy(id, a, i); }
    else if (op == "cse")
    { const i_mep a(read_ind(rd, si)); fit(a, 1); op_cse(id, a); }
    else if (op == "incage")
    { const i_mep a(read_ind(rd, si)); fit(a, 1); op_incage(id, a); }
    else if (op == "replace")
    { const index_t i = rd.u(); const category_t c = rd.u(); const i_mep a(read_ind(rd, si)); fit(a, 1);
      const locus l{i, c};
      const gene g = i + 1 < a.size() ? gene(si.prob.sset.roulette(c), i + 1, a.size())
                                      : gene(si.prob.sset.roulette_terminal(c));
      op_replace(id, a, l, g, false, true); }
    else
      throw std::runtime_error("replay: unsupported op " + op);
  }
};

}  // namespace

int main(int argc, char **argv)
{
  log::reporting_level = log::lOFF;
  std::ios::sync_with_stdio(false);
  const std::string mode = argc > 1 ? argv[1] : "";
  build_sets((mode == "sets" || mode == "run" || mode == "replay") && argc > 2 ? std::stoull(argv[2]) : 0);
  for (unsigned id = 0; id < NSETS; ++id)
    if (!sets[id]->prob.sset.is_valid() || sets[id]->syms.size() >= MAXSYMS)
    {
      std::cerr << "c02_ops: symbol set " << id << " is not usable (harness bug)\n";
      return 3;
    }

  if (mode == "sets")
  {
    for (unsigned id = 0; id < NSETS; ++id) std::cout << ss_line(id) << "\n";
    return 0;
  }
  if (mode == "run" && argc >= 5)
  {
    const std::uint64_t seed = std::stoull(argv[2]);
    const unsigned first = unsigned(std::stoul(argv[3])), last = unsigned(std::stoul(argv[4]));
    runner r;
    for (unsigned k = first; k < last; ++k) r.run_scenario(seed, k);
    std::cout << "E " << last << "\n";
    return 0;
  }
  if (mode == "replay" && argc >= 3)
  {
    // requests on stdin, each executed `reps` times with different seeds of vita's generator
    const std::uint64_t seed = std::stoull(argv[2]);
    const unsigned reps = argc > 3 ? unsigned(std::stoul(argv[3])) : 1;
    runner r;
    std::string line;
    unsigned k = 0;
    while (std::getline(std::cin, line))
    {
      if (line.empty() || line[0] == '#') continue;
      for (unsigned j = 0; j < reps; ++j)
      {
        r.scenario = k; r.opn = j;
        r.last_ok = true;
        watchdog(20);
        r.rng = verif::splitmix(seed * 7919ull + k * 131ull + j);
        vita::random::seed(unsigned(r.rng.next() & 0x7fffffff));
        try { r.replay_request(line); }
        catch (const std::exception &e) { std::cout << "X " << k << ' ' << e.what() << "\n"; }
      }
      ++k;
    }
    std::cout << "E " << k << "\n";
    return 0;
  }
  if (mode == "big")
  {
    // is a code length the environment accepts really usable?  (C++ oracle only: the lines
    // would be megabytes long)
    for (std::size_t len : {std::size_t(65535), std::size_t(65536), std::size_t(65537), std::size_t(70000)})
    {
      setinfo &si = *sets[0];
      si.prob.env.mep.code_length = len;
      si.prob.env.mep.patch_length = 1;
      const bool accepted = si.prob.env.is_valid(true);
      bool wf = true, valid = true;
      std::string why = "-";
      if (accepted)
      {
        vita::random::seed(7);
        const i_mep x(si.prob);
        oracle o{si};
        wf = o.wf(x);
        valid = x.is_valid();
        if (!o.why.empty()) why = o.why;
      }
      std::cout << "G len=" << len << " accepted=" << accepted << " wf=" << wf << " valid=" << valid
                << " why=" << why << "\n";
    }
    return 0;
  }
  if (mode == "weights")
  {
    // degenerate symbol sets: does the library's own validity check reject what random
    // construction cannot cope with (roulette needs a positive total weight)?
    struct wcase { const char *name; std::function<void(problem &)> build; };
    const std::vector<wcase> cases{
      {"terminals-all-zero-weight", [](problem &p) { symbol_factory f;
         p.sset.insert(std::make_unique<real::add>(cvect{0}));
         p.sset.insert(f.make("1.0", {0}), 0.0);
         p.sset.insert(f.make("2.0", {0}), 0.0); }},
      {"functions-all-zero-weight", [](problem &p) { symbol_factory f;
         p.sset.insert(std::make_unique<real::add>(cvect{0}), 0.0);
         p.sset.insert(f.make("1.0", {0})); }},
      {"category-gap", [](problem &p) { symbol_factory f;
         p.sset.insert(f.make("1.0", {0}));
         p.sset.insert(std::make_unique<real::add>(cvect{0}));
         p.sset.insert(f.make("apple", {2})); }},
      {"category-without-terminals", [](problem &p) { symbol_factory f;
         p.sset.insert(f.make("1.0", {0}));
         p.sset.insert(std::make_unique<real::add>(cvect{0}));
         p.sset.insert(std::make_unique<real::gt>(cvect{0, 1})); }},   // (r, r) -> category 1, no terminal there
      {"one-zero-weight-terminal-among-others", [](problem &p) { symbol_factory f;
         p.sset.insert(f.make("1.0", {0}), 0.0);
         p.sset.insert(f.make("2.0", {0}));
         p.sset.insert(std::make_unique<real::add>(cvect{0})); }}};
    const std::size_t only = argc > 2 ? std::stoul(argv[2]) : cases.size();   // one case per process
    for (std::size_t ci = 0; ci < cases.size(); ++ci)
    {
      if (only != cases.size() && ci != only) continue;
      const auto &c = cases[ci];
      auto si = std::make_unique<setinfo>();
      si->prob.env.init();
      si->prob.env.mep.code_length = 8;
      si->prob.env.mep.patch_length = 2;
      c.build(si->prob);
      for (opcode_t o = 0; o < 100000 && si->syms.size() < 64; ++o)
        if (const symbol *s = si->prob.sset.decode(o)) si->syms.push_back(s);
      const bool accepted = si->prob.sset.is_valid() && si->prob.is_valid();
      std::cout << "W " << c.name << " accepted=" << accepted << std::flush;
      bool wf = true;
      std::string why = "-";
      if (accepted)
        for (unsigned k = 0; k < 200 && wf; ++k)
        {
          vita::random::seed(k + 1);
          const i_mep x(si->prob);
          oracle o{*si};
          wf = o.wf(x);
          if (!o.why.empty()) why = o.why;
        }
      std::cout << " wf=" << wf << " why=" << why << "\n";
    }
    return 0;
  }
  std::cerr << "usage: c02_ops sets | run <seed> <first> <last> | replay <seed> [reps] < requests | big | weights\n";
  return 2;
}
