// C03 – where do opcodes come from, and what does the signature do with large ones?
//
// `symbol::opcode_` is drawn from ONE process-wide counter (`symbol::opc_count_++`, every symbol
// ever constructed), `i_mep::pack` hashes some bytes of it.  The theorems need "different symbols
// of one individual have different hashed opcode bytes".
//
//   c03_opcodes synthetic <log2 distance>
//       two non-parametric constant terminals A, B of one symbol set whose opcodes differ by
//       exactly 2^d (symbols are constructed and dropped in between); programs `A`, `B`,
//       `FADD(A, X)`, `FADD(B, X)`:
//          pair <opA> <opB> | sigA d0 d1 | sigB d0 d1 | outA <bits> | outB <bits> | sigFA … | sigFB …
//   c03_opcodes csv <rows>
//       the public data path: a CSV with a text column of <rows> distinct labels through
//       `src_problem` (one constant<string> per label); reports the opcode range of the symbol
//       set and, for the first label L0 and the label whose opcode is opcode(L0) + 65536 (if any),
//       the signatures / outputs of the two one-terminal programs:
//          csv symbols <n> minop <a> maxop <b> | pair <opA> <opB> | sigA … | sigB … | outA <hex> | outB <hex>
#include "common/verif.h"

#include "kernel/vita.h"
#include "kernel/gp/src/constant.h"
#include "kernel/gp/src/interpreter.h"
#include "kernel/gp/src/problem.h"
#include "kernel/gp/src/variable.h"
#include "kernel/gp/src/primitive/factory.h"

#include <memory>

using namespace vita;

namespace
{
std::string u64(std::uint64_t v) { return std::to_string(v); }
std::string sig_s(const hash_t &h) { return u64(h.data[0]) + " " + u64(h.data[1]); }

std::string value_s(const value_t &v)
{
  switch (v.index())
  {
  case 0: return "void";
  case 1: return "int:" + std::to_string(std::get<D_INT>(v));
  case 2: return "dbl:" + u64(verif::bits(std::get<D_DOUBLE>(v)));
  default: return "str:" + verif::hex(std::get<D_STRING>(v));
  }
}

int synthetic(unsigned d)
{
  problem prob;
  prob.env.init();
  symbol_factory factory;
  auto &ss(prob.sset);
  symbol *x(ss.insert<variable>("X0", 0u, category_t(0)));
  symbol *add(ss.insert(factory.make("FADD", {0})));
  symbol *a(ss.insert<constant<double>>(1.5, category_t(0)));
  const std::uint64_t target(static_cast<std::uint64_t>(a->opcode()) + (std::uint64_t(1) << d));
  // every constructed symbol takes the next value of the process-wide counter
  for (;;)
  {
    const constant<double> burn(0.0, category_t(0));
    if (static_cast<std::uint64_t>(burn.opcode()) + 1 >= target) break;
  }
  symbol *b(ss.insert<constant<double>>(7.25, category_t(0)));
  if (b->opcode() != target)
  {
    std::cout << "fail counter: expected opcode " << target << " got " << b->opcode() << "\n";
    return 2;
  }
  const std::vector<index_t> none;
  const i_mep pa({{{a, none}}}), pb({{{b, none}}});
  const i_mep fa({{{add, {1, 2}}}, {{a, none}}, {{x, none}}}), fb({{{add, {1, 2}}}, {{b, none}}, {{x, none}}});
  const std::vector<value_t> in{value_t(2.0)};
  std::cout << "pair " << a->opcode() << " " << b->opcode()
            << " | sigA " << sig_s(pa.signature()) << " | sigB " << sig_s(pb.signature())
            << " | outA " << value_s(run(pa, in)) << " | outB " << value_s(run(pb, in))
            << " | sigFA " << sig_s(fa.signature()) << " | sigFB " << sig_s(fb.signature())
            << " | outFA " << value_s(run(fa, in)) << " | outFB " << value_s(run(fb, in))
            << " | validA " << pa.is_valid() << " | validB " << pb.is_valid() << "\n";
  return 0;
}

int csv(unsigned rows)
{
  std::ostringstream o;
  for (unsigned i(0); i < rows; ++i)
    o << (i % 7) * 1.5 << ",\"L" << i << "\"," << (i % 11) << "\n";
  std::istringstream in(o.str());
  src_problem p(in);           // default symbols for the numeric category are added as well
  const auto &ss(p.sset);
  // the first label and a numeric terminal have small opcodes; the colliding label is found by
  // a single decode (decode is a linear search)
  const symbol *a(nullptr), *num(nullptr);
  for (opcode_t op(0); op < 64 && !(a && num); ++op)
    if (const symbol *s = ss.decode(op))
    {
      if (!a && s->terminal() && s->name().find("L0") != std::string::npos && s->name().size() <= 6) a = s;
      if (!num && s->terminal() && s->category() == 0) num = s;
    }
  for (opcode_t op(rows); op < rows + 64 && !num; ++op)
    if (const symbol *s = ss.decode(op))
      if (s->terminal() && s->category() == 0) num = s;
  std::cout << "csv rows " << rows << " categories " << ss.categories();
  for (category_t c(0); c < ss.categories(); ++c)
    std::cout << " terminals" << c << " " << ss.terminals(c);
  const symbol *b(a ? ss.decode(a->opcode() + (rows > 65536u ? 65536u : 256u)) : nullptr);
  std::cout << " first_label_opcode " << (a ? static_cast<long>(a->opcode()) : -1L);
  if (a && b && num && b->terminal() && b->category() == a->category())
  {
    const auto prog = [&](const symbol *s)
    {
      std::ostringstream t;
      t << "0\n1 " << ss.categories() << "\n";
      for (category_t c(0); c < ss.categories(); ++c)
        t << (c == s->category() ? s->opcode() : num->opcode()) << "\n";
      t << "0 " << s->category() << "\n";
      std::istringstream ti(t.str());
      i_mep m;
      if (!m.load(ti, ss)) throw std::runtime_error("cannot build the one-terminal program");
      return m;
    };
    const i_mep pa(prog(a)), pb(prog(b));
    const std::vector<value_t> ex{value_t(std::string("x")), value_t(1.0)};
    std::cout << " | pair " << a->opcode() << " " << b->opcode() << " names " << verif::hex(a->name()) << " "
              << verif::hex(b->name())
              << " | sigA " << sig_s(pa.signature()) << " | sigB " << sig_s(pb.signature())
              << " | outA " << value_s(run(pa, ex)) << " | outB " << value_s(run(pb, ex))
              << " | validA " << pa.is_valid() << " | validB " << pb.is_valid();
  }
  std::cout << "\n";
  return 0;
}
}  // namespace

int main(int argc, char *argv[])
{
  log::reporting_level = log::lOFF;
  const std::string mode(argc > 1 ? argv[1] : "");
  try
  {
    if (mode == "synthetic" && argc >= 3) return synthetic(static_cast<unsigned>(std::stoul(argv[2])));
    if (mode == "csv" && argc >= 3) return csv(static_cast<unsigned>(std::stoul(argv[2])));
  }
  catch (const std::exception &e)
  {
    std::cout << "fail " << e.what() << "\n";
    return 2;
  }
  std::cout << "usage: c03_opcodes synthetic <d> | csv <rows>\n";
  return 2;
}
