// C03 correspondence harness: signatures of real individuals / teams.
//
// Line protocol (stdin, one request per line; one answer line per request).  The first
// request must be `setup <problem> <seed>` (problem 1: one category of reals, problem 2:
// two categories, reals + strings).  Objects live in numbered slots, one table per kind.
//
//   symtab                                   -> sym <opcode> <category> <parametric> <argcat>*  ; ...
//   mep new S | build S <rows> <cols> <bi> <bc> <gene>* | sig S | copy D S | assign D S
//       mutate S <pgm‰> | xover D A B | getblock D S <i> <c> | replace D S <i> <c> <gene>
//       replacebest D S <gene> | destroy D S <i> | cse D S | iter S <k> <gene>
//       load D S | loadbad D S <cut> | run S <bits>*
//   ga  new S | sig S | copy D S | set S <i> <v> | iter S <i> <v> | iterend S <v> | mutate S <pgm‰>
//       xover D A B | load D S | loadbad D S <cut>
//   de  (as ga, values are 64-bit patterns) + assign S <bits>* | xover D P A B C <p‰>
//   team new S | fromvec S <mep slot>* | sig S | copy D S | mutate S <pgm‰> | xover D A B
//        load D S | loadbad D S <cut>
//   murmur <hex>                             -> hash128 of the bytes
//   combine <a0> <a1> <h0> <h1>              -> hash_t(a0, a1).combine(hash_t(h0, h1))
//
// <gene> = <opcode>:<parameter bits>:<arg>,<arg>…  (`-` for no arguments)
//
// Every answer for an object is
//   ok <content> | sig <d0> <d1> | fresh <d0> <d1> | valid <0/1> [| extra]
// where <content> is the canonical serialisation read through the public const interface,
// `sig` is what signature() of (a copy of) the object reports now, and `fresh` is the
// signature of an equal object rebuilt from scratch (own text serialisation -> load() into
// a default constructed object): the harness's own oracle for "never stale".
#include "common/verif.h"

#include "kernel/vita.h"
#include "kernel/ga/i_de.h"
#include "kernel/ga/i_ga.h"
#include "kernel/ga/problem.h"
#include "kernel/gp/src/variable.h"
#include "kernel/gp/src/interpreter.h"
#include "kernel/gp/src/primitive/factory.h"
#include "kernel/gp/src/primitive/real.h"
#include "kernel/gp/team.h"

#include <iomanip>
#include <utility>
#include <map>
#include <memory>

using namespace vita;

namespace
{
problem prob;
std::unique_ptr<ga_problem> gaprob_p;
std::unique_ptr<de_problem> deprob_p;
#define gaprob (*gaprob_p)
#define deprob (*deprob_p)
symbol_factory factory;
unsigned n_vars = 0;

std::map<int, i_mep> meps;
std::map<int, i_ga> gas;
std::map<int, i_de> des;
std::map<int, team<i_mep>> teams;

std::string u64(std::uint64_t v) { return std::to_string(v); }

std::string sig_s(const hash_t &h) { return u64(h.data[0]) + " " + u64(h.data[1]); }

gene parse_gene(const std::string &s)
{
  // opcode:parbits:args
  const auto p1(s.find(':')), p2(s.find(':', p1 + 1));
  gene g;
  g.sym = prob.sset.decode(static_cast<opcode_t>(std::stoul(s.substr(0, p1))));
  if (!g.sym) throw std::runtime_error("unknown opcode");
  g.par = verif::from_bits(std::stoull(s.substr(p1 + 1, p2 - p1 - 1)));
  const std::string a(s.substr(p2 + 1));
  std::vector<gene::packed_index_t> args;
  if (a != "-")
  {
    std::istringstream ss(a);
    std::string w;
    while (std::getline(ss, w, ','))
      args.push_back(static_cast<gene::packed_index_t>(std::stoul(w)));
  }
  g.args = gene::arg_pack(args.size());
  for (std::size_t i(0); i < args.size(); ++i) g.args[i] = args[i];
  return g;
}

std::string gene_s(const gene &g)
{
  std::string r(std::to_string(g.sym->opcode()) + ":");
  const bool par(g.sym->arity() == 0 && terminal::cast(g.sym)->parametric());
  r += par ? u64(verif::bits(g.par)) : "0";
  r += ":";
  if (g.args.size() == 0) r += "-";
  for (std::size_t i(0); i < g.args.size(); ++i)
    r += (i ? "," : "") + std::to_string(g.args[i]);
  return r;
}

// ---- i_mep -------------------------------------------------------------------------
std::string mep_content(const i_mep &m)
{
  std::string r("mep " + std::to_string(m.size()) + " " + std::to_string(m.categories()));
  if (m.empty()) return r + " 0 0";
  r += " " + std::to_string(m.best().index) + " " + std::to_string(m.best().category);
  for (index_t i(0); i < m.size(); ++i)
    for (category_t c(0); c < m.categories(); ++c)
      r += " " + gene_s(m[{i, c}]);
  return r;
}

bool par_gene(const gene &g)
{
  return g.sym->terminal() && terminal::cast(g.sym)->parametric();
}

// own text serialisation in the format load() reads (exact parameters).  Text cannot carry
// inf / NaN: with `placeholder` such parameters are written as 0 (see mep_rebuild)
std::string mep_text(const i_mep &m, bool placeholder = false)
{
  std::ostringstream o;
  o << m.age() << '\n' << m.size() << ' ' << m.categories() << '\n';
  for (index_t i(0); i < m.size(); ++i)
    for (category_t c(0); c < m.categories(); ++c)
    {
      const gene &g(m[{i, c}]);
      o << g.sym->opcode();
      if (par_gene(g))
        o << ' ' << std::setprecision(17)
          << (placeholder && !std::isfinite(g.par) ? 0.0 : g.par);
      for (std::size_t a(0); a < g.args.size(); ++a) o << ' ' << g.args[a];
      o << '\n';
    }
  if (!m.empty()) o << m.best().index << ' ' << m.best().category << '\n';
  return o.str();
}

bool mep_rebuild(const i_mep &m, i_mep *out)
{
  bool finite(true);
  for (index_t i(0); i < m.size(); ++i)
    for (category_t c(0); c < m.categories(); ++c)
      finite = finite && (!par_gene(m[{i, c}]) || std::isfinite(m[{i, c}].par));

  std::istringstream in(mep_text(m, !finite));
  i_mep f;
  if (!f.load(in, prob.sset)) return false;
  if (!finite)   // non-finite parameters are installed gene by gene in the fresh object
    for (index_t i(0); i < m.size(); ++i)
      for (category_t c(0); c < m.categories(); ++c)
        if (par_gene(m[{i, c}]) && !std::isfinite(m[{i, c}].par))
          f = f.replace({i, c}, m[{i, c}]);
  *out = f;
  return true;
}

std::string mep_answer(const i_mep &m, const std::string &extra = "")
{
  const i_mep observed(m);            // signature() must not disturb the object under test
  i_mep fresh;
  std::string r("ok " + mep_content(m) + " | sig " + sig_s(observed.signature()));
  if (mep_rebuild(m, &fresh))
    r += " | fresh " + sig_s(fresh.signature());
  else
    r += " | fresh ? ?";
  r += std::string(" | valid ") + (m.is_valid() ? "1" : "0");
  if (!extra.empty()) r += " | " + extra;
  return r;
}

std::string value_s(const value_t &v)
{
  switch (v.index())
  {
  case 0: return "void";
  case 1: return "int:" + std::to_string(std::get<D_INT>(v));
  case 2: return "dbl:" + u64(verif::bits(std::get<D_DOUBLE>(v)));
  default: return "str:" + verif::hex(std::get<D_STRING>(v));
  }
}

// ---- i_ga / i_de -------------------------------------------------------------------
std::string ga_content(const i_ga &g)
{
  std::string r("ga " + std::to_string(g.parameters()));
  for (std::size_t i(0); i < g.parameters(); ++i)
    r += " " + std::to_string(static_cast<std::uint32_t>(std::as_const(g)[i]));
  return r;
}

std::string ga_text(const i_ga &g)
{
  std::ostringstream o;
  o << g.age() << '\n' << g.parameters() << '\n';
  for (std::size_t i(0); i < g.parameters(); ++i) o << std::as_const(g)[i] << '\n';
  return o.str();
}

std::string ga_answer(const i_ga &g, const std::string &extra = "")
{
  const i_ga observed(g);
  std::istringstream in(ga_text(g));
  i_ga fresh;
  const bool ok(fresh.load(in));
  std::string r("ok " + ga_content(g) + " | sig " + sig_s(observed.signature()));
  r += ok ? " | fresh " + sig_s(fresh.signature()) : std::string(" | fresh ? ?");
  r += std::string(" | valid ") + (g.is_valid() ? "1" : "0");
  if (!extra.empty()) r += " | " + extra;
  return r;
}

std::string de_content(const i_de &g)
{
  std::string r("de " + std::to_string(g.parameters()));
  for (std::size_t i(0); i < g.parameters(); ++i)
    r += " " + u64(verif::bits(std::as_const(g)[i]));
  return r;
}

std::string de_text(const i_de &g)
{
  std::ostringstream o;
  o << g.age() << '\n' << g.parameters() << '\n';
  for (std::size_t i(0); i < g.parameters(); ++i)
    o << std::setprecision(17) << std::as_const(g)[i] << '\n';
  return o.str();
}

std::string de_answer(const i_de &g, const std::string &extra = "")
{
  const i_de observed(g);
  std::istringstream in(de_text(g));
  i_de fresh;
  bool ok(fresh.load(in));
  bool finite(true);
  for (std::size_t i(0); i < g.parameters(); ++i)
    finite = finite && std::isfinite(std::as_const(g)[i]);
  if (!finite)   // text cannot carry inf / nan: element-wise construction instead
  {
    fresh = i_de(deprob);
    for (std::size_t i(0); i < g.parameters(); ++i) fresh[i] = std::as_const(g)[i];
    ok = fresh.parameters() == g.parameters();
  }
  std::string r("ok " + de_content(g) + " | sig " + sig_s(observed.signature()));
  r += ok ? " | fresh " + sig_s(fresh.signature()) : std::string(" | fresh ? ?");
  r += std::string(" | valid ") + (g.is_valid() ? "1" : "0");
  if (!extra.empty()) r += " | " + extra;
  return r;
}

// ---- team --------------------------------------------------------------------------
std::string team_content(const team<i_mep> &t)
{
  std::string r("team " + std::to_string(t.individuals()));
  for (const auto &m : t) r += " ; " + mep_content(m);
  return r;
}

std::string team_text(const team<i_mep> &t)
{
  std::string r(std::to_string(t.individuals()) + "\n");
  for (const auto &m : t) r += mep_text(m);
  return r;
}

std::string team_answer(const team<i_mep> &t, const std::string &extra = "")
{
  const team<i_mep> observed(t);
  std::string r("ok " + team_content(t) + " | sig " + sig_s(observed.signature()));
  // from scratch: fresh members (own serialisation), assembled by the vector constructor
  std::vector<i_mep> ms;
  bool ok(true);
  for (const auto &m : t)
  {
    i_mep f;
    ok = ok && mep_rebuild(m, &f);
    ms.push_back(f);
  }
  if (ok)
  {
    const team<i_mep> fresh(ms);
    r += " | fresh " + sig_s(fresh.signature());
  }
  else
    r += " | fresh ? ?";
  r += std::string(" | valid ") + (t.is_valid() ? "1" : "0");
  if (!extra.empty()) r += " | " + extra;
  return r;
}

void setup(int id, unsigned seed)
{
  random::seed(seed);
  prob.env.init();
  prob.env.mep.code_length = id == 1 ? 12 : 10;
  prob.env.mep.patch_length = 2;
  prob.env.team.individuals = 3;

  auto &ss(prob.sset);
  if (id == 1)
  {
    ss.insert<variable>("X0", 0u, category_t(0));
    ss.insert<variable>("X1", 1u, category_t(0));
    n_vars = 2;
    ss.insert<real::real>(cvect{0});                 // parametric, real valued
    ss.insert(factory.make("REAL", {0}));            // parametric, integer valued
    ss.insert(factory.make("1.5", {0}));
    ss.insert(factory.make("-2.0", {0}));
    for (const char *n : {"FADD", "FSUB", "FMUL", "FDIV", "FABS", "FSIN", "FLN", "FIFZ", "FMAX"})
      ss.insert(factory.make(n, {0}));
    ss.insert(factory.make("FIFL", {0, 0}));
    ss.insert(factory.make("FIFE", {0, 0}));
  }
  else
  {
    ss.insert<variable>("X0", 0u, category_t(0));
    n_vars = 1;
    ss.insert<real::real>(cvect{0});
    ss.insert(factory.make("2.0", {0}));
    for (const char *n : {"FADD", "FSUB", "FMUL", "FABS"})
      ss.insert(factory.make(n, {0}));
    ss.insert(factory.make("FIFE", {0, 0}));
    ss.insert(factory.make("FLENGTH", {1, 0}));
    ss.insert(factory.make("apple", {1}));
    ss.insert(factory.make("pear", {1}));
    ss.insert(factory.make("plum", {1}));
    ss.insert(factory.make("SIFE", {1, 0}));        // (string, string, real, real) -> real
    ss.insert(factory.make("SIFE", {1, 1}));        // (string, string, string, string) -> string
  }

  gaprob_p = std::make_unique<ga_problem>(6, range_t<int>{-100, 100});
  gaprob.env.init();
  deprob_p = std::make_unique<de_problem>(5, range_t<double>{-50.0, 50.0});
  deprob.env.init();
}

std::string symtab()
{
  std::string r;
  for (opcode_t op(0); op < 4096; ++op)
    if (const symbol *s = prob.sset.decode(op))
    {
      r += (r.empty() ? "sym " : " ; sym ") + std::to_string(op) + " " +
           std::to_string(s->category()) + " ";
      if (s->arity() == 0)
        r += terminal::cast(s)->parametric() ? "1" : "0";
      else
      {
        r += "0";
        for (unsigned i(0); i < s->arity(); ++i)
          r += " " + std::to_string(function::cast(s)->arg_category(i));
      }
    }
  return r;
}

template<class M> typename M::mapped_type &at(M &m, const std::string &k)
{
  auto it(m.find(std::stoi(k)));
  if (it == m.end()) throw std::runtime_error("empty slot " + k);
  return it->second;
}

std::string cut_text(const std::string &t, const std::string &cut)
{
  // keep the first <cut>‰ of the characters (truncation in the middle of the data)
  const auto n(t.size() * std::stoul(cut) / 1000);
  return t.substr(0, n);
}

std::string handle(const std::vector<std::string> &t)
{
  const std::string &k(t[0]);
  if (k == "symtab") return symtab();
  if (k == "murmur")
  {
    const std::string b(verif::unhex(t.at(1)));
    return sig_s(vita::hash::hash128(b.data(), b.size()));
  }
  if (k == "combine")   // hash_t(a0, a1).combine(hash_t(h0, h1))
  {
    hash_t a(std::stoull(t.at(1)), std::stoull(t.at(2)));
    a.combine(hash_t(std::stoull(t.at(3)), std::stoull(t.at(4))));
    return sig_s(a);
  }
  const std::string &op(t.at(1));
  const auto pgm = [&](const std::string &s) { return std::stoul(s) / 1000.0; };

  if (k == "mep")
  {
    const int d(std::stoi(t.at(2)));
    if (op == "new") { meps[d] = i_mep(prob); return mep_answer(meps[d]); }
    if (op == "build")
    {
      std::ostringstream o;
      const auto rows(std::stoul(t.at(3))), cols(std::stoul(t.at(4)));
      o << "0\n" << rows << ' ' << cols << '\n';
      for (std::size_t i(0); i < rows * cols; ++i)
      {
        const gene g(parse_gene(t.at(7 + i)));
        o << g.sym->opcode();
        if (g.sym->terminal() && terminal::cast(g.sym)->parametric())
          o << ' ' << std::setprecision(17) << g.par;
        for (std::size_t a(0); a < g.args.size(); ++a) o << ' ' << g.args[a];
        o << '\n';
      }
      o << t.at(5) << ' ' << t.at(6) << '\n';
      std::istringstream in(o.str());
      i_mep f;
      if (!f.load(in, prob.sset)) return "fail build";
      meps[d] = f;
      return mep_answer(meps[d]);
    }
    if (op == "sig") { auto &m(at(meps, t[2])); (void)m.signature(); return mep_answer(m); }
    if (op == "copy") { const i_mep c(at(meps, t.at(3))); meps.erase(d); meps.emplace(d, c); return mep_answer(meps[d]); }
    if (op == "assign") { const i_mep &s(at(meps, t.at(3))); meps[d] = s; return mep_answer(meps[d]); }
    if (op == "mutate")
    {
      auto &m(at(meps, t[2]));
      const unsigned n(m.mutation(pgm(t.at(3)), prob));
      return mep_answer(m, "n " + std::to_string(n));
    }
    if (op == "xover")
    {
      const i_mep r(crossover(at(meps, t.at(3)), at(meps, t.at(4))));
      meps[d] = r;
      return mep_answer(meps[d]);
    }
    if (op == "getblock")
    {
      const i_mep r(at(meps, t.at(3)).get_block({std::stoul(t.at(4)), std::stoul(t.at(5))}));
      meps[d] = r;
      return mep_answer(meps[d]);
    }
    if (op == "replace")
    {
      const i_mep r(at(meps, t.at(3)).replace({std::stoul(t.at(4)), std::stoul(t.at(5))},
                                              parse_gene(t.at(6))));
      meps[d] = r;
      return mep_answer(meps[d]);
    }
    if (op == "replacebest")
    {
      const i_mep r(at(meps, t.at(3)).replace(parse_gene(t.at(4))));
      meps[d] = r;
      return mep_answer(meps[d]);
    }
    if (op == "destroy")
    {
      const i_mep r(at(meps, t.at(3)).destroy_block(std::stoul(t.at(4)), prob.sset));
      meps[d] = r;
      return mep_answer(meps[d]);
    }
    if (op == "cse")
    {
      const i_mep r(at(meps, t.at(3)).cse());
      meps[d] = r;
      return mep_answer(meps[d]);
    }
    if (op == "iter")
    {
      // write through the public non-const iterator: the k-th active gene (mod count)
      auto &m(at(meps, t[2]));
      const auto n(std::as_const(m).active_symbols());
      auto k(std::stoul(t.at(3)) % n);
      auto it(m.begin());
      while (k--) ++it;
      *it = parse_gene(t.at(4));
      return mep_answer(m);
    }
    if (op == "load")
    {
      std::istringstream in(mep_text(at(meps, t.at(3))));
      auto &m(meps[d]);
      const bool ok(m.load(in, prob.sset));
      return mep_answer(m, std::string("loaded ") + (ok ? "1" : "0"));
    }
    if (op == "loadbad")
    {
      std::istringstream in(cut_text(mep_text(at(meps, t.at(3))), t.at(4)));
      auto &m(meps[d]);
      const bool ok(m.load(in, prob.sset));
      return mep_answer(m, std::string("loaded ") + (ok ? "1" : "0"));
    }
    if (op == "run")
    {
      std::vector<value_t> ex;
      for (unsigned i(0); i < n_vars; ++i)
        ex.emplace_back(verif::from_bits(std::stoull(t.at(3 + i))));
      const auto &m(at(meps, t[2]));
      return "ok " + value_s(run(m, ex)) + " | sig " + sig_s(i_mep(m).signature());
    }
    return "bad-op";
  }

  if (k == "ga")
  {
    const int d(std::stoi(t.at(2)));
    if (op == "new") { gas[d] = i_ga(gaprob); return ga_answer(gas[d]); }
    if (op == "sig") { auto &g(at(gas, t[2])); (void)g.signature(); return ga_answer(g); }
    if (op == "copy") { const i_ga c(at(gas, t.at(3))); gas.erase(d); gas.emplace(d, c); return ga_answer(gas[d]); }
    if (op == "set")
    {
      auto &g(at(gas, t[2]));
      g[std::stoul(t.at(3)) % g.parameters()] = std::stoi(t.at(4));
      return ga_answer(g);
    }
    if (op == "iter")
    {
      auto &g(at(gas, t[2]));
      *(g.begin() + std::stoul(t.at(3)) % g.parameters()) = std::stoi(t.at(4));
      return ga_answer(g);
    }
    if (op == "iterend")
    {
      auto &g(at(gas, t[2]));
      *(g.end() - 1) = std::stoi(t.at(3));
      return ga_answer(g);
    }
    if (op == "mutate")
    {
      auto &g(at(gas, t[2]));
      const unsigned n(g.mutation(pgm(t.at(3)), gaprob));
      return ga_answer(g, "n " + std::to_string(n));
    }
    if (op == "xover")
    {
      const i_ga r(crossover(at(gas, t.at(3)), at(gas, t.at(4))));
      gas[d] = r;
      return ga_answer(gas[d]);
    }
    if (op == "load" || op == "loadbad")
    {
      const std::string txt(ga_text(at(gas, t.at(3))));
      std::istringstream in(op == "load" ? txt : cut_text(txt, t.at(4)));
      auto &g(gas[d]);
      const bool ok(g.load(in));
      return ga_answer(g, std::string("loaded ") + (ok ? "1" : "0"));
    }
    return "bad-op";
  }

  if (k == "de")
  {
    const int d(std::stoi(t.at(2)));
    if (op == "new") { des[d] = i_de(deprob); return de_answer(des[d]); }
    if (op == "sig") { auto &g(at(des, t[2])); (void)g.signature(); return de_answer(g); }
    if (op == "copy") { const i_de c(at(des, t.at(3))); des.erase(d); des.emplace(d, c); return de_answer(des[d]); }
    if (op == "set")
    {
      auto &g(at(des, t[2]));
      g[std::stoul(t.at(3)) % g.parameters()] = verif::from_bits(std::stoull(t.at(4)));
      return de_answer(g);
    }
    if (op == "iter")
    {
      auto &g(at(des, t[2]));
      *(g.begin() + std::stoul(t.at(3)) % g.parameters()) = verif::from_bits(std::stoull(t.at(4)));
      return de_answer(g);
    }
    if (op == "iterend")
    {
      auto &g(at(des, t[2]));
      *(g.end() - 1) = verif::from_bits(std::stoull(t.at(3)));
      return de_answer(g);
    }
    if (op == "assign")
    {
      auto &g(at(des, t[2]));
      std::vector<double> v;
      for (std::size_t i(0); i < g.parameters(); ++i)
        v.push_back(verif::from_bits(std::stoull(t.at(3 + i))));
      g = v;
      return de_answer(g);
    }
    if (op == "xover")
    {
      const range_t<double> f(0.4, 0.9);
      const i_de r(at(des, t.at(3)).crossover(pgm(t.at(7)), f, at(des, t.at(4)), at(des, t.at(5)),
                                              at(des, t.at(6))));
      des[d] = r;
      return de_answer(des[d]);
    }
    if (op == "load" || op == "loadbad")
    {
      const std::string txt(de_text(at(des, t.at(3))));
      std::istringstream in(op == "load" ? txt : cut_text(txt, t.at(4)));
      auto &g(des[d]);
      const bool ok(g.load(in));
      return de_answer(g, std::string("loaded ") + (ok ? "1" : "0"));
    }
    return "bad-op";
  }

  if (k == "team")
  {
    const int d(std::stoi(t.at(2)));
    if (op == "new") { teams[d] = team<i_mep>(prob); return team_answer(teams[d]); }
    if (op == "fromvec")
    {
      std::vector<i_mep> v;
      for (std::size_t i(3); i < t.size(); ++i) v.push_back(at(meps, t[i]));
      teams[d] = team<i_mep>(v);
      return team_answer(teams[d]);
    }
    if (op == "sig") { auto &g(at(teams, t[2])); (void)g.signature(); return team_answer(g); }
    if (op == "copy") { const team<i_mep> c(at(teams, t.at(3))); teams.erase(d); teams.emplace(d, c); return team_answer(teams[d]); }
    if (op == "mutate")
    {
      auto &g(at(teams, t[2]));
      const unsigned n(g.mutation(pgm(t.at(3)), prob));
      return team_answer(g, "n " + std::to_string(n));
    }
    if (op == "xover")
    {
      const team<i_mep> r(crossover(at(teams, t.at(3)), at(teams, t.at(4))));
      teams[d] = r;
      return team_answer(teams[d]);
    }
    if (op == "load" || op == "loadbad")
    {
      const std::string txt(team_text(at(teams, t.at(3))));
      std::istringstream in(op == "load" ? txt : cut_text(txt, t.at(4)));
      auto &g(teams[d]);
      const bool ok(g.load(in, prob.sset));
      return team_answer(g, std::string("loaded ") + (ok ? "1" : "0"));
    }
    return "bad-op";
  }
  return "bad-op";
}
}  // namespace

int main()
{
  log::reporting_level = log::lOFF;
  std::string line;
  bool ready(false);
  while (std::getline(std::cin, line))
  {
    const auto t(verif::split(line));
    if (t.empty()) { std::cout << "bad-op\n"; continue; }
    try
    {
      if (t[0] == "setup")
      {
        setup(std::stoi(t.at(1)), static_cast<unsigned>(std::stoul(t.at(2))));
        ready = true;
        std::cout << "ok setup\n";
      }
      else if (!ready)
        std::cout << "bad-op\n";
      else
        std::cout << handle(t) << "\n";
    }
    catch (const std::exception &e)
    {
      std::cout << "fail " << e.what() << "\n";
    }
    std::cout.flush();
  }
  return 0;
}
