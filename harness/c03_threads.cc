// C03 – signatures computed on several threads for DIFFERENT individuals do not interfere.
//
//   c03_threads handshake <seed> <trials>
//       Deterministic, race free interleavings.  The symbol set contains two user defined
//       terminals whose `parametric()` is a scheduling point: i_mep::pack looks at it right after
//       having pushed the opcode of the terminal.  Thread A computes the signature of its own
//       individual (i_mep or team); at its k-th scheduling point it starts thread B, which
//       computes a whole signature of ANOTHER individual, and joins it (every access is ordered:
//       well defined with any implementation).  For every k both threads must obtain the
//       signature a single thread computes for their individual.
//   c03_threads pair <k>            (stdin: two `mep …` lines)   replay of one interleaving
//   c03_threads free <seed> <threads> <iterations>
//       free running threads, each one hashing copies of its own i_mep / team / i_ga / i_de
//       objects; run under TSan (any data race aborts, exit code 97) and under ASan.
//
// Output: one line `ok …` or lines `FAIL …` (then exit status 1).
#include "common/verif.h"

#include "kernel/vita.h"
#include "kernel/ga/i_de.h"
#include "kernel/ga/i_ga.h"
#include "kernel/ga/problem.h"
#include "kernel/gp/src/variable.h"
#include "kernel/gp/src/primitive/factory.h"
#include "kernel/gp/src/primitive/real.h"
#include "kernel/gp/team.h"

#include <atomic>
#include <functional>
#include <iomanip>
#include <memory>
#include <thread>

using namespace vita;

namespace
{
// ---- scheduling points ------------------------------------------------------------------
std::atomic<bool> sched_enabled(false);
thread_local std::function<void()> *sched_hook = nullptr;   // per thread: what to do at a point

void sched_point()
{
  if (sched_enabled.load(std::memory_order_relaxed) && sched_hook)
    (*sched_hook)();
}

class sched_terminal final : public terminal
{
public:
  sched_terminal(const std::string &n, bool par) : terminal(n, 0), par_(par) {}
  bool parametric() const override { sched_point(); return par_; }
  terminal_param_t init() const override { return random::between(-10.0, 10.0); }
  value_t eval(symbol_params &) const override { return 1.0; }
private:
  bool par_;
};

problem prob;
std::unique_ptr<ga_problem> gaprob;
std::unique_ptr<de_problem> deprob;
symbol_factory factory;

std::string u64(std::uint64_t v) { return std::to_string(v); }
std::string sig_s(const hash_t &h) { return u64(h.data[0]) + " " + u64(h.data[1]); }

bool par_gene(const gene &g) { return g.sym->terminal() && terminal::cast(g.sym)->parametric(); }

std::string gene_s(const gene &g)
{
  std::string r(std::to_string(g.sym->opcode()) + ":");
  r += par_gene(g) ? u64(verif::bits(g.par)) : "0";
  r += ":";
  if (g.args.size() == 0) r += "-";
  for (std::size_t i(0); i < g.args.size(); ++i)
    r += (i ? "," : "") + std::to_string(g.args[i]);
  return r;
}

std::string mep_content(const i_mep &m)
{
  std::string r("mep " + std::to_string(m.size()) + " " + std::to_string(m.categories()));
  r += " " + std::to_string(m.best().index) + " " + std::to_string(m.best().category);
  for (index_t i(0); i < m.size(); ++i)
    for (category_t c(0); c < m.categories(); ++c)
      r += " " + gene_s(m[{i, c}]);
  return r;
}

std::string team_content(const team<i_mep> &t)
{
  std::string r("team " + std::to_string(t.individuals()));
  for (const auto &m : t) r += " ; " + mep_content(m);
  return r;
}

// `mep <rows> <cols> <bi> <bc> <gene>*` -> individual (through load(), as harness c03_sig does)
bool mep_parse(const std::vector<std::string> &t, i_mep *out)
{
  std::ostringstream o;
  const auto rows(std::stoul(t.at(1))), cols(std::stoul(t.at(2)));
  o << "0\n" << rows << ' ' << cols << '\n';
  for (std::size_t i(0); i < rows * cols; ++i)
  {
    const std::string &s(t.at(5 + i));
    const auto p1(s.find(':')), p2(s.find(':', p1 + 1));
    const symbol *sym(prob.sset.decode(static_cast<opcode_t>(std::stoul(s.substr(0, p1)))));
    if (!sym) return false;
    o << sym->opcode();
    if (sym->terminal() && terminal::cast(sym)->parametric())
      o << ' ' << std::setprecision(17) << verif::from_bits(std::stoull(s.substr(p1 + 1, p2 - p1 - 1)));
    const std::string a(s.substr(p2 + 1));
    if (a != "-")
    {
      std::istringstream ss(a);
      std::string w;
      while (std::getline(ss, w, ',')) o << ' ' << w;
    }
    o << '\n';
  }
  o << t.at(3) << ' ' << t.at(4) << '\n';
  std::istringstream in(o.str());
  i_mep f;
  if (!f.load(in, prob.sset)) return false;
  *out = f;
  return true;
}

void setup(unsigned seed)
{
  random::seed(seed);
  prob.env.init();
  prob.env.mep.code_length = 14;
  prob.env.mep.patch_length = 3;
  prob.env.team.individuals = 3;
  auto &ss(prob.sset);
  ss.insert<variable>("X0", 0u, category_t(0));
  ss.insert<real::real>(cvect{0});
  ss.insert(factory.make("1.5", {0}));
  for (const char *n : {"FADD", "FSUB", "FMUL", "FABS", "FIFZ"})
    ss.insert(factory.make(n, {0}));
  ss.insert<sched_terminal>("SCHED0", false);
  ss.insert<sched_terminal>("SCHED1", true);
  gaprob = std::make_unique<ga_problem>(9, range_t<int>{-100, 100});
  gaprob->env.init();
  deprob = std::make_unique<de_problem>(7, range_t<double>{-50.0, 50.0});
  deprob->env.init();
}

// ---- one deterministic interleaving -----------------------------------------------------
// A (this thread) computes `sig_a()`; at its k-th scheduling point thread B runs `sig_b()`.
// Returns the number of scheduling points A went through.
template<class FA, class FB>
unsigned interleave(FA sig_a, FB sig_b, long k, hash_t *got_a, hash_t *got_b, bool *b_ran)
{
  unsigned count(0);
  *b_ran = false;
  std::function<void()> hook([&]
  {
    if (static_cast<long>(count++) == k)
    {
      std::thread tb([&] { *got_b = sig_b(); });   // B has no hook: it runs to completion
      tb.join();
      *b_ran = true;
    }
  });
  sched_hook = &hook;
  sched_enabled = true;
  *got_a = sig_a();
  sched_enabled = false;
  sched_hook = nullptr;
  return count;
}

template<class TA, class TB>
unsigned try_pair(const TA &a, const TB &b, const std::string &ca, const std::string &cb, long only_k,
                  unsigned long *points)
{
  // reference: single thread, copies (the masters keep an empty cache)
  const hash_t ea(TA(a).signature()), eb(TB(b).signature());
  hash_t ga, gb;
  bool ran;
  unsigned fails(0);
  const unsigned n(interleave([&] { return TA(a).signature(); }, [&] { return TB(b).signature(); },
                              -1, &ga, &gb, &ran));
  if (ga != ea)
  {
    std::cout << "FAIL handshake k=-1 | A " << ca << " | expected " << sig_s(ea) << " | got " << sig_s(ga)
              << " | note signature() is not deterministic on one thread\n";
    return 1;
  }
  for (long k(0); k < static_cast<long>(n); ++k)
  {
    if (only_k >= 0 && k != only_k) continue;
    interleave([&] { return TA(a).signature(); }, [&] { return TB(b).signature(); }, k, &ga, &gb, &ran);
    ++*points;
    if (ran && (ga != ea || gb != eb))
    {
      std::cout << "FAIL handshake k=" << k << " | A " << ca << " | B " << cb
                << " | expectedA " << sig_s(ea) << " | gotA " << sig_s(ga)
                << " | expectedB " << sig_s(eb) << " | gotB " << sig_s(gb) << "\n";
      if (++fails >= 1) break;
    }
  }
  return fails;
}

int handshake(unsigned seed, unsigned trials)
{
  unsigned fails(0);
  unsigned long points(0), with_points(0);
  for (unsigned t(0); t < trials && fails < 3; ++t)
  {
    const unsigned long before(points);
    if (t % 3 == 2)
    {
      const team<i_mep> a(prob), b(prob);
      fails += try_pair(a, b, team_content(a), team_content(b), -1, &points);
    }
    else if (t % 3 == 1)
    {
      const i_mep a(prob);
      const team<i_mep> b(prob);
      fails += try_pair(a, b, mep_content(a), team_content(b), -1, &points);
    }
    else
    {
      const i_mep a(prob), b(prob);
      fails += try_pair(a, b, mep_content(a), mep_content(b), -1, &points);
    }
    with_points += points > before;
  }
  if (fails) return 1;
  std::cout << "ok handshake seed=" << seed << " trials=" << trials << " interleavings=" << points
            << " trials_with_points=" << with_points << "\n";
  return 0;
}

int pair_replay(long k)
{
  std::vector<std::vector<i_mep>> objs;
  std::vector<std::string> lines;
  std::string line;
  while (std::getline(std::cin, line) && lines.size() < 2)
    if (!line.empty()) lines.push_back(line);
  if (lines.size() != 2) { std::cout << "bad-input\n"; return 2; }
  for (const auto &l : lines)
  {
    // `mep …` or `team n ; mep … ; mep …`
    std::vector<i_mep> ms;
    std::istringstream ss(l);
    std::string part;
    while (std::getline(ss, part, ';'))
    {
      const auto t(verif::split(part));
      if (t.empty() || t[0] == "team") continue;
      i_mep m;
      if (t[0] != "mep" || !mep_parse(t, &m)) { std::cout << "bad-input\n"; return 2; }
      ms.push_back(m);
    }
    objs.push_back(ms);
  }
  unsigned long points(0);
  const bool ta(lines[0].rfind("team", 0) == 0), tb(lines[1].rfind("team", 0) == 0);
  unsigned f;
  if (ta && tb) f = try_pair(team<i_mep>(objs[0]), team<i_mep>(objs[1]), lines[0], lines[1], k, &points);
  else if (ta) f = try_pair(team<i_mep>(objs[0]), objs[1].at(0), lines[0], lines[1], k, &points);
  else if (tb) f = try_pair(objs[0].at(0), team<i_mep>(objs[1]), lines[0], lines[1], k, &points);
  else f = try_pair(objs[0].at(0), objs[1].at(0), lines[0], lines[1], k, &points);
  if (f) return 1;
  std::cout << "ok pair interleavings=" << points << "\n";
  return 0;
}

// ---- free running threads ---------------------------------------------------------------
int free_run(unsigned seed, unsigned n_threads, unsigned iters)
{
  struct own
  {
    std::vector<i_mep> meps; std::vector<team<i_mep>> teams; std::vector<i_ga> gas; std::vector<i_de> des;
    std::vector<hash_t> e_mep, e_team, e_ga, e_de;
  };
  std::vector<own> sets(n_threads);
  for (auto &s : sets)
    for (unsigned i(0); i < 6; ++i)
    {
      s.meps.emplace_back(prob);
      s.teams.emplace_back(prob);
      s.gas.emplace_back(*gaprob);
      s.des.emplace_back(*deprob);
      s.e_mep.push_back(i_mep(s.meps.back()).signature());
      s.e_team.push_back(team<i_mep>(s.teams.back()).signature());
      s.e_ga.push_back(i_ga(s.gas.back()).signature());
      s.e_de.push_back(i_de(s.des.back()).signature());
    }
  std::atomic<unsigned long> wrong(0), done(0);
  std::vector<std::string> msgs(n_threads);
  std::vector<std::thread> ths;
  for (unsigned t(0); t < n_threads; ++t)
    ths.emplace_back([&, t]
    {
      const own &s(sets[t]);
      for (unsigned it(0); it < iters; ++it)
      {
        const unsigned i(it % s.meps.size());
        bool bad(false);
        std::string what;
        if (i_mep(s.meps[i]).signature() != s.e_mep[i]) { bad = true; what = mep_content(s.meps[i]); }
        if (team<i_mep>(s.teams[i]).signature() != s.e_team[i]) { bad = true; what = team_content(s.teams[i]); }
        if (i_ga(s.gas[i]).signature() != s.e_ga[i]) { bad = true; what = "ga"; }
        if (i_de(s.des[i]).signature() != s.e_de[i]) { bad = true; what = "de"; }
        if (bad && !wrong++) msgs[t] = what;
        ++done;
      }
    });
  for (auto &th : ths) th.join();
  if (wrong)
  {
    for (const auto &m : msgs)
      if (!m.empty())
        std::cout << "FAIL free wrong=" << wrong << " of " << done * 4 << " | A " << m << "\n";
    return 1;
  }
  std::cout << "ok free seed=" << seed << " threads=" << n_threads << " signatures=" << done * 4 << "\n";
  return 0;
}
}  // namespace

int main(int argc, char *argv[])
{
  log::reporting_level = log::lOFF;
  const std::string mode(argc > 1 ? argv[1] : "");
  try
  {
    if (mode == "handshake" && argc >= 4)
    {
      setup(static_cast<unsigned>(std::stoul(argv[2])));
      return handshake(static_cast<unsigned>(std::stoul(argv[2])), static_cast<unsigned>(std::stoul(argv[3])));
    }
    if (mode == "pair" && argc >= 3)
    {
      setup(1);
      return pair_replay(std::stol(argv[2]));
    }
    if (mode == "free" && argc >= 5)
    {
      setup(static_cast<unsigned>(std::stoul(argv[2])));
      return free_run(static_cast<unsigned>(std::stoul(argv[2])), static_cast<unsigned>(std::stoul(argv[3])),
                      static_cast<unsigned>(std::stoul(argv[4])));
    }
  }
  catch (const std::exception &e)
  {
    std::cout << "fail " << e.what() << "\n";
    return 2;
  }
  std::cout << "usage: c03_threads handshake <seed> <trials> | pair <k> | free <seed> <threads> <iters>\n";
  return 2;
}
