// C04 correspondence harness: drives the real vita::cache and vita::evaluator_proxy with one
// operation per line (stdin) and answers one line per operation (stdout).  The same operations
// are executed by the Lean model (lean/Vita/C04/Driver.lean); checks/c04.py diffs the answers.
//
// Independently of the Lean model the harness carries the property's own oracle:
//   * table level: an abstract map "latest value stored under a key since the last clear";
//     a lookup must return nothing or exactly that value; a lookup right after a store of the same
//     key must return the stored value;
//   * proxy level: while the usage discipline holds, proxy(ind) must equal what the wrapped
//     evaluator returns when called directly now.
// Each answer to `find`/`peval` ends in `| ok`, `| n/a` or `| BAD <reason>`.
//
//   new <bits> <n> (<d0> <d1>)*n      -> new <class>*n   (slot classes OBSERVED on a scratch table, numbered in save order)
//   ins <i> <len> <w>*len | find <i> | clr | clrk <i> | reload | jump <seal>
//   dump                              -> dump s <seal> n <count> (k <d0> <d1> f <len> <w>*len)*   (tokens save() writes)
//   loadcut <p>                       -> loadcut 0|1 <tokens>   (save, keep the first p % of the tokens, load into a fresh table)
//   pnew <bits> <n> (<d0> <d1>)*n <m> (<keyidx> <fitclass>)*m  -> pnew <class>*n
//   peval <id> | pdata <d> | pclr | preload
//   wrapreal                          -> performs 2^32 real clear() calls (thorough tier)
#include "common/verif.h"

#include "kernel/vita.h"

#include <map>
#include <memory>
#include <optional>
#include <sstream>

namespace
{
using vita::fitness_t;
using vita::hash_t;
using words = std::vector<std::uint64_t>;

fitness_t to_fit(const words &w)
{
  fitness_t::values_t v;
  for (auto x : w) v.push_back(verif::from_bits(x));
  return fitness_t(v);
}

words to_words(const fitness_t &f)
{
  words w;
  for (std::size_t i(0); i < f.size(); ++i) w.push_back(verif::bits(f[i]));
  return w;
}

std::string show(const char *tag, const words &w)
{
  std::string s(tag);
  s += " " + std::to_string(w.size());
  for (auto x : w) s += " " + std::to_string(x);
  return s;
}

bool parse_u64(const std::string &t, std::uint64_t &out)
{
  if (t.empty() || t.size() > 20) return false;
  unsigned __int128 v = 0;
  for (char ch : t)
  {
    if (ch < '0' || ch > '9') return false;
    v = v * 10 + unsigned(ch - '0');
  }
  if (v > ~std::uint64_t(0)) return false;
  out = std::uint64_t(v);
  return true;
}

// the fitness the counting evaluator returns for fitness class `cls` on data version `d`
// (same definition as `fitOf` in the Lean driver)
words fit_of(std::uint64_t cls, std::uint64_t d)
{
  const auto len((cls * 7 + d * 3) % 5);
  words w;
  for (std::uint64_t j(0); j < len; ++j)
    w.push_back(0x4000000000000000ull + ((cls * 1000 + d) * 8 + j) * 1048576ull);
  return w;
}

struct shared_t
{
  std::uint64_t data = 0;
  unsigned long calls = 0;
  std::vector<hash_t> sig;          // per individual
  std::vector<std::uint64_t> fcls;  // per individual
};

struct ind_t
{
  unsigned id;
  const shared_t *sh;
  hash_t signature() const { return sh->sig[id]; }
};

class counting_eva : public vita::evaluator<ind_t>
{
public:
  explicit counting_eva(shared_t *s) : sh(s) {}
  fitness_t operator()(const ind_t &i) override
  {
    ++sh->calls;
    return to_fit(fit_of(sh->fcls[i.id], sh->data));
  }
  shared_t *sh;
};

using proxy_t = vita::evaluator_proxy<ind_t, counting_eva>;

// slot classes of the keys as observed on a scratch table of the same size
std::string classes(unsigned bits, const std::vector<hash_t> &keys)
{
  vita::cache sc(bits);
  const auto n(keys.size());
  std::vector<std::vector<bool>> same(n, std::vector<bool>(n, false));
  for (std::size_t i(0); i < n; ++i)
    for (std::size_t j(0); j < n; ++j)
    {
      if (i == j || keys[i] == keys[j]) { same[i][j] = true; continue; }
      sc.clear();
      sc.insert(keys[i], fitness_t{1.0});
      sc.insert(keys[j], fitness_t{2.0});
      same[i][j] = sc.find(keys[i]).size() == 0;
    }
  std::vector<std::size_t> cls(n);
  for (std::size_t i(0); i < n; ++i)
  {
    cls[i] = i;
    for (std::size_t j(0); j < i; ++j) if (same[i][j]) { cls[i] = cls[j]; break; }
  }
  // the relation must be an equivalence (the model takes the slot as a function of the key)
  for (std::size_t i(0); i < n; ++i)
    for (std::size_t j(0); j < n; ++j)
      if (same[i][j] != (cls[i] == cls[j])) return " not-an-equivalence";
  // rank the classes by the ORDER IN WHICH save() WRITES their slots (observed, not computed): one
  // non-empty representative per class is stored in a scratch table, saved, and the keys are read back
  // in stream order.  Classes that never appear in a save (only the empty key) come last.
  std::vector<std::size_t> rep;            // one representative (non-empty key if any) per class id
  for (std::size_t i(0); i < n; ++i)
    if (cls[i] == i)
    {
      std::size_t r(i);
      for (std::size_t j(i); j < n; ++j) if (cls[j] == i && !keys[j].empty()) { r = j; break; }
      rep.push_back(r);
    }
  vita::cache sr(bits);
  for (auto r : rep) if (!keys[r].empty()) sr.insert(keys[r], fitness_t{1.0});
  std::stringstream ss;
  if (!sr.save(ss)) return " save-failed";
  unsigned seal; std::size_t cnt;
  if (!(ss >> seal >> cnt)) return " save-unparsable";
  std::map<std::size_t, std::size_t> rank;   // class id -> rank
  for (std::size_t e(0); e < cnt; ++e)
  {
    hash_t h; fitness_t f;
    if (!h.load(ss) || !f.load(ss)) return " save-unparsable";
    for (auto r : rep) if (keys[r] == h) rank[cls[r]] = e;
  }
  std::string s;
  for (auto c : cls) s += " " + std::to_string(rank.count(c) ? rank[c] : n + c);
  return s;
}

// the tokens of a stream written by cache::save, as vita's own loaders delimit them: seal, count, then a
// key and a fitness per entry.  `ends[i]` = offset just after token i.  `shown` = the tokens in the
// notation of the model driver.
bool tokens_of(const std::string &text, std::vector<std::size_t> &ends, std::string &shown)
{
  std::istringstream in(text);
  auto pos = [&]() -> std::size_t
  {
    if (in.eof()) { in.clear(in.rdstate() & ~std::ios::eofbit); }
    const auto p(in.tellg());
    return p < 0 ? text.size() : std::size_t(p);
  };
  unsigned seal;
  if (!(in >> seal)) return false;
  ends.push_back(pos());
  shown += " s " + std::to_string(seal);
  std::size_t cnt;
  if (!(in >> cnt)) return false;
  ends.push_back(pos());
  shown += " n " + std::to_string(cnt);
  for (std::size_t e(0); e < cnt; ++e)
  {
    hash_t h;
    if (!h.load(in)) return false;
    ends.push_back(pos());
    shown += " k " + std::to_string(std::uint64_t(h.data[0])) + " " + std::to_string(std::uint64_t(h.data[1]));
    fitness_t f;
    if (!f.load(in)) return false;
    ends.push_back(pos());
    shown += " " + show("f", to_words(f));
  }
  std::string rest;
  if (in >> rest) return false;              // something after the announced entries
  return true;
}
}  // namespace

int main(int argc, char **argv)
{
  using namespace vita;
  log::reporting_level = log::lOFF;

  if (argc > 1 && std::string(argv[1]) == "wrapreal")
  {
    // insert, 2^32 real clear() calls, look up: a non-empty answer is the seal-wrap defect
    cache c(3);
    const hash_t k(0x1234, 0x99);
    c.insert(k, fitness_t{1.5, 2.5});
    for (std::uint64_t i(0); i < (1ull << 32); ++i) c.clear();
    std::cout << show("wrapreal", to_words(c.find(k))) << "\n";
    return 0;
  }

  unsigned bits(1);
  std::vector<hash_t> pool;
  std::unique_ptr<cache> c;
  std::map<std::pair<std::uint64_t, std::uint64_t>, words> spec;
  std::optional<std::pair<std::size_t, words>> just_stored;

  shared_t sh;
  std::unique_ptr<proxy_t> px;
  unsigned pbits(7);
  std::optional<std::uint64_t> p_last;
  std::vector<unsigned> p_seen;
  bool p_poisoned(false);

  auto kk = [](const hash_t &h) { return std::make_pair(std::uint64_t(h.data[0]), std::uint64_t(h.data[1])); };

  std::string line;
  while (std::getline(std::cin, line))
  {
    const auto t(verif::split(line));
    if (t.empty()) { std::cout << "bad-op\n"; continue; }
    std::vector<std::uint64_t> x(t.size() - 1);
    bool num(true);
    for (std::size_t i(1); i < t.size(); ++i) num = num && parse_u64(t[i], x[i - 1]);
    if (!num) { std::cout << "bad-op\n"; continue; }
    const std::string &cmd(t[0]);
    std::optional<std::pair<std::size_t, words>> stored_now;

    auto parse_pool = [&](std::size_t from, std::size_t n, std::vector<hash_t> &out) -> bool
    {
      if (x.size() < from + 2 * n) return false;
      out.clear();
      for (std::size_t i(0); i < n; ++i) out.emplace_back(x[from + 2 * i], x[from + 2 * i + 1]);
      return true;
    };

    if (cmd == "new" && x.size() >= 2 && x[0] >= 1 && x[0] <= 16 && x.size() == 2 + 2 * x[1])
    {
      bits = unsigned(x[0]);
      parse_pool(2, x[1], pool);
      c = std::make_unique<cache>(bits);
      spec.clear();
      std::cout << "new" << classes(bits, pool) << "\n";
    }
    else if (cmd == "ins" && x.size() >= 2 && c && x[0] < pool.size() && x.size() == 2 + x[1])
    {
      words w(x.begin() + 2, x.end());
      c->insert(pool[x[0]], to_fit(w));
      spec[kk(pool[x[0]])] = w;
      stored_now = std::make_pair(std::size_t(x[0]), w);
      std::cout << "ok\n";
    }
    else if (cmd == "find" && x.size() == 1 && c && x[0] < pool.size())
    {
      auto &&r(c->find(pool[x[0]]));
      const words w(to_words(r));
      std::string verdict("ok");
      const auto it(spec.find(kk(pool[x[0]])));
      if (!w.empty() && pool[x[0]].empty()) verdict = "n/a";   // the empty key is outside the property
      else if (!w.empty() && it == spec.end()) verdict = "BAD value-for-a-key-with-no-store-since-the-last-clear";
      else if (!w.empty() && it->second != w) verdict = "BAD not-the-latest-value-stored-under-this-key";
      else if (just_stored && just_stored->first == x[0] && just_stored->second != w)
        verdict = "BAD lookup-right-after-store-differs";
      std::cout << show("f", w) << " | " << verdict << "\n";
    }
    else if (cmd == "clr" && x.empty() && c) { c->clear(); spec.clear(); std::cout << "ok\n"; }
    else if (cmd == "clrk" && x.size() == 1 && c && x[0] < pool.size())
    {
      c->clear(pool[x[0]]);
      spec.erase(kk(pool[x[0]]));
      std::cout << "ok\n";
    }
    else if (cmd == "reload" && x.empty() && c)
    {
      // oracle of the round trip: every lookup must answer alike before and after
      std::vector<words> before;
      for (const auto &k : pool) before.push_back(to_words(c->find(k)));
      std::stringstream ss;
      const bool s(c->save(ss));
      auto fresh(std::make_unique<cache>(bits));
      const bool l(s && fresh->load(ss));
      c = std::move(fresh);
      std::string verdict(l ? "ok" : "BAD load-rejects-what-save-wrote");
      for (std::size_t i(0); i < pool.size() && verdict == "ok"; ++i)
        if (!pool[i].empty() && to_words(c->find(pool[i])) != before[i])
          verdict = "BAD lookup-differs-after-save-load key=" + std::to_string(i);
      std::cout << "reload " << (l ? 1 : 0) << " | " << verdict << "\n";
    }
    else if (cmd == "dump" && x.empty() && c)
    {
      // what save() writes, token by token, in stream order
      std::stringstream ss;
      const bool s(c->save(ss));
      std::vector<std::size_t> ends;
      std::string shown;
      if (!s) std::cout << "dump save-failed\n";
      else if (!tokens_of(ss.str(), ends, shown)) std::cout << "dump unparsable" << shown << "\n";
      else std::cout << "dump" << shown << "\n";
    }
    else if (cmd == "loadcut" && x.size() == 1 && c)
    {
      // save, cut the stream after its first x[0] tokens, load THAT into a fresh table, go on with it
      std::stringstream ss;
      const bool s(c->save(ss));
      std::vector<std::size_t> ends;
      std::string shown;
      if (!s || !tokens_of(ss.str(), ends, shown)) { std::cout << "loadcut unparsable\n"; continue; }
      const std::size_t m(x[0] >= 100 ? ends.size() : ends.size() * x[0] / 100);   // x[0] = per cent of the tokens kept
      std::istringstream in(ss.str().substr(0, m ? ends[m - 1] : 0));
      auto fresh(std::make_unique<cache>(bits));
      const bool l(fresh->load(in));
      c = std::move(fresh);
      std::string verdict("ok");
      // (a truncated stream that is accepted is C12's subject, not a violation of THIS property: the
      //  lookups that follow are still checked against the abstract map)
      if (!l && m == ends.size()) verdict = "BAD load-rejects-what-save-wrote";
      std::cout << "loadcut " << (l ? 1 : 0) << " " << ends.size() << " | " << verdict << "\n";
    }
    else if (cmd == "jump" && x.size() == 1 && c && x[0] < 4294967296ull)
    {
      // header-only stream: sets the seal, i.e. the state reached by that many clear() calls
      std::stringstream ss;
      ss << x[0] << " \n0\n";
      const bool l(c->load(ss));
      spec.clear();
      std::cout << (l ? "ok" : "fail") << "\n";
    }
    else if (cmd == "pnew" && x.size() >= 2 && x[0] >= 1 && x[0] <= 16 && x.size() >= 3 + 2 * x[1]
             && x.size() == 3 + 2 * x[1] + 2 * x[2 + 2 * x[1]])
    {
      pbits = unsigned(x[0]);
      parse_pool(2, x[1], pool);
      const std::size_t base(2 + 2 * x[1]);
      const std::size_t m(x[base]);
      bool okidx(true);
      for (std::size_t i(0); i < m; ++i) okidx = okidx && x[base + 1 + 2 * i] < pool.size();
      if (!okidx) { std::cout << "bad-op\n"; continue; }
      sh = shared_t();
      for (std::size_t i(0); i < m; ++i)
      {
        sh.sig.push_back(pool[x[base + 1 + 2 * i]]);
        sh.fcls.push_back(x[base + 2 + 2 * i]);
      }
      px = std::make_unique<proxy_t>(counting_eva(&sh), pbits);
      p_last.reset(); p_seen.clear(); p_poisoned = false;
      std::cout << "pnew" << classes(pbits, pool) << "\n";
    }
    else if (cmd == "peval" && x.size() == 1 && px && x[0] < sh.sig.size())
    {
      const unsigned id(x[0]);
      // discipline (see `Disciplined` in the model)
      bool disc(!p_last || *p_last == sh.data);
      disc = disc && !sh.sig[id].empty();
      for (auto j : p_seen)
        if (sh.sig[j] == sh.sig[id] && fit_of(sh.fcls[j], sh.data) != fit_of(sh.fcls[id], sh.data)) disc = false;
      if (!disc) p_poisoned = true;
      p_last = sh.data;
      p_seen.push_back(id);
      const ind_t i{id, &sh};
      const words got(to_words((*px)(i)));
      const auto calls(sh.calls);
      const words direct(fit_of(sh.fcls[id], sh.data));
      std::string verdict(p_poisoned ? "n/a" : got == direct ? "ok" : "BAD proxy-differs-from-direct-evaluation");
      std::cout << show("p", got) << " calls=" << calls << " | " << verdict << "\n";
    }
    else if (cmd == "pdata" && x.size() == 1 && px) { sh.data = x[0]; std::cout << "ok\n"; }
    else if (cmd == "pclr" && x.empty() && px)
    {
      px->clear();
      p_last.reset(); p_seen.clear(); p_poisoned = false;
      std::cout << "ok\n";
    }
    else if (cmd == "preload" && x.empty() && px)
    {
      std::stringstream ss;
      const bool s(px->save(ss));
      auto fresh(std::make_unique<proxy_t>(counting_eva(&sh), pbits));
      const bool l(s && fresh->load(ss));
      px = std::move(fresh);
      std::cout << "reload " << (l ? 1 : 0) << "\n";
    }
    else
      std::cout << "bad-op\n";

    just_stored = stored_now;
  }
  return 0;
}
