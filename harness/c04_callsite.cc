// C04 call-site harness: the proxy in the place it is really used.  A real src_problem, a real
// error evaluator (mae / rmae / mse / count) wrapped in vita::evaluator_proxy, and the validation
// strategies that replace the training set (vita::dss, vita::holdout_validation) driven the way
// search::run drives them (init(r); shake(g)…; close(r); init(r+1)…), with the cache of the proxy
// NON-EMPTY when run 0 starts in most scenarios (individuals evaluated before, or a saved cache
// loaded as search::load does).  After EVERY step the whole pool of individuals is evaluated through
// the proxy and compared with the bare evaluator called directly at that moment (the harness's own
// oracle).  In addition a short real evolution (vita::evolution + dss shake function, i.e. the shake
// branch of evolution::run) is run and after every generation the proxy's answer for every
// individual of the population is compared with direct evaluation.
//
// The trace `<model line> = <observed>` is also checked against the Lean model (c04_driver):
//   pnew …                      = pnew <slot classes>
//   cs <site> <arg> <gap> <k>   = ok          site 0..5 = dss init/shake/close, holdout init/shake/close;
//                                             k = id of the training-set content after the step
//   pevalv <i>                  = <k1>,<k2>… | ok|BAD   ids of the data versions on which the bare
//                                             evaluator returns exactly the proxy's answer
//   preload                     = reload 1|0
//   evo …                       (oracle only, not sent to the model)
//   session …                   (oracle only) two REAL src_search::run sessions sharing a serialization
//                               file: session 1 (as-is validation) fills and saves the cache, session 2
//                               (dss or hold-out, constructed by src_search::validation_strategy) loads it;
//                               after every generation of session 2 the fitness search::run reports for the
//                               best individual (it went through the proxy) is compared with the bare
//                               evaluator on the training set of that moment
//
// usage: c04_callsite <seed> <scenarios> <evolutions> [<sessions> <scratch dir>]
#include "common/verif.h"

#include "kernel/vita.h"

#include <map>
#include <memory>
#include <sstream>

namespace
{
using namespace vita;
using words = std::vector<std::uint64_t>;

words to_words(const fitness_t &f)
{
  words w;
  for (std::size_t i(0); i < f.size(); ++i) w.push_back(verif::bits(f[i]));
  return w;
}

std::string fingerprint(const dataframe &d)
{
  std::string s;
  for (const auto &e : d)
  {
    for (const auto &v : e.input)
      s += std::to_string(verif::bits(std::get<D_DOUBLE>(v))) + ",";
    s += std::to_string(verif::bits(std::get<D_DOUBLE>(e.output))) + ";";
  }
  return s;
}

// slot classes of the keys as observed on a scratch table of the same size (see c04_cache.cc)
std::string classes(unsigned bits, const std::vector<hash_t> &keys)
{
  cache sc(bits);
  const auto n(keys.size());
  std::vector<std::size_t> cls(n);
  std::vector<std::vector<bool>> same(n, std::vector<bool>(n, false));
  for (std::size_t i(0); i < n; ++i)
    for (std::size_t j(0); j < n; ++j)
    {
      if (i == j || keys[i] == keys[j]) { same[i][j] = true; continue; }
      sc.clear();
      sc.insert(keys[i], fitness_t{1.0});
      sc.insert(keys[j], fitness_t{2.0});
      same[i][j] = sc.find(keys[i]).size() == 0;
    }
  for (std::size_t i(0); i < n; ++i)
  {
    cls[i] = i;
    for (std::size_t j(0); j < i; ++j) if (same[i][j]) { cls[i] = cls[j]; break; }
  }
  for (std::size_t i(0); i < n; ++i)
    for (std::size_t j(0); j < n; ++j)
      if (same[i][j] != (cls[i] == cls[j])) return " not-an-equivalence";
  std::string s;
  for (auto c : cls) s += " " + std::to_string(c);
  return s;
}

std::string make_csv(verif::splitmix &rng, unsigned nex)
{
  std::ostringstream csv;
  const double a(double(rng.between(-3, 4))), b(double(rng.between(1, 4)));
  for (unsigned i(1); i <= nex; ++i)
  {
    const double x(i * 0.25 - double(nex) / 16.0);
    csv << a * x * x + b * x + 1.0 << ", " << x << '\n';
  }
  return csv.str();
}

// hold-out strategy with the training evaluator when the constructor takes one (it does since
// `fix: holdout_validation::init clears the cached training evaluator`), as src_search builds it
template<class V>
std::unique_ptr<V> make_holdout(src_problem &p, cached_evaluator *e)
{
  if constexpr (std::is_constructible_v<V, src_problem &, cached_evaluator *>)
    return std::make_unique<V>(p, e);
  else
    return std::make_unique<V>(p);
}

template<class E>
void scenario(verif::splitmix &rng, unsigned sc, const char *eva_name)
{
  const unsigned nex(unsigned(rng.between(12, 80)));
  std::istringstream training(make_csv(rng, nex));
  src_problem prob(training);
  prob.env.init();
  prob.env.mep.code_length = unsigned(rng.between(6, 24));
  prob.insert<real::add>();
  prob.insert<real::sub>();
  prob.insert<real::mul>();

  const bool use_dss(rng.chance(0.6));
  const unsigned gap(unsigned(rng.between(1, 4)));
  if (use_dss) prob.env.dss = gap;
  else prob.env.validation_percentage = unsigned(rng.between(15, 60));
  const unsigned bits(unsigned(rng.between(7, 11)));
  const unsigned npool(unsigned(rng.between(12, 40)));
  const unsigned prefill(unsigned(rng.below(4)));   // 0 none, 1 evaluated before, 2/3 loaded from a saved cache

  std::vector<i_mep> pool;
  for (unsigned i(0); i < npool; ++i) pool.emplace_back(prob);
  std::vector<hash_t> keys;
  for (const auto &p : pool) keys.push_back(p.signature());

  auto &tr(prob.data(dataset_t::training));
  E direct(tr);

  // registry of training-set contents ("data versions") and the bare evaluator's answers on them
  std::vector<std::string> versions;
  std::vector<std::vector<words>> answers;
  auto version = [&]() -> std::size_t {
    const std::string fp(fingerprint(tr));
    for (std::size_t k(0); k < versions.size(); ++k) if (versions[k] == fp) return k;
    versions.push_back(fp);
    std::vector<words> a;
    for (const auto &p : pool) a.push_back(to_words(direct(p)));
    answers.push_back(a);
    return versions.size() - 1;
  };

  std::cout << "scenario " << sc << " strategy=" << (use_dss ? "dss" : "holdout") << " evaluator=" << eva_name << " gap=" << gap
            << " examples=" << nex << " pool=" << npool << " bits=" << bits << " prefill=" << prefill << "\n";
  {
    std::string l("pnew " + std::to_string(bits) + " " + std::to_string(npool));
    for (const auto &k : keys) l += " " + std::to_string(k.data[0]) + " " + std::to_string(k.data[1]);
    l += " " + std::to_string(npool);
    for (unsigned i(0); i < npool; ++i) l += " " + std::to_string(i) + " 0";
    std::cout << l << " = pnew" << classes(bits, keys) << "\n";
  }

  using proxy_t = evaluator_proxy<i_mep, E>;
  auto proxy_tr(std::make_unique<proxy_t>(E(tr), bits));
  proxy_t proxy_va(E(prob.data(dataset_t::validation)), bits);

  std::size_t cur(version());
  auto check = [&](const char *when) {
    cur = version();
    for (unsigned i(0); i < npool; ++i)
    {
      const words got(to_words((*proxy_tr)(pool[i])));
      std::string matches;
      for (std::size_t k(0); k < versions.size(); ++k)
        if (answers[k][i] == got) matches += (matches.empty() ? "" : ",") + std::to_string(k);
      const bool ok(answers[cur][i] == got);
      std::cout << "pevalv " << i << " = " << (matches.empty() ? "-" : matches) << " | "
                << (ok ? "ok" : std::string("BAD proxy-differs-from-direct-evaluation after ") + when) << "\n";
    }
  };
  auto step = [&](unsigned site, unsigned arg, const char *name) {
    cur = version();
    std::cout << "cs " << site << " " << arg << " " << gap << " " << cur << " = ok\n";
    check(name);
  };

  if (prefill == 1) check("prefill");
  else if (prefill >= 2)
  {
    check("prefill");                        // "previous session"
    std::stringstream file;
    const bool s(proxy_tr->save(file));
    auto fresh(std::make_unique<proxy_t>(E(tr), bits));
    const bool l(s && fresh->load(file));    // what search::load() does before run 0
    proxy_tr = std::move(fresh);
    std::cout << "preload = reload " << (l ? 1 : 0) << "\n";
  }

  const unsigned runs(unsigned(rng.between(1, 3)));
  if (use_dss)
  {
    dss vs(prob, *proxy_tr, proxy_va);
    for (unsigned r(0); r < runs; ++r)
    {
      vs.init(r); step(0, r, "dss::init");
      const unsigned gens(unsigned(rng.between(2, 7)));
      for (unsigned g(0); g <= gens; ++g) { vs.shake(g); step(1, g, "dss::shake"); }
      vs.close(r); step(2, r, "dss::close");
    }
  }
  else
  {
    // constructed as src_search::validation_strategy(validator_id::holdout) constructs it
    // (tools/translate_cache.py extracts the argument list and Gen.lean records it)
    auto vsp(make_holdout<holdout_validation>(prob, proxy_tr.get()));
    holdout_validation &vs(*vsp);
    for (unsigned r(0); r < runs; ++r)
    {
      vs.init(r); step(3, r, "holdout_validation::init");
      const unsigned gens(unsigned(rng.between(1, 4)));
      for (unsigned g(0); g <= gens; ++g) { vs.shake(g); step(4, g, "holdout_validation::shake"); }
      vs.close(r); step(5, r, "holdout_validation::close");
    }
  }
}

// search::run's loop with a real evolution: vs.init(r); evolution.run(r, shake); vs.close(r)
void evolution_scenario(verif::splitmix &rng, unsigned sc)
{
  using E = mae_evaluator<i_mep>;
  const unsigned nex(unsigned(rng.between(30, 70)));
  std::istringstream training(make_csv(rng, nex));
  src_problem prob(training);
  prob.env.init();
  prob.env.mep.code_length = 12;
  prob.env.individuals = 30;
  prob.env.layers = 1;
  prob.env.generations = unsigned(rng.between(6, 12));
  prob.env.dss = unsigned(rng.between(1, 3));
  prob.insert<real::add>();
  prob.insert<real::sub>();
  prob.insert<real::mul>();
  auto &tr(prob.data(dataset_t::training));
  E direct(tr);
  const unsigned bits(unsigned(rng.between(8, 12)));
  evaluator_proxy<i_mep, E> proxy_tr(E(tr), bits), proxy_va(E(prob.data(dataset_t::validation)), bits);

  // evaluations made before the first run (non-empty cache at init(0))
  std::vector<i_mep> pool;
  for (unsigned i(0); i < 25; ++i) { pool.emplace_back(prob); proxy_tr(pool.back()); }

  dss vs(prob, proxy_tr, proxy_va);
  unsigned long checked(0), wrong(0);
  std::string first;
  auto compare = [&](const i_mep &p, const std::string &when) {
    ++checked;
    if (to_words(proxy_tr(p)) != to_words(direct(p))) { if (!wrong++) first = when; }
  };
  for (unsigned r(0); r < 2; ++r)
  {
    vs.init(r);
    for (const auto &p : pool) compare(p, "dss::init(" + std::to_string(r) + ")");
    evolution<i_mep, std_es> evo(prob, proxy_tr);
    evo.after_generation([&](const population<i_mep> &pop, const summary<i_mep> &s) {
      for (auto it(pop.begin()); it != pop.end(); ++it) compare(*it, "generation " + std::to_string(s.gen));
      for (const auto &p : pool) compare(p, "generation " + std::to_string(s.gen));
    });
    evo.run(r, [&vs](unsigned g) { return vs.shake(g); });
    vs.close(r);
    for (const auto &p : pool) compare(p, "dss::close(" + std::to_string(r) + ")");
  }
  std::cout << "evo " << sc << " gap=" << *prob.env.dss << " generations=" << prob.env.generations << " checked=" << checked
            << " wrong=" << wrong << " | "
            << (wrong ? "BAD proxy-differs-from-direct-evaluation first after " + first : std::string("ok")) << "\n";
}

// Two sessions of the real src_search::run around one serialization file.
void session_scenario(verif::splitmix &rng, unsigned sc, const std::string &dir)
{
  using E = mae_evaluator<i_mep>;
  const unsigned nex(unsigned(rng.between(24, 60)));
  const std::string csv(make_csv(rng, nex));
  const std::string file(dir + "/c04_session_" + std::to_string(sc) + ".cache");
  const unsigned code_length(unsigned(rng.between(2, 4)));
  const unsigned bits(unsigned(rng.between(8, 12)));
  const bool use_dss(rng.chance(0.5));
  const unsigned gap(unsigned(rng.between(2, 4))), perc(unsigned(rng.between(20, 60)));
  const unsigned gens(unsigned(rng.between(4, 8)));
  std::remove(file.c_str());

  // ONE problem object for both sessions: the opcodes of the symbols (hence the signatures) are
  // those of the process that created the symbols, exactly as for two program runs on one data file
  std::istringstream training(csv);
  src_problem prob(training);
  prob.env.init();
  prob.env.mep.code_length = code_length;
  prob.env.mep.patch_length = 1;
  prob.env.individuals = 40;
  prob.env.layers = 1;
  prob.env.generations = gens;
  prob.env.cache_size = bits;
  prob.env.misc.serialization_file = file;
  prob.insert<real::add>();
  prob.insert<real::sub>();
  prob.insert<real::mul>();

  {
    src_search<i_mep, std_es> s(prob);
    s.evaluator(evaluator_id::mae);
    s.run(1);       // as-is validation: the cache saved by search::close() holds fitness on the whole set
  }

  unsigned long checked(0), wrong(0);
  std::string first;
  {
    if (use_dss) prob.env.dss = gap; else prob.env.validation_percentage = perc;
    src_search<i_mep, std_es> s(prob);
    s.evaluator(evaluator_id::mae);
    s.validation_strategy(use_dss ? validator_id::dss : validator_id::holdout);
    auto &tr(prob.data(dataset_t::training));
    s.after_generation([&](const population<i_mep> &, const summary<i_mep> &sum) {
      E direct(tr);
      ++checked;
      if (to_words(direct(sum.best.solution)) != to_words(sum.best.score.fitness) && !wrong++)
        first = "generation " + std::to_string(sum.gen) + " of src_search::run (training set of " + std::to_string(tr.size())
                + " examples, " + std::to_string(nex) + " when the loaded cache was filled)";
    });
    s.run(unsigned(rng.between(1, 2)));
  }
  std::remove(file.c_str());
  std::cout << "session " << sc << " strategy=" << (use_dss ? "dss" : "holdout") << " gap=" << gap << " perc=" << perc
            << " code_length=" << code_length << " bits=" << bits << " checked=" << checked << " wrong=" << wrong << " | "
            << (wrong ? "BAD proxy-differs-from-direct-evaluation first after " + first : std::string("ok")) << "\n";
}
}  // namespace

int main(int argc, char **argv)
{
  log::reporting_level = log::lOFF;
  const std::uint64_t seed(argc > 1 ? std::stoull(argv[1]) : 1);
  const unsigned n(argc > 2 ? std::stoul(argv[2]) : 10), ne(argc > 3 ? std::stoul(argv[3]) : 2);
  const unsigned ns(argc > 5 ? std::stoul(argv[4]) : 0);
  const std::string dir(argc > 5 ? argv[5] : ".");
  verif::splitmix rng(seed);
  for (unsigned sc(0); sc < n; ++sc)
  {
    vita::random::seed(unsigned(seed * 1000 + sc));
    switch (rng.below(4))
    {
    case 0: scenario<mae_evaluator<i_mep>>(rng, sc, "mae"); break;
    case 1: scenario<rmae_evaluator<i_mep>>(rng, sc, "rmae"); break;
    case 2: scenario<mse_evaluator<i_mep>>(rng, sc, "mse"); break;
    default: scenario<count_evaluator<i_mep>>(rng, sc, "count"); break;
    }
  }
  for (unsigned sc(0); sc < ne; ++sc)
  {
    vita::random::seed(unsigned(seed * 1000 + 500 + sc));
    evolution_scenario(rng, sc);
  }
  for (unsigned sc(0); sc < ns; ++sc)
  {
    vita::random::seed(unsigned(seed * 1000 + 700 + sc));
    session_scenario(rng, sc, dir);
  }
  return 0;
}
