// C05 correspondence harness: runs the REAL evaluators of vita on datasets / programs described
// on stdin (one case per line) and prints what they return, together with the per-example output
// of the program (computed separately with the interpreter / the classifier object) so that the
// Lean model can be fed the same `prog : Example -> Option value`.
//
//   reg <mae|rmae|mse|count> <fast 0|1> <prog> <n> (<target> <x1|u> <x2|u> <difficulty>)*n
//        -> ok fit <v> outs <o|u>*n diff <d>*n
//   con <penalty> <mae|…> <fast> <prog> <n> rows…            (constrained_evaluator around reg)
//        -> ok fitv <k> <v>*k outs … diff …
//   cls <dyn|gau|bin> <x_slot> <prog> <n> (<class> <x1|u> <x2|u> <difficulty>)*n
//        -> ok fit <v> classes <C> tags (<label> <sureness>)*n labels <l>*n diff <d>*n
//   ga <value>                                               (ga_evaluator over i_ga)
//        -> ok fitv <k> <v>*k
//   small <value>  -> 0 | 1                                  (vita::issmall)
//
// doubles: decimal 64-bit patterns, `nan` = any NaN, `u` = no value (empty value_t).
// <prog>: x1 | x2 | div | ln | add | sub | mul | big | neg | abs  or a team  t:<p>,<p>,…
#include "common/verif.h"

#include "kernel/vita.h"
#include "kernel/ga/i_ga.h"
#include "kernel/ga/evaluator.h"
#include "kernel/constrained_evaluator.h"
#include "kernel/gp/src/evaluator.h"
#include "kernel/gp/src/primitive/real.h"
#include "kernel/gp/src/variable.h"
#include "kernel/gp/src/constant.h"
#include "kernel/gp/team.h"

#include <cmath>
#include <sstream>

using namespace vita;

namespace
{
std::string showf(double d)
{
  if (std::isnan(d)) return "nan";
  return std::to_string(verif::bits(d));
}

bool parsef(const std::string &s, double &d)
{
  if (s == "nan") { d = std::nan(""); return true; }
  if (s.empty() || s.find_first_not_of("0123456789") != std::string::npos) return false;
  d = verif::from_bits(std::stoull(s));
  return true;
}

value_t parsev(const std::string &s)
{
  if (s == "u") return {};
  double d;
  if (!parsef(s, d)) throw std::runtime_error("bad value");
  return d;
}

struct symbols
{
  variable x1{"X1", 0}, x2{"X2", 1};
  real::div fdiv;
  real::ln fln;
  real::add fadd;
  real::sub fsub;
  real::mul fmul;
  real::abs fabs_;
  constant<double> big{"1e308"};
  constant<double> tiny{"1e-300"};
  constant<double> zero{"0"};

  i_mep make(const std::string &p)
  {
    using G = gene;
    auto f2 = [&](function &f) {
      return i_mep(std::vector<G>{G({&f, {1, 2}}), G(x1), G(x2)});
    };
    if (p == "x1") return i_mep(std::vector<G>{G(x1)});
    if (p == "x2") return i_mep(std::vector<G>{G(x2)});
    if (p == "div") return f2(fdiv);
    if (p == "add") return f2(fadd);
    if (p == "sub") return f2(fsub);
    if (p == "mul") return f2(fmul);
    if (p == "ln") return i_mep(std::vector<G>{G({&fln, {1}}), G(x1)});
    if (p == "abs") return i_mep(std::vector<G>{G({&fabs_, {1}}), G(x1)});
    if (p == "big") return i_mep(std::vector<G>{G(big)});
    if (p == "tiny") return i_mep(std::vector<G>{G(tiny)});
    if (p == "neg") return i_mep(std::vector<G>{G({&fsub, {1, 2}}), G(zero), G(x1)});
    if (p == "mulbig") return i_mep(std::vector<G>{G({&fmul, {1, 2}}), G(x1), G(big)});
    throw std::runtime_error("bad prog " + p);
  }
};

std::vector<std::string> split_on(const std::string &s, char c)
{
  std::vector<std::string> r;
  std::string cur;
  for (char ch : s)
    if (ch == c) { r.push_back(cur); cur.clear(); }
    else cur += ch;
  r.push_back(cur);
  return r;
}

std::string show(const value_t &v)
{
  if (!has_value(v)) return "u";
  return showf(lexical_cast<D_DOUBLE>(v));
}

std::string showfit(const fitness_t &f)
{
  if (f.size() != 1) return "fit size=" + std::to_string(f.size());
  return "fit " + showf(f[0]);
}

std::string showfitv(const fitness_t &f)
{
  std::string s("fitv " + std::to_string(f.size()));
  for (auto v : f) s += " " + showf(v);
  return s;
}

// ---- regression --------------------------------------------------------------------------
template<class T, class EVA>
std::string run_reg(const T &prg, dataframe &d, bool fast, const double *pen)
{
  // the program's outputs, computed independently of the evaluator
  std::string outs(" outs");
  {
    basic_reg_lambda_f<T, false> agent(prg);
    for (const auto &e : d) outs += " " + show(agent(e));
  }

  std::string res;
  if (pen)
  {
    const double p(*pen);
    auto pf = [p](const T &) { return p; };
    constrained_evaluator<T, EVA, decltype(pf)> ce(EVA(d), pf);
    res = showfitv(fast ? ce.fast(prg) : ce(prg));
  }
  else
  {
    EVA eva(d);
    res = showfit(fast ? eva.fast(prg) : eva(prg));
  }

  std::string diff(" diff");
  for (const auto &e : d) diff += " " + std::to_string(e.difficulty);
  return "ok " + res + outs + diff;
}

template<class T>
std::string run_reg_kind(const std::string &kind, const T &prg, dataframe &d, bool fast,
                         const double *pen)
{
  if (kind == "mae") return run_reg<T, mae_evaluator<T>>(prg, d, fast, pen);
  if (kind == "rmae") return run_reg<T, rmae_evaluator<T>>(prg, d, fast, pen);
  if (kind == "mse") return run_reg<T, mse_evaluator<T>>(prg, d, fast, pen);
  if (kind == "count") return run_reg<T, count_evaluator<T>>(prg, d, fast, pen);
  return "bad-op";
}

std::string do_reg(symbols &S, const std::vector<std::string> &t, std::size_t at, const double *pen)
{
  // t[at..] = kind fast prog n rows…
  if (t.size() < at + 4) return "bad-op";
  const std::string kind(t[at]);
  const bool fast(t[at + 1] == "1");
  const std::string prog(t[at + 2]);
  const std::size_t n(std::stoull(t[at + 3]));
  if (t.size() != at + 4 + 4 * n) return "bad-op";

  dataframe d;
  for (std::size_t i(0); i < n; ++i)
  {
    const std::size_t b(at + 4 + 4 * i);
    dataframe::example ex;
    double tg;
    if (!parsef(t[b], tg)) return "bad-op";
    ex.output = tg;
    ex.input = {parsev(t[b + 1]), parsev(t[b + 2])};
    ex.difficulty = std::stoull(t[b + 3]);
    d.push_back(ex);
  }

  if (prog.rfind("t:", 0) == 0)
  {
    std::vector<i_mep> members;
    for (const auto &p : split_on(prog.substr(2), ',')) members.push_back(S.make(p));
    const team<i_mep> tm(members);
    return run_reg_kind(kind, tm, d, fast, pen);
  }

  const i_mep ind(S.make(prog));
  return run_reg_kind(kind, ind, d, fast, pen);
}

// ---- classification ----------------------------------------------------------------------
template<class T, class L, class EVA, class... A>
std::string run_cls(const T &prg, dataframe &d, A... a)
{
  std::string tags(" tags"), labels(" labels");
  {
    L lambda(prg, d, a...);
    for (const auto &e : d)
    {
      const auto r(lambda.tag(e));
      tags += " " + std::to_string(r.label) + " " + showf(r.sureness);
      labels += " " + std::to_string(label(e));
    }
  }

  EVA eva(d, a...);
  const auto fit(eva(prg));

  std::string diff(" diff");
  for (const auto &e : d) diff += " " + std::to_string(e.difficulty);
  return "ok " + showfit(fit) + " classes " + std::to_string(d.classes()) + tags + labels + diff;
}

template<class T>
std::string run_cls_kind(const std::string &kind, unsigned x_slot, const T &prg, dataframe &d)
{
  if (kind == "dyn")
    return run_cls<T, basic_dyn_slot_lambda_f<T, false, false>, dyn_slot_evaluator<T>>(prg, d, x_slot);
  if (kind == "gau")
    return run_cls<T, basic_gaussian_lambda_f<T, false, false>, gaussian_evaluator<T>>(prg, d);
  if (kind == "bin")
    return run_cls<T, basic_binary_lambda_f<T, false, false>, binary_evaluator<T>>(prg, d);
  return "bad-op";
}

std::string do_cls(symbols &S, const std::vector<std::string> &t)
{
  // cls kind x_slot prog n rows…
  if (t.size() < 5) return "bad-op";
  const std::string kind(t[1]);
  const unsigned x_slot(std::stoul(t[2]));
  const std::string prog(t[3]);
  const std::size_t n(std::stoull(t[4]));
  if (t.size() != 5 + 4 * n || !x_slot) return "bad-op";

  // The class table of a dataframe can only be filled by the importer: import a CSV with the
  // labels, then overwrite inputs / difficulty with the exact values of the case.
  std::ostringstream csv;
  for (std::size_t i(0); i < n; ++i)
    csv << "k" << t[5 + 4 * i] << ",0.5,1.5\n";
  std::istringstream in(csv.str());
  dataframe d;
  if (d.read_csv(in, dataframe::params().no_header()) != n) return "bad-import";
  std::size_t i(0);
  for (auto &ex : d)
  {
    const std::size_t b(5 + 4 * i);
    ex.input = {parsev(t[b + 1]), parsev(t[b + 2])};
    ex.difficulty = std::stoull(t[b + 3]);
    ++i;
  }
  if (d.classes() < 2) return "bad-classes";
  if (kind == "bin" && d.classes() != 2) return "bad-classes";

  if (prog.rfind("t:", 0) == 0)
  {
    std::vector<i_mep> members;
    for (const auto &p : split_on(prog.substr(2), ',')) members.push_back(S.make(p));
    const team<i_mep> tm(members);
    return run_cls_kind(kind, x_slot, tm, d);
  }

  const i_mep ind(S.make(prog));
  return run_cls_kind(kind, x_slot, ind, d);
}

std::string do_ga(const std::vector<std::string> &t)
{
  if (t.size() != 2) return "bad-op";
  double v;
  if (!parsef(t[1], v)) return "bad-op";
  auto f = [v](const i_ga &) { return v; };
  auto eva(make_ga_evaluator<i_ga>(f));
  const i_ga ind{};
  return "ok " + showfitv(eva(ind));
}
}  // namespace

int main()
{
  log::reporting_level = log::lOFF;
  random::seed(1);
  symbols S;

  std::string line;
  while (std::getline(std::cin, line))
  {
    const auto t(verif::split(line));
    if (t.empty()) continue;
    std::string ans;
    try
    {
      if (t[0] == "reg") ans = do_reg(S, t, 1, nullptr);
      else if (t[0] == "con")
      {
        double pen;
        ans = (t.size() > 2 && parsef(t[1], pen)) ? do_reg(S, t, 2, &pen) : "bad-op";
      }
      else if (t[0] == "cls") ans = do_cls(S, t);
      else if (t[0] == "ga") ans = do_ga(t);
      else if (t[0] == "small")
      {
        double v;
        ans = (t.size() == 2 && parsef(t[1], v)) ? (issmall(v) ? "1" : "0") : "bad-op";
      }
      else ans = "bad-op";
    }
    catch (const std::exception &e)
    {
      ans = std::string("exc ") + e.what();
    }
    std::cout << ans << "\n" << std::flush;
  }
  return 0;
}
