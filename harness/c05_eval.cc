// C05 correspondence harness: runs the REAL evaluators of vita on datasets / programs described
// on stdin (one case per line) and prints what they return, together with the per-example output
// of the program (computed separately with the interpreter / the classifier object) so that the
// Lean model can be fed the same `prog : Example -> Option value`.
//
//   reg <mae|rmae|mse|count> <fast 0|1> <prog> <n> (<target> <x1|u> <x2|u> <difficulty>)*n
//        -> ok fit <v> outs <o|u>*n diff <d>*n
//   con <penalty> <mae|…> <fast> <prog> <n> rows…            (constrained_evaluator around reg)
//        -> ok fitv <k> <v>*k outs … diff …
//   cls|clsf <dyn|gau|bin> <x_slot> <prog> <n> (<class> <x1|u> <x2|u> <difficulty>)*n
//        (clsf: `fast()` called through a reference to the base class `evaluator<T>`)
//        -> ok fit <v> classes <C> members <M> mouts (<o|u>*n)*M tags (<label> <sureness>)*n labels <l>*n diff <d>*n
//        `mouts` = the per-example output of every member program (1 for an individual), computed with a
//        separate basic_reg_lambda_f: the input of the documented classification rule
//   ga|gaf|de|def <value>                                    (ga_evaluator over i_ga / i_de; f = `fast()`)
//        -> ok fitv <k> <v>*k
//   gac <ptype> <penalty> <fast 0|1> <ga|de> <value>         (constrained_evaluator around ga_evaluator)
//        -> ok fitv <k> <v>*k
//   conp <ptype> <penalty> <mae|count> <fast> <prog> <n> rows…  (individuals only; constrained_evaluator, penalty function of
//        return type <ptype>: d double lambda, fn penalty_func_t (std::function), fl float, i int,
//        u unsigned, l long long, ul std::size_t, b bool; <penalty> = bit pattern (d, fn, fl) or a decimal integer)
//        -> ok fitv <k> <v>*k outs … diff …
//   hist <reg|cls> <kind> <fast 0|1> <x_slot> <prog> op…      ONE evaluator object bound to ONE dataframe that changes under it
//        ops:  C (construct the evaluator now: possibly on the still empty frame)   V (evaluate now)   E <k> (erase the first k rows)
//              L <n> rows… (reload: read_csv again for cls – the class table only grows –, clear + push_back for reg)
//              A <n> rows… (append: push_back; a new class name is registered with dataframe::encode)
//        rows as in reg / cls.  -> ok rec | rec | …  one record per V:  skip-<why>  or
//              reg:  fit <v> targets <t>*n dbefore <d>*n outs <o>*n diff <d>*n
//              cls:  fit <v> classes <C> members <M> mouts … tags … labels <l>*n dbefore <d>*n diff <d>*n
//   big <kind> <fast 0|1> <x_slot> <n> <k> <pos>*k              scale-directed case built here: program X1,
//        cls kinds: class A (even rows) X1 = -100, class B (odd rows) X1 = +100, the k rows <pos> (odd) are of class B with X1 = -100;
//        reg kinds: X1 = (i mod 7) - 3, target = X1 except target = X1 + 1 on the k rows <pos>
//        -> ok fit <v> n <N> moved <number of rows whose difficulty changed> rows <their indices, at most 20>
//   wrap <kind> <x_slot> <classes> <d0> <g> (<class|target> <x1|u> <count>)*g   counter-width-directed case: program X1 on a
//        multiset of examples (group j = <count> identical examples, rows round-robin over the groups, every difficulty = <d0>)
//        -> ok fit <v> n <N> inc <rows of group j whose counter became d0+1>*g odd <rows with any other counter != d0>
//   tev <distinct|fixed|random> <fast 0|1> <k> <id>*k         (test_evaluator<i_de>, one object, k calls; the
//        individual with id i has genome {i})      -> ok seq <v>*k   (`size=<s>` for a fitness of another size)
//   small <value>  -> 0 | 1                                  (vita::issmall)
//
// doubles: decimal 64-bit patterns, `nan` = any NaN, `u` = no value (empty value_t).
// <prog>: x1 | x2 | div | ln | add | sub | mul | big | neg | abs  or a team  t:<p>,<p>,…
#include "common/verif.h"

#include "kernel/vita.h"
#include "kernel/ga/i_ga.h"
#include "kernel/ga/i_de.h"
#include "kernel/ga/evaluator.h"
#include "kernel/constrained_evaluator.h"
#include "kernel/gp/src/evaluator.h"
#include "kernel/gp/src/primitive/real.h"
#include "kernel/gp/src/variable.h"
#include "kernel/gp/src/constant.h"
#include "kernel/gp/team.h"

#include <cmath>
#include <map>
#include <sstream>

using namespace vita;

namespace
{
std::string showf(double d)
{
  if (std::isnan(d)) return "nan";
  return std::to_string(verif::bits(d));
}

bool parsef(const std::string &s, double &d)
{
  if (s == "nan") { d = std::nan(""); return true; }
  if (s.empty() || s.find_first_not_of("0123456789") != std::string::npos) return false;
  d = verif::from_bits(std::stoull(s));
  return true;
}

value_t parsev(const std::string &s)
{
  if (s == "u") return {};
  double d;
  if (!parsef(s, d)) throw std::runtime_error("bad value");
  return d;
}

struct symbols
{
  variable x1{"X1", 0}, x2{"X2", 1};
  real::div fdiv;
  real::ln fln;
  real::add fadd;
  real::sub fsub;
  real::mul fmul;
  real::abs fabs_;
  constant<double> big{"1e308"};
  constant<double> tiny{"1e-300"};
  constant<double> zero{"0"};

  i_mep make(const std::string &p)
  {
    using G = gene;
    auto f2 = [&](function &f) {
      return i_mep(std::vector<G>{G({&f, {1, 2}}), G(x1), G(x2)});
    };
    if (p == "x1") return i_mep(std::vector<G>{G(x1)});
    if (p == "x2") return i_mep(std::vector<G>{G(x2)});
    if (p == "div") return f2(fdiv);
    if (p == "add") return f2(fadd);
    if (p == "sub") return f2(fsub);
    if (p == "mul") return f2(fmul);
    if (p == "ln") return i_mep(std::vector<G>{G({&fln, {1}}), G(x1)});
    if (p == "abs") return i_mep(std::vector<G>{G({&fabs_, {1}}), G(x1)});
    if (p == "big") return i_mep(std::vector<G>{G(big)});
    if (p == "tiny") return i_mep(std::vector<G>{G(tiny)});
    if (p == "neg") return i_mep(std::vector<G>{G({&fsub, {1, 2}}), G(zero), G(x1)});
    if (p == "mulbig") return i_mep(std::vector<G>{G({&fmul, {1, 2}}), G(x1), G(big)});
    throw std::runtime_error("bad prog " + p);
  }
};

std::vector<std::string> split_on(const std::string &s, char c)
{
  std::vector<std::string> r;
  std::string cur;
  for (char ch : s)
    if (ch == c) { r.push_back(cur); cur.clear(); }
    else cur += ch;
  r.push_back(cur);
  return r;
}

std::string show(const value_t &v)
{
  if (!has_value(v)) return "u";
  return showf(lexical_cast<D_DOUBLE>(v));
}

std::string showfit(const fitness_t &f)
{
  if (f.size() != 1) return "fit size=" + std::to_string(f.size());
  return "fit " + showf(f[0]);
}

std::string showfitv(const fitness_t &f)
{
  std::string s("fitv " + std::to_string(f.size()));
  for (auto v : f) s += " " + showf(v);
  return s;
}

// ---- penalties of every shape ------------------------------------------------------------
// A penalty "shape" is the return type of the penalty function handed to constrained_evaluator.
struct pen_spec
{
  std::string type;      // d fn fl i u l ul b
  double dv = 0.0;       // d, fn, fl
  long long iv = 0;      // i, u, l, b
  unsigned long long uv = 0;  // ul
};

bool parse_pen(const std::string &type, const std::string &val, pen_spec &p)
{
  p.type = type;
  if (type == "d" || type == "fn" || type == "fl") return parsef(val, p.dv);
  if (type == "ul")
  {
    if (val.empty() || val.find_first_not_of("0123456789") != std::string::npos) return false;
    p.uv = std::stoull(val);
    return true;
  }
  if (type == "i" || type == "u" || type == "l" || type == "b")
  {
    if (val.empty()) return false;
    p.iv = std::stoll(val);
    return true;
  }
  return false;
}

// Calls `k(penalty function)` with a function of the requested return type.
template<class T, class K>
std::string with_penalty(const pen_spec &p, K k)
{
  if (p.type == "d") { const double v(p.dv); return k([v](const T &) { return v; }); }
  if (p.type == "fn") { const double v(p.dv); return k(penalty_func_t<T>([v](const T &) { return v; })); }
  if (p.type == "fl") { const float v(static_cast<float>(p.dv)); return k([v](const T &) { return v; }); }
  if (p.type == "i") { const int v(static_cast<int>(p.iv)); return k([v](const T &) { return v; }); }
  if (p.type == "u") { const unsigned v(static_cast<unsigned>(p.iv)); return k([v](const T &) { return v; }); }
  if (p.type == "l") { const long long v(p.iv); return k([v](const T &) { return v; }); }
  if (p.type == "ul") { const std::size_t v(static_cast<std::size_t>(p.uv)); return k([v](const T &) { return v; }); }
  if (p.type == "b") { const bool v(p.iv != 0); return k([v](const T &) { return v; }); }
  return "bad-op";
}

// ---- regression --------------------------------------------------------------------------
template<class T, class EVA>
std::string run_reg(const T &prg, dataframe &d, bool fast, const pen_spec *pen)
{
  // the program's outputs, computed independently of the evaluator
  std::string outs(" outs");
  {
    basic_reg_lambda_f<T, false> agent(prg);
    for (const auto &e : d) outs += " " + show(agent(e));
  }

  std::string res;
  if (pen)
  {
    auto run = [&](auto pf) {
      constrained_evaluator<T, EVA, decltype(pf)> ce(EVA(d), pf);
      evaluator<T> &base(ce);                     // virtual dispatch, as the search classes do
      return showfitv(fast ? base.fast(prg) : base(prg));
    };
    if (pen->type == "d")
    {
      const double v(pen->dv);
      res = run([v](const T &) { return v; });
    }
    else if constexpr (std::is_same_v<EVA, mae_evaluator<i_mep>> || std::is_same_v<EVA, count_evaluator<i_mep>>)
      // the other return types of the penalty function: the base evaluator is immaterial, two are
      // instantiated (compile time)
      res = with_penalty<T>(*pen, run);
    else
      return "bad-op";
    if (res == "bad-op") return res;
  }
  else
  {
    EVA eva(d);
    evaluator<T> &base(eva);
    res = showfit(fast ? base.fast(prg) : base(prg));
  }

  std::string diff(" diff");
  for (const auto &e : d) diff += " " + std::to_string(e.difficulty);
  return "ok " + res + outs + diff;
}

template<class T>
std::string run_reg_kind(const std::string &kind, const T &prg, dataframe &d, bool fast,
                         const pen_spec *pen)
{
  if (kind == "mae") return run_reg<T, mae_evaluator<T>>(prg, d, fast, pen);
  if (kind == "rmae") return run_reg<T, rmae_evaluator<T>>(prg, d, fast, pen);
  if (kind == "mse") return run_reg<T, mse_evaluator<T>>(prg, d, fast, pen);
  if (kind == "count") return run_reg<T, count_evaluator<T>>(prg, d, fast, pen);
  return "bad-op";
}

std::string do_reg(symbols &S, const std::vector<std::string> &t, std::size_t at, const pen_spec *pen)
{
  // t[at..] = kind fast prog n rows…
  if (t.size() < at + 4) return "bad-op";
  const std::string kind(t[at]);
  const bool fast(t[at + 1] == "1");
  const std::string prog(t[at + 2]);
  const std::size_t n(std::stoull(t[at + 3]));
  if (t.size() != at + 4 + 4 * n) return "bad-op";

  dataframe d;
  for (std::size_t i(0); i < n; ++i)
  {
    const std::size_t b(at + 4 + 4 * i);
    dataframe::example ex;
    double tg;
    if (!parsef(t[b], tg)) return "bad-op";
    ex.output = tg;
    ex.input = {parsev(t[b + 1]), parsev(t[b + 2])};
    ex.difficulty = std::stoull(t[b + 3]);
    d.push_back(ex);
  }

  if (prog.rfind("t:", 0) == 0)
  {
    std::vector<i_mep> members;
    for (const auto &p : split_on(prog.substr(2), ',')) members.push_back(S.make(p));
    const team<i_mep> tm(members);
    return run_reg_kind(kind, tm, d, fast, pen);
  }

  const i_mep ind(S.make(prog));
  return run_reg_kind(kind, ind, d, fast, pen);
}

// ---- classification ----------------------------------------------------------------------
std::vector<i_mep> members_of(const i_mep &p) { return {p}; }
std::vector<i_mep> members_of(const team<i_mep> &t) { return std::vector<i_mep>(t.begin(), t.end()); }

template<class T, class L, class EVA, class... A>
std::string run_cls(const T &prg, dataframe &d, bool fast, A... a)
{
  // the output of every member program on every example: what the documented rules start from
  const auto ms(members_of(prg));
  std::string mouts(" members " + std::to_string(ms.size()) + " mouts");
  for (const auto &m : ms)
  {
    basic_reg_lambda_f<i_mep, false> agent(m);
    for (const auto &e : d) mouts += " " + show(agent(e));
  }

  std::string tags(" tags"), labels(" labels");
  {
    L lambda(prg, d, a...);
    for (const auto &e : d)
    {
      const auto r(lambda.tag(e));
      tags += " " + std::to_string(r.label) + " " + showf(r.sureness);
      labels += " " + std::to_string(label(e));
    }
  }

  EVA eva(d, a...);
  evaluator<T> &base(eva);
  const auto fit(fast ? base.fast(prg) : base(prg));

  std::string diff(" diff");
  for (const auto &e : d) diff += " " + std::to_string(e.difficulty);
  return "ok " + showfit(fit) + " classes " + std::to_string(d.classes()) + mouts + tags + labels + diff;
}

template<class T>
std::string run_cls_kind(const std::string &kind, unsigned x_slot, const T &prg, dataframe &d, bool fast)
{
  if (kind == "dyn")
    return run_cls<T, basic_dyn_slot_lambda_f<T, false, false>, dyn_slot_evaluator<T>>(prg, d, fast, x_slot);
  if (kind == "gau")
    return run_cls<T, basic_gaussian_lambda_f<T, false, false>, gaussian_evaluator<T>>(prg, d, fast);
  if (kind == "bin")
    return run_cls<T, basic_binary_lambda_f<T, false, false>, binary_evaluator<T>>(prg, d, fast);
  return "bad-op";
}

std::string do_cls(symbols &S, const std::vector<std::string> &t, bool fast)
{
  // cls kind x_slot prog n rows…
  if (t.size() < 5) return "bad-op";
  const std::string kind(t[1]);
  const unsigned x_slot(std::stoul(t[2]));
  const std::string prog(t[3]);
  const std::size_t n(std::stoull(t[4]));
  if (t.size() != 5 + 4 * n || !x_slot) return "bad-op";

  // The class table of a dataframe can only be filled by the importer: import a CSV with the
  // labels, then overwrite inputs / difficulty with the exact values of the case.
  std::ostringstream csv;
  for (std::size_t i(0); i < n; ++i)
    csv << "k" << t[5 + 4 * i] << ",0.5,1.5\n";
  std::istringstream in(csv.str());
  dataframe d;
  if (d.read_csv(in, dataframe::params().no_header()) != n) return "bad-import";
  std::size_t i(0);
  for (auto &ex : d)
  {
    const std::size_t b(5 + 4 * i);
    ex.input = {parsev(t[b + 1]), parsev(t[b + 2])};
    ex.difficulty = std::stoull(t[b + 3]);
    ++i;
  }
  if (d.classes() < 2) return "bad-classes";
  if (kind == "bin" && d.classes() != 2) return "bad-classes";

  if (prog.rfind("t:", 0) == 0)
  {
    std::vector<i_mep> members;
    for (const auto &p : split_on(prog.substr(2), ',')) members.push_back(S.make(p));
    const team<i_mep> tm(members);
    return run_cls_kind(kind, x_slot, tm, d, fast);
  }

  const i_mep ind(S.make(prog));
  return run_cls_kind(kind, x_slot, ind, d, fast);
}

// ---- GA / DE -----------------------------------------------------------------------------
// The objective function reads its value from the individual's genome.
template<class T> T make_param_ind(double v);
template<> i_ga make_param_ind<i_ga>(double) { return i_ga{}; }
template<> i_de make_param_ind<i_de>(double v) { i_de x; x = std::vector<double>{v}; return x; }

template<class T>
std::string run_ga(double v, bool fast, const pen_spec *pen)
{
  const T ind(make_param_ind<T>(v));
  auto f = [v](const T &x) {
    if constexpr (std::is_same_v<T, i_de>) return x[0];
    else return v;
  };
  if (pen)
    return with_penalty<T>(*pen, [&](auto pf) {
      constrained_evaluator<T, ga_evaluator<T, decltype(f)>, decltype(pf)> ce(make_ga_evaluator<T>(f), pf);
      evaluator<T> &base(ce);
      return "ok " + showfitv(fast ? base.fast(ind) : base(ind));
    });
  auto eva(make_ga_evaluator<T>(f));
  evaluator<T> &base(eva);
  return "ok " + showfitv(fast ? base.fast(ind) : base(ind));
}

std::string do_ga(const std::vector<std::string> &t)
{
  if (t.size() != 2) return "bad-op";
  double v;
  if (!parsef(t[1], v)) return "bad-op";
  const bool fast(t[0] == "gaf" || t[0] == "def");
  if (t[0] == "de" || t[0] == "def") return run_ga<i_de>(v, fast, nullptr);
  return run_ga<i_ga>(v, fast, nullptr);
}

std::string do_gac(const std::vector<std::string> &t)
{
  // gac ptype penalty fast ga|de value
  if (t.size() != 6) return "bad-op";
  pen_spec p;
  double v;
  if (!parse_pen(t[1], t[2], p) || !parsef(t[5], v)) return "bad-op";
  const bool fast(t[3] == "1");
  if (t[4] == "de") return run_ga<i_de>(v, fast, &p);
  if (t[4] == "ga") return run_ga<i_ga>(v, fast, &p);
  return "bad-op";
}

// ---- histories: one evaluator object, a dataframe that changes under it ------------------
template<class T>
std::unique_ptr<evaluator<T>> make_eva(const std::string &kind, dataframe &d, unsigned x_slot)
{
  if (kind == "mae") return std::make_unique<mae_evaluator<T>>(d);
  if (kind == "rmae") return std::make_unique<rmae_evaluator<T>>(d);
  if (kind == "mse") return std::make_unique<mse_evaluator<T>>(d);
  if (kind == "count") return std::make_unique<count_evaluator<T>>(d);
  if (kind == "dyn") return std::make_unique<dyn_slot_evaluator<T>>(d, x_slot);
  if (kind == "gau") return std::make_unique<gaussian_evaluator<T>>(d);
  if (kind == "bin") return std::make_unique<binary_evaluator<T>>(d);
  return nullptr;
}

template<class T>
std::string tags_of(const std::string &kind, const T &prg, dataframe &d, unsigned x_slot)
{
  std::string tags(" tags");
  auto dump = [&](const auto &lambda) {
    for (const auto &e : d)
    {
      const auto r(lambda.tag(e));
      tags += " " + std::to_string(r.label) + " " + showf(r.sureness);
    }
  };
  if (kind == "dyn") dump(basic_dyn_slot_lambda_f<T, false, false>(prg, d, x_slot));
  else if (kind == "gau") dump(basic_gaussian_lambda_f<T, false, false>(prg, d));
  else dump(basic_binary_lambda_f<T, false, false>(prg, d));
  return tags;
}

// `ids` mirrors the class table of the dataframe (names get consecutive ids in order of first import)
bool parse_row(const std::vector<std::string> &t, std::size_t b, bool cls,
               const std::map<std::string, class_t> &ids, dataframe::example &ex)
{
  if (cls)
  {
    const auto it(ids.find(t[b]));
    if (it == ids.end()) return false;      // appended rows use classes the importer has seen
    ex.output = static_cast<D_INT>(it->second);
  }
  else
  {
    double tg;
    if (!parsef(t[b], tg)) return false;
    ex.output = tg;
  }
  ex.input = {parsev(t[b + 1]), parsev(t[b + 2])};
  ex.difficulty = std::stoull(t[b + 3]);
  return true;
}

template<class T>
std::string run_hist(const T &prg, bool cls, const std::string &kind, bool fast, unsigned x_slot,
                     const std::vector<std::string> &t, std::size_t p)
{
  dataframe d;
  std::map<std::string, class_t> ids;
  std::unique_ptr<evaluator<T>> eva;
  std::string ans("ok");
  bool first(true);

  while (p < t.size())
  {
    const std::string op(t[p++]);
    if (op == "C") eva = make_eva<T>(kind, d, x_slot);
    else if (op == "E")
    {
      if (p >= t.size()) return "bad-op";
      const std::size_t k(std::min<std::size_t>(std::stoull(t[p++]), d.size()));
      d.erase(d.begin(), std::next(d.begin(), static_cast<std::ptrdiff_t>(k)));
    }
    else if (op == "L" || op == "A")
    {
      if (p >= t.size()) return "bad-op";
      const std::size_t n(std::stoull(t[p++]));
      if (p + 4 * n > t.size()) return "bad-op";
      if (op == "L")
      {
        if (cls)
        {
          // the importer run again on the same frame: rows replaced, the class table only grows
          std::ostringstream csv;
          for (std::size_t i(0); i < n; ++i) csv << "k" << t[p + 4 * i] << ",0.5,1.5\n";
          std::istringstream in(csv.str());
          if (d.read_csv(in, dataframe::params().no_header()) != n) return "bad-import";
          std::size_t i(0);
          for (auto &ex : d)
          {
            const auto it(ids.try_emplace(t[p + 4 * i], static_cast<class_t>(ids.size())).first);
            if (it->second != label(ex)) return "bad-classmap";
            ex.input = {parsev(t[p + 4 * i + 1]), parsev(t[p + 4 * i + 2])};
            ex.difficulty = std::stoull(t[p + 4 * i + 3]);
            ++i;
          }
          p += 4 * n;
          continue;
        }
        d.clear();
      }
      for (std::size_t i(0); i < n; ++i, p += 4)
      {
        dataframe::example ex;
        if (!parse_row(t, p, cls, ids, ex)) return "bad-op";
        d.push_back(ex);
      }
    }
    else if (op == "V")
    {
      ans += first ? " " : " | ";
      first = false;
      if (!eva) { ans += "skip-noeva"; continue; }
      if (d.empty()) { ans += "skip-empty"; continue; }
      if (cls && (d.classes() < 2 || (kind == "bin" && d.classes() != 2))) { ans += "skip-classes"; continue; }

      std::string before(" dbefore");
      for (const auto &e : d) before += " " + std::to_string(e.difficulty);

      std::string mid;
      if (cls)
      {
        const auto ms(members_of(prg));
        mid = " classes " + std::to_string(d.classes()) + " members " + std::to_string(ms.size()) + " mouts";
        for (const auto &m : ms)
        {
          basic_reg_lambda_f<i_mep, false> agent(m);
          for (const auto &e : d) mid += " " + show(agent(e));
        }
        mid += tags_of(kind, prg, d, x_slot);
        mid += " labels";
        for (const auto &e : d) mid += " " + std::to_string(label(e));
        mid += before;
      }
      else
      {
        mid = " targets";
        for (const auto &e : d) mid += " " + showf(label_as<D_DOUBLE>(e));
        mid += before + " outs";
        basic_reg_lambda_f<T, false> agent(prg);
        for (const auto &e : d) mid += " " + show(agent(e));
      }

      const auto fit(fast ? eva->fast(prg) : (*eva)(prg));

      std::string diff(" diff");
      for (const auto &e : d) diff += " " + std::to_string(e.difficulty);
      ans += showfit(fit) + mid + diff;
    }
    else return "bad-op";
  }
  return ans;
}

std::string do_hist(symbols &S, const std::vector<std::string> &t)
{
  // hist reg|cls kind fast x_slot prog ops…
  if (t.size() < 6) return "bad-op";
  const bool cls(t[1] == "cls");
  if (!cls && t[1] != "reg") return "bad-op";
  const std::string kind(t[2]);
  const bool is_cls_kind(kind == "dyn" || kind == "gau" || kind == "bin");
  if (cls != is_cls_kind) return "bad-op";
  const bool fast(t[3] == "1");
  const unsigned x_slot(std::stoul(t[4]));
  if (!x_slot) return "bad-op";
  const std::string prog(t[5]);

  if (prog.rfind("t:", 0) == 0)
  {
    std::vector<i_mep> members;
    for (const auto &p : split_on(prog.substr(2), ',')) members.push_back(S.make(p));
    const team<i_mep> tm(members);
    return run_hist(tm, cls, kind, fast, x_slot, t, 6);
  }
  const i_mep ind(S.make(prog));
  return run_hist(ind, cls, kind, fast, x_slot, t, 6);
}

// ---- scale-directed cases -----------------------------------------------------------------
std::string do_big(symbols &S, const std::vector<std::string> &t)
{
  // big kind fast x_slot n k pos…
  if (t.size() < 6) return "bad-op";
  const std::string kind(t[1]);
  const bool fast(t[2] == "1");
  const unsigned x_slot(std::stoul(t[3]));
  const std::size_t n(std::stoull(t[4])), k(std::stoull(t[5]));
  if (t.size() != 6 + k || !x_slot) return "bad-op";
  std::vector<bool> out(n, false);
  for (std::size_t i(0); i < k; ++i)
  {
    const std::size_t pos(std::stoull(t[6 + i]));
    if (pos >= n) return "bad-op";
    out[pos] = true;
  }
  const bool cls(kind == "dyn" || kind == "gau" || kind == "bin");

  dataframe d;
  if (cls)
  {
    std::istringstream in("kA,0.5,1.5\nkB,0.5,1.5\n");
    if (d.read_csv(in, dataframe::params().no_header()) != 2) return "bad-import";
    d.clear();
  }
  for (std::size_t i(0); i < n; ++i)
  {
    dataframe::example ex;
    if (cls)
    {
      const bool b(i % 2);
      if (out[i] && !b) return "bad-op";
      ex.output = static_cast<D_INT>(b ? 1 : 0);
      ex.input = {(b && !out[i]) ? 100.0 : -100.0, 0.0};
    }
    else
    {
      const double x(static_cast<double>(i % 7) - 3.0);
      ex.output = out[i] ? x + 1.0 : x;
      ex.input = {x, 0.0};
    }
    ex.difficulty = 0;
    d.push_back(ex);
  }

  const i_mep prg(S.make("x1"));
  auto eva(make_eva<i_mep>(kind, d, x_slot));
  if (!eva) return "bad-op";
  const auto fit(fast ? eva->fast(prg) : (*eva)(prg));

  std::size_t moved(0), i(0);
  std::string rows;
  for (const auto &e : d)
  {
    if (e.difficulty)
    {
      if (++moved <= 20) rows += " " + std::to_string(i);
    }
    ++i;
  }
  return "ok " + showfit(fit) + " n " + std::to_string(d.size()) + " moved " + std::to_string(moved) + " rows" + rows;
}

// ---- counter-width-directed cases ---------------------------------------------------------
// wrap <kind> <x_slot> <classes> <d0> <g> (<class|target> <x1|u> <count>)*g
//   program X1 on a MULTISET of examples: group j contributes <count> identical examples; the rows are laid
//   out round-robin over the groups (so the largest group ends the frame); every difficulty counter starts at <d0>.
//   -> ok fit <v> n <N> inc <rows of group j whose counter is d0 + 1>*g odd <rows whose counter is neither d0 nor d0 + 1>
std::string do_wrap(symbols &S, const std::vector<std::string> &t)
{
  if (t.size() < 6) return "bad-op";
  const std::string kind(t[1]);
  const unsigned x_slot(std::stoul(t[2]));
  const unsigned ncl(std::stoul(t[3]));
  const std::uintmax_t d0(std::stoull(t[4]));
  const std::size_t g(std::stoull(t[5]));
  if (t.size() != 6 + 3 * g || !x_slot || !g) return "bad-op";
  const bool cls(kind == "dyn" || kind == "gau" || kind == "bin");
  if (cls && (ncl < 2 || ncl > 20)) return "bad-op";

  struct group { value_t out; value_t x1; std::size_t count; };
  std::vector<group> gs;
  std::size_t n(0);
  for (std::size_t j(0); j < g; ++j)
  {
    group q;
    if (cls)
    {
      const auto c(std::stoul(t[6 + 3 * j]));
      if (c >= ncl) return "bad-op";
      q.out = static_cast<D_INT>(c);
    }
    else
    {
      double v;
      if (!parsef(t[6 + 3 * j], v)) return "bad-op";
      q.out = v;
    }
    q.x1 = parsev(t[7 + 3 * j]);
    q.count = std::stoull(t[8 + 3 * j]);
    if (q.count > 40000000) return "bad-op";
    n += q.count;
    gs.push_back(q);
  }
  if (!n || n > 40000000) return "bad-op";

  dataframe d;
  if (cls)
  {
    std::string csv;
    for (unsigned c(0); c < ncl; ++c) csv += "k" + std::to_string(c) + ",0.5,1.5\n";
    std::istringstream in(csv);
    if (d.read_csv(in, dataframe::params().no_header()) != ncl) return "bad-import";
    d.clear();
  }
  std::vector<std::size_t> left, owner;
  for (const auto &q : gs) left.push_back(q.count);
  owner.reserve(n);
  for (std::size_t done(0); done < n; )
    for (std::size_t j(0); j < g; ++j)
      if (left[j])
      {
        --left[j];
        ++done;
        dataframe::example ex;
        ex.output = gs[j].out;
        ex.input = {gs[j].x1, value_t(0.0)};
        ex.difficulty = d0;
        d.push_back(ex);
        owner.push_back(j);
      }

  const i_mep prg(S.make("x1"));
  auto eva(make_eva<i_mep>(kind, d, x_slot));
  if (!eva) return "bad-op";
  const auto fit((*eva)(prg));

  std::vector<std::size_t> inc(g, 0);
  std::size_t odd(0), i(0);
  for (const auto &e : d)
  {
    if (e.difficulty == d0 + 1) ++inc[owner[i]];
    else if (e.difficulty != d0) ++odd;
    ++i;
  }
  std::string ans("ok " + showfit(fit) + " n " + std::to_string(d.size()) + " inc");
  for (auto v : inc) ans += " " + std::to_string(v);
  return ans + " odd " + std::to_string(odd);
}

// ---- test_evaluator ----------------------------------------------------------------------
std::string do_tev(const std::vector<std::string> &t)
{
  if (t.size() < 4) return "bad-op";
  test_evaluator_type ty;
  if (t[1] == "distinct") ty = test_evaluator_type::distinct;
  else if (t[1] == "fixed") ty = test_evaluator_type::fixed;
  else if (t[1] == "random") ty = test_evaluator_type::random;
  else return "bad-op";
  const bool fast(t[2] == "1");
  const std::size_t k(std::stoull(t[3]));
  if (t.size() != 4 + k) return "bad-op";

  test_evaluator<i_de> eva(ty);
  evaluator<i_de> &base(eva);
  std::string seq("ok seq");
  for (std::size_t i(0); i < k; ++i)
  {
    const auto fit(fast ? base.fast(make_param_ind<i_de>(std::stod(t[4 + i])))
                        : base(make_param_ind<i_de>(std::stod(t[4 + i]))));
    seq += fit.size() == 1 ? " " + showf(fit[0]) : " size=" + std::to_string(fit.size());
  }
  return seq;
}
}  // namespace

int main()
{
  log::reporting_level = log::lOFF;
  random::seed(1);
  symbols S;

  std::string line;
  while (std::getline(std::cin, line))
  {
    const auto t(verif::split(line));
    if (t.empty()) continue;
    std::string ans;
    try
    {
      if (t[0] == "reg") ans = do_reg(S, t, 1, nullptr);
      else if (t[0] == "con")
      {
        pen_spec pen;
        ans = (t.size() > 2 && parse_pen("d", t[1], pen)) ? do_reg(S, t, 2, &pen) : "bad-op";
      }
      else if (t[0] == "conp")
      {
        pen_spec pen;
        ans = (t.size() > 3 && parse_pen(t[1], t[2], pen)) ? do_reg(S, t, 3, &pen) : "bad-op";
      }
      else if (t[0] == "cls") ans = do_cls(S, t, false);
      else if (t[0] == "clsf") ans = do_cls(S, t, true);
      else if (t[0] == "ga" || t[0] == "gaf" || t[0] == "de" || t[0] == "def") ans = do_ga(t);
      else if (t[0] == "gac") ans = do_gac(t);
      else if (t[0] == "tev") ans = do_tev(t);
      else if (t[0] == "hist") ans = do_hist(S, t);
      else if (t[0] == "big") ans = do_big(S, t);
      else if (t[0] == "wrap") ans = do_wrap(S, t);
      else if (t[0] == "small")
      {
        double v;
        ans = (t.size() == 2 && parsef(t[1], v)) ? (issmall(v) ? "1" : "0") : "bad-op";
      }
      else ans = "bad-op";
    }
    catch (const std::exception &e)
    {
      ans = std::string("exc ") + e.what();
    }
    std::cout << ans << "\n" << std::flush;
  }
  return 0;
}
