// C06 harness: observations of the real population / selection / replacement / tuning /
// evolution code for the Lean driver (c06_driver), plus this harness's own oracle of the
// property clauses.
//
//   c06_run <case-file>        (stdin must be empty: evolution polls the keyboard)
//
// One case per line of the case file (see checks/c06.py).  Output, per case:
//   # case <i> begin
//   <oracle>|<expected>|<driver request>        one per observation
//   # case <i> end
// <oracle>   = ok | bad:<clause> (this harness's own, model-independent, check of the property)
// <expected> = the exact answer the driver must give (differential observations), or `-`
//              when the driver must answer `ok` (relational observations).
#include <algorithm>
#include <cmath>
#include <fstream>
#include <functional>
#include <map>
#include <memory>
#include <sstream>

#include "kernel/vita.h"
#include "common/verif.h"

using namespace vita;

namespace
{

void emit(const std::string &oracle, const std::string &expected, const std::string &req)
{
  std::cout << oracle << '|' << expected << '|' << req << '\n';
}

// ---------------------------------------------------------------------------------------
// evaluators: deterministic, integer valued, always <= -1 (family_competition divides by a
// sum of fitnesses and assumes a common sign)
// ---------------------------------------------------------------------------------------
struct fitcfg
{
  unsigned k = 1;   // coarseness: larger = more ties
};

double raw_fit(const i_ga &x, const fitcfg &c)
{
  long long s(0);
  for (auto g : x) s += std::llabs(static_cast<long long>(g));
  return -static_cast<double>(1 + s / static_cast<long long>(c.k));
}

double raw_fit(const i_de &x, const fitcfg &c)
{
  double s(0.0);
  for (auto g : x) s += std::fabs(g);
  if (!std::isfinite(s) || s > 1e15) s = 1e15;
  return -(1.0 + std::floor(s / static_cast<double>(c.k)));
}

double raw_fit(const i_mep &x, const fitcfg &c)
{
  // a function of the signature only (i.e. of the active program): consistent with the
  // signature-keyed cache of evaluator_proxy
  const auto h(x.signature());
  return -static_cast<double>(1 + ((h.data[0] >> 11) ^ (h.data[1] >> 7)) % (1 + 997 / c.k));
}

template<class T>
class h_eval : public evaluator<T>
{
public:
  explicit h_eval(fitcfg c) : c_(c) {}
  fitness_t operator()(const T &x) override { return {raw_fit(x, c_)}; }

private:
  fitcfg c_;
};

struct obs_t
{
  long long fit;
  unsigned age;
  std::uint64_t sig;
  bool valid;

  bool operator==(const obs_t &o) const
  { return fit == o.fit && age == o.age && sig == o.sig && valid == o.valid; }
  bool operator!=(const obs_t &o) const { return !(*this == o); }
};

std::ostream &operator<<(std::ostream &s, const obs_t &o)
{
  return s << o.fit << ' ' << o.age << ' ' << o.sig << ' ' << (o.valid ? 1 : 0);
}

template<class T> obs_t obs_of(const T &x, const fitcfg &c)
{
  return {static_cast<long long>(raw_fit(x, c)), x.age(), x.signature().data[0], x.is_valid()};
}

using snap_t = std::vector<std::vector<obs_t>>;

template<class T> snap_t snapshot(const population<T> &pop, const fitcfg &c)
{
  snap_t s(pop.layers());
  for (unsigned l(0); l < pop.layers(); ++l)
  {
    s[l].reserve(pop.individuals(l));
    for (unsigned i(0); i < pop.individuals(l); ++i)
      s[l].push_back(obs_of(pop[{l, i}], c));
  }
  return s;
}

// ---------------------------------------------------------------------------------------
// problems
// ---------------------------------------------------------------------------------------
template<class T> struct prob_for;

template<> struct prob_for<i_mep>
{
  problem prob;
  symbol_factory factory;
  prob_for()
  {
    prob.env.init();
    prob.env.mep.code_length = 16;
    prob.env.mep.patch_length = 2;
    for (const char *s : {"REAL", "FADD", "FSUB", "FMUL", "FIFL", "FIFE"})
      prob.sset.insert(factory.make(s));
  }
};

template<> struct prob_for<i_ga>
{
  ga_problem prob;
  prob_for()
  {
    prob.env.init();
    int v(10);
    for (unsigned i(0); i < 4; ++i, v *= 5)
      prob.insert(range(-v, +v));
  }
};

template<> struct prob_for<i_de>
{
  de_problem prob;
  prob_for()
  {
    prob.env.init();
    double v(10.0);
    for (unsigned i(0); i < 4; ++i, v *= 5.0)
      prob.insert(range(-v, +v));
  }
};

// ---------------------------------------------------------------------------------------
// the run configuration shared by the selection / replacement / run cases
// ---------------------------------------------------------------------------------------
struct runcfg
{
  std::string strat = "std";   // std | de | alps
  unsigned seed = 1;
  unsigned individuals = 20, min_individuals = 2, layers = 1, generations = 3;
  unsigned tournament = 3, mate_zone = 20, brood = 1, age_gap = 3, cache = 0, fitk = 1;
  int elitism = 1;
  double p_cross = 0.9, p_mutation = 0.04, p_same = 0.75;

  void apply(environment &e) const
  {
    e.individuals = individuals;
    e.min_individuals = min_individuals;
    e.layers = layers;
    e.generations = generations;
    e.tournament_size = tournament;
    e.mate_zone = mate_zone;
    e.brood_recombination = brood;
    e.elitism = elitism ? trilean::yes : trilean::no;
    e.p_cross = p_cross;
    e.p_mutation = p_mutation;
    e.alps.age_gap = age_gap;
    e.alps.p_same_layer = p_same;
    e.cache_size = cache;
    e.max_stuck_time = std::numeric_limits<unsigned>::max();
  }

  std::string cfg_line() const
  {
    std::ostringstream o;
    o << "cfg " << strat << ' ' << (elitism ? 1 : 0) << ' ' << tournament << ' ' << mate_zone << ' '
      << age_gap;
    return o.str();
  }
};

runcfg parse_cfg(const std::vector<std::string> &t, std::size_t from, std::map<std::string, std::string> *extra)
{
  runcfg c;
  for (std::size_t i(from); i < t.size(); ++i)
  {
    const auto eq(t[i].find('='));
    if (eq == std::string::npos) continue;
    const std::string k(t[i].substr(0, eq)), v(t[i].substr(eq + 1));
    if (k == "strat") c.strat = v;
    else if (k == "seed") c.seed = std::stoul(v);
    else if (k == "individuals") c.individuals = std::stoul(v);
    else if (k == "min_individuals") c.min_individuals = std::stoul(v);
    else if (k == "layers") c.layers = std::stoul(v);
    else if (k == "generations") c.generations = std::stoul(v);
    else if (k == "tournament") c.tournament = std::stoul(v);
    else if (k == "mate_zone") c.mate_zone = std::stoul(v);
    else if (k == "brood") c.brood = std::stoul(v);
    else if (k == "age_gap") c.age_gap = std::stoul(v);
    else if (k == "cache") c.cache = std::stoul(v);
    else if (k == "fitk") c.fitk = std::stoul(v);
    else if (k == "elitism") c.elitism = std::stoi(v);
    else if (k == "p_cross") c.p_cross = std::stod(v);
    else if (k == "p_mutation") c.p_mutation = std::stod(v);
    else if (k == "p_same") c.p_same = std::stod(v);
    else if (extra) (*extra)[k] = v;
  }
  return c;
}

template<class T>
std::unique_ptr<evaluator<T>> make_eva(const runcfg &c)
{
  const fitcfg f{c.fitk};
  if (c.cache)
    return std::make_unique<evaluator_proxy<T, h_eval<T>>>(h_eval<T>(f), c.cache);
  return std::make_unique<h_eval<T>>(f);
}

// zone membership, written independently of the Lean model: distance from the zone start
bool in_zone(unsigned target, unsigned width, unsigned n, unsigned x)
{
  if (x >= n) return false;
  if (width >= n) return true;
  const unsigned start((target + n - (width / 2) % n) % n);
  return (x + n - start) % n < width;
}

// ---------------------------------------------------------------------------------------
// the monitor: everything observed about one population + summary
// ---------------------------------------------------------------------------------------
template<class T>
struct monitor
{
  using coord = typename population<T>::coord;
  using parents_t = std::vector<coord>;

  const population<T> *pop = nullptr;
  const summary<T> *sum = nullptr;
  runcfg cfg;
  fitcfg fc;
  snap_t snap;
  std::vector<unsigned> shape0;
  long long best_before = 0;
  bool have_best = false;
  unsigned long events = 0;

  std::string state_line(const char *mode, unsigned gen) const
  {
    std::ostringstream o;
    o << "state " << mode << ' ' << gen << ' ' << sum->last_imp << ' '
      << static_cast<long long>(sum->best.score.fitness[0]) << ' '
      << obs_of(sum->best.solution, fc) << ' ' << pop->layers();
    for (unsigned l(0); l < pop->layers(); ++l)
    {
      o << ' ' << pop->allowed(l) << ' ' << pop->individuals(l);
      for (unsigned i(0); i < pop->individuals(l); ++i)
        o << ' ' << obs_of((*pop)[{l, i}], fc);
    }
    return o.str();
  }

  // the clauses that must hold in every observed state
  std::string state_oracle(unsigned gen) const
  {
    for (unsigned l(0); l < pop->layers(); ++l)
    {
      if (pop->individuals(l) > pop->allowed(l)) return "bad:layer-above-allowed";
      for (unsigned i(0); i < pop->individuals(l); ++i)
        if (!(*pop)[{l, i}].is_valid()) return "bad:individual-not-valid";
    }
    if (cfg.strat != "alps")
    {
      if (pop->layers() != shape0.size()) return "bad:size-changed";
      for (unsigned l(0); l < pop->layers(); ++l)
        if (pop->individuals(l) != shape0[l]) return "bad:size-changed";
    }
    if (sum->best.score.fitness.size() != 1) return "bad:best-fitness-shape";
    if (sum->best.score.fitness[0] != raw_fit(sum->best.solution, fc)) return "bad:best-not-eval";
    if (!sum->best.solution.is_valid()) return "bad:best-not-valid";
    if (sum->last_imp > gen) return "bad:last-imp-after-gen";
    if (have_best && static_cast<long long>(sum->best.score.fitness[0]) < best_before)
      return "bad:best-decreased";
    return "ok";
  }

  void begin(const population<T> &p, const summary<T> &s)
  {
    pop = &p;
    sum = &s;
    shape0.clear();
    for (unsigned l(0); l < p.layers(); ++l) shape0.push_back(p.individuals(l));
    snap = snapshot(p, fc);
    have_best = false;
    emit("ok", "-", cfg.cfg_line());
    emit(state_oracle(s.gen), "-", state_line("init", s.gen));
    best_before = static_cast<long long>(s.best.score.fitness[0]);
    have_best = true;
  }

  bool member(coord c) const { return c.layer < pop->layers() && c.index < pop->individuals(c.layer); }

  long long fit_at(coord c) const { return snap[c.layer][c.index].fit; }

  void selected(const parents_t &ps)
  {
    ++events;
    std::string oracle("ok");
    for (auto c : ps)
      if (!member(c)) oracle = "bad:parent-not-member";

    std::ostringstream o;
    if (cfg.strat == "std")
    {
      o << "sel tour";
      if (oracle == "ok")
      {
        if (ps.size() != cfg.tournament) oracle = "bad:parents-count";
        for (std::size_t i(1); i < ps.size() && oracle == "ok"; ++i)
        {
          if (ps[i].layer != ps[0].layer) oracle = "bad:parents-different-layers";
          else if (fit_at(ps[i - 1]) < fit_at(ps[i])) oracle = "bad:parents-not-sorted";
        }
        if (oracle == "ok" && !ps.empty())
        {
          const unsigned n(pop->individuals(ps[0].layer));
          bool found(false);
          for (unsigned t(0); t < n && !found; ++t)
            found = std::all_of(ps.begin(), ps.end(),
                                [&](coord c) { return in_zone(t, cfg.mate_zone, n, c.index); });
          if (!found) oracle = "bad:parents-not-in-one-zone";
        }
      }
    }
    else if (cfg.strat == "alps")
    {
      o << "sel alps";
      if (oracle == "ok")
      {
        if (ps.size() != 2) oracle = "bad:parents-count";
        else
        {
          bool found(false);
          for (unsigned l(0); l < pop->layers() && !found; ++l)
            found = std::all_of(ps.begin(), ps.end(),
                                [&](coord c) { return c.layer == l || c.layer + 1 == l; });
          if (!found) oracle = "bad:parents-not-in-layer-or-below";
          const auto &env(pop->get_problem().env);
          const auto key([&](coord c)
                         {
                           const bool aged(env.alps.aged((*pop)[c], c.layer, pop->layers()));
                           return std::make_pair(!aged, fit_at(c));
                         });
          if (oracle == "ok" && key(ps[0]) < key(ps[1])) oracle = "bad:parents-order";
        }
      }
    }
    else
    {
      o << "sel rand";
      if (oracle == "ok" && ps.size() != cfg.tournament) oracle = "bad:parents-count";
    }
    o << ' ' << ps.size();
    for (auto c : ps) o << ' ' << c.layer << ' ' << c.index;
    emit(oracle, "-", o.str());
  }

  // called after a replacement; `family` = family_competition (candidates = the two parents)
  void replaced(const parents_t &ps, const T &off, bool family)
  {
    ++events;
    const obs_t offobs(obs_of(off, fc));
    std::string oracle(offobs.valid ? "ok" : "bad:offspring-not-valid");

    long long max_before(std::numeric_limits<long long>::min());
    for (const auto &l : snap) for (const auto &o : l) max_before = std::max(max_before, o.fit);

    snap_t post(snapshot(*pop, fc));
    std::ostringstream ch;
    unsigned nch(0);
    for (unsigned l(0); l < post.size(); ++l)
      for (unsigned i(0); i < post[l].size(); ++i)
        if (l >= snap.size() || i >= snap[l].size() || snap[l][i] != post[l][i])
        {
          ch << ' ' << l << ' ' << i << ' ' << post[l][i];
          ++nch;
        }
    bool shrunk(post.size() != snap.size());
    for (unsigned l(0); l < post.size() && !shrunk; ++l)
      shrunk = post[l].size() < snap[l].size();
    if (shrunk && oracle == "ok") oracle = "bad:population-shrunk-in-replacement";

    long long max_after(std::numeric_limits<long long>::min());
    for (const auto &l : post) for (const auto &o : l) max_after = std::max(max_after, o.fit);

    if (oracle == "ok") oracle = state_oracle(sum->gen);
    if (oracle == "ok" && cfg.strat != "alps" && cfg.elitism && max_after < max_before)
      oracle = "bad:elitism-max-lowered";

    std::ostringstream o;
    o << "step " << (family ? 1 : 0) << ' ' << ps.size();
    for (auto c : ps) o << ' ' << c.layer << ' ' << c.index;
    o << ' ' << offobs << ' ' << nch << ch.str() << ' ' << sum->gen << ' ' << sum->last_imp << ' '
      << static_cast<long long>(sum->best.score.fitness[0]) << ' ' << obs_of(sum->best.solution, fc);
    emit(oracle, "-", o.str());

    snap = std::move(post);
    best_before = static_cast<long long>(sum->best.score.fitness[0]);
  }

  void before_after_generation()
  {
    ++events;
    emit(state_oracle(sum->gen), "-", state_line("check", sum->gen));
  }

  // component cases: a generation boundary without strategy specific book-keeping
  void aftergen_same()
  {
    ++events;
    emit(state_oracle(sum->gen), "-", state_line("aftergen", sum->gen + 1));
  }

  void after_after_generation()
  {
    ++events;
    // `++stats_.gen` follows immediately in evolution::run; the next step record carries the
    // generation number, so the driver verifies the increment
    emit(state_oracle(sum->gen), "-", state_line("aftergen", sum->gen + 1));
    snap = snapshot(*pop, fc);
  }
};

template<class T> monitor<T> *g_mon = nullptr;

// ---------------------------------------------------------------------------------------
// an evolution strategy that wraps a real one and reports to the monitor; plugged into the
// real `evolution<T, ES>::run`
// ---------------------------------------------------------------------------------------
template<class T, template<class> class REAL>
class mon_es
{
public:
  using parents_t = std::vector<typename population<T>::coord>;
  using offspring_t = typename recombination::strategy<T>::offspring_t;

  mon_es(population<T> &pop, evaluator<T> &eva, summary<T> *s)
    : selection{this}, recombination{this}, replacement{this}, real_(pop, eva, s), pop_(&pop), sum_(s)
  {
  }

  struct sel_w
  {
    mon_es *m;
    parents_t run()
    {
      auto ps(m->real_.selection.run());
      g_mon<T>->selected(ps);
      return ps;
    }
  } selection;

  struct rec_w
  {
    mon_es *m;
    offspring_t run(const parents_t &ps)
    {
      auto off(m->real_.recombination.run(ps));
      if (off.size() != 1) emit("bad:offspring-count", "-", "noop");
      return off;
    }
  } recombination;

  struct rep_w
  {
    mon_es *m;
    void run(const parents_t &ps, const offspring_t &off, summary<T> *s)
    {
      m->real_.replacement.run(ps, off, s);
      g_mon<T>->replaced(ps, off[0], false);
    }
  } replacement;

  void init()
  {
    real_.init();
    g_mon<T>->begin(*pop_, *sum_);
  }

  void after_generation()
  {
    g_mon<T>->before_after_generation();
    real_.after_generation();
    g_mon<T>->after_after_generation();
  }

  bool stop_condition() const { return real_.stop_condition(); }
  void log_strategy(unsigned a, unsigned b) const { real_.log_strategy(a, b); }
  static environment shape(const environment &e) { return REAL<T>::shape(e); }

private:
  REAL<T> real_;
  population<T> *pop_;
  summary<T> *sum_;
};

template<class T> using mon_std = mon_es<T, std_es>;
template<class T> using mon_alps = mon_es<T, alps_es>;
template<class T> using mon_de = mon_es<T, de_es>;
template<class T> using mon_de_alps = mon_es<T, de_alps_es>;

// ---------------------------------------------------------------------------------------
// case: whole run through the real evolution<T, ES>::run
// ---------------------------------------------------------------------------------------
template<class T, template<class> class ES>
void whole_run(const runcfg &c)
{
  prob_for<T> pf;
  c.apply(pf.prob.env);
  random::seed(c.seed);

  auto eva(make_eva<T>(c));
  monitor<T> mon;
  mon.cfg = c;
  mon.fc = fitcfg{c.fitk};
  g_mon<T> = &mon;

  evolution<T, ES> evo(pf.prob, *eva);
  unsigned callbacks(0);
  evo.after_generation([&](const population<T> &p, const summary<T> &s)
                       {
                         ++callbacks;
                         if (&p != mon.pop || &s != mon.sum)
                           emit("bad:callback-sees-other-objects", "-", "noop");
                       });
  const auto &s(evo.run(0));
  if (callbacks != s.gen)
    emit("bad:callback-count", "-", "noop");
  g_mon<T> = nullptr;
}

void case_run(const std::vector<std::string> &t)
{
  std::map<std::string, std::string> extra;
  const runcfg c(parse_cfg(t, 1, &extra));
  const std::string ind(extra["T"]);
  if (c.strat == "std" && ind == "mep") whole_run<i_mep, mon_std>(c);
  else if (c.strat == "std" && ind == "ga") whole_run<i_ga, mon_std>(c);
  else if (c.strat == "alps" && ind == "mep") whole_run<i_mep, mon_alps>(c);
  else if (c.strat == "alps" && ind == "ga") whole_run<i_ga, mon_alps>(c);
  else if (c.strat == "de" && ind == "de") whole_run<i_de, mon_de>(c);
  else if (c.strat == "alps" && ind == "de") whole_run<i_de, mon_de_alps>(c);
  else emit("bad:unknown-run-case", "-", "noop");
}

// ---------------------------------------------------------------------------------------
// case: selection / replacement strategies driven directly on a prepared population
// ---------------------------------------------------------------------------------------
template<class T>
void prepare(population<T> &pop, const runcfg &c, verif::splitmix &rng)
{
  for (unsigned l(1); l < c.layers; ++l)
    pop.add_layer();
  // spread the ages (ALPS looks at them)
  const unsigned rounds(rng.below(4 * c.age_gap + 2));
  for (unsigned r(0); r < rounds; ++r)
  {
    if (rng.chance(0.5))
      pop.inc_age();
    else
      for (unsigned l(0); l < pop.layers(); ++l)
        for (unsigned i(0); i < pop.individuals(l); ++i)
          if (rng.chance(0.3)) pop[{l, i}].inc_age();
  }
  // uneven layers
  for (unsigned l(0); l < pop.layers(); ++l)
    if (rng.chance(0.4))
    {
      const unsigned n(1 + rng.below(pop.individuals(l)));
      while (pop.individuals(l) > n) pop.pop_from_layer(l);
    }
}

template<class T>
void components(const runcfg &c, const std::string &what, unsigned count)
{
  using coord = typename population<T>::coord;
  prob_for<T> pf;
  c.apply(pf.prob.env);
  random::seed(c.seed);
  verif::splitmix rng(c.seed * 7919u + 13u);

  auto eva(make_eva<T>(c));
  population<T> pop(pf.prob);
  prepare(pop, c, rng);

  summary<T> sum;
  sum.best.solution = pop[{0, 0}];
  sum.best.score.fitness = (*eva)(sum.best.solution);
  sum.gen = rng.below(5);
  sum.last_imp = sum.gen ? rng.below(sum.gen + 1) : 0;

  monitor<T> mon;
  mon.cfg = c;
  mon.fc = fitcfg{c.fitk};
  mon.begin(pop, sum);

  selection::tournament<T> sel_t(pop, *eva, sum);
  selection::alps<T> sel_a(pop, *eva, sum);
  selection::random<T> sel_r(pop, *eva, sum);
  replacement::tournament<T> rep_t(pop, *eva);
  replacement::family_competition<T> rep_f(pop, *eva);
  replacement::alps<T> rep_a(pop, *eva);

  const auto any_coord([&]()
                       {
                         const unsigned l(rng.below(pop.layers()));
                         return coord{l, static_cast<unsigned>(rng.below(pop.individuals(l)))};
                       });
  const auto new_off([&]()
                     {
                       // a fresh individual, a clone of a member (ties!) or an aged clone
                       if (rng.chance(0.4)) return T(pf.prob);
                       T x(pop[any_coord()]);
                       if (rng.chance(0.3)) x.inc_age();
                       return x;
                     });

  for (unsigned n(0); n < count; ++n)
  {
    std::vector<coord> ps;
    if (c.strat == "std") ps = sel_t.run();
    else if (c.strat == "alps") ps = sel_a.run();
    else ps = sel_r.run();
    mon.selected(ps);

    if (what == "sel")
      continue;

    bool members(true);
    for (auto p : ps) members = members && mon.member(p);
    if (!members || ps.size() < 2)
      continue;

    typename replacement::strategy<T>::offspring_t off{new_off()};
    if (what == "family")
    {
      rep_f.run(ps, off, &sum);
      mon.replaced(ps, off[0], true);
    }
    else if (c.strat == "alps")
    {
      rep_a.run(ps, off, &sum);
      mon.replaced(ps, off[0], false);
    }
    else
    {
      rep_t.run(ps, off, &sum);
      mon.replaced(ps, off[0], false);
    }
    if (rng.chance(0.1))
    {
      // next generation (no strategy specific book-keeping in this case)
      mon.before_after_generation();
      mon.aftergen_same();
      ++sum.gen;
    }
  }
}

void case_components(const std::vector<std::string> &t)
{
  std::map<std::string, std::string> extra;
  const runcfg c(parse_cfg(t, 1, &extra));
  const std::string ind(extra["T"]), what(extra["what"]);
  const unsigned count(std::stoul(extra["count"]));
  if (ind == "mep") components<i_mep>(c, what, count);
  else if (ind == "ga") components<i_ga>(c, what, count);
  else if (ind == "de") components<i_de>(c, what, count);
  else emit("bad:unknown-individual", "-", "noop");
}

// ---------------------------------------------------------------------------------------
// case: book-keeping operations on a real population<i_ga>
// ---------------------------------------------------------------------------------------
std::string dump(const population<i_ga> &p)
{
  std::ostringstream o;
  o << p.layers();
  bool inv(true);
  for (unsigned l(0); l < p.layers(); ++l)
  {
    o << ' ' << p.allowed(l) << ' ' << p.individuals(l);
    for (unsigned i(0); i < p.individuals(l); ++i)
      o << ' ' << p[{l, i}].age();
    if (p.individuals(l) > p.allowed(l)) inv = false;
  }
  o << " inv=" << (inv ? 1 : 0);
  return o.str();
}

void case_ops(const std::vector<std::string> &t)
{
  // ops seed individuals min_individuals nops
  const unsigned seed(std::stoul(t[1])), individuals(std::stoul(t[2])), min_ind(std::stoul(t[3])),
                 nops(std::stoul(t[4]));
  prob_for<i_ga> pf;
  pf.prob.env.individuals = individuals;
  pf.prob.env.min_individuals = min_ind;
  random::seed(seed);
  verif::splitmix rng(seed * 104729u + 7u);

  population<i_ga> pop(pf.prob);
  const auto oracle([&]()
                    {
                      for (unsigned l(0); l < pop.layers(); ++l)
                      {
                        if (pop.individuals(l) > pop.allowed(l)) return std::string("bad:layer-above-allowed");
                        for (unsigned i(0); i < pop.individuals(l); ++i)
                          if (!pop[{l, i}].is_valid()) return std::string("bad:individual-not-valid");
                      }
                      return std::string("ok");
                    });
  {
    std::ostringstream r;
    r << "pb-new " << individuals << ' ' << min_ind;
    emit(oracle(), dump(pop), r.str());
  }

  const auto aged([&](unsigned a)
                  {
                    i_ga x(pf.prob);
                    for (unsigned k(0); k < a; ++k) x.inc_age();
                    return x;
                  });

  for (unsigned n(0); n < nops; ++n)
  {
    std::ostringstream r;
    const unsigned l(rng.below(pop.layers()));
    switch (rng.below(9))
    {
    case 0:
      pop.init_layer(l);
      r << "pb-init " << l;
      break;
    case 1:
      if (pop.layers() >= 6 || !pop.individuals(0)) continue;
      pop.add_layer();
      r << "pb-addlayer";
      break;
    case 2:
      if (pop.layers() < 2) continue;
      pop.remove_layer(l);
      r << "pb-remove " << l;
      break;
    case 3:
    case 4:
    {
      const unsigned a(rng.below(6));
      pop.add_to_layer(l, aged(a));
      r << "pb-add " << l << ' ' << a;
      break;
    }
    case 5:
      if (!pop.individuals(l)) continue;
      pop.pop_from_layer(l);
      r << "pb-pop " << l;
      break;
    case 6:
    {
      const unsigned k(rng.below(individuals + 1));   // Expects(n <= capacity)
      pop.set_allowed(l, k);
      r << "pb-allow " << l << ' ' << k;
      break;
    }
    case 7:
    {
      if (!pop.individuals(l)) continue;
      const unsigned i(rng.below(pop.individuals(l))), a(rng.below(6));
      pop[{l, i}] = aged(a);
      r << "pb-assign " << l << ' ' << i << ' ' << a;
      break;
    }
    default:
      pop.inc_age();
      r << "pb-incage";
    }
    emit(oracle(), dump(pop), r.str());
  }
}

// ---------------------------------------------------------------------------------------
// case: random::ring
// ---------------------------------------------------------------------------------------
void case_ring(const std::vector<std::string> &t)
{
  const unsigned seed(std::stoul(t[1])), count(std::stoul(t[2]));
  random::seed(seed);
  verif::splitmix rng(seed * 31u + 5u);
  for (unsigned k(0); k < count; ++k)
  {
    const unsigned n(2 + (rng.chance(0.5) ? rng.below(12) : rng.below(2000)));
    const unsigned base(rng.below(n));
    unsigned width;
    switch (rng.below(6))
    {
    case 0: width = 1; break;
    case 1: width = n - 1; break;
    case 2: width = n; break;
    case 3: width = n + 1 + rng.below(5); break;
    case 4: width = std::numeric_limits<unsigned>::max(); break;
    default: width = 1 + rng.below(n);
    }
    const unsigned r(random::ring(base, width, n));
    std::ostringstream o;
    o << "ring " << base << ' ' << width << ' ' << n << ' ' << r;
    emit(in_zone(base, width, n, r) ? "ok" : "bad:ring-outside-zone", "-", o.str());
  }
}

// ---------------------------------------------------------------------------------------
// case: tune_parameters of the three search classes + environment::is_valid
// ---------------------------------------------------------------------------------------
// access to the protected virtual `tune_parameters` (src_search is final, so it cannot be
// exposed by derivation): explicit template instantiation may name inaccessible members.
template<class Tag> struct stolen { static typename Tag::type ptr; };
template<class Tag> typename Tag::type stolen<Tag>::ptr;
template<class Tag, typename Tag::type P> struct steal
{
  struct filler { filler() { stolen<Tag>::ptr = P; } };
  static filler f;
};
template<class Tag, typename Tag::type P> typename steal<Tag, P>::filler steal<Tag, P>::f;

using ga_fun = double (*)(const i_ga &);
using de_fun = double (*)(const i_de &);
using s_base_std = search<i_mep, std_es>;
using s_base_alps = search<i_mep, alps_es>;
using s_src_std = src_search<i_mep, std_es>;
using s_src_alps = src_search<i_mep, alps_es>;
using s_ga = basic_ga_search<i_ga, std_es, ga_fun>;
using s_de = basic_ga_search<i_de, de_es, de_fun>;
using s_ga_alps = basic_ga_search<i_ga, alps_es, ga_fun>;

#define STEAL(NAME, CLS) \
  struct NAME { using type = void (CLS::*)(); }; \
  template struct steal<NAME, &CLS::tune_parameters>;
STEAL(t_base_std, s_base_std)
STEAL(t_base_alps, s_base_alps)
STEAL(t_src_std, s_src_std)
STEAL(t_src_alps, s_src_alps)
STEAL(t_ga, s_ga)
STEAL(t_de, s_de)
STEAL(t_ga_alps, s_ga_alps)

double ga_f(const i_ga &) { return 0.0; }
double de_f(const i_de &) { return 0.0; }

std::string opt_str(bool has, unsigned v) { return has ? std::to_string(v) : std::string("-"); }

std::string env_fields(const environment &e)
{
  std::ostringstream o;
  o << e.mep.code_length << ' ' << e.mep.patch_length << ' '
    << (e.elitism == trilean::no ? 0 : e.elitism == trilean::yes ? 1 : 2) << ' '
    << verif::bits(e.p_mutation) << ' ' << verif::bits(e.p_cross) << ' ' << e.brood_recombination << ' '
    << e.layers << ' ' << e.individuals << ' ' << e.min_individuals << ' ' << e.tournament_size << ' '
    << e.mate_zone << ' ' << e.generations << ' '
    << opt_str(e.max_stuck_time.has_value(), *e.max_stuck_time) << ' '
    << opt_str(e.dss.has_value(), *e.dss) << ' '
    << opt_str(e.validation_percentage.has_value(), *e.validation_percentage) << ' '
    << e.alps.age_gap << ' ' << verif::bits(e.alps.p_same_layer) << ' ' << e.team.individuals;
  return o.str();
}

// tokens: code patch elitism(0/1/2) p_mut(bits) p_cross(bits) brood layers individuals min_individuals
//         tournament mate_zone generations max_stuck(-|n) dss(-|n) validation(-|n) age_gap p_same(bits) team
void read_env(const std::vector<std::string> &t, std::size_t at, environment *e)
{
  const auto u([&](std::size_t i) { return static_cast<unsigned>(std::stoull(t[at + i])); });
  const auto d([&](std::size_t i) { return verif::from_bits(std::stoull(t[at + i])); });
  e->mep.code_length = u(0);
  e->mep.patch_length = u(1);
  e->elitism = u(2) == 0 ? trilean::no : u(2) == 1 ? trilean::yes : trilean::unknown;
  e->p_mutation = d(3);
  e->p_cross = d(4);
  e->brood_recombination = u(5);
  e->layers = u(6);
  e->individuals = u(7);
  e->min_individuals = u(8);
  e->tournament_size = u(9);
  e->mate_zone = u(10);
  e->generations = u(11);
  if (t[at + 12] == "-") e->max_stuck_time.reset(); else e->max_stuck_time = u(12);
  if (t[at + 13] == "-") e->dss.reset(); else e->dss = u(13);
  if (t[at + 14] == "-") e->validation_percentage.reset(); else e->validation_percentage = u(14);
  e->alps.age_gap = u(15);
  e->alps.p_same_layer = d(16);
  e->team.individuals = u(17);
}

// the property's own reading of the clause, independent of the model: every tunable parameter
// defined afterwards, the user's settings kept (min_individuals may be raised up to `floor_min`),
// is_valid(true)
std::string tune_oracle(const environment &u, const environment &e, unsigned floor_min, bool valid_before)
{
  if (!e.mep.code_length || !e.mep.patch_length || e.elitism == trilean::unknown || e.p_mutation < 0.0
      || e.p_cross < 0.0 || !e.brood_recombination || !e.layers || !e.individuals || !e.min_individuals
      || !e.tournament_size || !e.mate_zone || !e.generations || !e.max_stuck_time.has_value())
    return "bad:parameter-left-undefined";
  if ((u.mep.code_length && e.mep.code_length != u.mep.code_length)
      || (u.mep.patch_length && e.mep.patch_length != u.mep.patch_length)
      || (u.elitism != trilean::unknown && e.elitism != u.elitism)
      || (!(u.p_mutation < 0.0) && verif::bits(e.p_mutation) != verif::bits(u.p_mutation))
      || (!(u.p_cross < 0.0) && verif::bits(e.p_cross) != verif::bits(u.p_cross))
      || (u.brood_recombination && e.brood_recombination != u.brood_recombination)
      || (u.layers && e.layers != u.layers)
      || (u.individuals && e.individuals != u.individuals)
      // (a request with individuals < min_individuals is inconsistent before tuning: not judged)
      || (valid_before && u.min_individuals && e.min_individuals != u.min_individuals
          && !(u.min_individuals < floor_min && e.min_individuals > u.min_individuals
               && e.min_individuals <= floor_min))
      || (u.tournament_size && e.tournament_size != u.tournament_size)
      || (u.mate_zone && e.mate_zone != u.mate_zone)
      || (u.generations && e.generations != u.generations)
      || (u.max_stuck_time.has_value() && *e.max_stuck_time != *u.max_stuck_time))
    return "bad:user-setting-changed";
  if (valid_before && u.alps.age_gap && !(u.alps.p_same_layer < 0.0) && u.team.individuals
      && !e.is_valid(true))
    return "bad:tuned-environment-not-valid";
  return "ok";
}

template<class Tag, class S>
void do_tune(S &s, problem &prob, const std::string &kind, unsigned es_layers, unsigned dsize,
             unsigned floor_min)
{
  const environment user(prob.env);
  const bool vb(user.is_valid(false));
  const unsigned term0(prob.sset.categories() ? prob.sset.terminals(0) : 0);
  (s.*stolen<Tag>::ptr)();
  const environment &e(prob.env);
  std::ostringstream req, exp;
  req << "tune " << kind << ' ' << es_layers << ' ' << term0 << ' ' << dsize << ' ' << env_fields(user);
  exp << env_fields(e) << ' ' << (vb ? 1 : 0) << ' ' << (e.is_valid(true) ? 1 : 0);
  emit(tune_oracle(user, e, floor_min, vb), exp.str(), req.str());
}

void case_tune(const std::vector<std::string> &t)
{
  // tune <class> <es> <nterm> <dsize> <18 env fields>
  const std::string cls(t[1]), es(t[2]);
  const unsigned nterm(std::stoul(t[3])), dsize(std::stoul(t[4]));
  const unsigned es_layers(es == "alps" ? 4 : 1);

  if (cls == "base")
  {
    problem prob;
    symbol_factory factory;
    for (unsigned i(0); i < nterm; ++i)
      prob.sset.insert(factory.make(std::to_string(i + 1) + ".5"));
    prob.sset.insert(factory.make("FADD"));
    read_env(t, 5, &prob.env);
    if (es == "alps") { s_base_alps s(prob); do_tune<t_base_alps>(s, prob, "base", es_layers, 0, 0); }
    else { s_base_std s(prob); do_tune<t_base_std>(s, prob, "base", es_layers, 0, 0); }
  }
  else if (cls == "src")
  {
    std::ostringstream csv;
    for (unsigned r(0); r < dsize; ++r)
    {
      csv << (r % 7) + 0.5;
      for (unsigned c(0); c < nterm; ++c) csv << ',' << (r * 31 + c * 17) % 23 + 0.25;
      csv << '\n';
    }
    std::istringstream in(csv.str());
    src_problem prob(in);
    read_env(t, 5, &prob.env);
    const unsigned n(prob.data().size());
    if (es == "alps") { s_src_alps s(prob); do_tune<t_src_alps>(s, prob, "src", es_layers, n, 0); }
    else { s_src_std s(prob); do_tune<t_src_std>(s, prob, "src", es_layers, n, 0); }
  }
  else if (cls == "ga")
  {
    ga_problem prob(nterm ? nterm : 1, range(-10, 10));
    read_env(t, 5, &prob.env);
    if (es == "alps") { s_ga_alps s(prob, ga_f); do_tune<t_ga_alps>(s, prob, "ga", es_layers, 0, 10); }
    else { s_ga s(prob, ga_f); do_tune<t_ga>(s, prob, "ga", es_layers, 0, 10); }
  }
  else if (cls == "de")
  {
    de_problem prob(nterm ? nterm : 1, range(-10.0, 10.0));
    read_env(t, 5, &prob.env);
    s_de s(prob, de_f);
    do_tune<t_de>(s, prob, "ga", es_layers, 0, 10);
  }
  else
    emit("bad:unknown-search-class", "-", "noop");
}

}  // namespace

int main(int argc, char *argv[])
{
  log::reporting_level = log::lOFF;
  if (argc < 2)
  {
    std::cerr << "usage: c06_run <case-file>\n";
    return 2;
  }
  std::ifstream in(argv[1]);
  std::string line;
  unsigned idx(0);
  while (std::getline(in, line))
  {
    const auto t(verif::split(line));
    if (t.empty()) { ++idx; continue; }
    std::cout << "# case " << idx << " begin\n";
    if (t[0] == "ops") case_ops(t);
    else if (t[0] == "ring") case_ring(t);
    else if (t[0] == "comp") case_components(t);
    else if (t[0] == "run") case_run(t);
    else if (t[0] == "tune") case_tune(t);
    else emit("bad:unknown-case", "-", "noop");
    std::cout << "# case " << idx << " end" << std::endl;
    ++idx;
  }
  return 0;
}
