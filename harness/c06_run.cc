// C06 harness (1/2): observations of the real selection / replacement strategies and of whole
// evolution<T,ES>::run executions for the Lean driver (c06_driver), plus this harness's own
// oracle of the property clauses.  (2/2 is c06_tune.cc: book-keeping ops, ring, tune_parameters.)
//
//   c06_run <case-file>        (stdin must be empty: evolution polls the keyboard)
//
// One case per line of the case file (see checks/c06.py).  Output, per case:
//   # case <i> begin
//   <oracle>|<expected>|<driver request>        one per observation
//   # case <i> end
// <oracle>   = ok | bad:<clause> (this harness's own, model-independent, check of the property)
// <expected> = the exact answer the driver must give (differential observations), or `-`
//              when the driver must answer `ok` (relational observations).
//
// `run` / `search` cases take `shake=<none|never|always|gen0|every|later|same> [shake_k=<k>]`: the shape of the
// shake functor handed to evolution::run(run_count, shake) (searches: through a user validation_strategy).
// The evaluator reads mutable data (fitcfg::salt) which the functor replaces; after every shake the monitor
// reports `state shake …` and judges best.fitness == eval_now(best.solution) (and every other clause).
#include <algorithm>
#include <cmath>
#include <fstream>
#include <functional>
#include <map>
#include <memory>
#include <sstream>

#include <sys/wait.h>
#include <unistd.h>

#include "kernel/vita.h"
#include "common/verif.h"

using namespace vita;

namespace
{

void emit(const std::string &oracle, const std::string &expected, const std::string &req)
{
  std::cout << oracle << '|' << expected << '|' << req << std::endl;   // flushed: an abort leaves no partial line
}

// ---------------------------------------------------------------------------------------
// evaluators: deterministic, integer valued, always <= -1 (family_competition divides by a
// sum of fitnesses and assumes a common sign)
// ---------------------------------------------------------------------------------------
struct fitcfg
{
  unsigned k = 1;      // coarseness: larger = more ties
  unsigned salt = 0;   // THE DATA the evaluator reads: a shake functor replaces it (0 = the data every run
                       // starts with; the scores below are the pre-shake ones for salt 0)
  unsigned fastk = 0;  // != 0: evaluator::fast() is a really different, coarser score (coarseness k*fastk+1), as
                       // the sum-of-errors evaluators' is on >= 100 examples; 0: fast() is operator()
};

double raw_fit(const i_ga &x, const fitcfg &c)
{
  long long s(0), i(0);
  for (auto g : x) s += std::llabs(static_cast<long long>(g) + 3ll * (++i) * c.salt);
  return -static_cast<double>(1 + s / static_cast<long long>(c.k));
}

double raw_fit(const i_de &x, const fitcfg &c)
{
  double s(0.0), i(0.0);
  for (auto g : x) s += std::fabs(g - 1.5 * (i += 1.0) * c.salt);
  if (!std::isfinite(s) || s > 1e15) s = 1e15;
  return -(1.0 + std::floor(s / static_cast<double>(c.k)));
}

inline std::uint64_t salt_bits(const fitcfg &c) { return (c.salt * 0x9E3779B97F4A7C15ull) >> 19; }

double raw_fit(const i_mep &x, const fitcfg &c)
{
  // a function of the signature only (i.e. of the active program) and of the data: consistent with the
  // signature-keyed cache of evaluator_proxy as long as the cache is cleared when the data change
  const auto h(x.signature());
  return -static_cast<double>(1 + ((h.data[0] >> 11) ^ (h.data[1] >> 7) ^ salt_bits(c)) % (1 + 997 / c.k));
}

double raw_fit(const team<i_mep> &x, const fitcfg &c)
{
  const auto h(x.signature());
  return -static_cast<double>(1 + ((h.data[0] >> 13) ^ (h.data[1] >> 5) ^ salt_bits(c)) % (1 + 997 / c.k));
}

// the evaluator does not own the data: it reads them through the pointer at every call
template<class T>
class h_eval : public evaluator<T>
{
public:
  explicit h_eval(const fitcfg *c) : c_(c) {}
  fitness_t operator()(const T &x) override { return {raw_fit(x, *c_)}; }
  // the approximation brood recombination ranks its candidates with: NOT the fitness, it must never be
  // remembered as such (the monitor's reference `raw_fit` is cache-less and exact)
  fitness_t fast(const T &x) override
  {
    if (!c_->fastk) return {raw_fit(x, *c_)};
    fitcfg f(*c_);
    f.k = f.k * f.fastk + 1;
    return {raw_fit(x, f)};
  }

private:
  const fitcfg *c_;
};

struct obs_t
{
  long long fit;
  unsigned age;
  std::uint64_t sig;
  bool valid;

  bool operator==(const obs_t &o) const
  { return fit == o.fit && age == o.age && sig == o.sig && valid == o.valid; }
  bool operator!=(const obs_t &o) const { return !(*this == o); }
};

std::ostream &operator<<(std::ostream &s, const obs_t &o)
{
  return s << o.fit << ' ' << o.age << ' ' << o.sig << ' ' << (o.valid ? 1 : 0);
}

template<class T> obs_t obs_of(const T &x, const fitcfg &c)
{
  return {static_cast<long long>(raw_fit(x, c)), x.age(), x.signature().data[0], x.is_valid()};
}

using snap_t = std::vector<std::vector<obs_t>>;

template<class T> snap_t snapshot(const population<T> &pop, const fitcfg &c)
{
  snap_t s(pop.layers());
  for (unsigned l(0); l < pop.layers(); ++l)
  {
    s[l].reserve(pop.individuals(l));
    for (unsigned i(0); i < pop.individuals(l); ++i)
      s[l].push_back(obs_of(pop[{l, i}], c));
  }
  return s;
}

// ---------------------------------------------------------------------------------------
// problems
// ---------------------------------------------------------------------------------------
template<class T> struct prob_for;

template<> struct prob_for<i_mep>
{
  problem prob;
  symbol_factory factory;
  prob_for()
  {
    prob.env.init();
    prob.env.mep.code_length = 16;
    prob.env.mep.patch_length = 2;
    for (const char *s : {"REAL", "FADD", "FSUB", "FMUL", "FIFL", "FIFE"})
      prob.sset.insert(factory.make(s));
  }
};

template<> struct prob_for<team<i_mep>> : prob_for<i_mep>
{
};

template<> struct prob_for<i_ga>
{
  ga_problem prob;
  prob_for()
  {
    prob.env.init();
    int v(10);
    for (unsigned i(0); i < 4; ++i, v *= 5)
      prob.insert(range(-v, +v));
  }
};

template<> struct prob_for<i_de>
{
  de_problem prob;
  prob_for()
  {
    prob.env.init();
    double v(10.0);
    for (unsigned i(0); i < 4; ++i, v *= 5.0)
      prob.insert(range(-v, +v));
  }
};

// ---------------------------------------------------------------------------------------
// the run configuration shared by the selection / replacement / run cases
// ---------------------------------------------------------------------------------------
struct runcfg
{
  std::string strat = "std";   // std | de | alps
  unsigned seed = 1;
  unsigned individuals = 20, min_individuals = 2, layers = 1, generations = 3;
  unsigned tournament = 3, mate_zone = 20, brood = 1, age_gap = 3, cache = 0, fitk = 1, fast = 0;
  int elitism = 1;
  double p_cross = 0.9, p_mutation = 0.04, p_same = 0.75;

  void apply(environment &e) const
  {
    e.individuals = individuals;
    e.min_individuals = min_individuals;
    e.layers = layers;
    e.generations = generations;
    e.tournament_size = tournament;
    e.mate_zone = mate_zone;
    e.brood_recombination = brood;
    e.elitism = elitism ? trilean::yes : trilean::no;
    e.p_cross = p_cross;
    e.p_mutation = p_mutation;
    e.alps.age_gap = age_gap;
    e.alps.p_same_layer = p_same;
    e.cache_size = cache;
    e.max_stuck_time = std::numeric_limits<unsigned>::max();
  }

  std::string cfg_line() const
  {
    std::ostringstream o;
    o << "cfg " << strat << ' ' << (elitism ? 1 : 0) << ' ' << tournament << ' ' << mate_zone << ' '
      << age_gap;
    return o.str();
  }
};

runcfg parse_cfg(const std::vector<std::string> &t, std::size_t from, std::map<std::string, std::string> *extra)
{
  runcfg c;
  for (std::size_t i(from); i < t.size(); ++i)
  {
    const auto eq(t[i].find('='));
    if (eq == std::string::npos) continue;
    const std::string k(t[i].substr(0, eq)), v(t[i].substr(eq + 1));
    if (k == "strat") c.strat = v;
    else if (k == "seed") c.seed = std::stoul(v);
    else if (k == "individuals") c.individuals = std::stoul(v);
    else if (k == "min_individuals") c.min_individuals = std::stoul(v);
    else if (k == "layers") c.layers = std::stoul(v);
    else if (k == "generations") c.generations = std::stoul(v);
    else if (k == "tournament") c.tournament = std::stoul(v);
    else if (k == "mate_zone") c.mate_zone = std::stoul(v);
    else if (k == "brood") c.brood = std::stoul(v);
    else if (k == "age_gap") c.age_gap = std::stoul(v);
    else if (k == "cache") c.cache = std::stoul(v);
    else if (k == "fitk") c.fitk = std::stoul(v);
    else if (k == "fast") c.fast = std::stoul(v);
    else if (k == "elitism") c.elitism = std::stoi(v);
    else if (k == "p_cross") c.p_cross = std::stod(v);
    else if (k == "p_mutation") c.p_mutation = std::stod(v);
    else if (k == "p_same") c.p_same = std::stod(v);
    else if (extra) (*extra)[k] = v;
  }
  return c;
}

template<class T>
std::unique_ptr<evaluator<T>> make_eva(const runcfg &c, const fitcfg *data)
{
  if (c.cache)
    return std::make_unique<evaluator_proxy<T, h_eval<T>>>(h_eval<T>(data), c.cache);
  return std::make_unique<h_eval<T>>(data);
}

// zone membership, written independently of the Lean model: distance from the zone start
bool in_zone(unsigned target, unsigned width, unsigned n, unsigned x)
{
  if (x >= n) return false;
  if (width >= n) return true;
  const unsigned start((target + n - (width / 2) % n) % n);
  return (x + n - start) % n < width;
}

// ---------------------------------------------------------------------------------------
// the monitor: everything observed about one population + summary
// ---------------------------------------------------------------------------------------
template<class T>
struct monitor
{
  using coord = typename population<T>::coord;
  using parents_t = std::vector<coord>;

  const population<T> *pop = nullptr;
  const summary<T> *sum = nullptr;
  runcfg cfg;
  fitcfg fc;
  snap_t snap;
  std::vector<unsigned> shape0;
  long long best_before = 0;
  bool have_best = false;
  unsigned long events = 0;
  int pending_shake = 0;        // the shake functor was called at the head of this generation and returned
                                // false (1) / true (2); consumed at the first selection of the generation
  unsigned long shakes = 0;     // how many times it returned true
  unsigned run_no = 0;          // how many times `begin` was called (= runs started so far)
  bool same_object = false;     // consecutive runs of ONE evolution object (whole_run): the later
                                // `begin`s are restarts (population carried over, summary cleared)

  std::string state_line(const char *mode, unsigned gen) const
  {
    std::ostringstream o;
    o << "state " << mode << ' ' << gen << ' ' << sum->last_imp << ' '
      << static_cast<long long>(sum->best.score.fitness[0]) << ' '
      << obs_of(sum->best.solution, fc) << ' ' << pop->layers();
    for (unsigned l(0); l < pop->layers(); ++l)
    {
      o << ' ' << pop->allowed(l) << ' ' << pop->individuals(l);
      for (unsigned i(0); i < pop->individuals(l); ++i)
        o << ' ' << obs_of((*pop)[{l, i}], fc);
    }
    return o.str();
  }

  // the clauses that must hold in every observed state
  std::string state_oracle(unsigned gen) const
  {
    for (unsigned l(0); l < pop->layers(); ++l)
    {
      if (pop->individuals(l) > pop->allowed(l)) return "bad:layer-above-allowed";
      for (unsigned i(0); i < pop->individuals(l); ++i)
        if (!(*pop)[{l, i}].is_valid()) return "bad:individual-not-valid";
    }
    if (cfg.strat != "alps")
    {
      if (pop->layers() != shape0.size()) return "bad:size-changed";
      for (unsigned l(0); l < pop->layers(); ++l)
        if (pop->individuals(l) != shape0[l]) return "bad:size-changed";
    }
    if (sum->best.score.fitness.size() != 1) return "bad:best-fitness-shape";
    if (sum->best.score.fitness[0] != raw_fit(sum->best.solution, fc)) return "bad:best-not-eval";
    if (!sum->best.solution.is_valid()) return "bad:best-not-valid";
    if (sum->last_imp > gen) return "bad:last-imp-after-gen";
    if (have_best && static_cast<long long>(sum->best.score.fitness[0]) < best_before)
      return "bad:best-decreased";
    return "ok";
  }

  void begin(const population<T> &p, const summary<T> &s)
  {
    pop = &p;
    sum = &s;
    {
      // the parameters the strategies will really use (after a possible tune_parameters)
      const auto &env(p.get_problem().env);
      cfg.tournament = env.tournament_size;
      cfg.mate_zone = env.mate_zone;
      cfg.elitism = env.elitism == trilean::yes ? 1 : 0;
      cfg.age_gap = env.alps.age_gap;
    }
    shape0.clear();
    for (unsigned l(0); l < p.layers(); ++l) shape0.push_back(p.individuals(l));
    snap = snapshot(p, fc);
    have_best = false;       // the best-so-far individual restarts from pop[{0,0}]: monotone within a run only
    const bool restart(same_object && run_no > 0);
    ++run_no;
    if (!restart)
      emit("ok", "-", cfg.cfg_line());
    // `evolution::run` has just executed `stats_.clear(); best = pop[{0,0}]; fitness = eva(best)`
    // (es_.init() is called right after): every clause must hold here, in every run
    emit(state_oracle(s.gen), "-", state_line(restart ? "restart" : "init", s.gen));
    best_before = static_cast<long long>(s.best.score.fitness[0]);
    have_best = true;
  }

  // called by the shake functor handed to evolution::run (head of generation `gen`), AFTER it has
  // changed `fc` (the data) and cleared the evaluator's cache when it returns true
  void shake_called(unsigned gen, bool fired)
  {
    if (gen != sum->gen) emit("bad:shake-called-with-another-generation", "-", "noop");
    pending_shake = fired ? 2 : 1;
  }

  // first observation point after the head of a generation (evolution::run has executed the shake
  // branch and refreshed the statistics): EVERY clause is judged here against the data as they are
  // now – in particular best.fitness == eval_now(best.solution), whatever the generation.  The
  // "absent a data shake" qualifier applies to monotonicity only: it restarts from here.
  void flush_shake()
  {
    const int p(pending_shake);
    pending_shake = 0;
    if (p != 2) return;
    ++events;
    ++shakes;
    have_best = false;
    emit(state_oracle(sum->gen), "-", state_line("shake", sum->gen));
    snap = snapshot(*pop, fc);
    best_before = static_cast<long long>(sum->best.score.fitness[0]);
    have_best = true;
  }

  bool member(coord c) const { return c.layer < pop->layers() && c.index < pop->individuals(c.layer); }

  long long fit_at(coord c) const { return snap[c.layer][c.index].fit; }

  void selected(const parents_t &ps)
  {
    ++events;
    std::string oracle("ok");
    for (auto c : ps)
      if (!member(c)) oracle = "bad:parent-not-member";

    std::ostringstream o;
    if (cfg.strat == "std")
    {
      o << "sel tour";
      if (oracle == "ok")
      {
        if (ps.size() != cfg.tournament) oracle = "bad:parents-count";
        for (std::size_t i(1); i < ps.size() && oracle == "ok"; ++i)
        {
          if (ps[i].layer != ps[0].layer) oracle = "bad:parents-different-layers";
          else if (fit_at(ps[i - 1]) < fit_at(ps[i])) oracle = "bad:parents-not-sorted";
        }
        if (oracle == "ok" && !ps.empty())
        {
          const unsigned n(pop->individuals(ps[0].layer));
          bool found(false);
          for (unsigned t(0); t < n && !found; ++t)
            found = std::all_of(ps.begin(), ps.end(),
                                [&](coord c) { return in_zone(t, cfg.mate_zone, n, c.index); });
          if (!found) oracle = "bad:parents-not-in-one-zone";
        }
      }
    }
    else if (cfg.strat == "alps")
    {
      o << "sel alps";
      if (oracle == "ok")
      {
        if (ps.size() != 2) oracle = "bad:parents-count";
        else
        {
          bool found(false);
          for (unsigned l(0); l < pop->layers() && !found; ++l)
            found = std::all_of(ps.begin(), ps.end(),
                                [&](coord c) { return c.layer == l || c.layer + 1 == l; });
          if (!found) oracle = "bad:parents-not-in-layer-or-below";
          const auto &env(pop->get_problem().env);
          const auto key([&](coord c)
                         {
                           const bool aged(env.alps.aged((*pop)[c], c.layer, pop->layers()));
                           return std::make_pair(!aged, fit_at(c));
                         });
          if (oracle == "ok" && key(ps[0]) < key(ps[1])) oracle = "bad:parents-order";
        }
      }
    }
    else
    {
      o << "sel rand";
      if (oracle == "ok" && ps.size() != cfg.tournament) oracle = "bad:parents-count";
    }
    o << ' ' << ps.size();
    for (auto c : ps) o << ' ' << c.layer << ' ' << c.index;
    emit(oracle, "-", o.str());
  }

  // called after a replacement; `family` = family_competition (candidates = the two parents)
  void replaced(const parents_t &ps, const T &off, bool family)
  {
    ++events;
    const obs_t offobs(obs_of(off, fc));
    std::string oracle(offobs.valid ? "ok" : "bad:offspring-not-valid");

    long long max_before(std::numeric_limits<long long>::min());
    for (const auto &l : snap) for (const auto &o : l) max_before = std::max(max_before, o.fit);

    snap_t post(snapshot(*pop, fc));
    std::ostringstream ch;
    unsigned nch(0);
    for (unsigned l(0); l < post.size(); ++l)
      for (unsigned i(0); i < post[l].size(); ++i)
        if (l >= snap.size() || i >= snap[l].size() || snap[l][i] != post[l][i])
        {
          ch << ' ' << l << ' ' << i << ' ' << post[l][i];
          ++nch;
        }
    bool shrunk(post.size() != snap.size());
    for (unsigned l(0); l < post.size() && !shrunk; ++l)
      shrunk = post[l].size() < snap[l].size();
    if (shrunk && oracle == "ok") oracle = "bad:population-shrunk-in-replacement";

    long long max_after(std::numeric_limits<long long>::min());
    for (const auto &l : post) for (const auto &o : l) max_after = std::max(max_after, o.fit);

    if (oracle == "ok") oracle = state_oracle(sum->gen);
    if (oracle == "ok" && cfg.strat != "alps" && cfg.elitism && max_after < max_before)
      oracle = "bad:elitism-max-lowered";

    std::ostringstream o;
    o << "step " << (family ? 1 : 0) << ' ' << ps.size();
    for (auto c : ps) o << ' ' << c.layer << ' ' << c.index;
    o << ' ' << offobs << ' ' << nch << ch.str() << ' ' << sum->gen << ' ' << sum->last_imp << ' '
      << static_cast<long long>(sum->best.score.fitness[0]) << ' ' << obs_of(sum->best.solution, fc);
    emit(oracle, "-", o.str());

    snap = std::move(post);
    best_before = static_cast<long long>(sum->best.score.fitness[0]);
  }

  void before_after_generation()
  {
    ++events;
    emit(state_oracle(sum->gen), "-", state_line("check", sum->gen));
  }

  // component cases: a generation boundary without strategy specific book-keeping
  void aftergen_same()
  {
    ++events;
    emit(state_oracle(sum->gen), "-", state_line("aftergen", sum->gen + 1));
  }

  void after_after_generation()
  {
    ++events;
    // `++stats_.gen` follows immediately in evolution::run; the next step record carries the
    // generation number, so the driver verifies the increment
    emit(state_oracle(sum->gen), "-", state_line("aftergen", sum->gen + 1));
    snap = snapshot(*pop, fc);
  }
};

template<class T> monitor<T> *g_mon = nullptr;

// ---------------------------------------------------------------------------------------
// an evolution strategy that wraps a real one and reports to the monitor; plugged into the
// real `evolution<T, ES>::run`
// ---------------------------------------------------------------------------------------
template<class T, template<class> class REAL>
class mon_es
{
public:
  using parents_t = std::vector<typename population<T>::coord>;
  using offspring_t = typename recombination::strategy<T>::offspring_t;

  mon_es(population<T> &pop, evaluator<T> &eva, summary<T> *s)
    : selection{this}, recombination{this}, replacement{this}, real_(pop, eva, s), pop_(&pop), sum_(s)
  {
  }

  struct sel_w
  {
    mon_es *m;
    parents_t run()
    {
      g_mon<T>->flush_shake();
      auto ps(m->real_.selection.run());
      g_mon<T>->selected(ps);
      return ps;
    }
  } selection;

  struct rec_w
  {
    mon_es *m;
    offspring_t run(const parents_t &ps)
    {
      auto off(m->real_.recombination.run(ps));
      if (off.size() != 1) emit("bad:offspring-count", "-", "noop");
      return off;
    }
  } recombination;

  struct rep_w
  {
    mon_es *m;
    void run(const parents_t &ps, const offspring_t &off, summary<T> *s)
    {
      m->real_.replacement.run(ps, off, s);
      g_mon<T>->replaced(ps, off[0], false);
    }
  } replacement;

  void init()
  {
    real_.init();
    g_mon<T>->begin(*pop_, *sum_);
  }

  void after_generation()
  {
    g_mon<T>->before_after_generation();
    real_.after_generation();
    g_mon<T>->after_after_generation();
  }

  bool stop_condition() const { return real_.stop_condition(); }
  void log_strategy(unsigned a, unsigned b) const { real_.log_strategy(a, b); }
  static environment shape(const environment &e) { return REAL<T>::shape(e); }

private:
  REAL<T> real_;
  population<T> *pop_;
  summary<T> *sum_;
};

template<class T> using mon_std = mon_es<T, std_es>;
template<class T> using mon_alps = mon_es<T, alps_es>;
template<class T> using mon_de = mon_es<T, de_es>;
template<class T> using mon_de_alps = mon_es<T, de_alps_es>;

// ---------------------------------------------------------------------------------------
// case: whole run through the real evolution<T, ES>::run
// ---------------------------------------------------------------------------------------
// the shapes of shake functor a user can hand to evolution::run(run_count, shake)
//   none     evolution::run(run_count): the library's own never-shaking lambda
//   never    a user functor that always returns false
//   always   new data at every generation (generation 0 included)
//   gen0     new data at generation 0 only (a validation strategy that re-samples when the run starts)
//   every    new data every `k` generations, generation 0 included
//   later    new data every `k` generations but not at generation 0 (the shape of dss::shake)
//   same     returns true every `k` generations without touching the data (a re-evaluation that changes nothing)
struct shake_plan
{
  std::string kind = "none";
  unsigned k = 1;
  unsigned calls = 0;

  bool fires(unsigned gen) const
  {
    if (kind == "always") return true;
    if (kind == "gen0") return gen == 0;
    if (kind == "every" || kind == "same") return gen % k == 0;
    if (kind == "later") return gen && gen % k == 0;
    return false;
  }
  bool changes_data() const { return kind != "same"; }

  // the next data: never the current ones, a function of the case only
  unsigned next(unsigned seed, unsigned cur)
  {
    ++calls;
    const unsigned n(1 + (seed % 7 + 5 * calls) % 11);
    return n == cur ? n + 1 : n;
  }
};

shake_plan parse_shake(const std::map<std::string, std::string> &extra)
{
  shake_plan p;
  if (extra.count("shake")) p.kind = extra.at("shake");
  if (extra.count("shake_k")) p.k = std::max(1ul, std::stoul(extra.at("shake_k")));
  return p;
}

template<class T, template<class> class ES>
void whole_run(const runcfg &c, unsigned runs, shake_plan plan)
{
  prob_for<T> pf;
  c.apply(pf.prob.env);
  random::seed(c.seed);

  monitor<T> mon;
  mon.cfg = c;
  mon.fc = fitcfg{c.fitk, 0, c.fast};      // the data; the evaluator reads them through the pointer
  mon.same_object = true;
  g_mon<T> = &mon;
  auto eva(make_eva<T>(c, &mon.fc));

  evolution<T, ES> evo(pf.prob, *eva);
  unsigned callbacks(0);
  evo.after_generation([&](const population<T> &p, const summary<T> &s)
                       {
                         ++callbacks;
                         if (&p != mon.pop || &s != mon.sum)
                           emit("bad:callback-sees-other-objects", "-", "noop");
                         // the public observation point of the property ("after every generation")
                         if (s.last_imp > s.gen)
                           emit("bad:last-imp-after-gen", "-", "noop");
                         if (s.best.score.fitness.size() != 1 || s.best.score.fitness[0] != raw_fit(s.best.solution, mon.fc))
                           emit("bad:best-not-eval", "-", "noop");
                       });
  // the user's shake functor: changes the data the evaluator reads, clears the cached scores (they
  // refer to the previous data) and reports it
  const auto shake([&](unsigned gen)
                   {
                     const bool fire(plan.fires(gen));
                     if (fire)
                     {
                       if (plan.changes_data())
                         mon.fc.salt = plan.next(c.seed, mon.fc.salt);
                       eva->clear();
                     }
                     mon.shake_called(gen, fire);
                     return fire;
                   });
  // `runs` consecutive runs of the SAME evolution object (the `run_count` argument of
  // evolution::run exists for this): run r > 0 goes on from the population run r-1 evolved
  for (unsigned r(0); r < runs; ++r)
  {
    callbacks = 0;
    const auto &s(plan.kind == "none" ? evo.run(r) : evo.run(r, shake));
    if (mon.run_no != r + 1)
      emit("bad:run-not-monitored", "-", "noop");
    if (mon.pending_shake)
      emit("bad:shake-not-followed-by-a-generation", "-", "noop");
    if (callbacks != s.gen)
      emit("bad:callback-count", "-", "noop");
    if (s.last_imp > s.gen)
      emit("bad:last-imp-after-gen", "-", "noop");
    if (s.best.score.fitness.size() != 1 || s.best.score.fitness[0] != raw_fit(s.best.solution, mon.fc))
      emit("bad:best-not-eval", "-", "noop");
  }
  g_mon<T> = nullptr;
}

// ---------------------------------------------------------------------------------------
// case: a whole search (tune_parameters + `runs` evolutions) with the monitored strategy
// ---------------------------------------------------------------------------------------
const fitcfg *g_search_fc = nullptr;      // the data of the running search (owned by its monitor)
double ga_search_fit(const i_ga &x) { return raw_fit(x, *g_search_fc); }
double de_search_fit(const i_de &x) { return raw_fit(x, *g_search_fc); }

// a user defined validation strategy: `search::run` hands `vs_->shake(g)` to evolution::run
class user_validation final : public validation_strategy
{
public:
  explicit user_validation(std::function<bool(unsigned)> f) : f_(std::move(f)) {}
  void init(unsigned) override {}
  bool shake(unsigned g) override { return f_(g); }

private:
  std::function<bool(unsigned)> f_;
};

// ... which has to clear the cached scores of the training evaluator (a protected member of search)
template<class T, template<class> class ES, class F>
class shaking_search final : public basic_ga_search<T, ES, F>
{
public:
  using basic_ga_search<T, ES, F>::basic_ga_search;
  void clear_scores() { this->eva1_->clear(); }
};

template<class T, template<class> class ES, class P, class F>
void whole_search(const runcfg &c, unsigned runs, F f, const std::map<std::string, std::string> &open)
{
  P prob(4, range(-50, 50));
  // every tunable parameter starts undefined; the case sets some of them
  const auto is_open([&](const char *k) { return open.count(k) && open.at(k) == "1"; });
  prob.env.individuals = c.individuals;
  prob.env.generations = c.generations;
  if (!is_open("open_tournament")) prob.env.tournament_size = c.tournament;
  if (!is_open("open_mate_zone")) prob.env.mate_zone = c.mate_zone;
  if (!is_open("open_elitism")) prob.env.elitism = c.elitism ? trilean::yes : trilean::no;
  if (!is_open("open_rates")) { prob.env.p_cross = c.p_cross; prob.env.p_mutation = c.p_mutation; }
  if (!is_open("open_brood")) prob.env.brood_recombination = c.brood;
  prob.env.cache_size = c.cache ? c.cache : 7;
  random::seed(c.seed);

  monitor<T> mon;
  mon.cfg = c;
  mon.fc = fitcfg{c.fitk, 0, c.fast};
  g_search_fc = &mon.fc;
  g_mon<T> = &mon;

  shaking_search<T, ES, F> s(prob, f);
  shake_plan plan(parse_shake(open));
  if (plan.kind != "none")
    s.template validation_strategy<user_validation>(
      [&](unsigned gen)
      {
        const bool fire(plan.fires(gen));
        if (fire)
        {
          if (plan.changes_data())
            mon.fc.salt = plan.next(c.seed, mon.fc.salt);
          s.clear_scores();
        }
        mon.shake_called(gen, fire);
        return fire;
      });
  unsigned callbacks(0);
  s.after_generation([&](const population<T> &, const summary<T> &st)
                     {
                       ++callbacks;
                       if (st.best.score.fitness.size() != 1 || st.best.score.fitness[0] != raw_fit(st.best.solution, mon.fc))
                         emit("bad:best-not-eval", "-", "noop");
                     });
  const auto res(s.run(runs));
  if (!prob.env.is_valid(true))
    emit("bad:tuned-environment-not-valid", "-", "noop");
  // (the data of the last run are still in place: `search::run` re-evaluates nothing after it)
  // and is the one whose best the search returns – unless an earlier run won, whose best was scored on
  // the data of that run: only comparable when the data never changed)
  if ((runs == 1 || !plan.changes_data() || !mon.shakes) &&
      (res.best.score.fitness.size() != 1 || res.best.score.fitness[0] != raw_fit(res.best.solution, mon.fc)))
    emit("bad:search-best-not-eval", "-", "noop");
  if (!callbacks)
    emit("bad:callback-count", "-", "noop");
  g_mon<T> = nullptr;
}

void case_search(const std::vector<std::string> &t)
{
  std::map<std::string, std::string> extra;
  const runcfg c(parse_cfg(t, 1, &extra));
  const unsigned runs(std::stoul(extra["runs"]));
  if (extra["T"] == "ga")
    whole_search<i_ga, mon_std, ga_problem>(c, runs, &ga_search_fit, extra);
  else if (extra["T"] == "de")
    whole_search<i_de, mon_de, de_problem>(c, runs, &de_search_fit, extra);
  else emit("bad:unknown-search-case", "-", "noop");
}

// ---------------------------------------------------------------------------------------
// case: a whole src_search (symbolic regression, sum-of-errors evaluator on >= 100 examples: its fast()
// really skips examples) with brood recombination and the evaluation cache; reference = an independent
// cache-less evaluator of the same kind over the same data, consulted after every generation
// ---------------------------------------------------------------------------------------
template<template<class> class ES, class REF>
void src_run(const runcfg &c, unsigned rows, evaluator_id id)
{
  std::ostringstream data;
  data.precision(17);
  for (unsigned i(0); i < rows; ++i)
  {
    const double x(-3.0 + 6.0 * i / (rows - 1.0));
    data << x * x * x - 2.0 * x + 3.0 * std::sin(4.0 * x) << ',' << x << '\n';
  }
  std::istringstream in(data.str());
  src_problem prob(in);
  prob.insert<real::sin>();
  prob.insert<real::add>();
  prob.insert<real::sub>();
  prob.insert<real::mul>();
  c.apply(prob.env);
  prob.env.mep.code_length = 24;
  prob.env.mep.patch_length = 2;
  REF reference(prob.data());

  random::seed(c.seed);
  src_search<i_mep, ES> s(prob);
  s.evaluator(id);
  unsigned gens(0);
  s.after_generation([&](const population<i_mep> &, const summary<i_mep> &sum)
                     {
                       ++gens;
                       const bool ok(sum.best.score.fitness == reference(sum.best.solution));
                       emit(!ok ? "bad:best-not-eval" : sum.last_imp > sum.gen ? "bad:last-imp-after-gen" : "ok",
                            "-", "noop");
                     });
  const auto res(s.run());
  if (!gens) emit("bad:callback-count", "-", "noop");
  emit(res.best.score.fitness == reference(res.best.solution) ? "ok" : "bad:search-best-not-eval", "-", "noop");
}

void case_srcrun(const std::vector<std::string> &t)
{
  std::map<std::string, std::string> extra;
  const runcfg c(parse_cfg(t, 1, &extra));
  const unsigned rows(std::stoul(extra["rows"]));
  const std::string eva(extra["eva"]);
  if (rows < 2) { emit("bad:unknown-srcrun-case", "-", "noop"); return; }
  if (c.strat == "std" && eva == "mae") src_run<std_es, mae_evaluator<i_mep>>(c, rows, evaluator_id::mae);
  else if (c.strat == "std" && eva == "rmae") src_run<std_es, rmae_evaluator<i_mep>>(c, rows, evaluator_id::rmae);
  else if (c.strat == "std" && eva == "mse") src_run<std_es, mse_evaluator<i_mep>>(c, rows, evaluator_id::mse);
  else if (c.strat == "alps" && eva == "mae") src_run<alps_es, mae_evaluator<i_mep>>(c, rows, evaluator_id::mae);
  else emit("bad:unknown-srcrun-case", "-", "noop");
}

void case_run(const std::vector<std::string> &t)
{
  std::map<std::string, std::string> extra;
  const runcfg c(parse_cfg(t, 1, &extra));
  const std::string ind(extra["T"]);
  const unsigned runs(extra.count("runs") ? std::stoul(extra["runs"]) : 1u);
  const shake_plan plan(parse_shake(extra));
  if (c.strat == "std" && ind == "mep") whole_run<i_mep, mon_std>(c, runs, plan);
  else if (c.strat == "std" && ind == "ga") whole_run<i_ga, mon_std>(c, runs, plan);
  else if (c.strat == "std" && ind == "team") whole_run<team<i_mep>, mon_std>(c, runs, plan);
  else if (c.strat == "alps" && ind == "team") whole_run<team<i_mep>, mon_alps>(c, runs, plan);
  else if (c.strat == "alps" && ind == "mep") whole_run<i_mep, mon_alps>(c, runs, plan);
  else if (c.strat == "alps" && ind == "ga") whole_run<i_ga, mon_alps>(c, runs, plan);
  else if (c.strat == "de" && ind == "de") whole_run<i_de, mon_de>(c, runs, plan);
  else if (c.strat == "alps" && ind == "de") whole_run<i_de, mon_de_alps>(c, runs, plan);
  else emit("bad:unknown-run-case", "-", "noop");
}

// ---------------------------------------------------------------------------------------
// case: selection / replacement strategies driven directly on a prepared population
// ---------------------------------------------------------------------------------------
template<class T>
void prepare(population<T> &pop, const runcfg &c, verif::splitmix &rng)
{
  for (unsigned l(1); l < c.layers; ++l)
    pop.add_layer();
  // spread the ages (ALPS looks at them)
  const unsigned rounds(rng.below(4 * c.age_gap + 2));
  for (unsigned r(0); r < rounds; ++r)
  {
    if (rng.chance(0.5))
      pop.inc_age();
    else
      for (unsigned l(0); l < pop.layers(); ++l)
        for (unsigned i(0); i < pop.individuals(l); ++i)
          if (rng.chance(0.3)) pop[{l, i}].inc_age();
  }
  // uneven layers
  for (unsigned l(0); l < pop.layers(); ++l)
    if (rng.chance(0.4))
    {
      const unsigned n(1 + rng.below(pop.individuals(l)));
      while (pop.individuals(l) > n) pop.pop_from_layer(l);
    }
}

template<class T>
void components(const runcfg &c, const std::string &what, unsigned count)
{
  using coord = typename population<T>::coord;
  prob_for<T> pf;
  c.apply(pf.prob.env);
  random::seed(c.seed);
  verif::splitmix rng(c.seed * 7919u + 13u);

  monitor<T> mon;
  mon.cfg = c;
  mon.fc = fitcfg{c.fitk, 0, c.fast};
  auto eva(make_eva<T>(c, &mon.fc));
  population<T> pop(pf.prob);
  prepare(pop, c, rng);

  summary<T> sum;
  sum.best.solution = pop[{0, 0}];
  sum.best.score.fitness = (*eva)(sum.best.solution);
  sum.gen = rng.below(5);
  sum.last_imp = sum.gen ? rng.below(sum.gen + 1) : 0;

  mon.begin(pop, sum);

  selection::tournament<T> sel_t(pop, *eva, sum);
  selection::alps<T> sel_a(pop, *eva, sum);
  selection::random<T> sel_r(pop, *eva, sum);
  replacement::tournament<T> rep_t(pop, *eva);
  replacement::family_competition<T> rep_f(pop, *eva);
  replacement::alps<T> rep_a(pop, *eva);

  const auto any_coord([&]()
                       {
                         const unsigned l(rng.below(pop.layers()));
                         return coord{l, static_cast<unsigned>(rng.below(pop.individuals(l)))};
                       });
  const auto new_off([&]()
                     {
                       // a fresh individual, a clone of a member (ties!) or an aged clone
                       if (rng.chance(0.4)) return T(pf.prob);
                       T x(pop[any_coord()]);
                       if (rng.chance(0.3)) x.inc_age();
                       return x;
                     });

  for (unsigned n(0); n < count; ++n)
  {
    std::vector<coord> ps;
    if (c.strat == "std") ps = sel_t.run();
    else if (c.strat == "alps") ps = sel_a.run();
    else ps = sel_r.run();
    mon.selected(ps);

    if (what == "sel")
      continue;

    bool members(true);
    for (auto p : ps) members = members && mon.member(p);
    // (family_competition and ALPS replacement read parent[1]; replacement::tournament only parent.back())
    if (!members || ps.empty() || (ps.size() < 2 && (what == "family" || c.strat == "alps")))
      continue;

    typename replacement::strategy<T>::offspring_t off{new_off()};
    if (what == "family")
    {
      rep_f.run(ps, off, &sum);
      mon.replaced(ps, off[0], true);
    }
    else if (c.strat == "alps")
    {
      rep_a.run(ps, off, &sum);
      mon.replaced(ps, off[0], false);
    }
    else
    {
      rep_t.run(ps, off, &sum);
      mon.replaced(ps, off[0], false);
    }
    if (rng.chance(0.1))
    {
      // next generation (no strategy specific book-keeping in this case)
      mon.before_after_generation();
      mon.aftergen_same();
      ++sum.gen;
    }
  }
}

void case_components(const std::vector<std::string> &t)
{
  std::map<std::string, std::string> extra;
  const runcfg c(parse_cfg(t, 1, &extra));
  const std::string ind(extra["T"]), what(extra["what"]);
  const unsigned count(std::stoul(extra["count"]));
  if (ind == "mep") components<i_mep>(c, what, count);
  else if (ind == "ga") components<i_ga>(c, what, count);
  else if (ind == "team") components<team<i_mep>>(c, what, count);
  else if (ind == "de") components<i_de>(c, what, count);
  else emit("bad:unknown-individual", "-", "noop");
}

}  // namespace

int main(int argc, char *argv[])
{
  log::reporting_level = log::lOFF;
  if (argc < 2)
  {
    std::cerr << "usage: c06_run <case-file>\n";
    return 2;
  }
  std::ifstream in(argv[1]);
  std::string line;
  unsigned idx(0);
  // One child process per case: every case starts from the same process state (vita hands out
  // symbol opcodes from a static counter, and signatures – hence our i_mep fitness – depend on
  // them), so a case replayed alone behaves exactly as inside a batch; a sanitizer abort only
  // kills its own case.
  while (std::getline(in, line))
  {
    const auto t(verif::split(line));
    if (t.empty()) { ++idx; continue; }
    std::cout << "# case " << idx << " begin" << std::endl;
    std::cerr << "## case " << idx << std::endl;
    const pid_t pid(fork());
    if (pid == 0)
    {
      if (t[0] == "comp") case_components(t);
      else if (t[0] == "run") case_run(t);
      else if (t[0] == "search") case_search(t);
      else if (t[0] == "srcrun") case_srcrun(t);
      else emit("bad:unknown-case", "-", "noop");
      std::cout.flush();
      std::exit(0);
    }
    int status(0);
    waitpid(pid, &status, 0);
    if (WIFEXITED(status) && WEXITSTATUS(status) == 0)
      std::cout << "# case " << idx << " end" << std::endl;
    else
      std::cout << "\n# case " << idx << " died "
                << (WIFEXITED(status) ? WEXITSTATUS(status) : 128 + WTERMSIG(status)) << std::endl;
    ++idx;
  }
  return 0;
}
