// C06 harness (2/2): book-keeping operations on a real population<i_ga>, random::ring,
// tune_parameters of the three search classes + environment::is_valid, for the Lean driver
// (c06_driver), plus this harness's own oracle of the property clauses.  (1/2 is c06_run.cc.)
//
//   c06_tune <case-file>        (stdin must be empty: evolution polls the keyboard)
//
// One case per line of the case file (see checks/c06.py).  Output, per case:
//   # case <i> begin
//   <oracle>|<expected>|<driver request>        one per observation
//   # case <i> end
// <oracle>   = ok | bad:<clause> (this harness's own, model-independent, check of the property)
// <expected> = the exact answer the driver must give (differential observations), or `-`
//              when the driver must answer `ok` (relational observations).
#include <algorithm>
#include <cmath>
#include <fstream>
#include <functional>
#include <map>
#include <memory>
#include <sstream>

#include <sys/mman.h>
#include <sys/wait.h>
#include <unistd.h>

#include "kernel/vita.h"
#include "common/verif.h"

using namespace vita;

namespace
{

void emit(const std::string &oracle, const std::string &expected, const std::string &req)
{
  std::cout << oracle << '|' << expected << '|' << req << std::endl;   // flushed: an abort leaves no partial line
}

template<class T> struct prob_for;

template<> struct prob_for<i_ga>
{
  ga_problem prob;
  prob_for()
  {
    prob.env.init();
    int v(10);
    for (unsigned i(0); i < 4; ++i, v *= 5)
      prob.insert(range(-v, +v));
  }
};

// zone membership, written independently of the Lean model: distance from the zone start
bool in_zone(unsigned target, unsigned width, unsigned n, unsigned x)
{
  if (x >= n) return false;
  if (width >= n) return true;
  const unsigned start((target + n - (width / 2) % n) % n);
  return (x + n - start) % n < width;
}

// ---------------------------------------------------------------------------------------
// case: book-keeping operations on a real population<i_ga>
// ---------------------------------------------------------------------------------------
std::string dump(const population<i_ga> &p)
{
  std::ostringstream o;
  o << p.layers();
  bool inv(true);
  for (unsigned l(0); l < p.layers(); ++l)
  {
    o << ' ' << p.allowed(l) << ' ' << p.individuals(l);
    for (unsigned i(0); i < p.individuals(l); ++i)
      o << ' ' << p[{l, i}].age();
    if (p.individuals(l) > p.allowed(l)) inv = false;
  }
  o << " inv=" << (inv ? 1 : 0);
  return o.str();
}

void case_ops(const std::vector<std::string> &t)
{
  // ops seed individuals min_individuals nops
  const unsigned seed(std::stoul(t[1])), individuals(std::stoul(t[2])), min_ind(std::stoul(t[3])),
                 nops(std::stoul(t[4]));
  prob_for<i_ga> pf;
  pf.prob.env.individuals = individuals;
  pf.prob.env.min_individuals = min_ind;
  random::seed(seed);
  verif::splitmix rng(seed * 104729u + 7u);

  population<i_ga> pop(pf.prob);
  const auto oracle([&]()
                    {
                      for (unsigned l(0); l < pop.layers(); ++l)
                      {
                        if (pop.individuals(l) > pop.allowed(l)) return std::string("bad:layer-above-allowed");
                        for (unsigned i(0); i < pop.individuals(l); ++i)
                          if (!pop[{l, i}].is_valid()) return std::string("bad:individual-not-valid");
                      }
                      return std::string("ok");
                    });
  {
    std::ostringstream r;
    r << "pb-new " << individuals << ' ' << min_ind;
    emit(oracle(), dump(pop), r.str());
  }

  const auto aged([&](unsigned a)
                  {
                    i_ga x(pf.prob);
                    for (unsigned k(0); k < a; ++k) x.inc_age();
                    return x;
                  });

  for (unsigned n(0); n < nops; ++n)
  {
    std::ostringstream r;
    const unsigned l(rng.below(pop.layers()));
    switch (rng.below(9))
    {
    case 0:
      pop.init_layer(l);
      r << "pb-init " << l;
      break;
    case 1:
      if (pop.layers() >= 6 || !pop.individuals(0)) continue;
      pop.add_layer();
      r << "pb-addlayer";
      break;
    case 2:
      if (pop.layers() < 2) continue;
      pop.remove_layer(l);
      r << "pb-remove " << l;
      break;
    case 3:
    case 4:
    {
      const unsigned a(rng.below(6));
      pop.add_to_layer(l, aged(a));
      r << "pb-add " << l << ' ' << a;
      break;
    }
    case 5:
      if (!pop.individuals(l)) continue;
      pop.pop_from_layer(l);
      r << "pb-pop " << l;
      break;
    case 6:
    {
      const unsigned k(rng.below(individuals + 1));   // Expects(n <= capacity)
      pop.set_allowed(l, k);
      r << "pb-allow " << l << ' ' << k;
      break;
    }
    case 7:
    {
      if (!pop.individuals(l)) continue;
      const unsigned i(rng.below(pop.individuals(l))), a(rng.below(6));
      pop[{l, i}] = aged(a);
      r << "pb-assign " << l << ' ' << i << ' ' << a;
      break;
    }
    default:
      pop.inc_age();
      r << "pb-incage";
    }
    emit(oracle(), dump(pop), r.str());
  }
}

// ---------------------------------------------------------------------------------------
// case: random::ring
// ---------------------------------------------------------------------------------------
void case_ring(const std::vector<std::string> &t)
{
  const unsigned seed(std::stoul(t[1])), count(std::stoul(t[2]));
  random::seed(seed);
  verif::splitmix rng(seed * 31u + 5u);
  for (unsigned k(0); k < count; ++k)
  {
    const unsigned n(2 + (rng.chance(0.5) ? rng.below(12) : rng.below(2000)));
    const unsigned base(rng.below(n));
    unsigned width;
    switch (rng.below(6))
    {
    case 0: width = 1; break;
    case 1: width = n - 1; break;
    case 2: width = n; break;
    case 3: width = n + 1 + rng.below(5); break;
    case 4: width = std::numeric_limits<unsigned>::max(); break;
    default: width = 1 + rng.below(n);
    }
    const unsigned r(random::ring(base, width, n));
    std::ostringstream o;
    o << "ring " << base << ' ' << width << ' ' << n << ' ' << r;
    emit(in_zone(base, width, n, r) ? "ok" : "bad:ring-outside-zone", "-", o.str());
  }
}

// ---------------------------------------------------------------------------------------
// case: tune_parameters of the three search classes + environment::is_valid
// ---------------------------------------------------------------------------------------
// access to the protected virtual `tune_parameters` (src_search is final, so it cannot be
// exposed by derivation): explicit template instantiation may name inaccessible members.
template<class Tag> struct stolen { static typename Tag::type ptr; };
template<class Tag> typename Tag::type stolen<Tag>::ptr;
template<class Tag, typename Tag::type P> struct steal
{
  struct filler { filler() { stolen<Tag>::ptr = P; } };
  static filler f;
};
template<class Tag, typename Tag::type P> typename steal<Tag, P>::filler steal<Tag, P>::f;

using ga_fun = double (*)(const i_ga &);
using de_fun = double (*)(const i_de &);
using s_base_std = search<i_mep, std_es>;
using s_base_alps = search<i_mep, alps_es>;
using s_src_std = src_search<i_mep, std_es>;
using s_src_alps = src_search<i_mep, alps_es>;
using s_ga = basic_ga_search<i_ga, std_es, ga_fun>;
using s_de = basic_ga_search<i_de, de_es, de_fun>;
using s_ga_alps = basic_ga_search<i_ga, alps_es, ga_fun>;

#define STEAL(NAME, CLS) \
  struct NAME { using type = void (CLS::*)(); }; \
  template struct steal<NAME, &CLS::tune_parameters>;
STEAL(t_base_std, s_base_std)
STEAL(t_base_alps, s_base_alps)
STEAL(t_src_std, s_src_std)
STEAL(t_src_alps, s_src_alps)
STEAL(t_ga, s_ga)
STEAL(t_de, s_de)
STEAL(t_ga_alps, s_ga_alps)

double ga_f(const i_ga &) { return 0.0; }
double de_f(const i_de &) { return 0.0; }

std::string opt_str(bool has, unsigned v) { return has ? std::to_string(v) : std::string("-"); }

std::string env_fields(const environment &e)
{
  std::ostringstream o;
  o << e.mep.code_length << ' ' << e.mep.patch_length << ' '
    << (e.elitism == trilean::no ? 0 : e.elitism == trilean::yes ? 1 : 2) << ' '
    << verif::bits(e.p_mutation) << ' ' << verif::bits(e.p_cross) << ' ' << e.brood_recombination << ' '
    << e.layers << ' ' << e.individuals << ' ' << e.min_individuals << ' ' << e.tournament_size << ' '
    << e.mate_zone << ' ' << e.generations << ' '
    << opt_str(e.max_stuck_time.has_value(), *e.max_stuck_time) << ' '
    << opt_str(e.dss.has_value(), *e.dss) << ' '
    << opt_str(e.validation_percentage.has_value(), *e.validation_percentage) << ' '
    << e.alps.age_gap << ' ' << verif::bits(e.alps.p_same_layer) << ' ' << e.team.individuals;
  return o.str();
}

// tokens: code patch elitism(0/1/2) p_mut(bits) p_cross(bits) brood layers individuals min_individuals
//         tournament mate_zone generations max_stuck(-|n) dss(-|n) validation(-|n) age_gap p_same(bits) team
void read_env(const std::vector<std::string> &t, std::size_t at, environment *e)
{
  const auto u([&](std::size_t i) { return static_cast<unsigned>(std::stoull(t[at + i])); });
  const auto d([&](std::size_t i) { return verif::from_bits(std::stoull(t[at + i])); });
  e->mep.code_length = u(0);
  e->mep.patch_length = u(1);
  e->elitism = u(2) == 0 ? trilean::no : u(2) == 1 ? trilean::yes : trilean::unknown;
  e->p_mutation = d(3);
  e->p_cross = d(4);
  e->brood_recombination = u(5);
  e->layers = u(6);
  e->individuals = u(7);
  e->min_individuals = u(8);
  e->tournament_size = u(9);
  e->mate_zone = u(10);
  e->generations = u(11);
  if (t[at + 12] == "-") e->max_stuck_time.reset(); else e->max_stuck_time = u(12);
  if (t[at + 13] == "-") e->dss.reset(); else e->dss = u(13);
  if (t[at + 14] == "-") e->validation_percentage.reset(); else e->validation_percentage = u(14);
  e->alps.age_gap = u(15);
  e->alps.p_same_layer = d(16);
  e->team.individuals = u(17);
}

// the property's own reading of the clause, independent of the model: every tunable parameter
// defined afterwards, the user's settings kept (min_individuals may be raised up to `floor_min`),
// is_valid(true)
// `vs`: the validation strategy installed in the search object ("" = none of the library's: nothing to fill)
std::string tune_oracle(const environment &u, const environment &e, unsigned floor_min, bool valid_before,
                        const std::string &vs = "")
{
  // the installed strategy reads its parameter: it must have a value after the tuning (fix 237a8f6)
  if ((vs == "dss" && !e.dss.has_value()) || (vs == "holdout" && !e.validation_percentage.has_value()))
    return "bad:parameter-left-undefined";
  if ((u.dss.has_value() && (!e.dss.has_value() || *e.dss != *u.dss))
      || (u.validation_percentage.has_value()
          && (!e.validation_percentage.has_value() || *e.validation_percentage != *u.validation_percentage)))
    return "bad:user-setting-changed";
  if (!e.mep.code_length || !e.mep.patch_length || e.elitism == trilean::unknown || e.p_mutation < 0.0
      || e.p_cross < 0.0 || !e.brood_recombination || !e.layers || !e.individuals || !e.min_individuals
      || !e.tournament_size || !e.mate_zone || !e.generations || !e.max_stuck_time.has_value())
    return "bad:parameter-left-undefined";
  if ((u.mep.code_length && e.mep.code_length != u.mep.code_length)
      || (u.mep.patch_length && e.mep.patch_length != u.mep.patch_length)
      || (u.elitism != trilean::unknown && e.elitism != u.elitism)
      || (!(u.p_mutation < 0.0) && verif::bits(e.p_mutation) != verif::bits(u.p_mutation))
      || (!(u.p_cross < 0.0) && verif::bits(e.p_cross) != verif::bits(u.p_cross))
      || (u.brood_recombination && e.brood_recombination != u.brood_recombination)
      || (u.layers && e.layers != u.layers)
      || (u.individuals && e.individuals != u.individuals)
      // (a request with individuals < min_individuals is inconsistent before tuning: not judged)
      || (valid_before && u.min_individuals && e.min_individuals != u.min_individuals
          && !(u.min_individuals < floor_min && e.min_individuals > u.min_individuals
               && e.min_individuals <= floor_min))
      || (u.tournament_size && e.tournament_size != u.tournament_size)
      || (u.mate_zone && e.mate_zone != u.mate_zone)
      || (u.generations && e.generations != u.generations)
      || (u.max_stuck_time.has_value() && *e.max_stuck_time != *u.max_stuck_time))
    return "bad:user-setting-changed";
  if (valid_before && u.alps.age_gap && !(u.alps.p_same_layer < 0.0) && u.team.individuals
      && !e.is_valid(true))
    return "bad:tuned-environment-not-valid";
  return "ok";
}

template<class Tag, class S>
void do_tune(S &s, problem &prob, const std::string &kind, unsigned es_layers, unsigned dsize,
             unsigned floor_min, const std::string &vs = "")
{
  const environment user(prob.env);
  const bool vb(user.is_valid(false));
  const unsigned term0(prob.sset.categories() ? prob.sset.terminals(0) : 0);
  (s.*stolen<Tag>::ptr)();
  const environment &e(prob.env);
  std::ostringstream req, exp;
  req << "tune " << kind << ' ' << es_layers << ' ' << term0 << ' ' << dsize << ' ' << env_fields(user);
  exp << env_fields(e) << ' ' << (vb ? 1 : 0) << ' ' << (e.is_valid(true) ? 1 : 0);
  emit(tune_oracle(user, e, floor_min, vb, vs), exp.str(), req.str());
}

// a validation strategy that is none of the library's (an open dss / validation_percentage stays open)
class other_validation final : public validation_strategy
{
public:
  void init(unsigned) override {}
};

void case_tune(const std::vector<std::string> &t)
{
  // tune <class> <es> <nterm> <dsize> <18 env fields>
  const std::string cls(t[1]), es(t[2]);
  const unsigned nterm(std::stoul(t[3])), dsize(std::stoul(t[4]));
  const unsigned es_layers(es == "alps" ? 4 : 1);

  if (cls == "base")
  {
    problem prob;
    symbol_factory factory;
    for (unsigned i(0); i < nterm; ++i)
      prob.sset.insert(factory.make(std::to_string(i + 1) + ".5"));
    prob.sset.insert(factory.make("FADD"));
    read_env(t, 5, &prob.env);
    if (es == "alps") { s_base_alps s(prob); do_tune<t_base_alps>(s, prob, "base", es_layers, 0, 0); }
    else { s_base_std s(prob); do_tune<t_base_std>(s, prob, "base", es_layers, 0, 0); }
  }
  else if (cls.rfind("src", 0) == 0)
  {
    // src | src-holdout | src-dss | src-other: the validation strategy installed BEFORE the tuning, as a user
    // does (`src_search::validation_strategy(id)`: the strategies are constructed with their parameter possibly
    // still open); `src` = the as_is_validation every search starts with
    const std::string vs(cls.size() > 4 ? cls.substr(4) : "");
    const auto install([&](auto &s, auto *base)
                       {
                         if (vs == "holdout") s.validation_strategy(validator_id::holdout);
                         else if (vs == "dss") s.validation_strategy(validator_id::dss);
                         else if (vs == "other") base->template validation_strategy<other_validation>();
                         else if (!vs.empty()) emit("bad:unknown-validation-strategy", "-", "noop");
                       });
    std::ostringstream csv;
    for (unsigned r(0); r < dsize; ++r)
    {
      csv << (r % 7) + 0.5;
      for (unsigned c(0); c < nterm; ++c) csv << ',' << (r * 31 + c * 17) % 23 + 0.25;
      csv << '\n';
    }
    std::istringstream in(csv.str());
    src_problem prob(in);
    read_env(t, 5, &prob.env);
    const unsigned n(prob.data().size());
    if (es == "alps")
    {
      s_src_alps s(prob);
      install(s, static_cast<search<i_mep, alps_es> *>(&s));
      do_tune<t_src_alps>(s, prob, cls, es_layers, n, 0, vs);
    }
    else
    {
      s_src_std s(prob);
      install(s, static_cast<search<i_mep, std_es> *>(&s));
      do_tune<t_src_std>(s, prob, cls, es_layers, n, 0, vs);
    }
  }
  else if (cls == "ga")
  {
    ga_problem prob(nterm ? nterm : 1, range(-10, 10));
    read_env(t, 5, &prob.env);
    if (es == "alps") { s_ga_alps s(prob, ga_f); do_tune<t_ga_alps>(s, prob, "ga", es_layers, 0, 10); }
    else { s_ga s(prob, ga_f); do_tune<t_ga>(s, prob, "ga", es_layers, 0, 10); }
  }
  else if (cls == "de")
  {
    de_problem prob(nterm ? nterm : 1, range(-10.0, 10.0));
    read_env(t, 5, &prob.env);
    s_de s(prob, de_f);
    do_tune<t_de>(s, prob, "ga", es_layers, 0, 10);
  }
  else
    emit("bad:unknown-search-class", "-", "noop");
}

void run_case(const std::vector<std::string> &t)
{
  if (t[0] == "ops") case_ops(t);
  else if (t[0] == "ring") case_ring(t);
  else if (t[0] == "tune") case_tune(t);
  else emit("bad:unknown-case", "-", "noop");
}

}  // namespace

int main(int argc, char *argv[])
{
  log::reporting_level = log::lOFF;
  if (argc < 2)
  {
    std::cerr << "usage: c06_tune <case-file>\n";
    return 2;
  }
  std::ifstream in(argv[1]);
  std::vector<std::vector<std::string>> cases;
  for (std::string line; std::getline(in, line);)
    cases.push_back(verif::split(line));

  // Child processes isolate the cases: a sanitizer abort only kills its own case, and a case replayed
  // alone behaves exactly as inside a batch.  `ops` / `ring` cases get a process each (they build
  // populations and draw from vita's PRNG).  A `tune` case is a pure function of its line (tune_parameters
  // and is_valid read the environment, the number of terminals and the size of the data, nothing else):
  // up to BATCH consecutive ones share a child – forking a sanitized process and its leak check at exit
  // cost far more than the case itself.  The child reports its progress through a shared counter, so when
  // it dies the parent knows inside which case, marks it `died` and goes on after it.
  constexpr std::size_t BATCH = 48;
  auto *progress(static_cast<volatile std::size_t *>(
    mmap(nullptr, sizeof(std::size_t), PROT_READ | PROT_WRITE, MAP_SHARED | MAP_ANONYMOUS, -1, 0)));
  if (static_cast<volatile void *>(progress) == MAP_FAILED) { std::cerr << "mmap failed\n"; return 2; }

  std::size_t idx(0);
  while (idx < cases.size())
  {
    if (cases[idx].empty()) { ++idx; continue; }
    std::size_t end(idx + 1);
    if (cases[idx][0] == "tune")
      while (end < cases.size() && end - idx < BATCH && !cases[end].empty() && cases[end][0] == "tune")
        ++end;
    *progress = idx;
    std::cout.flush();
    const pid_t pid(fork());
    if (pid == 0)
    {
      for (std::size_t i(idx); i < end; ++i)
      {
        *progress = i;
        std::cout << "# case " << i << " begin" << std::endl;
        std::cerr << "## case " << i << std::endl;
        run_case(cases[i]);
        std::cout << "# case " << i << " end" << std::endl;
      }
      *progress = end;
      std::cout.flush();
      std::exit(0);       // (the leak check runs here: a leak is reported against the last case of the batch)
    }
    int status(0);
    waitpid(pid, &status, 0);
    if (WIFEXITED(status) && WEXITSTATUS(status) == 0)
      idx = end;
    else
    {
      // died inside case *progress (or, at exit, after the last one: blame that one)
      const std::size_t reached(*progress);
      const std::size_t at(std::min(reached, end - 1));
      std::cout << "\n# case " << at << " died "
                << (WIFEXITED(status) ? WEXITSTATUS(status) : 128 + WTERMSIG(status)) << std::endl;
      idx = at + 1;
    }
  }
  return 0;
}
