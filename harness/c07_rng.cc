// C07 harness (generator part): answers the same line protocol as lean/Vita/C07/Driver.lean from the
// real vigna::xoshiro256ss / vita::random code, plus the property's own oracle (`roundtrip`, `repeat`).
//
//   stream <seed|default> <n>             o0 o1 o2 o3 o(n-1) fold           engine object
//   vstream <seed32> <n>                  same, through vita::random::seed + vita::random::engine
//   geq <A> <B>                           equal|different same4|diff4   operator== and the next four outputs
//   save <seed> <k>                       text <state text, blanks as _>
//   load <seedB> <j> <hex text> <n>       ok|fail|oob <state text> <o0 … o(n-1)>
//   roundtrip <seedA> <k> <seedB> <j> <n> same | diff <pos> | fail | oob [diff <pos>]
//   sup <seed32> <bound> <count>          v0 v1 v2 v3 fold [range!] [nondet]   random::sup<size_t>
//   between <seed32> <a> <b> <count>      v0 v1 v2 v3 fold [range!] [nondet]   random::between<int>
//   mixed <seed32> <count>                fold [nondet]    every entry point of vita::random, twice
//   supu <E> <bound> <count>              …                random::sup<unsigned>
//   betu64 <E> <a> <b> <count>            …                random::between<std::uint64_t>
//   inr <E> <a> <b> <count>               …                random::in(range_t<int>)
//   elem <E> <size> <count>               0-fold | v0 v1 v2 v3 fold     random::element (both overloads agree | the index)
//   ring <E> <base> <width> <n> <count>   …                random::ring
//   betd <E> <bitsA> <bitsB> <count>      b0 b1 b2 b3 fold lo=<#below min> eq=<#equal sup> hi=<#above sup> [nondet]
//                                                          random::between<double>, random::in(range_t<double>)
//   bool <E> <bitsP> <count>              fold ones=<n> [nondet]        random::boolean(p)
//   <E> = a 32-bit seed (vita::random::seed) or st:w0:w1:w2:w3 (state written into vita::random::engine)
//   cfgrt <A> <k> <B> <j> <n> <cfg>       same|diff|diff-stream|fail|oob  b0 b1 b2 b3  <hex of the text written>
//                                         engine A (after k draws) is written to a std::stringstream whose
//                                         formatting state / locale is <cfg> and read back from the SAME stream
//                                         into engine B (after j draws); the restored words are compared with A's
//                                         (object representation, independent of operator<< and operator==)
//   cfgload <B> <j> <cfg> <hex text> <n>  ok|fail|oob  b0 b1 b2 b3  <o0 … o(n-1)>   operator>> under <cfg>
//   an engine <A>/<B>/<seed> is `default`, a seed, or `st:w0:w1:w2:w3` (the four state words, any value)
//   <cfg> = base:showbase:uppercase:showpos:width:fill:adjust:skipws:sep:grouping
//           base 10|16|8|0 (no basefield bit), fill/sep character codes, adjust 0 left 1 right 2 internal
//           3 none, sep `-` = classic locale, otherwise a std::numpunct<char> facet with that thousands
//           separator and `grouping` (hex bytes, `-` = empty)
#define VERIF_UBSAN_HOOK
#include "kernel/vita.h"
#include "common/verif.h"

#include <array>
#include <locale>
#include <new>
#include <sstream>
#include <type_traits>

using engine = vigna::xoshiro256ss;

namespace
{

// Engines live inside a large static buffer: an out-of-bounds state[i] (i < 64) then lands in memory
// we own, so the harness survives to report what UBSan saw.
alignas(16) unsigned char arena[2][1024];

static_assert(sizeof(engine) == 4 * sizeof(std::uint64_t) && std::is_trivially_copyable_v<engine>,
              "xoshiro256ss is no longer exactly its four state words: adapt words()/make()");

// the four state words, read from the object representation (no operator of the engine involved)
std::array<std::uint64_t, 4> words(const engine &e)
{
  std::array<std::uint64_t, 4> w;
  std::memcpy(w.data(), &e, sizeof(w));
  return w;
}

engine *make(int slot, const std::string &seed)
{
  std::memset(arena[slot], 0, sizeof(arena[slot]));
  if (seed == "default")
    return new (arena[slot]) engine();
  if (seed.rfind("st:", 0) == 0)
  {
    auto *e(new (arena[slot]) engine());
    std::array<std::uint64_t, 4> w;
    std::size_t pos(3);
    for (auto &x : w)
    {
      std::size_t used(0);
      x = std::stoull(seed.substr(pos), &used);
      pos += used + 1;
    }
    std::memcpy(static_cast<void *>(e), w.data(), sizeof(w));
    return e;
  }
  return new (arena[slot]) engine(std::stoull(seed));
}

// ---- stream configurations ------------------------------------------------------------------------
struct punct : std::numpunct<char>
{
  punct(char s, std::string g) : sep_(s), grp_(std::move(g)) {}
  char do_thousands_sep() const override { return sep_; }
  std::string do_grouping() const override { return grp_; }
  char sep_;
  std::string grp_;
};

struct cfg
{
  unsigned base = 10, width = 0, adjust = 0;
  bool showbase = false, upper = false, showpos = false, skipws = true, facet = false;
  char fill = ' ', sep = ',';
  std::string grouping;
};

cfg parse_cfg(const std::string &t)
{
  std::vector<std::string> f;
  std::size_t p(0);
  while (true)
  {
    const auto q(t.find(':', p));
    f.push_back(t.substr(p, q == std::string::npos ? q : q - p));
    if (q == std::string::npos) break;
    p = q + 1;
  }
  if (f.size() != 10) throw std::runtime_error("cfg");
  cfg c;
  c.base = std::stoul(f[0]);
  c.showbase = f[1] == "1";
  c.upper = f[2] == "1";
  c.showpos = f[3] == "1";
  c.width = std::stoul(f[4]);
  c.fill = static_cast<char>(std::stoul(f[5]));
  c.adjust = std::stoul(f[6]);
  c.skipws = f[7] == "1";
  c.facet = f[8] != "-";
  if (c.facet)
  {
    c.sep = static_cast<char>(std::stoul(f[8]));
    c.grouping = verif::unhex(f[9]);
  }
  return c;
}

void configure(std::ios &s, const cfg &c)
{
  if (c.facet)
    s.imbue(std::locale(std::locale::classic(), new punct(c.sep, c.grouping)));
  auto f(s.flags());
  f &= ~(std::ios::basefield | std::ios::adjustfield | std::ios::showbase | std::ios::uppercase
         | std::ios::showpos | std::ios::skipws);
  if (c.base == 10) f |= std::ios::dec;
  if (c.base == 16) f |= std::ios::hex;
  if (c.base == 8) f |= std::ios::oct;
  if (c.adjust == 0) f |= std::ios::left;
  if (c.adjust == 1) f |= std::ios::right;
  if (c.adjust == 2) f |= std::ios::internal;
  if (c.showbase) f |= std::ios::showbase;
  if (c.upper) f |= std::ios::uppercase;
  if (c.showpos) f |= std::ios::showpos;
  if (c.skipws) f |= std::ios::skipws;
  s.flags(f);
  s.width(c.width);
  s.fill(c.fill);
}

std::string words_text(const engine &e)
{
  std::string out;
  for (auto w : words(e)) out += " " + std::to_string(w);
  return out;
}

std::uint64_t fold(std::uint64_t h, std::uint64_t o) { return h * 0x100000001B3ull + o; }

std::string state_text(const engine &e)
{
  std::ostringstream os;
  os << e;
  std::string s(os.str());
  for (auto &c : s) if (c == ' ') c = '_';
  return s;
}

std::string stream_answer(engine &e, unsigned n)
{
  std::string out;
  std::uint64_t h(0), last(0);
  for (unsigned i(0); i < n; ++i)
  {
    const auto o(e());
    h = fold(h, o);
    if (i < 4) out += std::to_string(o) + " ";
    last = o;
  }
  return out + std::to_string(last) + " " + std::to_string(h);
}

// puts vita::random::engine into the state `spec`: a 32-bit seed (through vita::random::seed) or
// `st:w0:w1:w2:w3` (the object representation is overwritten: rare events can be constructed)
void set_engine(const std::string &spec)
{
  static_assert(std::is_same_v<vita::random::engine_t, engine>, "vita::random::engine is not xoshiro256ss");
  if (spec.rfind("st:", 0) == 0)
  {
    std::array<std::uint64_t, 4> w;
    std::size_t pos(3);
    for (auto &x : w)
    {
      std::size_t used(0);
      x = std::stoull(spec.substr(pos), &used);
      pos += used + 1;
    }
    std::memcpy(static_cast<void *>(&vita::random::engine), w.data(), sizeof(w));
  }
  else
    vita::random::seed(std::stoul(spec));
}

template<class F, class P> std::string draws(const std::string &seed, unsigned count, F f, P in_range)
{
  std::string out;
  std::uint64_t h[2] = {0, 0};
  bool range_ok(true);
  for (int pass(0); pass < 2; ++pass)      // in-process repetition: same seed, same draws
  {
    set_engine(seed);
    for (unsigned i(0); i < count; ++i)
    {
      const auto v(f());
      if (!in_range(v)) range_ok = false;
      h[pass] = fold(h[pass], static_cast<std::uint64_t>(v));
      if (pass == 0 && i < 4) out += std::to_string(v) + " ";
    }
  }
  out += std::to_string(h[0]);
  if (!range_ok) out += " range!";
  if (h[0] != h[1]) out += " nondet";
  return out;
}

std::string mixed(unsigned seed, unsigned count)
{
  std::uint64_t h[2] = {0, 0};
  const std::vector<int> box = {3, 1, 4, 1, 5, 9, 2, 6};
  for (int pass(0); pass < 2; ++pass)
  {
    vita::random::randomize();           // whatever it did, seed() must undo it
    vita::random::seed(seed);
    for (unsigned i(0); i < count; ++i)
    {
      using namespace vita;
      std::uint64_t v(0);
      switch (i % 8)
      {
      case 0: v = random::sup<std::size_t>(1000 + i); break;
      case 1: v = random::boolean(0.3); break;
      case 2: v = verif::bits(random::between(-1.5, 2.5)); break;
      case 3: v = random::ring(i % 7, 3, 7); break;
      case 4: v = static_cast<std::uint64_t>(random::element(box)); break;
      case 5: v = random::sup<unsigned>(17u); break;
      case 6: v = static_cast<std::uint64_t>(random::between(-100, 100)); break;
      default: v = random::boolean(); break;
      }
      h[pass] = fold(h[pass], v);
    }
  }
  return std::to_string(h[0]) + (h[0] != h[1] ? " nondet" : "");
}

std::string answer(const std::vector<std::string> &t)
{
  if (t.size() == 3 && t[0] == "stream")
  {
    auto *e(make(0, t[1]));
    return stream_answer(*e, std::stoul(t[2]));
  }
  if (t.size() == 3 && t[0] == "vstream")
  {
    vita::random::seed(std::stoul(t[1]));
    return stream_answer(vita::random::engine, std::stoul(t[2]));
  }
  if (t.size() == 3 && t[0] == "geq")
  {
    auto *a(make(0, t[1])), *b(make(1, t[2]));
    const bool eq(*a == *b), ne(*a != *b);
    bool same4(true);
    for (int i(0); i < 4; ++i)
      if ((*a)() != (*b)()) same4 = false;
    return std::string(eq ? "equal" : "different") + (eq == ne ? " !=-inconsistent" : "")
           + (same4 ? " same4" : " diff4");
  }
  if (t.size() == 3 && t[0] == "save")
  {
    auto *e(make(0, t[1]));
    for (unsigned k(std::stoul(t[2])); k; --k) (*e)();
    return "text " + state_text(*e);
  }
  if (t.size() == 5 && t[0] == "load")
  {
    auto *b(make(1, t[1]));
    for (unsigned j(std::stoul(t[2])); j; --j) (*b)();
    std::istringstream is(verif::unhex(t[3]));
    const auto before(verif::ubsan_reports);
    is >> *b;
    const bool oob(verif::ubsan_reports != before);
    std::string out(oob ? "oob " : is.fail() ? "fail " : "ok ");
    out += state_text(*b);
    for (unsigned n(std::stoul(t[4])); n; --n) out += " " + std::to_string((*b)());
    return out;
  }
  if (t.size() == 6 && t[0] == "roundtrip")
  {
    auto *a(make(0, t[1]));
    for (unsigned k(std::stoul(t[2])); k; --k) (*a)();
    auto *b(make(1, t[3]));
    for (unsigned j(std::stoul(t[4])); j; --j) (*b)();

    std::stringstream ss;
    const auto before(verif::ubsan_reports);
    ss << *a;
    ss >> *b;
    const bool oob(verif::ubsan_reports != before);
    std::string out(oob ? "oob" : "");
    if (ss.fail())
      return out.empty() ? "fail" : out + " fail";
    const unsigned n(std::stoul(t[5]));
    for (unsigned i(0); i < n; ++i)
      if ((*a)() != (*b)())
        return (out.empty() ? "" : out + " ") + "diff " + std::to_string(i);
    if (!(*a == *b))
      return (out.empty() ? "" : out + " ") + "diff state";
    return out.empty() ? "same" : out;
  }
  if (t.size() == 4 && t[0] == "sup")
  {
    const std::size_t bound(std::stoull(t[2]));
    return draws(t[1], std::stoul(t[3]),
                 [bound] { return vita::random::sup<std::size_t>(bound); },
                 [bound](std::size_t v) { return v < bound; });
  }
  if (t.size() == 5 && t[0] == "between")
  {
    const int a(std::stoi(t[2])), b(std::stoi(t[3]));
    return draws(t[1], std::stoul(t[4]),
                 [a, b] { return static_cast<long long>(vita::random::between<int>(a, b)); },
                 [a, b](long long v) { return a <= v && v < b; });
  }
  if (t.size() == 3 && t[0] == "mixed")
    return mixed(std::stoul(t[1]), std::stoul(t[2]));
  if (t.size() == 4 && t[0] == "supu")
  {
    const unsigned bound(std::stoul(t[2]));
    return draws(t[1], std::stoul(t[3]), [bound] { return vita::random::sup<unsigned>(bound); },
                 [bound](unsigned v) { return v < bound; });
  }
  if (t.size() == 5 && t[0] == "betu64")
  {
    const std::uint64_t a(std::stoull(t[2])), b(std::stoull(t[3]));
    return draws(t[1], std::stoul(t[4]), [a, b] { return vita::random::between<std::uint64_t>(a, b); },
                 [a, b](std::uint64_t v) { return a <= v && v < b; });
  }
  if (t.size() == 5 && t[0] == "inr")
  {
    const int a(std::stoi(t[2])), b(std::stoi(t[3]));
    return draws(t[1], std::stoul(t[4]),
                 [a, b] { return static_cast<long long>(vita::random::in(vita::range_t<int>{a, b})); },
                 [a, b](long long v) { return a <= v && v < b; });
  }
  if (t.size() == 4 && t[0] == "elem")
  {
    std::vector<std::uint64_t> box(std::stoull(t[2]));
    for (std::size_t i(0); i < box.size(); ++i) box[i] = i;
    const auto &cbox(box);
    return draws(t[1], std::stoul(t[3]),
                 [&box, &cbox] { return vita::random::element(box) == vita::random::element(cbox) ? 0ull : 1ull; },
                 [](std::uint64_t) { return true; })
           + " | " +
           draws(t[1], std::stoul(t[3]), [&cbox] { return vita::random::element(cbox); },
                 [&cbox](std::uint64_t v) { return v < cbox.size(); });
  }
  if (t.size() == 6 && t[0] == "ring")
  {
    const unsigned base(std::stoul(t[2])), width(std::stoul(t[3])), n(std::stoul(t[4]));
    return draws(t[1], std::stoul(t[5]), [=] { return vita::random::ring(base, width, n); },
                 [n](unsigned v) { return v < n; });
  }
  if (t.size() == 5 && t[0] == "betd")      // random::between<double> / random::in(range_t<double>), bit patterns
  {
    const double a(verif::from_bits(std::stoull(t[2]))), b(verif::from_bits(std::stoull(t[3])));
    const unsigned count(std::stoul(t[4]));
    std::string out;
    std::uint64_t h[3] = {0, 0, 0};
    unsigned lo(0), eq(0), hi(0);
    for (int pass(0); pass < 3; ++pass)
    {
      set_engine(t[1]);
      for (unsigned i(0); i < count; ++i)
      {
        const double v(pass == 2 ? vita::random::in(vita::range_t<double>{a, b}) : vita::random::between<double>(a, b));
        h[pass] = fold(h[pass], verif::bits(v));
        if (pass == 0)
        {
          if (i < 4) out += std::to_string(verif::bits(v)) + " ";
          if (v < a) ++lo;
          if (v == b) ++eq;
          if (v > b) ++hi;
        }
      }
    }
    out += std::to_string(h[0]) + " lo=" + std::to_string(lo) + " eq=" + std::to_string(eq) + " hi=" + std::to_string(hi);
    if (h[0] != h[1] || h[0] != h[2]) out += " nondet";
    return out;
  }
  if (t.size() == 4 && t[0] == "bool")      // random::boolean(p)
  {
    const double p(verif::from_bits(std::stoull(t[2])));
    const unsigned count(std::stoul(t[3]));
    std::uint64_t h[2] = {0, 0};
    unsigned ones(0);
    for (int pass(0); pass < 2; ++pass)
    {
      set_engine(t[1]);
      for (unsigned i(0); i < count; ++i)
      {
        const bool v(vita::random::boolean(p));
        h[pass] = fold(h[pass], v);
        if (pass == 0 && v) ++ones;
      }
    }
    return std::to_string(h[0]) + " ones=" + std::to_string(ones) + (h[0] != h[1] ? " nondet" : "");
  }
  if (t.size() == 7 && t[0] == "cfgrt")
  {
    auto *a(make(0, t[1]));
    for (unsigned k(std::stoul(t[2])); k; --k) (*a)();
    auto *b(make(1, t[3]));
    for (unsigned j(std::stoul(t[4])); j; --j) (*b)();
    const auto c(parse_cfg(t[6]));

    std::stringstream ss;
    configure(ss, c);
    const auto before(verif::ubsan_reports);
    ss << *a;
    const std::string text(ss.str());
    ss >> *b;
    const bool oob(verif::ubsan_reports != before);
    const bool failed(ss.fail());
    std::string verdict(oob ? "oob" : failed ? "fail" : words(*a) == words(*b) ? "same" : "diff");
    const std::string restored(words_text(*b));
    if (verdict == "same")
    {
      if (!(*a == *b)) verdict = "diff-stream";
      for (unsigned n(std::stoul(t[5])); n; --n)
        if ((*a)() != (*b)()) verdict = "diff-stream";
    }
    return verdict + restored + " " + verif::hex(text);
  }
  if (t.size() == 6 && t[0] == "cfgload")
  {
    auto *b(make(1, t[1]));
    for (unsigned j(std::stoul(t[2])); j; --j) (*b)();
    const auto c(parse_cfg(t[3]));
    std::istringstream is(verif::unhex(t[4]));
    configure(is, c);
    const auto before(verif::ubsan_reports);
    is >> *b;
    const bool oob(verif::ubsan_reports != before);
    std::string out(oob ? "oob" : is.fail() ? "fail" : "ok");
    out += words_text(*b);
    for (unsigned n(std::stoul(t[5])); n; --n) out += " " + std::to_string((*b)());
    return out;
  }
  return "bad-op";
}

}  // namespace

int main()
{
  vita::log::reporting_level = vita::log::lOFF;

  std::string line;
  while (std::getline(std::cin, line))
  {
    std::string ans;
    try { ans = answer(verif::split(line)); }
    catch (const std::exception &e) { ans = std::string("exception ") + e.what(); }
    std::cout << ans << std::endl;
  }
}
