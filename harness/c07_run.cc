// C07 harness (whole runs): one small evolutionary search per process; prints a transcript of every
// after_generation callback (population dump, best, counters, analyzer), of the final summary and of the
// statistics files the search wrote – without wall-clock fields.  The check compares the transcripts of
// several PROCESSES started with the same (seed, problem, data, parameters): different heap layouts, a
// stalled process, a COLD execution (no serialization file yet) against a WARM one (the file a previous
// execution left behind), and of two runs inside one process (`repeat`).
//
//   c07_run <config> <seed> <generations> <individuals> <noise> [<mode> [<params>]]
//     config : <kind>-<strategy>[-<validation>]  (also the old names mep-dss, mep-holdout, de)
//              kind       mep  (src_search<i_mep>, symbolic regression)
//                         cls  (src_search<i_mep>, classification, 3 classes)
//                         team (src_search<team<i_mep>>, symbolic regression)
//                         ga   (basic_ga_search<i_ga>)         de (de_search)
//              strategy   std | alps          validation  dss | holdout   (src kinds only)
//     noise  : seed of a heap-layout perturbation executed before anything is allocated by vita
//              (0 = none): shakes out address-dependent behaviour
//     mode   : - | repeat | stall-cb:<n>:<ms> | stall-eval:<n>:<ms>
//              stall-cb:<n>:<ms>   the n-th after_generation callback (0-based, counted over the whole
//                                  process) sleeps <ms> milliseconds AFTER it has been recorded
//              stall-eval:<n>:<ms> the n-th call of the fitness function sleeps <ms> ms (ga-* and de only)
//     params : comma separated key=value, every one an environment parameter that enables a code path:
//              brood cache elit pmut pcross tourn mate stuck layers code patch minind dssgap valpct agegap
//              psame team dewlo dewhi runs eva thr  and the two that are NOT parameters of the problem:
//              ser=<file>   env.misc.serialization_file (the evaluation cache is loaded from / saved to it)
//              logs=<dir>   env.stat.* files are written there (must be an empty directory)
//     Neither the path nor the presence of the serialization file may change the transcript.
#include "kernel/vita.h"
#include "common/verif.h"

#include <chrono>
#include <filesystem>
#include <fstream>
#include <map>
#include <sstream>
#include <thread>

using namespace vita;

namespace
{

long stall_cb_at = -1, stall_eval_at = -1, callbacks = 0, evaluations = 0;
unsigned stall_ms = 0;

void maybe_stall(long &counter, long at)
{
  if (counter++ == at)
    std::this_thread::sleep_for(std::chrono::milliseconds(stall_ms));
}

auto *keep = new std::vector<void *>;   // reachable through a global at exit (not a leak), never freed

void heap_noise(std::uint64_t seed)
{
  if (!seed) return;
  verif::splitmix r(seed);
  std::vector<void *> all;
  const unsigned n(100 + r.below(400));
  for (unsigned i(0); i < n; ++i)
    all.push_back(::operator new(8 + r.below(i % 7 == 0 ? 20000 : 600)));
  for (auto *p : all)
    if (r.below(2)) ::operator delete(p);
    else keep->push_back(p);
}

// ---- parameters -------------------------------------------------------------------------------------
struct params
{
  std::map<std::string, std::string> kv;

  explicit params(const std::string &s = "")
  {
    std::size_t p(0);
    while (p < s.size())
    {
      auto q(s.find(',', p));
      if (q == std::string::npos) q = s.size();
      const std::string item(s.substr(p, q - p));
      const auto eq(item.find('='));
      if (eq != std::string::npos) kv[item.substr(0, eq)] = item.substr(eq + 1);
      p = q + 1;
    }
  }
  bool has(const char *k) const { return kv.count(k); }
  unsigned u(const char *k) const { return std::stoul(kv.at(k)); }
  double d(const char *k) const { return std::stod(kv.at(k)); }
  const std::string &s(const char *k) const { return kv.at(k); }
  unsigned runs() const { return has("runs") ? u("runs") : 2; }
};

void apply(environment &e, const params &p)
{
  if (p.has("brood")) e.brood_recombination = p.u("brood");
  if (p.has("cache")) e.cache_size = p.u("cache");
  if (p.has("ser")) e.misc.serialization_file = p.s("ser");
  if (p.has("elit")) e.elitism = p.u("elit") ? trilean::yes : trilean::no;
  if (p.has("pmut")) e.p_mutation = p.d("pmut");
  if (p.has("pcross")) e.p_cross = p.d("pcross");
  if (p.has("tourn")) e.tournament_size = p.u("tourn");
  if (p.has("mate")) e.mate_zone = p.u("mate");
  if (p.has("stuck")) e.max_stuck_time = p.u("stuck");
  if (p.has("layers")) e.layers = p.u("layers");
  if (p.has("code")) e.mep.code_length = p.u("code");
  if (p.has("patch")) e.mep.patch_length = p.u("patch");
  if (p.has("minind")) e.min_individuals = p.u("minind");
  if (p.has("dssgap")) e.dss = p.u("dssgap");
  if (p.has("valpct")) e.validation_percentage = p.u("valpct");
  if (p.has("agegap")) e.alps.age_gap = p.u("agegap");
  if (p.has("psame")) e.alps.p_same_layer = p.d("psame");
  if (p.has("team")) e.team.individuals = p.u("team");
  if (p.has("dewlo") && p.has("dewhi")) e.de.weight = {p.d("dewlo"), p.d("dewhi")};
  if (p.has("thr")) e.threshold.fitness = {p.d("thr")};
  if (p.has("logs"))
  {
    e.stat.dir = p.s("logs");
    e.stat.dynamic_file = "dynamic.txt";
    e.stat.layers_file = "layers.txt";
    e.stat.population_file = "population.txt";
    e.stat.summary_file = "summary.xml";
  }
}

// what the previous execution left behind – reported on stderr (never part of the transcript)
void report_files(const params &p)
{
  if (!p.has("ser")) return;
  std::error_code ec;
  const auto sz(std::filesystem::file_size(p.s("ser"), ec));
  std::cerr << "SERIALIZATION-FILE " << (ec ? "absent" : "present bytes=" + std::to_string(sz)) << '\n';
}

// the statistics files are results as well (wall-clock element aside)
void dump_logs(std::ostream &o, const params &p)
{
  if (!p.has("logs")) return;
  for (const char *n : {"dynamic.txt", "layers.txt", "population.txt", "summary.xml"})
  {
    std::ifstream f(std::filesystem::path(p.s("logs")) / n);
    o << "FILE " << n << (f ? "" : " absent") << '\n';
    std::string line;
    while (std::getline(f, line))
      if (line.find("elapsed_time") == std::string::npos && line.find("<serialization_file>") == std::string::npos)
      {
        // the two scratch paths are not parameters of the problem (summary.xml echoes the environment)
        for (const char *k : {"logs", "ser"})
          if (p.has(k) && !p.s(k).empty())
            for (auto at(line.find(p.s(k))); at != std::string::npos; at = line.find(p.s(k)))
              line.replace(at, p.s(k).size(), std::string("@") + k + "@");
        o << "  " << line << '\n';
      }
  }
}

// ---- transcript ---------------------------------------------------------------------------------------
template<class T> void dump_dist(std::ostream &o, const char *name, const distribution<T> &d)
{
  o << name << ' ';
  d.save(o);
  o << '\n';
}

template<class T>
void dump(std::ostream &o, const population<T> &pop, const summary<T> &s)
{
  o << "GEN " << s.gen << " last_imp " << s.last_imp << " crossovers " << s.crossovers
    << " mutations " << s.mutations << " layers " << pop.layers() << '\n';
  o << "POP\n";
  pop.save(o);
  o << "BEST ";
  s.best.solution.save(o);
  o << "FIT ";
  s.best.score.fitness.save(o);
  o << " acc " << verif::bits(s.best.score.accuracy) << " sol " << s.best.score.is_solution << '\n';
  dump_dist(o, "AGE", s.az.age_dist());
  dump_dist(o, "FITD", s.az.fit_dist());
  dump_dist(o, "LEN", s.az.length_dist());
  for (unsigned l(0); l < pop.layers(); ++l)
    o << "LAYER " << l << " allowed " << pop.allowed(l) << " individuals " << pop.individuals(l) << '\n';
  o << "SYM";
  for (auto it(s.az.begin()); it != s.az.end(); ++it)
    o << ' ' << it->first->name() << ':' << it->first->opcode() << ':' << it->second.counter[0]
      << ':' << it->second.counter[1];
  o << '\n';
  maybe_stall(callbacks, stall_cb_at);
}

template<class T> void final_dump(std::ostream &o, const summary<T> &s)
{
  o << "FINAL gen " << s.gen << " last_imp " << s.last_imp << " crossovers " << s.crossovers
    << " mutations " << s.mutations << "\nBEST ";
  s.best.solution.save(o);
  o << "FIT ";
  s.best.score.fitness.save(o);
  o << " acc " << verif::bits(s.best.score.accuracy) << " sol " << s.best.score.is_solution << '\n';
}

std::string regression_data()
{
  // y = x1*x1 + x2 - 1 (with a little noise-free structure), 24 rows
  std::ostringstream os;
  for (int i(0); i < 24; ++i)
  {
    const double a(-3.0 + 0.37 * i), b(1.5 - 0.21 * i * (i % 3));
    os << a * a + b - 1.0 << ',' << a << ',' << b << '\n';
  }
  return os.str();
}

std::string classification_data()
{
  // three classes in the plane, 30 rows
  std::ostringstream os;
  for (int i(0); i < 30; ++i)
  {
    const double a(-2.0 + 0.31 * i - 0.9 * (i % 4)), b(0.4 * (i % 7) - 1.1 + 0.05 * i);
    const char *label(a * a + b > 2.0 ? "far" : a + b > 0.3 ? "up" : "down");
    os << label << ',' << a << ',' << b << '\n';
  }
  return os.str();
}

evaluator_id evaluator_of(const std::string &n)
{
  if (n == "count") return evaluator_id::count;
  if (n == "mae") return evaluator_id::mae;
  if (n == "rmae") return evaluator_id::rmae;
  if (n == "mse") return evaluator_id::mse;
  if (n == "bin") return evaluator_id::bin;
  if (n == "dyn_slot") return evaluator_id::dyn_slot;
  if (n == "gaussian") return evaluator_id::gaussian;
  return evaluator_id::undefined;
}

template<class T, template<class> class ES>
void run_src(std::ostream &o, unsigned gens, unsigned inds, bool classification, int validator, const params &p)
{
  std::istringstream is(classification ? classification_data() : regression_data());
  src_problem prob(is);
  prob.setup_symbols();
  prob.env.individuals = inds;
  prob.env.generations = gens;
  prob.env.layers = 2;
  prob.env.mep.code_length = 24;
  if (validator == 1) prob.env.dss = 2;
  if (validator == 2) prob.env.validation_percentage = 30;
  apply(prob.env, p);

  src_search<T, ES> s(prob);
  if (p.has("eva")) s.evaluator(evaluator_of(p.s("eva")));
  if (validator == 1) s.validation_strategy(validator_id::dss);
  if (validator == 2) s.validation_strategy(validator_id::holdout);
  s.after_generation([&o](const population<T> &pop, const summary<T> &st) { dump(o, pop, st); });
  final_dump(o, s.run(p.runs()));
}

template<template<class> class ES>
void run_ga(std::ostream &o, unsigned gens, unsigned inds, const params &p)
{
  const int N(8);
  ga_problem prob(N, {0, N});
  prob.env.individuals = inds;
  prob.env.generations = gens;
  prob.env.layers = 2;
  apply(prob.env, p);

  auto f = [](const i_ga &x) -> fitness_t
  {
    maybe_stall(evaluations, stall_eval_at);
    double attacks(0);
    for (int q(0); q < N - 1; ++q)
      for (int i(q + 1); i < N; ++i)
        if (x[i] == x[q] || std::abs(x[i] - x[q]) == i - q)
          ++attacks;
    return {-attacks};
  };

  basic_ga_search<i_ga, ES, decltype(f)> s(prob, f);
  s.after_generation([&o](const population<i_ga> &pop, const summary<i_ga> &st) { dump(o, pop, st); });
  final_dump(o, s.run(p.runs()));
}

void run_de(std::ostream &o, unsigned gens, unsigned inds, const params &p)
{
  de_problem prob(4, {-5.12, 5.12});
  prob.env.individuals = inds;
  prob.env.generations = gens;
  apply(prob.env, p);

  auto f = [](const std::vector<double> &x)
  {
    maybe_stall(evaluations, stall_eval_at);
    double r(10.0 * x.size());
    for (auto xi : x) r += xi * xi - 10.0 * std::cos(2 * 3.141592653589793 * xi);
    return -r;
  };

  de_search<decltype(f)> s(prob, f);
  s.after_generation([&o](const population<i_de> &pop, const summary<i_de> &st) { dump(o, pop, st); });
  final_dump(o, s.run(p.runs()));
}

bool one_run(std::ostream &o, const std::string &cfg, unsigned seed, unsigned gens, unsigned inds,
             const params &p)
{
  std::vector<std::string> part;
  std::istringstream ss(cfg);
  for (std::string w; std::getline(ss, w, '-');) part.push_back(w);
  const std::string kind(part.empty() ? "" : part[0]);
  bool alps(false);
  int validator(0);
  for (std::size_t i(1); i < part.size(); ++i)
    if (part[i] == "alps") alps = true;
    else if (part[i] == "dss") validator = 1;
    else if (part[i] == "holdout") validator = 2;
    else if (part[i] != "std") return false;

  random::seed(seed);
  if (kind == "mep" || kind == "cls")
  {
    if (alps) run_src<i_mep, alps_es>(o, gens, inds, kind == "cls", validator, p);
    else run_src<i_mep, std_es>(o, gens, inds, kind == "cls", validator, p);
  }
  else if (kind == "team")
  {
    if (alps) run_src<team<i_mep>, alps_es>(o, gens, inds, false, validator, p);
    else run_src<team<i_mep>, std_es>(o, gens, inds, false, validator, p);
  }
  else if (kind == "ga")
  {
    if (alps) run_ga<alps_es>(o, gens, inds, p);
    else run_ga<std_es>(o, gens, inds, p);
  }
  else if (kind == "de") run_de(o, gens, inds, p);
  else return false;
  dump_logs(o, p);
  return true;
}

}  // namespace

int main(int argc, char *argv[])
{
  log::reporting_level = log::lOFF;
  if (argc < 6)
  {
    std::cout << "usage\n";
    return 2;
  }
  const std::string cfg(argv[1]);
  const unsigned seed(std::stoul(argv[2])), gens(std::stoul(argv[3])), inds(std::stoul(argv[4]));
  heap_noise(std::stoull(argv[5]));
  const std::string mode(argc > 6 ? argv[6] : "");
  const params p(argc > 7 ? argv[7] : "");
  const bool repeat(mode == "repeat");
  if (mode.rfind("stall-", 0) == 0)
  {
    const auto p1(mode.find(':')), p2(mode.find(':', p1 + 1));
    if (p1 == std::string::npos || p2 == std::string::npos) { std::cout << "usage\n"; return 2; }
    const long n(std::stol(mode.substr(p1 + 1, p2 - p1 - 1)));
    stall_ms = std::stoul(mode.substr(p2 + 1));
    (mode.rfind("stall-cb", 0) == 0 ? stall_cb_at : stall_eval_at) = n;
  }
  report_files(p);

  std::ostringstream a;
  if (!one_run(a, cfg, seed, gens, inds, p))
  {
    std::cout << "bad-config\n";
    return 2;
  }
  std::cout << a.str();
  if (stall_cb_at >= callbacks || stall_eval_at >= evaluations)
    std::cout << "STALL-NOT-REACHED\n";    // the perturbation did not happen: the check must know
  if (repeat)
  {
    std::ostringstream b;
    one_run(b, cfg, seed, gens, inds, p);
    std::cout << (a.str() == b.str() ? "REPEAT same\n" : "REPEAT different\n");
    if (a.str() != b.str())
      std::cout << "SECOND\n" << b.str();
  }
  return keep->size() > 100000 ? 1 : 0;
}
