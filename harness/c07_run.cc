// C07 harness (whole runs): one small evolutionary run per process; prints a transcript of every
// after_generation callback (population dump, best, counters, analyzer) and of the final summary,
// without wall-clock fields.  The check compares the transcripts of several PROCESSES started with
// the same arguments (and of two runs inside one process: `repeat`).
//
//   c07_run <config> <seed> <generations> <individuals> <noise> [repeat | stall-cb:<n>:<ms> | stall-eval:<n>:<ms>]
//     config : mep-std | mep-alps | mep-dss | mep-holdout | ga-std | ga-alps | de
//     noise  : seed of a heap-layout perturbation executed before anything is allocated by vita
//              (0 = none): shakes out address-dependent behaviour
//     stall-cb:<n>:<ms>   timing perturbation: the n-th after_generation callback (0-based, counted over
//                         the whole process) sleeps <ms> milliseconds AFTER it has been recorded
//     stall-eval:<n>:<ms> the n-th call of the fitness function sleeps <ms> ms (ga-* and de only: the
//                         harness owns their fitness function) – a stall in the middle of a generation
//     A stalled process must print exactly the transcript of an unstalled one: nothing observable may
//     depend on the wall clock (evolution.tcc has a branch taken 2 s after the last progress message).
#include "kernel/vita.h"
#include "common/verif.h"

#include <chrono>
#include <sstream>
#include <thread>

using namespace vita;

namespace
{

long stall_cb_at = -1, stall_eval_at = -1, callbacks = 0, evaluations = 0;
unsigned stall_ms = 0;

void maybe_stall(long &counter, long at)
{
  if (counter++ == at)
    std::this_thread::sleep_for(std::chrono::milliseconds(stall_ms));
}

auto *keep = new std::vector<void *>;   // reachable through a global at exit (not a leak), never freed

void heap_noise(std::uint64_t seed)
{
  if (!seed) return;
  verif::splitmix r(seed);
  std::vector<void *> all;
  const unsigned n(100 + r.below(400));
  for (unsigned i(0); i < n; ++i)
    all.push_back(::operator new(8 + r.below(i % 7 == 0 ? 20000 : 600)));
  for (auto *p : all)
    if (r.below(2)) ::operator delete(p);
    else keep->push_back(p);
}

template<class T> void dump_dist(std::ostream &o, const char *name, const distribution<T> &d)
{
  o << name << ' ';
  d.save(o);
  o << '\n';
}

template<class T>
void dump(std::ostream &o, const population<T> &pop, const summary<T> &s)
{
  o << "GEN " << s.gen << " last_imp " << s.last_imp << " crossovers " << s.crossovers
    << " mutations " << s.mutations << " layers " << pop.layers() << '\n';
  o << "POP\n";
  pop.save(o);
  o << "BEST ";
  s.best.solution.save(o);
  o << "FIT ";
  s.best.score.fitness.save(o);
  o << " acc " << verif::bits(s.best.score.accuracy) << " sol " << s.best.score.is_solution << '\n';
  dump_dist(o, "AGE", s.az.age_dist());
  dump_dist(o, "FITD", s.az.fit_dist());
  dump_dist(o, "LEN", s.az.length_dist());
  o << "SYM";
  for (auto it(s.az.begin()); it != s.az.end(); ++it)
    o << ' ' << it->first->name() << ':' << it->first->opcode() << ':' << it->second.counter[0]
      << ':' << it->second.counter[1];
  o << '\n';
  maybe_stall(callbacks, stall_cb_at);
}

template<class T> void final_dump(std::ostream &o, const summary<T> &s)
{
  o << "FINAL gen " << s.gen << " last_imp " << s.last_imp << " crossovers " << s.crossovers
    << " mutations " << s.mutations << "\nBEST ";
  s.best.solution.save(o);
  o << "FIT ";
  s.best.score.fitness.save(o);
  o << " acc " << verif::bits(s.best.score.accuracy) << '\n';
}

const char *dataset()
{
  // y = x1*x1 + x2 - 1 (with a little noise-free structure), 24 rows
  static std::string s;
  if (s.empty())
  {
    std::ostringstream os;
    for (int i(0); i < 24; ++i)
    {
      const double a(-3.0 + 0.37 * i), b(1.5 - 0.21 * i * (i % 3));
      os << a * a + b - 1.0 << ',' << a << ',' << b << '\n';
    }
    s = os.str();
  }
  return s.c_str();
}

template<template<class> class ES>
void run_mep(std::ostream &o, unsigned gens, unsigned inds, int validator)
{
  std::istringstream is(dataset());
  src_problem prob(is);
  prob.setup_symbols();
  prob.env.individuals = inds;
  prob.env.generations = gens;
  prob.env.layers = 2;
  prob.env.mep.code_length = 24;
  if (validator == 1) prob.env.dss = 2;
  if (validator == 2) prob.env.validation_percentage = 30;

  src_search<i_mep, ES> s(prob);
  if (validator == 1) s.validation_strategy(validator_id::dss);
  if (validator == 2) s.validation_strategy(validator_id::holdout);
  s.after_generation([&o](const population<i_mep> &p, const summary<i_mep> &st) { dump(o, p, st); });
  final_dump(o, s.run(2));
}

template<template<class> class ES>
void run_ga(std::ostream &o, unsigned gens, unsigned inds)
{
  const int N(8);
  ga_problem prob(N, {0, N});
  prob.env.individuals = inds;
  prob.env.generations = gens;
  prob.env.layers = 2;

  auto f = [](const i_ga &x) -> fitness_t
  {
    maybe_stall(evaluations, stall_eval_at);
    double attacks(0);
    for (int q(0); q < N - 1; ++q)
      for (int i(q + 1); i < N; ++i)
        if (x[i] == x[q] || std::abs(x[i] - x[q]) == i - q)
          ++attacks;
    return {-attacks};
  };

  basic_ga_search<i_ga, ES, decltype(f)> s(prob, f);
  s.after_generation([&o](const population<i_ga> &p, const summary<i_ga> &st) { dump(o, p, st); });
  final_dump(o, s.run(2));
}

void run_de(std::ostream &o, unsigned gens, unsigned inds)
{
  de_problem prob(4, {-5.12, 5.12});
  prob.env.individuals = inds;
  prob.env.generations = gens;

  auto f = [](const std::vector<double> &x)
  {
    maybe_stall(evaluations, stall_eval_at);
    double r(10.0 * x.size());
    for (auto xi : x) r += xi * xi - 10.0 * std::cos(2 * 3.141592653589793 * xi);
    return -r;
  };

  de_search<decltype(f)> s(prob, f);
  s.after_generation([&o](const population<i_de> &p, const summary<i_de> &st) { dump(o, p, st); });
  final_dump(o, s.run(2));
}

void one_run(std::ostream &o, const std::string &cfg, unsigned seed, unsigned gens, unsigned inds)
{
  random::seed(seed);
  if (cfg == "mep-std") run_mep<std_es>(o, gens, inds, 0);
  else if (cfg == "mep-alps") run_mep<alps_es>(o, gens, inds, 0);
  else if (cfg == "mep-dss") run_mep<std_es>(o, gens, inds, 1);
  else if (cfg == "mep-holdout") run_mep<std_es>(o, gens, inds, 2);
  else if (cfg == "ga-std") run_ga<std_es>(o, gens, inds);
  else if (cfg == "ga-alps") run_ga<alps_es>(o, gens, inds);
  else if (cfg == "de") run_de(o, gens, inds);
  else o << "bad-config\n";
}

}  // namespace

int main(int argc, char *argv[])
{
  log::reporting_level = log::lOFF;
  if (argc < 6)
  {
    std::cout << "usage\n";
    return 2;
  }
  const std::string cfg(argv[1]);
  const unsigned seed(std::stoul(argv[2])), gens(std::stoul(argv[3])), inds(std::stoul(argv[4]));
  heap_noise(std::stoull(argv[5]));
  const std::string mode(argc > 6 ? argv[6] : "");
  const bool repeat(mode == "repeat");
  if (mode.rfind("stall-", 0) == 0)
  {
    const auto p1(mode.find(':')), p2(mode.find(':', p1 + 1));
    if (p1 == std::string::npos || p2 == std::string::npos) { std::cout << "usage\n"; return 2; }
    const long n(std::stol(mode.substr(p1 + 1, p2 - p1 - 1)));
    stall_ms = std::stoul(mode.substr(p2 + 1));
    (mode.rfind("stall-cb", 0) == 0 ? stall_cb_at : stall_eval_at) = n;
  }

  std::ostringstream a;
  one_run(a, cfg, seed, gens, inds);
  std::cout << a.str();
  if (stall_cb_at >= callbacks || stall_eval_at >= evaluations)
    std::cout << "STALL-NOT-REACHED\n";    // the perturbation did not happen: the check must know
  if (repeat)
  {
    std::ostringstream b;
    one_run(b, cfg, seed, gens, inds);
    std::cout << (a.str() == b.str() ? "REPEAT same\n" : "REPEAT different\n");
    if (a.str() != b.str())
      std::cout << "SECOND\n" << b.str();
  }
  return keep->size() > 100000 ? 1 : 0;
}
