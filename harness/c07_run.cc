// C07 harness (whole runs): one small evolutionary search per process; prints a transcript of every
// after_generation callback (population dump, best, counters, analyzer), of the final summary and of the
// statistics files the search wrote – without wall-clock fields.  The check compares the transcripts of
// several PROCESSES started with the same (seed, problem, data, parameters): different heap layouts, a
// stalled process, a COLD execution (no serialization file yet) against a WARM one (the file a previous
// execution left behind), and of two runs inside one process (`repeat`).
//
//   c07_run <config> <seed> <generations> <individuals> <noise> [<mode> [<params>]]
//     config : <kind>-<strategy>[-<validation>]  (also the old names mep-dss, mep-holdout, de)
//              kind       mep  (src_search<i_mep>, symbolic regression)
//                         cls  (src_search<i_mep>, classification, 3 classes)
//                         team (src_search<team<i_mep>>, symbolic regression)
//                         ga   (basic_ga_search<i_ga>)         de (de_search)
//              strategy   std | alps          validation  dss | holdout   (src kinds only)
//     noise  : seed of a heap-layout perturbation executed before anything is allocated by vita
//              (0 = none): shakes out address-dependent behaviour
//     mode   : - | repeat[:<k>] | stall-cb:<n>:<ms> | stall-eval:<n>:<ms> | ckpt-save:<g>:<file> |
//              ckpt-load:<paint>:<work>:<file>
//              repeat[:<k>]        IN-PROCESS repetition: the execution (problem rebuilt from scratch, same seed) is
//                                  performed twice in this process with OTHER WORK in between (seed k: heap noise,
//                                  more symbols created, searches over bigger programs of every kind of individual,
//                                  stack painted).  Opcodes are names given by a process-wide counter, so the two
//                                  transcripts are compared in CANONICAL form (symbols by NAME, no opcode)
//              ckpt-save:<g>:<file> (configurations without validation strategy) one run of evolution<T, ES>, then the
//                                  same run through the harness' MIRROR of evolution::run (selection / recombination /
//                                  replacement / after_generation of the strategy); the two transcripts must be equal
//                                  (`MIRROR same`); after generation g population + summary + random::engine are
//                                  saved to <file>; stdout = the uninterrupted transcript
//              ckpt-load:<paint>:<work>:<file>  RESTART: fresh problem / evaluator / population / summary objects,
//                                  stack painted (<paint> < 256: that byte, otherwise pseudo-random words), <work> = 1:
//                                  other work (bigger programs) before the restore; population, summary and engine
//                                  are loaded from <file> and the run continues; stdout = transcript of the
//                                  generations after g
//              stall-cb:<n>:<ms>   the n-th after_generation callback (0-based, counted over the whole
//                                  process) sleeps <ms> milliseconds AFTER it has been recorded
//              stall-eval:<n>:<ms> the n-th call of the fitness function sleeps <ms> ms (ga-* and de only)
//     params : comma separated key=value, every one an environment parameter that enables a code path:
//              brood cache elit pmut pcross tourn mate stuck layers code patch minind dssgap valpct agegap
//              psame team dewlo dewhi runs eva thr  and the two that are NOT parameters of the problem:
//              ser=<file>   env.misc.serialization_file (the evaluation cache is loaded from / saved to it)
//              logs=<dir>   env.stat.* files are written there (must be an empty directory)
//     Neither the path nor the presence of the serialization file may change the transcript.
#include "kernel/vita.h"
#include "common/verif.h"

#include <chrono>
#include <filesystem>
#include <fstream>
#include <map>
#include <sstream>
#include <thread>
#include <type_traits>

using namespace vita;

namespace
{

long stall_cb_at = -1, stall_eval_at = -1, callbacks = 0, evaluations = 0;
unsigned stall_ms = 0;

void maybe_stall(long &counter, long at)
{
  if (counter++ == at)
    std::this_thread::sleep_for(std::chrono::milliseconds(stall_ms));
}

auto *keep = new std::vector<void *>;   // reachable through a global at exit (not a leak), never freed

void heap_noise(std::uint64_t seed)
{
  if (!seed) return;
  verif::splitmix r(seed);
  std::vector<void *> all;
  const unsigned n(100 + r.below(400));
  for (unsigned i(0); i < n; ++i)
    all.push_back(::operator new(8 + r.below(i % 7 == 0 ? 20000 : 600)));
  for (auto *p : all)
    if (r.below(2)) ::operator delete(p);
    else keep->push_back(p);
}

// ---- transcript sink ----------------------------------------------------------------------------------
// Two forms of the same transcript: `raw` (what vita's own save() writes: symbols as OPCODES, comparable between
// processes) and `canon` (symbols by NAME: comparable between two executions in one process, where the process-wide
// opcode counter has renamed the symbols of the rebuilt problem).
struct sink
{
  std::ostringstream raw, canon;
  template<class X> sink &operator<<(const X &x) { raw << x; canon << x; return *this; }
};

// ---- parameters -------------------------------------------------------------------------------------
struct params
{
  std::map<std::string, std::string> kv;

  explicit params(const std::string &s = "")
  {
    std::size_t p(0);
    while (p < s.size())
    {
      auto q(s.find(',', p));
      if (q == std::string::npos) q = s.size();
      const std::string item(s.substr(p, q - p));
      const auto eq(item.find('='));
      if (eq != std::string::npos) kv[item.substr(0, eq)] = item.substr(eq + 1);
      p = q + 1;
    }
  }
  bool has(const char *k) const { return kv.count(k); }
  unsigned u(const char *k) const { return std::stoul(kv.at(k)); }
  double d(const char *k) const { return std::stod(kv.at(k)); }
  const std::string &s(const char *k) const { return kv.at(k); }
  unsigned runs() const { return has("runs") ? u("runs") : 2; }
};

void apply(environment &e, const params &p)
{
  if (p.has("brood")) e.brood_recombination = p.u("brood");
  if (p.has("cache")) e.cache_size = p.u("cache");
  if (p.has("ser")) e.misc.serialization_file = p.s("ser");
  if (p.has("elit")) e.elitism = p.u("elit") ? trilean::yes : trilean::no;
  if (p.has("pmut")) e.p_mutation = p.d("pmut");
  if (p.has("pcross")) e.p_cross = p.d("pcross");
  if (p.has("tourn")) e.tournament_size = p.u("tourn");
  if (p.has("mate")) e.mate_zone = p.u("mate");
  if (p.has("stuck")) e.max_stuck_time = p.u("stuck");
  if (p.has("layers")) e.layers = p.u("layers");
  if (p.has("code")) e.mep.code_length = p.u("code");
  if (p.has("patch")) e.mep.patch_length = p.u("patch");
  if (p.has("minind")) e.min_individuals = p.u("minind");
  if (p.has("dssgap")) e.dss = p.u("dssgap");
  if (p.has("valpct")) e.validation_percentage = p.u("valpct");
  if (p.has("agegap")) e.alps.age_gap = p.u("agegap");
  if (p.has("psame")) e.alps.p_same_layer = p.d("psame");
  if (p.has("team")) e.team.individuals = p.u("team");
  if (p.has("dewlo") && p.has("dewhi")) e.de.weight = {p.d("dewlo"), p.d("dewhi")};
  if (p.has("thr")) e.threshold.fitness = {p.d("thr")};
  if (p.has("logs"))
  {
    e.stat.dir = p.s("logs");
    e.stat.dynamic_file = "dynamic.txt";
    e.stat.layers_file = "layers.txt";
    e.stat.population_file = "population.txt";
    e.stat.summary_file = "summary.xml";
  }
}

// what the previous execution left behind – reported on stderr (never part of the transcript)
void report_files(const params &p)
{
  if (!p.has("ser")) return;
  std::error_code ec;
  const auto sz(std::filesystem::file_size(p.s("ser"), ec));
  std::cerr << "SERIALIZATION-FILE " << (ec ? "absent" : "present bytes=" + std::to_string(sz)) << '\n';
}

// the statistics files are results as well (wall-clock element aside)
void dump_logs(sink &o, const params &p)
{
  if (!p.has("logs")) return;
  for (const char *n : {"dynamic.txt", "layers.txt", "population.txt", "summary.xml"})
  {
    std::ifstream f(std::filesystem::path(p.s("logs")) / n);
    o << "FILE " << n << (f ? "" : " absent") << '\n';
    std::string line;
    while (std::getline(f, line))
      if (line.find("elapsed_time") == std::string::npos && line.find("<serialization_file>") == std::string::npos)
      {
        // the two scratch paths are not parameters of the problem (summary.xml echoes the environment)
        for (const char *k : {"logs", "ser"})
          if (p.has(k) && !p.s(k).empty())
            for (auto at(line.find(p.s(k))); at != std::string::npos; at = line.find(p.s(k)))
              line.replace(at, p.s(k).size(), std::string("@") + k + "@");
        o << "  " << line << '\n';
      }
  }
}

// ---- transcript ---------------------------------------------------------------------------------------

void canon_ind(std::ostream &o, const i_mep &p)
{
  o << p.age() << ' ' << p.size() << ' ' << p.categories();
  if (p.empty()) { o << " empty\n"; return; }
  o << " best " << p.best().index << ' ' << p.best().category << '\n';
  for (index_t i(0); i < p.size(); ++i)
    for (category_t c(0); c < p.categories(); ++c)
    {
      const gene &g(p[{i, c}]);
      o << g.sym->name();
      if (g.sym->terminal() && terminal::cast(g.sym)->parametric())
        o << ' ' << verif::bits(static_cast<double>(g.par));
      const auto arity(g.sym->arity());
      for (auto a(decltype(arity){0}); a < arity; ++a)
        o << ' ' << g.args[a];
      o << '\n';
    }
}
void canon_ind(std::ostream &o, const team<i_mep> &t)
{
  o << "TEAM " << t.individuals() << '\n';
  for (const auto &m : t) canon_ind(o, m);
}
template<class T> void canon_ind(std::ostream &o, const T &x) { x.save(o); }   // i_ga, i_de: numbers only

template<class T> void canon_pop(std::ostream &o, const population<T> &pop)
{
  o << pop.layers() << '\n';
  for (unsigned l(0); l < pop.layers(); ++l)
  {
    o << pop.allowed(l) << ' ' << pop.individuals(l) << '\n';
    for (unsigned i(0); i < pop.individuals(l); ++i) canon_ind(o, pop[{l, i}]);
  }
}

template<class T> void dump_dist(sink &o, const char *name, const distribution<T> &d)
{
  std::ostringstream t;
  d.save(t);
  o << name << ' ' << t.str() << '\n';
}

template<class T> void dump_best(sink &o, const summary<T> &s)
{
  o << "BEST ";
  s.best.solution.save(o.raw);
  canon_ind(o.canon, s.best.solution);
  std::ostringstream f;
  s.best.score.fitness.save(f);
  o << "FIT " << f.str() << " acc " << verif::bits(s.best.score.accuracy) << " sol " << s.best.score.is_solution << '\n';
}

template<class T>
void dump(sink &o, const population<T> &pop, const summary<T> &s)
{
  o << "GEN " << s.gen << " last_imp " << s.last_imp << " crossovers " << s.crossovers
    << " mutations " << s.mutations << " layers " << pop.layers() << '\n';
  o << "POP\n";
  pop.save(o.raw);
  canon_pop(o.canon, pop);
  dump_best(o, s);
  dump_dist(o, "AGE", s.az.age_dist());
  dump_dist(o, "FITD", s.az.fit_dist());
  dump_dist(o, "LEN", s.az.length_dist());
  for (unsigned l(0); l < pop.layers(); ++l)
    o << "LAYER " << l << " allowed " << pop.allowed(l) << " individuals " << pop.individuals(l) << '\n';
  o << "SYM";
  for (auto it(s.az.begin()); it != s.az.end(); ++it)
  {
    o << ' ' << it->first->name() << ':';
    o.raw << it->first->opcode() << ':';
    o << it->second.counter[0] << ':' << it->second.counter[1];
  }
  o << '\n';
  maybe_stall(callbacks, stall_cb_at);
}

template<class T> void final_dump(sink &o, const summary<T> &s)
{
  o << "FINAL gen " << s.gen << " last_imp " << s.last_imp << " crossovers " << s.crossovers
    << " mutations " << s.mutations << "\n";
  dump_best(o, s);
}

std::string regression_data()
{
  // y = x1*x1 + x2 - 1 (with a little noise-free structure), 24 rows
  std::ostringstream os;
  for (int i(0); i < 24; ++i)
  {
    const double a(-3.0 + 0.37 * i), b(1.5 - 0.21 * i * (i % 3));
    os << a * a + b - 1.0 << ',' << a << ',' << b << '\n';
  }
  return os.str();
}

std::string classification_data()
{
  // three classes in the plane, 30 rows
  std::ostringstream os;
  for (int i(0); i < 30; ++i)
  {
    const double a(-2.0 + 0.31 * i - 0.9 * (i % 4)), b(0.4 * (i % 7) - 1.1 + 0.05 * i);
    const char *label(a * a + b > 2.0 ? "far" : a + b > 0.3 ? "up" : "down");
    os << label << ',' << a << ',' << b << '\n';
  }
  return os.str();
}

evaluator_id evaluator_of(const std::string &n)
{
  if (n == "count") return evaluator_id::count;
  if (n == "mae") return evaluator_id::mae;
  if (n == "rmae") return evaluator_id::rmae;
  if (n == "mse") return evaluator_id::mse;
  if (n == "bin") return evaluator_id::bin;
  if (n == "dyn_slot") return evaluator_id::dyn_slot;
  if (n == "gaussian") return evaluator_id::gaussian;
  return evaluator_id::undefined;
}

// ---- what one execution does -------------------------------------------------------------------------
enum class act { search, ckpt_save, ckpt_load };

struct job
{
  std::string cfg;
  unsigned seed = 0, gens = 0, inds = 0;
  params p;
  act what = act::search;
  unsigned ckpt_gen = 0;       // ckpt_save: the checkpoint is written after this generation
  unsigned long long paint = 0;   // ckpt_load: stack pattern
  bool work = false;           // ckpt_load: other work before the restore
  std::string file;            // checkpoint file
};

// gives the harness what `search::run` uses: the tuned environment and the training evaluator
template<class S> struct open_search : S
{
  using S::S;
  void tune() { this->tune_parameters(); }
  auto &eva() { return *this->eva1_; }
};

// dead stack content is not an input of the computation: fill the region the next calls will use
__attribute__((noinline)) unsigned paint_stack(unsigned long long pattern)
{
  volatile std::uint64_t buffer[40 * 1024];      // 320 KiB
  verif::splitmix r(pattern);
  for (auto &b : buffer)
    b = pattern < 256 ? pattern * 0x0101010101010101ull : r.next();
  unsigned sum(0);
  for (auto &b : buffer) sum += static_cast<unsigned>(b);
  return sum;
}

void interlude(std::uint64_t k, bool new_symbols);

// ---- checkpoint / restart: the harness' mirror of evolution<T, ES>::run ---------------------------------
// (evolution builds its population from the problem and has no way to resume; the public pieces are the
//  population, the summary, the strategy objects and random::engine.  `MIRROR same` ties this loop to the real one
//  on every checkpoint job.)
template<class T, template<class> class ES>
struct legs
{
  static bool stop(const population<T> &pop, const summary<T> &st, const ES<T> &es)
  {
    if (st.gen > pop.get_problem().env.generations) return true;
    return es.stop_condition();
  }

  // generations from st.gen on; after generation `ckpt_gen` the state is appended to *ckpt
  static void loop(sink &o, population<T> &pop, summary<T> &st, ES<T> &es, evaluator<T> &eva, bool resumed,
                   long ckpt_gen, std::string *ckpt)
  {
    if (resumed) ++st.gen;
    for (; !stop(pop, st, es); ++st.gen)
    {
      analyzer<T> az;
      for (auto it(pop.begin()), end(pop.end()); it != end; ++it)
        az.add(*it, eva(*it), it.layer());
      st.az = az;

      for (unsigned k(0); k < pop.individuals(); ++k)
      {
        auto parents(es.selection.run());
        auto off(es.recombination.run(parents));
        es.replacement.run(parents, off, &st);
      }
      es.after_generation();
      dump(o, pop, st);

      if (ckpt && static_cast<long>(st.gen) == ckpt_gen)
      {
        std::ostringstream c;
        pop.save(c);
        st.save(c);
        c << random::engine << '\n';
        *ckpt = c.str();
      }
    }
    final_dump(o, st);
    std::ostringstream e;
    e << random::engine;
    o << "ENGINE " << e.str() << '\n';
  }

  template<class S> static int run(sink &o, const job &j, problem &prob, S &s)
  {
    s.tune();
    if (j.what == act::ckpt_save)
    {
      sink real;
      random::seed(j.seed);
      {
        evolution<T, ES> evo(prob, s.eva());
        evo.after_generation([&real](const population<T> &pop, const summary<T> &st) { dump(real, pop, st); });
        final_dump(real, evo.run(0));
        std::ostringstream e;
        e << random::engine;
        real << "ENGINE " << e.str() << '\n';
      }
      s.eva().clear();
      random::seed(j.seed);
      std::string ckpt;
      {
        population<T> pop(prob);
        summary<T> st;
        ES<T> es(pop, s.eva(), &st);
        st.clear();
        st.best.solution = pop[{0, 0}];
        st.best.score.fitness = s.eva()(st.best.solution);
        es.init();
        st.gen = 0;
        loop(o, pop, st, es, s.eva(), false, j.ckpt_gen, &ckpt);
      }
      const bool same(real.raw.str() == o.raw.str());
      std::cerr << (same ? "MIRROR same\n" : "MIRROR different\n");
      if (!same) std::cerr << "REAL\n" << real.raw.str() << "MIRRORED\n" << o.raw.str() << "END\n";
      if (ckpt.empty())
        std::cerr << "CHECKPOINT not-reached\n";
      else
      {
        std::ofstream f(j.file);
        f << ckpt;
        f.close();
        std::cerr << "CHECKPOINT written gen=" << j.ckpt_gen << " bytes=" << ckpt.size() << (f ? "" : " FAILED")
                  << '\n';
      }
      return 0;
    }

    // ---- restart
    std::ifstream in(j.file);
    if (!in) { std::cerr << "CHECKPOINT absent\n"; return 3; }
    random::seed(j.seed ^ 0x5bd1e995u);          // a restarted process knows nothing about the first leg's engine
    if (j.work) interlude(j.paint + 17, false);  // the problem's symbols exist already: their opcodes are unchanged
    paint_stack(j.paint);
    population<T> pop(prob);
    paint_stack(j.paint);
    if (!pop.load(in, prob)) { std::cerr << "CHECKPOINT population::load failed\n"; return 3; }
    summary<T> st;
    paint_stack(j.paint ^ 0xff);
    if (!st.load(in, prob)) { std::cerr << "CHECKPOINT summary::load failed\n"; return 3; }
    if (!(in >> random::engine)) { std::cerr << "CHECKPOINT engine failed\n"; return 3; }
    std::cerr << "CHECKPOINT loaded gen=" << st.gen << '\n';
    ES<T> es(pop, s.eva(), &st);
    loop(o, pop, st, es, s.eva(), true, -1, nullptr);
    return 0;
  }
};

template<class T, template<class> class ES>
int run_src(sink &o, const job &j, bool classification, int validator)
{
  const params &p(j.p);
  std::istringstream is(classification ? classification_data() : regression_data());
  src_problem prob(is);
  prob.setup_symbols();
  prob.env.individuals = j.inds;
  prob.env.generations = j.gens;
  prob.env.layers = 2;
  prob.env.mep.code_length = 24;
  if (validator == 1) prob.env.dss = 2;
  if (validator == 2) prob.env.validation_percentage = 30;
  apply(prob.env, p);

  if (j.what != act::search)
  {
    // src_search is final: the checkpoint legs use its base class with the evaluator src_search would install
    // (layers / individuals are explicit here, so src_search::tune_parameters adds nothing to search's)
    if (validator) return 2;
    open_search<search<T, ES>> s(prob);
    const auto id(p.has("eva") ? evaluator_of(p.s("eva"))
                               : classification ? evaluator_id::gaussian : evaluator_id::rmae);
    switch (id)
    {
    case evaluator_id::count: s.template training_evaluator<count_evaluator<T>>(prob.data()); break;
    case evaluator_id::mae: s.template training_evaluator<mae_evaluator<T>>(prob.data()); break;
    case evaluator_id::rmae: s.template training_evaluator<rmae_evaluator<T>>(prob.data()); break;
    case evaluator_id::mse: s.template training_evaluator<mse_evaluator<T>>(prob.data()); break;
    case evaluator_id::gaussian: s.template training_evaluator<gaussian_evaluator<T>>(prob.data()); break;
    case evaluator_id::dyn_slot: s.template training_evaluator<dyn_slot_evaluator<T>>(prob.data(), 10u); break;
    default: return 2;
    }
    return legs<T, ES>::run(o, j, prob, s);
  }
  src_search<T, ES> s(prob);
  if (p.has("eva")) s.evaluator(evaluator_of(p.s("eva")));
  if (validator == 1) s.validation_strategy(validator_id::dss);
  if (validator == 2) s.validation_strategy(validator_id::holdout);
  s.after_generation([&o](const population<T> &pop, const summary<T> &st) { dump(o, pop, st); });
  final_dump(o, s.run(p.runs()));
  return 0;
}

constexpr int QUEENS = 8;
struct queens_f
{
  fitness_t operator()(const i_ga &x) const
  {
    maybe_stall(evaluations, stall_eval_at);
    double attacks(0);
    for (int q(0); q < QUEENS - 1; ++q)
      for (int i(q + 1); i < QUEENS; ++i)
        if (x[i] == x[q] || std::abs(x[i] - x[q]) == i - q)
          ++attacks;
    return {-attacks};
  }
};
struct rastrigin_f
{
  double operator()(const std::vector<double> &x) const
  {
    maybe_stall(evaluations, stall_eval_at);
    double r(10.0 * x.size());
    for (auto xi : x) r += xi * xi - 10.0 * std::cos(2 * 3.141592653589793 * xi);
    return -r;
  }
};

template<template<class> class ES>
int run_ga(sink &o, const job &j)
{
  ga_problem prob(QUEENS, {0, QUEENS});
  prob.env.individuals = j.inds;
  prob.env.generations = j.gens;
  prob.env.layers = 2;
  apply(prob.env, j.p);

  open_search<basic_ga_search<i_ga, ES, queens_f>> s(prob, queens_f());
  if (j.what != act::search)
    return legs<i_ga, ES>::run(o, j, prob, s);
  s.after_generation([&o](const population<i_ga> &pop, const summary<i_ga> &st) { dump(o, pop, st); });
  final_dump(o, s.run(j.p.runs()));
  return 0;
}

int run_de(sink &o, const job &j)
{
  de_problem prob(4, {-5.12, 5.12});
  prob.env.individuals = j.inds;
  prob.env.generations = j.gens;
  apply(prob.env, j.p);

  open_search<de_search<rastrigin_f>> s(prob, rastrigin_f());
  if (j.what != act::search)
    return legs<i_de, de_es>::run(o, j, prob, s);
  s.after_generation([&o](const population<i_de> &pop, const summary<i_de> &st) { dump(o, pop, st); });
  final_dump(o, s.run(j.p.runs()));
  return 0;
}

// -> 0 done, 2 bad configuration, 3 checkpoint machinery failed
int one_run(sink &o, const job &j)
{
  std::vector<std::string> part;
  std::istringstream ss(j.cfg);
  for (std::string w; std::getline(ss, w, '-');) part.push_back(w);
  const std::string kind(part.empty() ? "" : part[0]);
  bool alps(false);
  int validator(0);
  for (std::size_t i(1); i < part.size(); ++i)
    if (part[i] == "alps") alps = true;
    else if (part[i] == "dss") validator = 1;
    else if (part[i] == "holdout") validator = 2;
    else if (part[i] != "std") return 2;

  int rc(2);
  random::seed(j.seed);
  if (kind == "mep" || kind == "cls")
    rc = alps ? run_src<i_mep, alps_es>(o, j, kind == "cls", validator)
              : run_src<i_mep, std_es>(o, j, kind == "cls", validator);
  else if (kind == "team")
    rc = alps ? run_src<team<i_mep>, alps_es>(o, j, false, validator)
              : run_src<team<i_mep>, std_es>(o, j, false, validator);
  else if (kind == "ga")
    rc = alps ? run_ga<alps_es>(o, j) : run_ga<std_es>(o, j);
  else if (kind == "de") rc = run_de(o, j);
  if (rc == 0) dump_logs(o, j.p);
  return rc;
}

// ---- other work between two executions in one process ------------------------------------------------
// Everything a long-lived process may have done before: heap churn, more symbols created (the opcode counter
// moves by a varying amount), searches of every kind of individual over BIGGER programs / populations than the
// job's (containers and caches with static or thread storage grow), a painted stack.
void interlude(std::uint64_t k, bool new_symbols)
{
  verif::splitmix r(k);
  heap_noise(r.next() | 1);
  if (new_symbols)
    for (unsigned n(1 + r.below(3)); n; --n)
    {
      std::ostringstream d;
      const unsigned cols(2 + r.below(5));
      for (int i(0); i < 6; ++i)
      {
        d << i * 0.5;
        for (unsigned c(0); c < cols; ++c) d << ',' << (i + 1.0) * (c + 2);
        d << '\n';
      }
      std::istringstream is(d.str());
      src_problem extra(is);
      extra.setup_symbols();
    }
  const char *cfgs[] = {"mep-std", "mep-alps", "team-std", "cls-alps", "ga-std", "de"};
  for (const char *c : cfgs)
  {
    job w;
    w.cfg = c;
    w.seed = static_cast<unsigned>(r.next());
    w.gens = 2 + r.below(3);
    w.inds = 30 + r.below(30);
    w.p = params("code=" + std::to_string(60 + 20 * r.below(4)) + ",runs=1,brood=" + std::to_string(1 + r.below(3)));
    sink waste;
    one_run(waste, w);
  }
  heap_noise(r.next() | 1);
  paint_stack(r.next());
}

std::vector<std::string> split(const std::string &s, char sep, std::size_t max_parts)
{
  std::vector<std::string> out;
  std::size_t p(0);
  while (out.size() + 1 < max_parts)
  {
    const auto q(s.find(sep, p));
    if (q == std::string::npos) break;
    out.push_back(s.substr(p, q - p));
    p = q + 1;
  }
  out.push_back(s.substr(p));
  return out;
}

}  // namespace

int main(int argc, char *argv[])
{
  log::reporting_level = log::lOFF;
  if (argc < 6)
  {
    std::cout << "usage\n";
    return 2;
  }
  job j;
  j.cfg = argv[1];
  j.seed = std::stoul(argv[2]);
  j.gens = std::stoul(argv[3]);
  j.inds = std::stoul(argv[4]);
  heap_noise(std::stoull(argv[5]));
  const std::string mode(argc > 6 ? argv[6] : "");
  j.p = params(argc > 7 ? argv[7] : "");
  const bool repeat(mode.rfind("repeat", 0) == 0);
  std::uint64_t repeat_k(j.seed + 1);
  if (repeat && mode.size() > 7) repeat_k = std::stoull(mode.substr(7));
  if (mode.rfind("stall-", 0) == 0)
  {
    const auto p1(mode.find(':')), p2(mode.find(':', p1 + 1));
    if (p1 == std::string::npos || p2 == std::string::npos) { std::cout << "usage\n"; return 2; }
    const long n(std::stol(mode.substr(p1 + 1, p2 - p1 - 1)));
    stall_ms = std::stoul(mode.substr(p2 + 1));
    (mode.rfind("stall-cb", 0) == 0 ? stall_cb_at : stall_eval_at) = n;
  }
  if (mode.rfind("ckpt-save:", 0) == 0)
  {
    const auto f(split(mode, ':', 3));
    if (f.size() != 3) { std::cout << "usage\n"; return 2; }
    j.what = act::ckpt_save;
    j.ckpt_gen = std::stoul(f[1]);
    j.file = f[2];
  }
  if (mode.rfind("ckpt-load:", 0) == 0)
  {
    const auto f(split(mode, ':', 4));
    if (f.size() != 4) { std::cout << "usage\n"; return 2; }
    j.what = act::ckpt_load;
    j.paint = std::stoull(f[1]);
    j.work = f[2] == "1";
    j.file = f[3];
  }
  if (repeat && j.p.has("logs")) { std::cout << "usage\n"; return 2; }   // the second execution needs an empty directory
  report_files(j.p);

  sink a;
  const int rc(one_run(a, j));
  if (rc == 2)
  {
    std::cout << "bad-config\n";
    return 2;
  }
  std::cout << a.raw.str();
  if (rc) return rc;
  if (stall_cb_at >= callbacks || stall_eval_at >= evaluations)
    std::cout << "STALL-NOT-REACHED\n";    // the perturbation did not happen: the check must know
  if (repeat)
  {
    interlude(repeat_k, true);
    sink b;
    one_run(b, j);
    const bool same(a.canon.str() == b.canon.str());
    std::cout << (same ? "REPEAT same\n" : "REPEAT different\n");
    if (!same)
      std::cout << "FIRST\n" << a.canon.str() << "SECOND\n" << b.canon.str();
  }
  return keep->size() > 100000 ? 1 : 0;
}
