// C08 correspondence harness: builds the REAL model objects ("lambda functions") of vita from
// hand-made individuals / teams and a training set, and prints what they predict on the training
// rows and on extra query rows, the accuracy metric, the fitness the training evaluator assigns
// and the outcome of a copy / assign / move / destroy / serialize history of the model object.
//
//   <reg|dyn|gau|bin> <wta|mv|-> <x_slot> <prog> <hist-seed> <ntrain> (<y> <x1|u> <x2|u>)*ntrain
//                                                            <nq> (<x1|u> <x2|u>)*nq
//     y = target (double pattern) for reg, class number for the classifiers
//   -> ok m <M> mem (<o|u>)*(M*(ntrain+nq)) labels <l>*ntrain classes <C>
//         ans <…>*(ntrain+nq) acc <a> fit <f|-> hist <ok n | DIFF what>
//     mem: per member, the interpreter's output on every row (training rows first)
//     ans: reg: value|u per row; classifiers: <label> <sureness> per row
//   disc <value> <max>  -> discretization(value, max)
//
// <prog>: as in c05_eval.cc (x1 x2 div ln add sub mul abs neg mulbig big tiny) or t:<p>,<p>,…
#include "common/verif.h"

#include "kernel/vita.h"
#include "kernel/gp/src/evaluator.h"
#include "kernel/gp/src/primitive/real.h"
#include "kernel/gp/src/variable.h"
#include "kernel/gp/src/constant.h"
#include "kernel/gp/team.h"
#include "utility/discretization.h"

#include <cmath>
#include <memory>
#include <sstream>

using namespace vita;

namespace
{
std::string showf(double d)
{
  if (std::isnan(d)) return "nan";
  return std::to_string(verif::bits(d));
}

bool parsef(const std::string &s, double &d)
{
  if (s == "nan") { d = std::nan(""); return true; }
  if (s.empty() || s.find_first_not_of("0123456789") != std::string::npos) return false;
  d = verif::from_bits(std::stoull(s));
  return true;
}

value_t parsev(const std::string &s)
{
  if (s == "u") return {};
  double d;
  if (!parsef(s, d)) throw std::runtime_error("bad value");
  return d;
}

std::string show(const value_t &v)
{
  if (!has_value(v)) return "u";
  return showf(lexical_cast<D_DOUBLE>(v));
}

struct symbols
{
  symbol_set sset;
  symbol *x1, *x2, *fdiv, *fln, *fadd, *fsub, *fmul, *fabs_, *big, *tiny, *zero;

  symbols()
  {
    x1 = sset.insert<variable>("X1", 0);
    x2 = sset.insert<variable>("X2", 1);
    fdiv = sset.insert<real::div>();
    fln = sset.insert<real::ln>();
    fadd = sset.insert<real::add>();
    fsub = sset.insert<real::sub>();
    fmul = sset.insert<real::mul>();
    fabs_ = sset.insert<real::abs>();
    big = sset.insert<constant<double>>("1e308");
    tiny = sset.insert<constant<double>>("1e-300");
    zero = sset.insert<constant<double>>("0");
  }

  static gene T(symbol *s) { return gene(*terminal::cast(s)); }
  static gene F(symbol *s, std::vector<index_t> a) { return gene(std::make_pair(s, a)); }

  i_mep make(const std::string &p) const
  {
    using V = std::vector<gene>;
    auto f2 = [&](symbol *f) { return i_mep(V{F(f, {1, 2}), T(x1), T(x2)}); };
    if (p == "x1") return i_mep(V{T(x1)});
    if (p == "x2") return i_mep(V{T(x2)});
    if (p == "div") return f2(fdiv);
    if (p == "add") return f2(fadd);
    if (p == "sub") return f2(fsub);
    if (p == "mul") return f2(fmul);
    if (p == "ln") return i_mep(V{F(fln, {1}), T(x1)});
    if (p == "abs") return i_mep(V{F(fabs_, {1}), T(x1)});
    if (p == "big") return i_mep(V{T(big)});
    if (p == "tiny") return i_mep(V{T(tiny)});
    if (p == "neg") return i_mep(V{F(fsub, {1, 2}), T(zero), T(x1)});
    if (p == "mulbig") return i_mep(V{F(fmul, {1, 2}), T(x1), T(big)});
    throw std::runtime_error("bad prog " + p);
  }
};

std::vector<std::string> split_on(const std::string &s, char c)
{
  std::vector<std::string> r;
  std::string cur;
  for (char ch : s)
    if (ch == c) { r.push_back(cur); cur.clear(); }
    else cur += ch;
  r.push_back(cur);
  return r;
}

// what a model answers on every row, canonical
template<class L>
std::string answers(const L &l, const dataframe &train, const std::vector<dataframe::example> &qs,
                    bool reg)
{
  std::string s;
  auto one = [&](const dataframe::example &e)
  {
    if constexpr (std::is_base_of_v<core_reg_lambda_f, L>)
      s += " " + show(l(e));
    else
    {
      const auto r(l.tag(e));
      // operator() must name the same class as tag()
      const auto v(l(e));
      if (!has_value(v) || static_cast<class_t>(std::get<D_INT>(v)) != r.label)
        s += " MISMATCH";
      s += " " + std::to_string(r.label) + " " + showf(r.sureness);
    }
  };
  for (const auto &e : train) one(e);
  for (const auto &e : qs) one(e);
  return s;
}

// A random history of copies / assignments / moves / destructions / serialize round trips of a
// model object; after every step every live object must answer exactly like the reference.
// `make(k)` builds a fresh model from individual number k (0 = the one under test) whose
// individual is destroyed right after the construction.
template<class L, class T, class MAKE>
std::string history(MAKE make, const symbols &S, const dataframe &train,
                    const std::vector<dataframe::example> &qs, bool reg, std::uint64_t seed,
                    const std::string &ref, bool can_serialize)
{
  verif::splitmix rng(seed);
  std::vector<std::unique_ptr<L>> pool;
  std::vector<L> vec;
  unsigned steps(0);

  auto check = [&](const char *what) -> std::string
  {
    for (const auto &p : pool)
      if (answers(*p, train, qs, reg) != ref) return std::string("DIFF pool after ") + what;
    for (const auto &m : vec)
      if (answers(m, train, qs, reg) != ref) return std::string("DIFF vector after ") + what;
    return {};
  };

  pool.push_back(make(0));   // the original individual is already gone
  if (auto e = check("construct+destroy-individual"); !e.empty()) return e;

  const unsigned n(12 + rng.below(12));
  for (unsigned i(0); i < n; ++i)
  {
    const char *what("");
    auto &src(*pool[rng.below(pool.size())]);
    switch (rng.below(9))
    {
    case 0: what = "copy-construct"; pool.push_back(std::make_unique<L>(src)); break;
    case 1:
    { what = "copy-assign over another model";
      auto other(make(1)); *other = src; pool.push_back(std::move(other)); break; }
    case 2:
    { what = "move-construct";
      auto tmp(std::make_unique<L>(src)); pool.push_back(std::make_unique<L>(std::move(*tmp))); break; }
    case 3:
    { what = "move-assign over another model";
      auto tmp(std::make_unique<L>(src)); auto other(make(1)); *other = std::move(*tmp);
      tmp.reset(); pool.push_back(std::move(other)); break; }
    case 4: what = "vector push_back (reallocation)"; vec.push_back(src); break;
    case 5:
      what = "vector erase front";
      if (!vec.empty()) vec.erase(vec.begin());
      break;
    case 6:
      what = "destroy";
      if (pool.size() > 1) pool.erase(pool.begin() + rng.below(pool.size()));
      break;
    case 7:
    { what = "self-assign"; auto &r(src); src = r; break; }
    default:
    { what = "serialize round trip";
      if (!can_serialize) break;   // a majority-voting team has no serialize id of its own
      std::stringstream ss;
      if (!serialize::save(ss, src)) return "DIFF save failed";
      auto l2(serialize::lambda::load<T>(ss, S.sset));
      if (!l2) return "DIFF load failed";
      if (!l2->is_valid()) return "DIFF loaded model invalid";
      std::string s2;
      auto one = [&](const dataframe::example &e)
      {
        if (reg) s2 += " " + show((*l2)(e));
        else { const auto r(l2->tag(e)); s2 += " " + std::to_string(r.label) + " " + showf(r.sureness); }
      };
      for (const auto &e : train) one(e);
      for (const auto &e : qs) one(e);
      if (s2 != ref) return "DIFF after serialize round trip";
      break; }
    }
    ++steps;
    if (auto e = check(what); !e.empty()) return e;
  }
  return "ok " + std::to_string(steps);
}

template<class T> T build_prog(const symbols &S, const std::string &prog);
template<> i_mep build_prog<i_mep>(const symbols &S, const std::string &prog) { return S.make(prog); }
template<> team<i_mep> build_prog<team<i_mep>>(const symbols &S, const std::string &prog)
{
  std::vector<i_mep> members;
  for (const auto &p : split_on(prog.substr(2), ',')) members.push_back(S.make(p));
  return team<i_mep>(members);
}

// L: the shipped model type (storage + names), E: the evaluator (or void)
template<class T, class L, class EVA, class... A>
std::string run_case(const symbols &S, const std::string &prog, dataframe &d,
                     const std::vector<dataframe::example> &qs, bool reg, std::uint64_t seed,
                     bool with_fit, A... a)
{
  std::string out;
  std::string ref;
  {
    auto prg(std::make_unique<T>(build_prog<T>(S, prog)));
    std::unique_ptr<L> model;
    if constexpr (sizeof...(A) == 0 && std::is_constructible_v<L, const T &>)
      model = std::make_unique<L>(*prg);
    else
      model = std::make_unique<L>(*prg, d, a...);
    ref = answers(*model, d, qs, reg);
    out += " ans" + ref;
    out += " acc " + showf(model->measure(accuracy_metric(), d));
    if constexpr (!std::is_void_v<EVA>)
    {
      if (with_fit)
      {
        dataframe d2(d);   // the evaluator bumps difficulty: keep the training set untouched
        std::unique_ptr<EVA> eva;
        if constexpr (std::is_constructible_v<EVA, dataframe &, A...>)
          eva = std::make_unique<EVA>(d2, a...);
        const auto f((*eva)(*prg));
        out += " fit " + (f.size() == 1 ? showf(f[0]) : std::string("size") + std::to_string(f.size()));
        // lambdify must give a model that predicts the same
        auto lam(eva->lambdify(*prg));
        auto *sl(dynamic_cast<basic_src_lambda_f *>(lam.get()));
        if (!sl) out += " LAMBDIFY-NULL";
        else
        {
          std::string s2;
          auto one = [&](const dataframe::example &e)
          {
            if (reg) s2 += " " + show((*sl)(e));
            else { const auto r(sl->tag(e)); s2 += " " + std::to_string(r.label) + " " + showf(r.sureness); }
          };
          for (const auto &e : d) one(e);
          for (const auto &e : qs) one(e);
          if (s2 != ref) out += " LAMBDIFY-DIFF";
        }
      }
      else out += " fit -";
    }
    else out += " fit -";
  }

  auto make = [&](unsigned k)
  {
    auto prg(std::make_unique<T>(build_prog<T>(S, k == 0 ? prog : std::string(is_team<T>() ? "t:x2,abs" : "x2"))));
    std::unique_ptr<L> m;
    if constexpr (sizeof...(A) == 0 && std::is_constructible_v<L, const T &>)
      m = std::make_unique<L>(*prg);
    else
      m = std::make_unique<L>(*prg, d, a...);
    prg.reset();   // the individual / team dies, the model must live on
    return m;
  };
  out += " hist " + history<L, T>(make, S, d, qs, reg, seed, ref, !std::is_void_v<EVA>);
  return out;
}

template<class T>
std::string dispatch(const symbols &S, const std::string &kind, const std::string &comp,
                     unsigned x_slot, const std::string &prog, dataframe &d,
                     const std::vector<dataframe::example> &qs, std::uint64_t seed)
{
  if (kind == "reg")
    return run_case<T, reg_lambda_f<T>, mae_evaluator<T>>(S, prog, d, qs, true, seed, true);
  if constexpr (is_team<T>())
  {
    using I = i_mep;
    if (comp == "mv")
    {
      if (kind == "dyn")
        return run_case<T, team_class_lambda_f<I, true, true, basic_dyn_slot_lambda_f, team_composition::mv>, void>(
          S, prog, d, qs, false, seed, false, x_slot);
      if (kind == "gau")
        return run_case<T, team_class_lambda_f<I, true, true, basic_gaussian_lambda_f, team_composition::mv>, void>(
          S, prog, d, qs, false, seed, false);
      if (kind == "bin")
        return run_case<T, team_class_lambda_f<I, true, true, basic_binary_lambda_f, team_composition::mv>, void>(
          S, prog, d, qs, false, seed, false);
    }
  }
  if (kind == "dyn")
    return run_case<T, dyn_slot_lambda_f<T>, dyn_slot_evaluator<T>>(S, prog, d, qs, false, seed, true, x_slot);
  if (kind == "gau")
    return run_case<T, gaussian_lambda_f<T>, gaussian_evaluator<T>>(S, prog, d, qs, false, seed, true);
  if (kind == "bin")
    return run_case<T, binary_lambda_f<T>, binary_evaluator<T>>(S, prog, d, qs, false, seed, true);
  return " bad-kind";
}

std::string do_case(const symbols &S, const std::vector<std::string> &t)
{
  if (t.size() < 7) return "bad-op";
  const std::string kind(t[0]), comp(t[1]), prog(t[3]);
  const unsigned x_slot(std::stoul(t[2]));
  const std::uint64_t seed(std::stoull(t[4]));
  const std::size_t ntrain(std::stoull(t[5]));
  if (t.size() < 6 + 3 * ntrain + 1) return "bad-op";
  const std::size_t qat(6 + 3 * ntrain);
  const std::size_t nq(std::stoull(t[qat]));
  if (t.size() != qat + 1 + 2 * nq || !x_slot) return "bad-op";
  const bool reg(kind == "reg");

  dataframe d;
  if (reg)
  {
    for (std::size_t i(0); i < ntrain; ++i)
    {
      dataframe::example ex;
      double tg;
      if (!parsef(t[6 + 3 * i], tg)) return "bad-op";
      ex.output = tg;
      ex.input = {parsev(t[7 + 3 * i]), parsev(t[8 + 3 * i])};
      d.push_back(ex);
    }
  }
  else
  {
    std::ostringstream csv;
    for (std::size_t i(0); i < ntrain; ++i) csv << "k" << t[6 + 3 * i] << ",0.5,1.5\n";
    std::istringstream in(csv.str());
    if (d.read_csv(in, dataframe::params().no_header()) != ntrain) return "bad-import";
    std::size_t i(0);
    for (auto &ex : d)
    {
      ex.input = {parsev(t[7 + 3 * i]), parsev(t[8 + 3 * i])};
      ++i;
    }
    if (d.classes() < 2) return "bad-classes";
    if (kind == "bin" && d.classes() != 2) return "bad-classes";
  }

  std::vector<dataframe::example> qs;
  for (std::size_t i(0); i < nq; ++i)
  {
    dataframe::example ex;
    ex.input = {parsev(t[qat + 1 + 2 * i]), parsev(t[qat + 2 + 2 * i])};
    if (reg) ex.output = 0.0; else ex.output = D_INT(0);
    qs.push_back(ex);
  }

  // the interpreter's view: every member on every row
  const bool is_t(prog.rfind("t:", 0) == 0);
  std::vector<i_mep> members;
  if (is_t)
    for (const auto &p : split_on(prog.substr(2), ',')) members.push_back(S.make(p));
  else
    members.push_back(S.make(prog));
  std::string head("ok m " + std::to_string(members.size()) + " mem");
  for (const auto &m : members)
  {
    for (const auto &e : d) head += " " + show(run(m, e.input));
    for (const auto &e : qs) head += " " + show(run(m, e.input));
  }
  head += " labels";
  if (!reg)
    for (const auto &e : d) head += " " + std::to_string(label(e));
  head += " classes " + std::to_string(d.classes());

  if (is_t)
    return head + dispatch<team<i_mep>>(S, kind, comp, x_slot, prog, d, qs, seed);
  return head + dispatch<i_mep>(S, kind, comp, x_slot, prog, d, qs, seed);
}
}  // namespace

int main()
{
  log::reporting_level = log::lOFF;
  random::seed(1);
  symbols S;

  std::string line;
  while (std::getline(std::cin, line))
  {
    const auto t(verif::split(line));
    if (t.empty()) continue;
    std::string ans;
    try
    {
      if (t[0] == "disc" && t.size() == 3)
      {
        double v;
        ans = parsef(t[1], v) ? std::to_string(discretization(v, std::size_t(std::stoull(t[2])))) : "bad-op";
      }
      else ans = do_case(S, t);
    }
    catch (const std::exception &e)
    {
      ans = std::string("exc ") + e.what();
    }
    std::cout << ans << "\n" << std::flush;
  }
  return 0;
}
