// C08 "routes" harness: obtains the model object through EVERY public route and applies to each
// route the lifetime steps on the ORIGINAL individual (overwritten, moved from, destroyed) and the
// comparison with the model built directly from the TRAINING data.
//
//   route <eva> <x_slot> <prog> <prog2> <validator> <mode> <cache> <seed>
//         <ntrain> (<y> <x1|u> <x2|u>)*ntrain  <nval> (<y> <x1|u> <x2|u>)*nval  <nq> (<x1|u> <x2|u>)*nq
//     eva       mae rmae mse count (symbolic regression)  dyn gau bin (classification)
//     prog      program / team (t:a,b,c) the model is built from; prog2: what the ORIGINAL individual
//               object is overwritten with afterwards (same shape)
//     validator asis | holdout | dss        (src_search::validation_strategy)
//     mode      direct       evaluator(training).lambdify(ind)
//               constrained  constrained_evaluator(evaluator, penalty).lambdify(ind)
//               search       src_search(problem).evaluator(id).validation_strategy(v).lambdify(ind)
//               run          the same after src_search::run(1): the model of the best individual of the
//                            summary, the accuracy stored in the summary, the predictions written to
//                            the test file
//     cache     env.cache_size (0: plain evaluator, >0: evaluator_proxy in front of it)
//     y         target (double pattern) / class number
//   -> ok m <M> nt <N> nq <Q> mem (<o|u>)*(M*(N+Q)) ys <y>*N | labels <l>*N  classes <C>
//         ans <…>*(N+Q) acc <a|-> fit <f|-> [flags] life <ok n | DIFF what> [sacc <a> racc <a>] [tfile <ok|DIFF|none>]
//     nt / mem / ys / labels describe the training set the route's evaluator holds NOW (a run with a
//     validation strategy changes it) and, in `run` mode, the evolved best individual.
//     ans = answers of the ROUTE's model (training rows first, then the queries); flags:
//     ROUTE-DIFF (differs from the model constructed directly from that training set), ROUTE-NULL,
//     ROUTE-TYPE (not the storing flavour of the shipped alias), MISMATCH (operator() vs tag()).
#include "common/verif.h"

#include "kernel/vita.h"
#include "kernel/gp/src/evaluator.h"
#include "kernel/gp/src/search.h"
#include "kernel/gp/src/primitive/real.h"
#include "kernel/gp/src/variable.h"
#include "kernel/gp/src/constant.h"
#include "kernel/gp/team.h"
#include "kernel/constrained_evaluator.h"

#include <cmath>
#include <filesystem>
#include <fstream>
#include <memory>
#include <sstream>
#include <unistd.h>

using namespace vita;

namespace
{
std::string showf(double d)
{
  if (std::isnan(d)) return "nan";
  return std::to_string(verif::bits(d));
}

bool parsef(const std::string &s, double &d)
{
  if (s == "nan") { d = std::nan(""); return true; }
  if (s.empty() || s.find_first_not_of("0123456789") != std::string::npos) return false;
  d = verif::from_bits(std::stoull(s));
  return true;
}

value_t parsev(const std::string &s)
{
  if (s == "u") return {};
  double d;
  if (!parsef(s, d)) throw std::runtime_error("bad value");
  return d;
}

std::string show(const value_t &v)
{
  if (!has_value(v)) return "u";
  return showf(lexical_cast<D_DOUBLE>(v));
}

std::vector<std::string> split_on(const std::string &s, char c)
{
  std::vector<std::string> r;
  std::string cur;
  for (char ch : s)
    if (ch == c) { r.push_back(cur); cur.clear(); }
    else cur += ch;
  r.push_back(cur);
  return r;
}

// hand-made programs over the PROBLEM's symbol set
struct symbols
{
  symbol *x1, *x2, *fdiv, *fln, *fadd, *fsub, *fmul, *fabs_, *big, *tiny, *zero;

  explicit symbols(symbol_set &sset)
  {
    x1 = sset.decode("X1");
    x2 = sset.decode("X2");
    if (!x1 || !x2) throw std::runtime_error("no variables");
    fdiv = sset.insert<real::div>();
    fln = sset.insert<real::ln>();
    fadd = sset.insert<real::add>();
    fsub = sset.insert<real::sub>();
    fmul = sset.insert<real::mul>();
    fabs_ = sset.insert<real::abs>();
    big = sset.insert<constant<double>>("1e308");
    tiny = sset.insert<constant<double>>("1e-300");
    zero = sset.insert<constant<double>>("0");
  }

  static gene T(symbol *s) { return gene(*terminal::cast(s)); }
  static gene F(symbol *s, std::vector<index_t> a) { return gene(std::make_pair(s, a)); }

  i_mep make(const std::string &p) const
  {
    using V = std::vector<gene>;
    auto f2 = [&](symbol *f) { return i_mep(V{F(f, {1, 2}), T(x1), T(x2)}); };
    if (p == "x1") return i_mep(V{T(x1)});
    if (p == "x2") return i_mep(V{T(x2)});
    if (p == "div") return f2(fdiv);
    if (p == "add") return f2(fadd);
    if (p == "sub") return f2(fsub);
    if (p == "mul") return f2(fmul);
    if (p == "ln") return i_mep(V{F(fln, {1}), T(x1)});
    if (p == "abs") return i_mep(V{F(fabs_, {1}), T(x1)});
    if (p == "big") return i_mep(V{T(big)});
    if (p == "tiny") return i_mep(V{T(tiny)});
    if (p == "neg") return i_mep(V{F(fsub, {1, 2}), T(zero), T(x1)});
    if (p == "mulbig") return i_mep(V{F(fmul, {1, 2}), T(x1), T(big)});
    throw std::runtime_error("bad prog " + p);
  }
};

template<class T> T build_prog(const symbols &S, const std::string &prog);
template<> i_mep build_prog<i_mep>(const symbols &S, const std::string &prog) { return S.make(prog); }
template<> team<i_mep> build_prog<team<i_mep>>(const symbols &S, const std::string &prog)
{
  std::vector<i_mep> members;
  for (const auto &p : split_on(prog.substr(2), ',')) members.push_back(S.make(p));
  return team<i_mep>(members);
}

std::vector<i_mep> members_of(const i_mep &p) { return {p}; }
std::vector<i_mep> members_of(const team<i_mep> &t)
{
  std::vector<i_mep> r;
  for (const auto &m : t) r.push_back(m);
  return r;
}

struct row { std::string y; value_t x1, x2; };

// a dataframe with the schema of a CSV file (<output>,<X1>,<X2>) and the given rows
bool fill(dataframe &d, const std::vector<row> &rows, bool reg, unsigned ncl)
{
  if (rows.empty()) return true;
  std::ostringstream csv;
  for (std::size_t i(0); i < rows.size(); ++i)
    if (reg) csv << "0.5,0.5,1.5\n";
    else csv << "k" << (i % ncl) << ",0.5,1.5\n";
  std::istringstream in(csv.str());
  if (d.read_csv(in, dataframe::params().no_header()) != rows.size()) return false;
  std::size_t i(0);
  for (auto &ex : d)
  {
    ex.input = {rows[i].x1, rows[i].x2};
    if (reg)
    {
      double tg;
      if (!parsef(rows[i].y, tg)) return false;
      ex.output = tg;
    }
    else
      ex.output = D_INT(std::stoul(rows[i].y));
    ++i;
  }
  return true;
}

std::string answers(const basic_src_lambda_f &l, const dataframe &train,
                    const std::vector<dataframe::example> &qs, bool reg)
{
  std::string s;
  auto one = [&](const dataframe::example &e)
  {
    if (reg) s += " " + show(l(e));
    else
    {
      const auto r(l.tag(e));
      const auto v(l(e));
      if (!has_value(v) || static_cast<class_t>(std::get<D_INT>(v)) != r.label)
        s += " MISMATCH";
      s += " " + std::to_string(r.label) + " " + showf(r.sureness);
    }
  };
  for (const auto &e : train) one(e);
  for (const auto &e : qs) one(e);
  return s;
}

enum class ek { mae, rmae, mse, count, dyn, gau, bin };

ek parse_eva(const std::string &s)
{
  if (s == "mae") return ek::mae;
  if (s == "rmae") return ek::rmae;
  if (s == "mse") return ek::mse;
  if (s == "count") return ek::count;
  if (s == "dyn") return ek::dyn;
  if (s == "gau") return ek::gau;
  if (s == "bin") return ek::bin;
  throw std::runtime_error("bad evaluator");
}

evaluator_id eid(ek e)
{
  switch (e)
  {
  case ek::mae: return evaluator_id::mae;
  case ek::rmae: return evaluator_id::rmae;
  case ek::mse: return evaluator_id::mse;
  case ek::count: return evaluator_id::count;
  case ek::dyn: return evaluator_id::dyn_slot;
  case ek::gau: return evaluator_id::gaussian;
  default: return evaluator_id::bin;
  }
}

// the model constructed DIRECTLY from the individual and the training set (shipped aliases)
template<class T>
std::unique_ptr<basic_src_lambda_f> direct(ek e, const T &prg, dataframe &d, unsigned x_slot)
{
  switch (e)
  {
  case ek::dyn: return std::make_unique<dyn_slot_lambda_f<T>>(prg, d, x_slot);
  case ek::gau: return std::make_unique<gaussian_lambda_f<T>>(prg, d);
  case ek::bin: return std::make_unique<binary_lambda_f<T>>(prg, d);
  default: return std::make_unique<reg_lambda_f<T>>(prg);
  }
}

// a copy of the route's model when it has the shipped (storing) type, else null
template<class T>
std::unique_ptr<basic_src_lambda_f> copy_shipped(ek e, const basic_src_lambda_f *m)
{
  switch (e)
  {
  case ek::dyn:
    if (auto *p = dynamic_cast<const dyn_slot_lambda_f<T> *>(m)) return std::make_unique<dyn_slot_lambda_f<T>>(*p);
    return nullptr;
  case ek::gau:
    if (auto *p = dynamic_cast<const gaussian_lambda_f<T> *>(m)) return std::make_unique<gaussian_lambda_f<T>>(*p);
    return nullptr;
  case ek::bin:
    if (auto *p = dynamic_cast<const binary_lambda_f<T> *>(m)) return std::make_unique<binary_lambda_f<T>>(*p);
    return nullptr;
  default:
    if (auto *p = dynamic_cast<const reg_lambda_f<T> *>(m)) return std::make_unique<reg_lambda_f<T>>(*p);
    return nullptr;
  }
}

// `f(eva)` with a fresh training evaluator of kind `e` on `d`
template<class T, class FN>
auto with_evaluator(ek e, dataframe &d, unsigned x_slot, FN f)
{
  switch (e)
  {
  case ek::mae: { mae_evaluator<T> v(d); return f(v); }
  case ek::rmae: { rmae_evaluator<T> v(d); return f(v); }
  case ek::mse: { mse_evaluator<T> v(d); return f(v); }
  case ek::count: { count_evaluator<T> v(d); return f(v); }
  case ek::dyn: { dyn_slot_evaluator<T> v(d, x_slot); return f(v); }
  case ek::gau: { gaussian_evaluator<T> v(d); return f(v); }
  default: { binary_evaluator<T> v(d); return f(v); }
  }
}

std::unique_ptr<basic_src_lambda_f> to_src(std::unique_ptr<basic_lambda_f> l)
{
  auto *p(dynamic_cast<basic_src_lambda_f *>(l.get()));
  if (!p) return nullptr;
  l.release();
  return std::unique_ptr<basic_src_lambda_f>(p);
}

template<class T>
std::string run_route(const std::vector<std::string> &t)
{
  const ek e(parse_eva(t[1]));
  const bool reg(e == ek::mae || e == ek::rmae || e == ek::mse || e == ek::count);
  const unsigned x_slot(std::stoul(t[2]));
  const std::string prog(t[3]), prog2(t[4]), validator(t[5]), mode(t[6]);
  const unsigned cache(std::stoul(t[7]));
  verif::splitmix rng(std::stoull(t[8]));
  if (!x_slot) return "bad-op";

  std::size_t at(9);
  auto rows = [&](std::vector<row> &out) -> bool
  {
    if (at >= t.size()) return false;
    const std::size_t n(std::stoull(t[at++]));
    if (at + 3 * n > t.size()) return false;
    for (std::size_t i(0); i < n; ++i, at += 3)
      out.push_back({t[at], parsev(t[at + 1]), parsev(t[at + 2])});
    return true;
  };
  std::vector<row> tr, va;
  if (!rows(tr) || !rows(va) || at >= t.size()) return "bad-op";
  const std::size_t nq(std::stoull(t[at++]));
  if (t.size() != at + 2 * nq) return "bad-op";
  std::vector<dataframe::example> qs;
  for (std::size_t i(0); i < nq; ++i, at += 2)
  {
    dataframe::example ex;
    ex.input = {parsev(t[at]), parsev(t[at + 1])};
    if (reg) ex.output = 0.0; else ex.output = D_INT(0);
    qs.push_back(ex);
  }

  unsigned ncl(0);
  if (!reg)
    for (const auto &r : tr) ncl = std::max<unsigned>(ncl, std::stoul(r.y) + 1);

  src_problem pr;
  pr.env.init();
  pr.env.cache_size = cache;
  if (!fill(pr.data(dataset_t::training), tr, reg, ncl)) return "bad-import";
  if (!fill(pr.data(dataset_t::validation), va, reg, ncl)) return "bad-import";
  if (!reg && (pr.classes() != ncl || ncl < 2 || (e == ek::bin && ncl != 2))) return "bad-classes";
  pr.setup_terminals(typing::weak);
  const symbols S(pr.sset);

  dataframe &training(pr.data(dataset_t::training));
  dataframe &validation(pr.data(dataset_t::validation));

  std::unique_ptr<T> ind;                            // the ORIGINAL individual the model is built from
  std::unique_ptr<basic_src_lambda_f> model;
  std::string extra, flags;

  using search_t = src_search<T, std_es>;
  std::unique_ptr<search_t> s;
  if (mode == "search" || mode == "run")
  {
    if (validator == "holdout") pr.env.validation_percentage = 30;
    if (validator == "dss") pr.env.dss = 1 + rng.below(2);
    s = std::make_unique<search_t>(pr, metric_flags::accuracy);
    s->evaluator(eid(e), std::to_string(x_slot));
    if (validator == "holdout") s->validation_strategy(validator_id::holdout);
    else if (validator == "dss") s->validation_strategy(validator_id::dss);
    else if (validator != "asis") return "bad-op";
  }

  const char *tenv(std::getenv("C08_TMPDIR"));
  const std::filesystem::path tdir(tenv ? tenv : ".");
  std::filesystem::path tfile;
  double sacc(-1.0);
  if (mode == "run")
  {
    pr.env.individuals = 10;
    pr.env.generations = 2 + rng.below(2);
    pr.env.layers = 1;
    pr.env.mep.code_length = 6;
    pr.env.team.individuals = 2;
    pr.env.stat.dir = tdir;
    pr.env.stat.test_file = "c08_routes_" + std::to_string(getpid()) + ".txt";
    tfile = pr.env.stat.dir / pr.env.stat.test_file;
    std::filesystem::remove(tfile);
    random::seed(static_cast<unsigned>(rng.below(1u << 30)));
    const auto sum(s->run(1));
    sacc = sum.best.score.accuracy;
    ind = std::make_unique<T>(sum.best.solution);
  }
  else
    ind = std::make_unique<T>(build_prog<T>(S, prog));

  // the training set as it is NOW (what `eva1_` is bound to)
  const std::size_t nt(training.size());

  // the interpreter's view of the individual under test, before anything happens to it
  const T pristine(*ind);
  const auto mem(members_of(pristine));
  std::string head("ok m " + std::to_string(mem.size()) + " nt " + std::to_string(nt) + " nq "
                   + std::to_string(nq) + " mem");
  for (const auto &m : mem)
  {
    for (const auto &ex : training) head += " " + show(run(m, ex.input));
    for (const auto &ex : qs) head += " " + show(run(m, ex.input));
  }
  if (reg)
  {
    head += " ys";
    for (const auto &ex : training) head += " " + showf(label_as<D_DOUBLE>(ex));
  }
  else
  {
    head += " labels";
    for (const auto &ex : training) head += " " + std::to_string(label(ex));
  }
  head += " classes " + std::to_string(training.classes());

  // ---- the route
  if (mode == "direct")
    model = to_src(with_evaluator<T>(e, training, x_slot, [&](auto &eva) { return eva.lambdify(*ind); }));
  else if (mode == "constrained")
    model = to_src(with_evaluator<T>(e, training, x_slot, [&](auto &eva)
    {
      using E = std::decay_t<decltype(eva)>;
      constrained_evaluator<T, E, penalty_func_t<T>> ce(eva, [](const T &) { return 0.0; });
      return ce.lambdify(*ind);
    }));
  else if (mode == "search" || mode == "run")
    model = s->lambdify(*ind);
  else
    return "bad-op";

  if (!model) return head + " ans acc - fit - ROUTE-NULL life -";

  // reference: direct construction on the training set
  const auto ref_model(direct<T>(e, pristine, training, x_slot));
  const std::string ref(answers(*ref_model, training, qs, reg));
  const std::string got(answers(*model, training, qs, reg));
  if (got != ref) flags += " ROUTE-DIFF";

  std::string out(head + " ans" + got);
  out += " acc " + (nt ? showf(model->measure(accuracy_metric(), training)) : std::string("-"));
  if (nt)
  {
    dataframe d2(training);   // the evaluator bumps difficulty: keep the training set untouched
    const auto f(with_evaluator<T>(e, d2, x_slot, [&](auto &eva) { return eva(pristine); }));
    out += " fit " + (f.size() == 1 ? showf(f[0]) : std::string("size") + std::to_string(f.size()));
  }
  else
    out += " fit -";

  if (mode == "run")
  {
    // the accuracy stored in the summary was measured with the route's model on the validation
    // set when there is one, else on the training set
    const dataframe &md(validation.size() ? validation : training);
    extra += " sacc " + showf(sacc) + " racc " + (md.size() ? showf(ref_model->measure(accuracy_metric(), md)) : std::string("-"));
    // predictions written for the test set (`src_problem::data(test)` is the validation frame)
    std::ifstream tf(tfile);
    if (!validation.size() || !tf) extra += " tfile none";
    else
    {
      bool same(true);
      std::string ln;
      for (const auto &ex : validation)
        if (!std::getline(tf, ln) || ln != ref_model->name((*ref_model)(ex))) { same = false; break; }
      extra += same ? " tfile ok" : " tfile DIFF";
    }
    tf.close();
    std::filesystem::remove(tfile);
  }

  // ---- what happens to the ORIGINAL individual afterwards must not matter
  unsigned steps(0);
  std::string life;
  auto check = [&](const char *what) -> bool
  {
    ++steps;
    if (answers(*model, training, qs, reg) != got) { life = std::string("DIFF after ") + what; return false; }
    return true;
  };
  bool ok(true);
  if (ok && rng.chance(0.7))
  {
    *ind = (mode == "run") ? T(build_prog<T>(S, is_team<T>() ? "t:x2,abs" : "neg")) : T(build_prog<T>(S, prog2));
    ok = check("the original individual was overwritten");
  }
  if (ok && rng.chance(0.4))
  {
    T sink(std::move(*ind));
    ok = check("the original individual was moved from");
  }
  if (ok)
  {
    ind.reset();
    ok = check("the original individual was destroyed");
  }
  // the search object / problem data may go too for the regression models; classifiers keep their
  // own tables.  A copy of the model must answer the same after the route's model is gone.
  if (ok)
  {
    auto cp(copy_shipped<T>(e, model.get()));
    if (!cp) flags += " ROUTE-TYPE";
    else
    {
      model.reset();
      ++steps;
      if (answers(*cp, training, qs, reg) != got) { life = "DIFF copy after the route's model was destroyed"; ok = false; }
    }
  }
  if (ok) life = "ok " + std::to_string(steps);

  return out + flags + extra + " life " + life;
}

std::string do_route(const std::vector<std::string> &t)
{
  if (t.size() < 12) return "bad-op";
  if (t[3].rfind("t:", 0) == 0)
    return run_route<team<i_mep>>(t);
  return run_route<i_mep>(t);
}
}  // namespace

int main()
{
  log::reporting_level = log::lOFF;
  random::seed(1);

  // the evolution polls the keyboard (stdin): read every request before anything runs
  std::vector<std::string> lines;
  std::string line;
  while (std::getline(std::cin, line)) lines.push_back(line);

  for (const auto &l : lines)
  {
    const auto t(verif::split(l));
    if (t.empty()) continue;
    std::string ans;
    try
    {
      if (t[0] == "route") ans = do_route(t);
      else ans = "bad-op";
    }
    catch (const std::exception &ex)
    {
      ans = std::string("exc ") + ex.what();
    }
    std::cout << ans << "\n" << std::flush;
  }
  return 0;
}
