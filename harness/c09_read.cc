// C09 / C10 correspondence harness: drives vita::dataframe (read_csv / read_xrff),
// pocket_csv (parser, sniffer), src_problem::setup_terminals and the variable terminals
// on inputs read from stdin, one request per line, one answer line per request.
//
//   csv  <delim> <hdr> <trim> <oidx> <filter> <hexbytes>   read_csv(istringstream(bytes), params)
//   xrff <filter> <hexbytes>                                read_xrff(istringstream(bytes), params)
//   csv2  <delim> <hdr> <trim> <keep> <oidx> <hook> <hexbytes>   read_csv with every member of params set
//   xrff2 <delim> <hdr> <trim> <keep> <oidx> <hook> <hexbytes>   read_xrff with the same params
//   file <hexext> <delim> <hdr> <trim> <keep> <oidx> <hook> <hexbytes>   dataframe::read(path "t<pid><ext>", params)
//   xdoc <hexbytes>                                         the logical XRFF document tinyxml2 hands to read_xrff
//   parse <delim> <trim> <keep> <hexbytes>                  pocket_csv::parser over the bytes, every record
//   sniff <hexbytes>                                        pocket_csv::sniffer
//   num  <hexstring>                                        is_number / std::stod / std::stoi of one string
//   var  <delim> <hdr> <trim> <oidx> <typing> <hexbytes>    read + setup_terminals + run every variable
//   var2 <csv|xrff> <delim> <hdr> <trim> <keep> <oidx> <hook> <typing> <data|ctor> <hexbytes>
//                                                           read (either format) + setup_terminals: every
//                                                           inserted symbol (variables, state constants)
//   hist <df|prob> <typing> <nsteps> {step}                 a HISTORY of imports on ONE dataframe object:
//        step = csv <delim> <hdr> <trim> <keep> <oidx> <hook> <hexbytes>       read_csv(istream, params)
//             | xrff <hook> <hexbytes>                                         read_xrff(istream, params)
//             | file <hexext> <delim> <hdr> <trim> <keep> <oidx> <hook> <hexbytes>   read(path, params)
//             | clear                                                          clear()
//             | clone        (prob only) validation.clone_schema(training); later steps go to validation
//        df: a plain `dataframe`; prob: `src_problem::data()`, `setup_terminals(typing)` is called right after
//        the first successful import.  Answer: `hist | <dump after step 1> | <dump after step 2> ...` (the
//        history stops at the first exception) and, for prob, `| <ok S ...>`: every symbol, the variables
//        evaluated on the examples of the dataframe the last step worked on.
//
//   delim : byte value, 0 = sniff          hdr  : -1 guess, 0 no header, 1 header
//   oidx  : -1 = no output column          filter / hook: see make_filter
//   keep  : 1 = dialect.quoting KEEP_QUOTES
// Answers: `ok ...` (canonical dump), `exc <kind>`; a sanitizer abort kills the process (the
// Python side restarts it and records the death for that request).
#include "common/verif.h"

#include "kernel/vita.h"
#include "kernel/gp/src/dataframe.h"
#include "kernel/gp/src/problem.h"
#include "kernel/gp/src/variable.h"
#include "utility/pocket_csv.h"
#include "tinyxml2/tinyxml2.h"

#include <filesystem>
#include <fstream>
#include <variant>

#include <unistd.h>

namespace
{
using namespace vita;
using verif::hex;

std::string val(const value_t &v)
{
  switch (v.index())
  {
  case 0: return "v";
  case 1: return "i" + std::to_string(std::get<D_INT>(v));
  case 2:
  {
    char b[32];
    std::snprintf(b, sizeof b, "d%016llx", (unsigned long long)verif::bits(std::get<D_DOUBLE>(v)));
    return b;
  }
  default: return "s" + hex(std::get<D_STRING>(v));
  }
}

// The hook language (the same in lean/Vita/C09/Proto.lean and checks/c09.py): primitives joined
// by `+`, applied in order on the record handed over by reference; the first rejecting one rejects.
//   0            no hook (nullptr)            <m>_<k> / s<m>_<k>  keep iff (#fields + sum of bytes) % m != k
//   w<m>_<k>     keep iff (sum_i (i+1)*(1 + sum of the bytes of field i)) % m != k   (position dependent)
//   c<j>_<m>_<k> keep iff there is no field j or (sum of the bytes of field j + its length) % m != k
//   U<j>         field j (if any) in upper case    X<i>_<j>  fields i and j (if both exist) swapped
struct prim { char op; std::vector<unsigned long> a; };

dataframe::filter_hook_t make_filter(const std::string &spec)
{
  if (spec == "0") return nullptr;
  std::vector<prim> prims;
  std::size_t at(0);
  while (at <= spec.size())
  {
    const auto plus(std::min(spec.find('+', at), spec.size()));
    std::string p(spec.substr(at, plus - at));
    at = plus + 1;
    if (p.empty()) throw std::invalid_argument("hook");
    prim q;
    q.op = std::isdigit((unsigned char)p[0]) ? 's' : p[0];
    std::string body(std::isdigit((unsigned char)p[0]) ? p : p.substr(1));
    std::size_t b(0);
    while (b <= body.size())
    {
      const auto us(std::min(body.find('_', b), body.size()));
      q.a.push_back(std::stoul(body.substr(b, us - b)));
      b = us + 1;
    }
    const std::size_t want(q.op == 'c' ? 3 : q.op == 'U' ? 1 : 2);
    if (std::string("swcUX").find(q.op) == std::string::npos || q.a.size() != want)
      throw std::invalid_argument("hook");
    if ((q.op == 's' || q.op == 'w') && q.a[0] == 0) throw std::invalid_argument("hook");
    if (q.op == 'c' && q.a[1] == 0) throw std::invalid_argument("hook");
    prims.push_back(q);
  }
  const auto bytes([](const std::string &f) { unsigned long s(0); for (unsigned char c : f) s += c; return s; });
  return [prims, bytes](dataframe::record_t &r)
  {
    for (const auto &q : prims)
      switch (q.op)
      {
      case 's':
      {
        unsigned long s(r.size());
        for (const auto &f : r) s += bytes(f);
        if (s % q.a[0] == q.a[1]) return false;
        break;
      }
      case 'w':
      {
        unsigned long s(0);
        for (std::size_t i(0); i < r.size(); ++i) s += (i + 1) * (1 + bytes(r[i]));
        if (s % q.a[0] == q.a[1]) return false;
        break;
      }
      case 'c':
        if (q.a[0] < r.size() && (bytes(r[q.a[0]]) + r[q.a[0]].size()) % q.a[1] == q.a[2]) return false;
        break;
      case 'U':
        if (q.a[0] < r.size())
          for (auto &c : r[q.a[0]]) if (c >= 'a' && c <= 'z') c = char(c - 32);
        break;
      default:
        if (q.a[0] < r.size() && q.a[1] < r.size()) std::swap(r[q.a[0]], r[q.a[1]]);
      }
    return true;
  };
}

std::string dump(const dataframe &d, std::size_t ret)
{
  std::ostringstream o;
  bool eq(true);
  for (const auto &e : d)
    if (e.input.size() != d.front().input.size()) eq = false;
  o << "ok ret=" << ret << " valid=" << d.is_valid() << " eqin=" << eq;
  o << " C " << d.columns.size();
  for (const auto &c : d.columns)
  {
    o << ' ' << hex(c.name) << ' ' << int(c.domain) << ' ' << c.states.size();
    for (const auto &s : c.states) o << ' ' << val(s);   // std::set: already sorted
  }
  o << " K " << d.classes();
  for (class_t i(0); i <= d.classes(); ++i) o << ' ' << hex(d.class_name(i));
  o << " E " << d.size();
  for (const auto &e : d)
  {
    o << ' ' << val(e.output) << ' ' << e.input.size();
    for (const auto &x : e.input) o << ' ' << val(x);
  }
  return o.str();
}

template<class F> std::string guarded(F f)
{
  try { return f(); }
  catch (const exception::data_format &) { return "exc data_format"; }
  catch (const exception::insufficient_data &) { return "exc insufficient_data"; }
  catch (const std::invalid_argument &) { return "exc invalid_argument"; }
  catch (const std::out_of_range &) { return "exc out_of_range"; }
  catch (const std::bad_variant_access &) { return "exc bad_variant_access"; }
  catch (const std::bad_alloc &) { return "exc bad_alloc"; }
  catch (const std::exception &) { return "exc std_other"; }
  catch (...) { return "nonstd-exception"; }
}

dataframe::params make_params(const std::vector<std::string> &t, std::size_t at)
{
  dataframe::params p;
  p.dialect.delimiter = char(std::stoi(t[at]));
  const int h(std::stoi(t[at + 1]));
  p.dialect.has_header = h < 0 ? pocket_csv::dialect::GUESS_HEADER
                         : h ? pocket_csv::dialect::HAS_HEADER : pocket_csv::dialect::NO_HEADER;
  p.dialect.trim_ws = t[at + 2] == "1";
  const long o(std::stol(t[at + 3]));
  if (o < 0) p.output_index = std::nullopt; else p.output_index = std::size_t(o);
  return p;
}

// <delim> <hdr> <trim> <keep> <oidx> <hook>: every member of dataframe::params / pocket_csv::dialect.
// The explicit settings go through the fluent interface (header() / no_header() / output() /
// no_output()) - that is what callers use.
dataframe::params make_params2(const std::vector<std::string> &t, std::size_t at)
{
  dataframe::params p;
  p.dialect.delimiter = char(std::stoi(t[at]));
  const int h(std::stoi(t[at + 1]));
  if (h > 0) p.header(); else if (h == 0) p.no_header();
  p.dialect.trim_ws = t[at + 2] == "1";
  p.dialect.quoting = t[at + 3] == "1" ? pocket_csv::dialect::KEEP_QUOTES : pocket_csv::dialect::REMOVE_QUOTES;
  const long o(std::stol(t[at + 4]));
  if (o < 0) p.no_output(); else p.output(std::size_t(o));
  p.filter = make_filter(t[at + 5]);
  return p;
}

// The logical document `read_xrff(tinyxml2::XMLDocument &)` works on, obtained with the same
// tinyxml2 calls: attributes (name?, class="yes"?, type?, direct <label> children) and
// instances (texts of the <value> children).
std::string xdoc(const std::string &bytes)
{
  tinyxml2::XMLDocument doc;
  if (doc.Parse(bytes.c_str()) != tinyxml2::XML_SUCCESS) return "doc parse-error";
  tinyxml2::XMLHandle handle(&doc);
  auto *attributes(handle.FirstChildElement("dataset").FirstChildElement("header")
                   .FirstChildElement("attributes").ToElement());
  if (!attributes) return "doc no-attributes";
  std::ostringstream o;
  std::size_t na(0);
  std::ostringstream a;
  for (auto *at(attributes->FirstChildElement("attribute")); at; at = at->NextSiblingElement("attribute"))
  {
    ++na;
    const char *n(at->Attribute("name"));
    const char *ty(at->Attribute("type"));
    std::vector<std::string> labels;
    for (auto *l(at->FirstChildElement("label")); l; l = l->NextSiblingElement("label"))
      labels.push_back(l->GetText() ? l->GetText() : "");
    a << ' ' << hex(n ? n : "") << ' ' << (at->Attribute("class", "yes") ? 1 : 0) << ' ' << hex(ty ? ty : "")
      << ' ' << labels.size();
    for (const auto &l : labels) a << ' ' << hex(l);
  }
  o << "doc A " << na << a.str();
  auto *instances(handle.FirstChildElement("dataset").FirstChildElement("body")
                  .FirstChildElement("instances").ToElement());
  if (!instances) { o << " no-instances"; return o.str(); }
  std::size_t ni(0);
  std::ostringstream b;
  for (auto *i(instances->FirstChildElement("instance")); i; i = i->NextSiblingElement("instance"))
  {
    ++ni;
    std::vector<std::string> r;
    for (auto *v(i->FirstChildElement("value")); v; v = v->NextSiblingElement("value"))
      r.push_back(v->GetText() ? v->GetText() : "");
    b << ' ' << r.size();
    for (const auto &f : r) b << ' ' << hex(f);
  }
  o << " I " << ni << b.str();
  return o.str();
}

struct probe_params : symbol_params
{
  const std::vector<value_t> *ex = nullptr;
  long asked = -1;
  value_t fetch_arg(unsigned) override { return {}; }
  value_t fetch_opaque_arg(unsigned) override { return {}; }
  terminal_param_t fetch_param() const override { return 0; }
  value_t fetch_var(unsigned i) override
  {
    asked = long(i);
    return i < ex->size() ? (*ex)[i] : value_t(std::string("<out-of-range>"));
  }
};
// Every symbol with an opcode in [first, last) (the opcodes of the symbols of a process are consecutive), in
// insertion order, with what it evaluates to: variables on the first three examples of `d`.
std::string symbols_dump(const src_problem &pr, const dataframe &d, opcode_t first, opcode_t last,
                         bool in_range_only = false)
{
  std::ostringstream o;
  std::size_t n(0);
  for (opcode_t c(first); c < last; ++c)
    if (const symbol *s = pr.sset.decode(c))
    {
      ++n;
      const auto *tm(s->terminal() ? static_cast<const terminal *>(s) : nullptr);
      if (tm && tm->input())
      {
        o << " v " << hex(s->name()) << ' ' << s->category() << ' ' << std::min<std::size_t>(3, d.size());
        std::size_t row(0);
        for (const auto &e : d)
        {
          probe_params pp;
          pp.ex = &e.input;
          const value_t direct(s->eval(pp));
          o << ' ' << pp.asked << ' ' << val(direct);
          // (in_range_only: a history may end with examples of another schema - the variables made for the
          // first one are reported as out of range by the probe, a real interpreter is not run on them)
          if (s->category() == 0    // i_mep(vector<gene>) starts at locus (0, 0)
              && (!in_range_only || (pp.asked >= 0 && std::size_t(pp.asked) < e.input.size())))
          {
            const i_mep ind({gene(*tm)});
            o << ' ' << val(run(ind, e.input));
          }
          else
            o << " -";
          if (++row >= 3) break;
        }
      }
      else if (tm)
      {
        probe_params pp;
        const std::vector<value_t> none;
        pp.ex = &none;
        o << " k " << hex(s->name()) << ' ' << s->category() << ' ' << val(s->eval(pp));
      }
      else
        o << " f " << hex(s->name()) << ' ' << s->category();
    }
  std::ostringstream h;
  h << "ok S " << n << o.str() << " P " << pr.sset.categories() << ' '
    << (d.empty() ? 0u : unsigned(d.begin()->input.size())) << ' ' << d.classes() << " C " << d.columns.size();
  for (const auto &c : d.columns)
    h << ' ' << hex(c.name) << ' ' << int(c.domain) << ' ' << c.states.size();
  return h.str();
}

// dataframe::read(path, params) on a scratch file with the given extension
std::size_t read_file(dataframe &d, const std::filesystem::path &scratch, const std::string &ext,
                      const std::string &bytes, const dataframe::params &p)
{
  const std::filesystem::path dir(scratch / "c09_files");
  std::filesystem::create_directories(dir);
  const auto fn(dir / ("t" + std::to_string(::getpid()) + ext));
  {
    std::ofstream out(fn, std::ios::binary);
    out << bytes;
  }
  std::size_t n(0);
  try
  {
    n = d.read(fn, p);
  }
  catch (...)
  {
    std::filesystem::remove(fn);
    throw;
  }
  std::filesystem::remove(fn);
  return n;
}
}  // namespace

int main(int, char *argv[])
{
  log::reporting_level = log::lOFF;
  // scratch files live next to the executable (the build directory), never under /tmp
  const std::filesystem::path scratch(std::filesystem::absolute(argv[0]).parent_path());

  std::string line;
  while (std::getline(std::cin, line))
  {
    const auto t = verif::split(line);
    if (t.empty()) continue;
    const std::string &op(t[0]);
    std::string ans("bad-op");

    if (op == "csv" && t.size() == 7)
    {
      ans = guarded([&]
      {
        auto p(make_params(t, 1));
        p.filter = make_filter(t[5]);
        std::istringstream is(verif::unhex(t[6]));
        dataframe d;
        const auto n(d.read_csv(is, p));
        return dump(d, n);
      });
    }
    else if (op == "xrff" && t.size() == 3)
    {
      ans = guarded([&]
      {
        dataframe::params p;
        p.filter = make_filter(t[1]);
        std::istringstream is(verif::unhex(t[2]));
        dataframe d;
        const auto n(d.read_xrff(is, p));
        return dump(d, n);
      });
    }
    else if (op == "csv2" && t.size() == 8)
    {
      ans = guarded([&]
      {
        const auto p(make_params2(t, 1));
        std::istringstream is(verif::unhex(t[7]));
        dataframe d;
        const auto n(d.read_csv(is, p));
        return dump(d, n);
      });
    }
    else if (op == "xrff2" && t.size() == 8)
    {
      ans = guarded([&]
      {
        const auto p(make_params2(t, 1));    // dialect and output_index must be ignored by read_xrff
        std::istringstream is(verif::unhex(t[7]));
        dataframe d;
        const auto n(d.read_xrff(is, p));
        return dump(d, n);
      });
    }
    else if (op == "file" && t.size() == 9)
    {
      // file <hex extension> <delim> <hdr> <trim> <keep> <oidx> <hook> <hexbytes>
      // dataframe::read(path, params): the format is chosen by the extension of the file name
      ans = guarded([&]
      {
        const auto p(make_params2(t, 2));
        const std::filesystem::path dir(scratch / "c09_files");
        std::filesystem::create_directories(dir);
        const auto fn(dir / ("t" + std::to_string(::getpid()) + verif::unhex(t[1])));
        {
          std::ofstream out(fn, std::ios::binary);
          out << verif::unhex(t[8]);
        }
        dataframe d;
        std::string r;
        try
        {
          const auto n(d.read(fn, p));
          r = dump(d, n);
        }
        catch (...)
        {
          std::filesystem::remove(fn);
          throw;
        }
        std::filesystem::remove(fn);
        return r;
      });
    }
    else if (op == "xdoc" && t.size() == 2)
      ans = guarded([&] { return xdoc(verif::unhex(t[1])); });
    else if (op == "parse" && t.size() == 5)
    {
      ans = guarded([&]
      {
        pocket_csv::dialect dl;
        dl.delimiter = char(std::stoi(t[1]));
        dl.trim_ws = t[2] == "1";
        dl.has_header = pocket_csv::dialect::NO_HEADER;
        dl.quoting = t[3] == "1" ? pocket_csv::dialect::KEEP_QUOTES : pocket_csv::dialect::REMOVE_QUOTES;
        std::istringstream is(verif::unhex(t[4]));
        std::ostringstream o;
        std::size_t n(0);
        std::ostringstream b;
        for (auto r : pocket_csv::parser(is, dl))
        {
          ++n;
          b << ' ' << r.size();
          for (const auto &f : r) b << ' ' << hex(f);
        }
        o << "ok R " << n << b.str();
        return o.str();
      });
    }
    else if (op == "sniff" && t.size() == 2)
    {
      ans = guarded([&]
      {
        std::istringstream is(verif::unhex(t[1]));
        const auto d(pocket_csv::sniffer(is));
        return "ok " + std::to_string(int((unsigned char)d.delimiter)) + " " + std::to_string(int(d.has_header));
      });
    }
    else if (op == "num" && t.size() == 2)
    {
      const std::string s(verif::unhex(t[1]));
      std::string a("n ");
      a += is_number(s) ? "1" : "0";
      try
      {
        char b[32];
        std::snprintf(b, sizeof b, " d%016llx", (unsigned long long)verif::bits(std::stod(s)));
        a += b;
      }
      catch (const std::exception &) { a += " x"; }
      try { a += " i" + std::to_string(std::stoi(s)); }
      catch (const std::exception &) { a += " x"; }
      ans = a;
    }
    else if (op == "var" && t.size() == 7)
    {
      ans = guarded([&]
      {
        auto p(make_params(t, 1));
        std::istringstream is(verif::unhex(t[6]));
        src_problem pr;
        auto &d(pr.data());
        d.read_csv(is, p);
        pr.setup_terminals(t[5] == "1" ? typing::strong : typing::weak);
        std::ostringstream o;
        std::size_t nv(0);
        for (std::size_t i(1); i < d.columns.size(); ++i)
          if (d.columns[i].domain != d_void) ++nv;
        o << "ok V " << nv;
        for (std::size_t i(1); i < d.columns.size(); ++i)
        {
          if (d.columns[i].domain == d_void) continue;   // no variable for a column without a domain
          const auto provided(d.columns[i].name);
          const auto name(provided.empty() ? "X" + std::to_string(i) : provided);
          const symbol *s(pr.sset.decode(name));
          if (!s) { o << ' ' << hex(name) << " missing"; continue; }
          // which input does the terminal ask for, and what does a real interpreter return?
          std::size_t row(0);
          o << ' ' << hex(name) << ' ' << s->category() << ' ' << std::min<std::size_t>(3, d.size());
          for (const auto &e : d)
          {
            probe_params pp;
            pp.ex = &e.input;
            const value_t direct(s->eval(pp));
            o << ' ' << pp.asked << ' ' << val(direct);
            if (s->category() == 0)   // i_mep(vector<gene>) starts at locus (0, 0)
            {
              const i_mep ind({gene(*static_cast<const terminal *>(s))});
              o << ' ' << val(run(ind, e.input));
            }
            else
              o << " -";
            if (++row >= 3) break;
          }
        }
        return o.str();
      });
    }

    else if (op == "var2" && t.size() == 11)
    {
      // var2 <csv|xrff> <delim> <hdr> <trim> <keep> <oidx> <hook> <typing> <data|ctor> <hexbytes>
      // read + setup_terminals; every symbol setup_terminals inserted, in insertion order (the
      // opcodes of the symbols of a process are consecutive), with what it evaluates to.
      ans = guarded([&]
      {
        const auto p(make_params2(t, 2));
        const auto ty(t[8] == "1" ? typing::strong : typing::weak);
        std::istringstream is(verif::unhex(t[10]));
        std::unique_ptr<src_problem> prp;
        opcode_t first(0);
        if (t[9] == "ctor")        // src_problem(std::istream &, typing): default parameters
        {
          first = variable("probe", 0).opcode() + 1;
          prp = std::make_unique<src_problem>(is, ty);
        }
        else
        {
          prp = std::make_unique<src_problem>();
          if (t[1] == "xrff") prp->data().read_xrff(is, p); else prp->data().read_csv(is, p);
          first = variable("probe", 0).opcode() + 1;
          prp->setup_terminals(ty);
        }
        auto &pr(*prp);
        const opcode_t last(variable("probe", 0).opcode());
        return symbols_dump(pr, pr.data(), first, last);
      });
    }

    else if (op == "hist" && t.size() >= 4)
    {
      // one object, several imports: the answers of the steps are joined by " | "
      std::string out("hist");
      const bool prob(t[1] == "prob");
      const auto ty(t[2] == "1" ? typing::strong : typing::weak);
      src_problem pr;
      dataframe plain;
      dataframe *target(prob ? &pr.data() : &plain);
      bool terminals(false), dead(false);
      opcode_t first(0), last(0);
      std::size_t at(4);
      const std::size_t nsteps(std::stoul(t[3]));
      for (std::size_t k(0); k < nsteps && !dead && at < t.size(); ++k)
      {
        const std::string kind(t[at]);
        bool import(true);
        const std::string a(guarded([&]() -> std::string
        {
          if (kind == "csv" && at + 7 < t.size())
          {
            const auto p(make_params2(t, at + 1));
            std::istringstream is(verif::unhex(t[at + 7]));
            const auto n(target->read_csv(is, p));
            return dump(*target, n);
          }
          if (kind == "xrff" && at + 2 < t.size())
          {
            dataframe::params p;
            p.filter = make_filter(t[at + 1]);
            std::istringstream is(verif::unhex(t[at + 2]));
            const auto n(target->read_xrff(is, p));
            return dump(*target, n);
          }
          if (kind == "file" && at + 8 < t.size())
          {
            const auto p(make_params2(t, at + 2));
            const auto n(read_file(*target, scratch, verif::unhex(t[at + 1]), verif::unhex(t[at + 8]), p));
            return dump(*target, n);
          }
          import = false;
          if (kind == "clear")
          {
            target->clear();
            return dump(*target, 0);
          }
          if (kind == "clone" && prob)
          {
            pr.data(dataset_t::validation).clone_schema(pr.data(dataset_t::training));
            target = &pr.data(dataset_t::validation);
            return dump(*target, 0);
          }
          return "bad-step";
        }));
        at += kind == "csv" ? 8 : kind == "xrff" ? 3 : kind == "file" ? 9 : 1;
        out += " | " + a;
        if (a.compare(0, 2, "ok") != 0) { dead = true; break; }
        if (prob && import && !terminals)
        {
          terminals = true;
          first = variable("probe", 0).opcode() + 1;
          const std::string st(guarded([&]() -> std::string { pr.setup_terminals(ty); return "ok"; }));
          last = variable("probe", 0).opcode();
          if (st != "ok") { out += " | " + st; dead = true; }
        }
      }
      if (prob && !dead)
        out += " | " + (terminals ? guarded([&] { return symbols_dump(pr, *target, first, last, true); })
                                  : std::string("no-import"));
      ans = out;
    }

    std::cout << ans << "\n" << std::flush;
  }
  return 0;
}
