// C10 resource harness: reads *scaled* inputs (long runs of skipped lines, very long fields, very
// many columns / attributes / instances, deep XML) with vita::dataframe / pocket_csv / src_problem
// inside a child process that has
//   * a REDUCED stack: the reading runs in a thread whose stack has <stackKB> kB, so that a stack
//     depth that grows with the number of items shows at modest input sizes;
//   * a CPU-time watchdog (RLIMIT_CPU): a reading that does not terminate is a *result*
//     (`timeout cpu`), not a hung check;
//   * its stack painted before the reading: the high-water mark of the reading is reported, so a
//     per-item growth of the stack is visible even when the stack is not exhausted.
//
// One request per line, one answer line per request:
//
//   scale csv   <stackKB> <cpuS> <delim> <hdr> <trim> <keep> <oidx> <filter> <recipe>   read_csv(stream, params)
//   scale xrff  <stackKB> <cpuS> <filter> <recipe>                                      read_xrff(stream, params)
//   scale parse <stackKB> <cpuS> <delim> <trim> <keep> <filter> <recipe>                pocket_csv::parser, all records
//   scale sniff <stackKB> <cpuS> <recipe>                                               pocket_csv::sniffer
//   scale prob  <stackKB> <cpuS> <typing> <recipe>                                      src_problem(std::istream &, typing)
//   scale file  <stackKB> <cpuS> <hexext> <recipe>                                      dataframe::read(path)
//   path missing <hexext> | path empty                                                  dataframe::read on a missing file / ""
//   valid <nclasses> <nvoidstates> <n> {<out> <k>}                                      dataframe::is_valid() of a hand-built frame
//
//   recipe : `+`-joined chunks `<hexbytes>*<count>` (`*<count>` optional), `-` = empty input
//   filter : 0 = none, p<hexprefix> = keep iff the first field does not start with the prefix,
//            e<k> = keep iff the record does not have exactly k fields
//   out    : v | i<n> | d | s     (is_valid looks at the alternative and the value of an int only)
//
// Answers:  ok <dump> cpu_ms=<t> stack=<bytes> in=<bytes>
//           exc <kind> cpu_ms=… stack=… in=…
//           fault stack …          the reading exhausted its stack (ASan `stack-overflow` / SIGSEGV on the guard page)
//           fault <what> …         any other sanitizer report / fatal signal
//           timeout cpu=<s> | timeout wall=<s>
#include "common/verif.h"

#include "kernel/vita.h"
#include "kernel/gp/src/dataframe.h"
#include "kernel/gp/src/problem.h"
#include "utility/pocket_csv.h"

#include <filesystem>
#include <fstream>
#include <variant>

#include <poll.h>
#include <pthread.h>
#include <signal.h>
#include <sys/resource.h>
#include <sys/time.h>
#include <sys/wait.h>
#include <time.h>
#include <unistd.h>

namespace
{
using namespace vita;

std::string expand(const std::string &recipe)
{
  std::string out;
  if (recipe == "-") return out;
  std::size_t at(0);
  while (at <= recipe.size())
  {
    const auto plus(std::min(recipe.find('+', at), recipe.size()));
    const std::string item(recipe.substr(at, plus - at));
    at = plus + 1;
    const auto star(item.find('*'));
    const std::string chunk(verif::unhex(item.substr(0, star)));
    const unsigned long n(star == std::string::npos ? 1ul : std::stoul(item.substr(star + 1)));
    out.reserve(out.size() + chunk.size() * n);
    for (unsigned long i(0); i < n; ++i) out += chunk;
  }
  return out;
}

dataframe::filter_hook_t make_filter(const std::string &spec)
{
  if (spec == "0") return nullptr;
  if (spec[0] == 'p')
  {
    const std::string prefix(verif::unhex(spec.substr(1)));
    return [prefix](dataframe::record_t &r)
    { return r.empty() || r.front().compare(0, prefix.size(), prefix) != 0; };
  }
  if (spec[0] == 'e')
  {
    const std::size_t k(std::stoul(spec.substr(1)));
    return [k](dataframe::record_t &r) { return r.size() != k; };
  }
  throw std::invalid_argument("filter");
}

// short dump: sizes and the consistency oracle, not the values (the values are compared by the
// differential of checks/c10.py on small inputs)
std::string dump(const dataframe &d, std::size_t ret)
{
  bool eq(true);
  for (const auto &e : d)
    if (e.input.size() != d.front().input.size()) eq = false;
  std::ostringstream o;
  o << "ok ret=" << ret << " valid=" << d.is_valid() << " eqin=" << eq << " cols=" << d.columns.size()
    << " classes=" << d.classes() << " examples=" << d.size()
    << " inputs=" << (d.empty() ? 0 : d.front().input.size());
  return o.str();
}

template<class F> std::string guarded(F f)
{
  try { return f(); }
  catch (const exception::data_format &) { return "exc data_format"; }
  catch (const exception::insufficient_data &) { return "exc insufficient_data"; }
  catch (const std::invalid_argument &) { return "exc invalid_argument"; }
  catch (const std::out_of_range &) { return "exc out_of_range"; }
  catch (const std::bad_variant_access &) { return "exc bad_variant_access"; }
  catch (const std::bad_alloc &) { return "exc bad_alloc"; }
  catch (const std::length_error &) { return "exc length_error"; }
  catch (const std::runtime_error &) { return "exc runtime_error"; }
  catch (const std::exception &) { return "exc std_other"; }
  catch (...) { return "nonstd-exception"; }
}

std::filesystem::path scratch;

// ---- what one request does (runs on the small stack) -----------------------------------------
std::string perform(const std::vector<std::string> &t, const std::string &data)
{
  const std::string &kind(t[1]);
  if (kind == "csv" && t.size() == 11)
    return guarded([&]
    {
      dataframe::params p;
      p.dialect.delimiter = char(std::stoi(t[4]));
      const int h(std::stoi(t[5]));
      if (h > 0) p.header(); else if (h == 0) p.no_header();
      p.dialect.trim_ws = t[6] == "1";
      p.dialect.quoting = t[7] == "1" ? pocket_csv::dialect::KEEP_QUOTES : pocket_csv::dialect::REMOVE_QUOTES;
      const long o(std::stol(t[8]));
      if (o < 0) p.no_output(); else p.output(std::size_t(o));
      p.filter = make_filter(t[9]);
      std::istringstream is(data);
      dataframe d;
      const auto n(d.read_csv(is, p));
      return dump(d, n);
    });
  if (kind == "xrff" && t.size() == 6)
    return guarded([&]
    {
      dataframe::params p;
      p.filter = make_filter(t[4]);
      std::istringstream is(data);
      dataframe d;
      const auto n(d.read_xrff(is, p));
      return dump(d, n);
    });
  if (kind == "parse" && t.size() == 9)
    return guarded([&]
    {
      pocket_csv::dialect dl;
      dl.delimiter = char(std::stoi(t[4]));
      dl.trim_ws = t[5] == "1";
      dl.has_header = pocket_csv::dialect::NO_HEADER;
      dl.quoting = t[6] == "1" ? pocket_csv::dialect::KEEP_QUOTES : pocket_csv::dialect::REMOVE_QUOTES;
      std::istringstream is(data);
      std::size_t n(0), fields(0), bytes(0), widest(0);
      for (auto r : pocket_csv::parser(is, dl).filter_hook(make_filter(t[7])))
      {
        ++n;
        fields += r.size();
        widest = std::max(widest, r.size());
        for (const auto &f : r) bytes += f.size();
      }
      std::ostringstream o;
      o << "ok records=" << n << " fields=" << fields << " widest=" << widest << " bytes=" << bytes;
      return o.str();
    });
  if (kind == "sniff" && t.size() == 5)
    return guarded([&]
    {
      std::istringstream is(data);
      const auto d(pocket_csv::sniffer(is));
      return "ok delim=" + std::to_string(int((unsigned char)d.delimiter)) + " header=" + std::to_string(int(d.has_header));
    });
  if (kind == "prob" && t.size() == 6)
    return guarded([&]
    {
      std::istringstream is(data);
      src_problem pr(is, t[4] == "1" ? typing::strong : typing::weak);
      std::ostringstream o;
      o << dump(pr.data(), pr.data().size()) << " variables=" << pr.variables() << " categories=" << pr.sset.categories()
        << " classes=" << pr.classes();
      return o.str();
    });
  if (kind == "file" && t.size() == 6)
    return guarded([&]
    {
      const std::filesystem::path dir(scratch / "c10_files");
      std::filesystem::create_directories(dir);
      const auto fn(dir / ("s" + std::to_string(::getpid()) + verif::unhex(t[4])));
      {
        std::ofstream out(fn, std::ios::binary);
        out << data;
      }
      std::string r;
      try
      {
        dataframe d;
        const auto n(d.read(fn));
        r = dump(d, n);
      }
      catch (...)
      {
        std::filesystem::remove(fn);
        throw;
      }
      std::filesystem::remove(fn);
      return r;
    });
  return "bad-op";
}

// ---- the small, painted stack ----------------------------------------------------------------
struct job
{
  const std::vector<std::string> *t;
  const std::string *data;
  std::string answer;
  long cpu_ms = 0;
  std::size_t high_water = 0;
  char *lo = nullptr;          // lowest usable address of the thread's stack
  std::size_t size = 0;
};

constexpr unsigned char PAINT = 0xA5;

__attribute__((noinline, no_sanitize("address", "undefined")))
void paint(char *lo, char *upto)
{
  for (volatile char *p(lo); p < upto; ++p) *p = char(PAINT);
}

__attribute__((noinline, no_sanitize("address", "undefined")))
std::size_t unpainted_from(const char *lo, const char *hi)
{
  const char *p(lo);
  while (p < hi && (unsigned char)*p == PAINT) ++p;
  return std::size_t(hi - p);
}

__attribute__((noinline, no_sanitize("address", "undefined")))
void *thread_main(void *arg)
{
  auto *j(static_cast<job *>(arg));
  char here;
  // everything below this frame (minus a margin for the frames of paint itself) is painted
  char *top(&here - 512);
  paint(j->lo + 256, top);
  timespec a{}, b{};
  clock_gettime(CLOCK_THREAD_CPUTIME_ID, &a);
  j->answer = perform(*j->t, *j->data);
  clock_gettime(CLOCK_THREAD_CPUTIME_ID, &b);
  j->cpu_ms = (b.tv_sec - a.tv_sec) * 1000 + (b.tv_nsec - a.tv_nsec) / 1000000;
  j->high_water = unpainted_from(j->lo + 256, top);
  return nullptr;
}

std::string run_child(const std::vector<std::string> &t, int out_fd)
{
  const std::size_t stack_kb(std::stoul(t[2]));
  const rlim_t cpu_s(std::stoul(t[3]));
  rlimit rl{cpu_s, cpu_s + 2};
  setrlimit(RLIMIT_CPU, &rl);

  const std::string data(expand(t.back()));

  job j;
  j.t = &t;
  j.data = &data;
  pthread_attr_t attr;
  pthread_attr_init(&attr);
  pthread_attr_setstacksize(&attr, std::max<std::size_t>(stack_kb * 1024, 64 * 1024));
  pthread_attr_setguardsize(&attr, 64 * 1024);
  // the stack address is known only inside the thread: ask for it there
  struct boot { job *j; };
  static job *current;
  current = &j;
  pthread_t th;
  auto start = +[](void *) -> void *
  {
    pthread_attr_t a;
    pthread_getattr_np(pthread_self(), &a);
    void *addr(nullptr);
    std::size_t sz(0);
    pthread_attr_getstack(&a, &addr, &sz);
    pthread_attr_destroy(&a);
    current->lo = static_cast<char *>(addr);
    current->size = sz;
    return thread_main(current);
  };
  if (pthread_create(&th, &attr, start, nullptr) != 0)
    return "bad-op pthread_create";
  pthread_join(th, nullptr);
  std::ostringstream o;
  o << j.answer << " cpu_ms=" << j.cpu_ms << " stack=" << j.high_water << " in=" << data.size();
  (void)out_fd;
  return o.str();
}

std::string slurp(int fd)
{
  std::string s;
  char buf[4096];
  for (;;)
  {
    const auto n(::read(fd, buf, sizeof buf));
    if (n <= 0) break;
    s.append(buf, std::size_t(n));
    if (s.size() > (1u << 20)) s.erase(0, s.size() - (1u << 19));
  }
  return s;
}

std::string one_line(std::string s, std::size_t limit = 300)
{
  for (auto &c : s) if (c == '\n' || c == '\r' || c == '\t') c = ' ';
  return s.substr(0, limit);
}

// fork; the child answers on a pipe, its stderr (sanitizer reports) on another
std::string supervised(const std::vector<std::string> &t)
{
  int ans[2], err[2];
  if (pipe(ans) != 0 || pipe(err) != 0) return "bad-op pipe";
  std::cout.flush();
  const pid_t pid(fork());
  if (pid < 0) return "bad-op fork";
  if (pid == 0)
  {
    close(ans[0]);
    close(err[0]);
    dup2(err[1], 2);
    std::string a;
    try { a = run_child(t, ans[1]); }
    catch (const std::exception &e) { a = std::string("bad-op ") + e.what(); }
    a += "\n";
    (void)!::write(ans[1], a.data(), a.size());
    _exit(0);
  }
  close(ans[1]);
  close(err[1]);
  const long cpu_s(std::stol(t[3]));
  const long wall_ms(std::max(60000l, cpu_s * 20000));
  // collect both pipes until the child closes them or the wall clock runs out
  std::string a, e;
  pollfd fds[2] = {{ans[0], POLLIN, 0}, {err[0], POLLIN, 0}};
  timespec t0{};
  clock_gettime(CLOCK_MONOTONIC, &t0);
  bool wall(false);
  int open_fds(2);
  while (open_fds > 0)
  {
    timespec now{};
    clock_gettime(CLOCK_MONOTONIC, &now);
    const long el((now.tv_sec - t0.tv_sec) * 1000 + (now.tv_nsec - t0.tv_nsec) / 1000000);
    if (el > wall_ms) { wall = true; kill(pid, SIGKILL); break; }
    const int r(poll(fds, 2, 1000));
    if (r < 0) break;
    for (auto &f : fds)
      if (f.fd >= 0 && (f.revents & (POLLIN | POLLHUP | POLLERR)))
      {
        char buf[4096];
        const auto n(::read(f.fd, buf, sizeof buf));
        if (n <= 0) { f.fd = -1; --open_fds; continue; }
        auto &dst(&f == &fds[0] ? a : e);
        dst.append(buf, std::size_t(n));
        if (dst.size() > (1u << 20)) dst.erase(0, dst.size() - (1u << 19));
      }
  }
  close(ans[0]);
  close(err[0]);
  int st(0);
  waitpid(pid, &st, 0);
  if (wall) return "timeout wall=" + std::to_string(wall_ms / 1000);
  if (WIFSIGNALED(st))
  {
    const int sig(WTERMSIG(st));
    if (sig == SIGXCPU || sig == SIGKILL) return "timeout cpu=" + std::to_string(cpu_s);
    if (sig == SIGSEGV || sig == SIGBUS) return "fault stack signal=" + std::to_string(sig) + " (guard page)";
    return "fault signal=" + std::to_string(sig);
  }
  if (WIFEXITED(st) && WEXITSTATUS(st) != 0)
  {
    if (e.find("stack-overflow") != std::string::npos)
    {
      // which vita function is at the top of the overflowing stack?
      std::string where;
      for (const char *fn : {"get_input", "parse_line", "has_header", "guess_delimiter", "read_csv", "read_xrff",
                             "read_record", "to_example", "columns_info::build", "is_valid", "setup_terminals",
                             "tinyxml2"})
        if (e.find(fn) != std::string::npos) { where = fn; break; }
      return "fault stack at=" + (where.empty() ? std::string("?") : where) + " (AddressSanitizer: stack-overflow)";
    }
    const auto at(e.find("ERROR: "));
    const auto at2(e.find("runtime error: "));
    const auto p(at != std::string::npos ? at : at2 != std::string::npos ? at2 : 0);
    return "fault rc=" + std::to_string(WEXITSTATUS(st)) + " " + one_line(e.substr(p));
  }
  while (!a.empty() && (a.back() == '\n' || a.back() == '\r')) a.pop_back();
  return a.empty() ? "bad-op no-answer" : one_line(a, 2000);
}

// ---- is_valid on a hand-built dataframe (not only on those a reading can produce) ---------------
std::string valid_op(const std::vector<std::string> &t)
{
  return guarded([&]
  {
    dataframe d;
    const std::size_t ncl(std::stoul(t[1])), nvoid(std::stoul(t[2])), n(std::stoul(t[3]));
    if (t.size() != 4 + 2 * n) return std::string("bad-op");
    // `encode` is private: the classes come from reading one row per label; `clear()` then drops the
    // examples and keeps the metadata (class map, columns)
    {
      std::string csv;
      for (std::size_t c(0); c < ncl; ++c) csv += "class" + std::to_string(c) + ",0\n";
      if (!ncl) csv = "1.5,0\n";
      std::istringstream is(csv);
      dataframe::params p;
      p.dialect.delimiter = ',';
      p.no_header();
      try { d.read_csv(is, p); } catch (const exception::insufficient_data &) {}
      d.clear();
    }
    if (d.classes() != ncl) return std::string("bad-op classes");
    // columns: a column without a domain that has states makes columns.is_valid() false
    for (std::size_t c(0); c < nvoid; ++c)
    {
      dataframe::columns_info::column_info ci{"v" + std::to_string(c), d_void, {}};
      ci.states.insert(value_t(std::string("s")));
      d.columns.push_back(ci);
    }
    for (std::size_t i(0); i < n; ++i)
    {
      dataframe::example e;
      const std::string &o(t[4 + 2 * i]);
      if (o[0] == 'i') e.output = D_INT(std::stol(o.substr(1)));
      else if (o[0] == 'd') e.output = D_DOUBLE(1.5);
      else if (o[0] == 's') e.output = std::string("txt");
      e.input.assign(std::stoul(t[5 + 2 * i]), value_t(D_DOUBLE(0.0)));
      d.push_back(e);
    }
    bool eq(true);
    for (const auto &e : d)
      if (e.input.size() != d.front().input.size()) eq = false;
    std::ostringstream o;
    o << "ok valid=" << d.is_valid() << " eqin=" << eq;
    return o.str();
  });
}
}  // namespace

int main(int, char *argv[])
{
  log::reporting_level = log::lOFF;
  scratch = std::filesystem::absolute(argv[0]).parent_path();
  signal(SIGPIPE, SIG_IGN);

  // warm up lazily initialised state (locale facets, from_weka's static map, …) before forking
  {
    std::istringstream is("a,b\n1,2\n3,4\n");
    dataframe d;
    try { d.read_csv(is); } catch (...) {}
    std::istringstream xs("<dataset><header><attributes><attribute name=\"a\" type=\"numeric\"/></attributes></header>"
                          "<body><instances><instance><value>1</value></instance></instances></body></dataset>");
    dataframe x;
    try { x.read_xrff(xs); } catch (...) {}
  }

  std::string line;
  while (std::getline(std::cin, line))
  {
    const auto t = verif::split(line);
    if (t.empty()) continue;
    std::string ans("bad-op");
    if (t[0] == "scale" && t.size() >= 5)
      ans = supervised(t);
    else if (t[0] == "path" && t.size() >= 2)
      ans = guarded([&]
      {
        dataframe d;
        const std::filesystem::path fn(t[1] == "empty" ? std::filesystem::path()
                                       : scratch / "c10_files" / ("no-such-file" + verif::unhex(t.size() > 2 ? t[2] : "-")));
        const auto n(d.read(fn));
        return dump(d, n);
      });
    else if (t[0] == "valid" && t.size() >= 4)
      ans = valid_op(t);
    std::cout << ans << "\n" << std::flush;
  }
  return 0;
}
