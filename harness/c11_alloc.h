// Allocation cap shared by the C11/C12 harness mains (include in exactly one translation unit):
// requests above 64 MiB throw std::bad_alloc instead of letting the sanitizer runtime abort, so a
// damaged element count is an ordinary (observable) failure.
#ifndef VERIF_C11_ALLOC_H
#define VERIF_C11_ALLOC_H
#include <cstdlib>
#include <new>

static constexpr std::size_t ALLOC_LIMIT = std::size_t(64) << 20;
void *operator new(std::size_t n)
{
  if (n > ALLOC_LIMIT) throw std::bad_alloc();
  void *p(std::malloc(n ? n : 1));
  if (!p) throw std::bad_alloc();
  return p;
}
void *operator new[](std::size_t n) { return operator new(n); }
void operator delete(void *p) noexcept { std::free(p); }
void operator delete[](void *p) noexcept { std::free(p); }
void operator delete(void *p, std::size_t) noexcept { std::free(p); }
void operator delete[](void *p, std::size_t) noexcept { std::free(p); }

#endif
