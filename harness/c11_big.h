// Composite persistable types for the C11 / C12 harnesses: i_mep, team, population, summary,
// cache.  One symbol set per process, built first and deterministically, so that opcodes
// are the same in every harness process (symbol opcodes come from a global counter).
//
// Descriptions:
//   imep  age cols ngenes (op hasPar parbits nargs args...)* best_index best_category
//   team  n imep...
//   pop   nlayers (allowed ninds imep...)*
//   summ  known [imep fit accbits] elapsed mutations crossovers gen last_imp
//   cache bits seal nlive (slotindex d0 d1 fit)*          (live slots in table order)
#ifndef VERIF_C11_BIG_H
#define VERIF_C11_BIG_H

#include "c11_ser.h"

#include "kernel/gp/src/primitive/factory.h"
#include "kernel/gp/src/primitive/real.h"

namespace c11
{

VERIF_ROB(team_sig, team<i_mep>, hash_t, signature_)

// private members whose *type* is private too (cache::slot): deduced return type
template<class Tag, auto M> struct rob_auto
{
  friend auto get(Tag) { return M; }
};
struct cache_table_tag { friend auto get(cache_table_tag); };
template struct rob_auto<cache_table_tag, &cache::table_>;
struct cache_seal_tag { friend auto get(cache_seal_tag); };
template struct rob_auto<cache_seal_tag, &cache::seal_>;

class Zterm final : public terminal
{
public:
  Zterm() : terminal("Z", 0) {}
  bool input() const override { return true; }
  value_t eval(symbol_params &) const override { return val; }
  double val = 0.0;
};

struct mep_env
{
  problem prob;
  symbol_factory factory;
  Zterm *z;
  std::vector<const symbol *> syms;

  void add(symbol *s) { syms.push_back(s); }

  mep_env()
  {
    prob.env.init();
    prob.env.mep.code_length = 12;
    add(prob.sset.insert<real::real>(cvect{0}, -1000.0, 1000.0));
    add(prob.sset.insert<real::real>(cvect{0}, -1e300, 1e300));
    add(prob.sset.insert<real::real>(cvect{0}, -1e-300, 1e-300));
    add(prob.sset.insert<real::real>(cvect{0}, -1e17, 1e17));
    add(prob.sset.insert<real::integer>(cvect{0}, -128, 127));
    auto zp(std::make_unique<Zterm>());
    z = zp.get();
    add(prob.sset.insert(std::move(zp)));
    for (const char *n : {"FADD", "FSUB", "FMUL", "FDIV", "FLN", "FIFL", "FIFZ", "FSIN", "FABS", "FMAX", "FSQRT"})
      add(prob.sset.insert(factory.make(n, {0})));
    add(prob.sset.insert(factory.make("FIFE", {0, 0})));
    add(prob.sset.insert(factory.make("FLENGTH", {1, 0})));
    for (const char *n : {"apple", "pear", "plum", "passion fruit"})
      add(prob.sset.insert(factory.make(n, {1})));
    add(prob.sset.insert(factory.make("SIFE", {1, 0})));
  }

  static bool has_par(const symbol *s) { return s->terminal() && terminal::cast(s)->parametric(); }

  // nsym (opcode hasPar arity)*
  std::string symtab() const
  {
    desc o; o << syms.size();
    for (auto s : syms) o << s->opcode() << (has_par(s) ? 1u : 0u) << s->arity();
    return o.s;
  }
};

inline mep_env &M() { static mep_env e; return e; }

// ---- descriptions --------------------------------------------------------------------------
inline void enc_into(desc &o, const i_mep &x)
{
  o << x.age() << x.categories() << std::uint64_t(x.size()) * x.categories();
  for (index_t i(0); i < x.size(); ++i)
    for (category_t c(0); c < x.categories(); ++c)
    {
      const gene &g(x[locus{i, c}]);
      const bool hp(mep_env::has_par(g.sym));
      o << g.sym->opcode() << (hp ? 1u : 0u);
      if (hp) o.f(g.par); else o << 0u;
      o << g.args.size();
      for (auto a : g.args) o << a;
    }
  o << x.best().index << x.best().category;
}
inline std::string enc(const i_mep &x) { desc o; enc_into(o, x); return o.s; }
inline std::string enc(const team<i_mep> &t)
{
  desc o; o << t.individuals();
  for (const auto &x : t) enc_into(o, x);
  return o.s;
}
inline std::string enc(const population<i_mep> &p)
{
  desc o; o << p.layers();
  for (unsigned l(0); l < p.layers(); ++l)
  {
    o << p.allowed(l) << p.individuals(l);
    for (unsigned i(0); i < p.individuals(l); ++i) enc_into(o, p[{l, i}]);
  }
  return o.s;
}
inline std::string enc(const summary<i_mep> &s)
{
  desc o;
  if (s.best.solution.empty()) o << 0u;
  else
  {
    o << 1u;
    enc_into(o, s.best.solution);
    o << enc(s.best.score.fitness);
    o.f(s.best.score.accuracy);
  }
  o.i(s.elapsed.count());
  o << s.mutations << s.crossovers << s.gen << s.last_imp;
  return o.s;
}

inline std::string val_str(const value_t &v)
{
  switch (v.index())
  {
  case 0: return "void";
  case 1: return "i" + std::to_string(std::get<D_INT>(v));
  case 2: return "d" + d(std::get<D_DOUBLE>(v));
  default: return "s" + verif::hex(std::get<D_STRING>(v));
  }
}

// outputs of a program on a fixed battery of inputs
inline std::string outputs(const i_mep &x)
{
  static const double in[] = {0.0, 1.0, -2.5, 1e10, 3.141592653589793, -1e-7, 123.0};
  std::string s;
  if (x.empty()) return "empty";
  for (double v : in)
  {
    M().z->val = v;
    s += ' ' + val_str(run(x));
  }
  return s;
}

inline std::string obs(const i_mep &x)
{
  // signature() has the precondition !empty()
  return enc(x) + " sig=" + (x.empty() ? std::string("-") : enc(x.signature())) + " valid=" + u(x.is_valid())
         + " out=" + outputs(x);
}
inline std::string obs(const team<i_mep> &t)
{
  std::string s(enc(t) + " sig=" + enc(t.signature()) + " valid=" + u(t.is_valid()) + " age=" + u(t.empty() ? 0 : t.age()));
  for (const auto &x : t) s += " out=" + outputs(x);
  return s;
}
inline std::string obs(const population<i_mep> &p)
{
  std::string s(enc(p));
  for (unsigned l(0); l < p.layers(); ++l)
    for (unsigned i(0); i < p.individuals(l); ++i)
      s += " sig=" + enc(p[{l, i}].signature()) + " out=" + outputs(p[{l, i}]);
  return s;
}
inline std::string obs(const summary<i_mep> &s)
{
  return enc(s) + (s.best.solution.empty() ? std::string() : " sig=" + enc(s.best.solution.signature())
                                                             + " out=" + outputs(s.best.solution));
}

// deep snapshots for C12 (raw cached signatures, consistency checks)
inline std::string snap(const i_mep &x)
{ return enc(x) + " sig=" + enc(x.*get(imep_sig())) + " valid=" + u(x.is_valid()); }
inline std::string snap(const team<i_mep> &t)
{
  std::string s(enc(t) + " sig=" + enc(t.*get(team_sig())) + " valid=" + u(t.is_valid()));
  for (const auto &x : t) s += " sig=" + enc(x.*get(imep_sig()));
  return s;
}
inline std::string snap(const population<i_mep> &p)
{
  std::string s(enc(p) + " valid=" + u(p.is_valid()));
  for (unsigned l(0); l < p.layers(); ++l)
    for (unsigned i(0); i < p.individuals(l); ++i) s += " sig=" + enc(p[{l, i}].*get(imep_sig()));
  return s;
}
inline std::string snap(const summary<i_mep> &s)
{
  // everything load() may touch, including what is not serialized (score of an empty solution, analyzer)
  std::string r(enc(s) + " sig=" + enc(s.best.solution.*get(imep_sig())) + " fit=" + enc(s.best.score.fitness)
                + " acc=" + d(s.best.score.accuracy) + " az=" + u(s.az.age_dist().count())
                + "," + u(s.az.fit_dist().count()) + "," + u(s.az.length_dist().count()));
  return r;
}

// cache: bits seal nlive (position d0 d1 fitness)*   -- live slots in table order
inline std::string enc_cache(const cache &c, unsigned bits)
{
  const auto &tab(c.*get(cache_table_tag()));
  const auto seal(c.*get(cache_seal_tag()));
  desc o;
  std::uint64_t n(0);
  for (const auto &s : tab) if (s.seal == seal && !s.hash.empty()) ++n;
  o << bits << seal << n;
  for (std::size_t i(0); i < tab.size(); ++i)
    if (tab[i].seal == seal && !tab[i].hash.empty())
    {
      o << i << tab[i].hash.data[0] << tab[i].hash.data[1];
      o << enc(tab[i].fitness);
    }
  return o.s;
}

// a cache together with the keys its history touched (the probes of the lookup oracle)
struct cache_case
{
  unsigned bits;
  std::unique_ptr<cache> c;
  std::vector<hash_t> keys;
  unsigned clears = 0, stale = 0;
};

inline cache_case make_cache(splitmix &r)
{
  cache_case k;
  k.bits = 1 + unsigned(r.below(r.below(4) ? 4 : 8));
  k.c = std::make_unique<cache>(k.bits);
  const unsigned pool(2 + unsigned(r.below(24)));
  for (unsigned i(0); i < pool; ++i)
  {
    hash_t h(make_hash(r));
    if (h.empty()) h = hash_t(1, 0);
    if (r.below(3) == 0 && !k.keys.empty())      // force slot collisions
      h = hash_t((k.keys[r.below(k.keys.size())].data[0] & ((1ull << k.bits) - 1)) | (r.next() << k.bits), r.next());
    if (h.empty()) h = hash_t(1, 0);
    k.keys.push_back(h);
  }
  for (auto j(r.below(60)); j; --j)
    switch (r.below(10))
    {
    case 0: k.c->clear(); ++k.clears; break;
    case 1: k.c->clear(k.keys[r.below(pool)]); break;
    case 2: (void)k.c->find(k.keys[r.below(pool)]); break;
    default: k.c->insert(k.keys[r.below(pool)], make_fit(r, false)); break;
    }
  const auto &tab(k.c.get()->*get(cache_table_tag()));
  const auto seal(k.c.get()->*get(cache_seal_tag()));
  for (const auto &s : tab) if (s.seal != seal && !s.hash.empty()) ++k.stale;
  return k;
}

inline std::string lookups(const cache &c, const std::vector<hash_t> &keys)
{
  std::string s;
  for (const auto &h : keys) s += " [" + enc(c.find(h)) + "]";
  return s;
}

// ---- histories -----------------------------------------------------------------------------
inline i_mep rnd_imep(splitmix &r, unsigned code_length)
{
  M().prob.env.mep.code_length = code_length;
  return i_mep(M().prob);
}

// a history over individuals of a fixed code length
inline i_mep make_imep_len(splitmix &r, unsigned len)
{
  i_mep x(rnd_imep(r, len));
  for (auto j(r.below(7)); j; --j)
    switch (r.below(6))
    {
    case 0: x.mutation(0.3, M().prob); break;
    case 1: x = crossover(x, rnd_imep(r, len)); break;
    case 2: x = crossover(rnd_imep(r, len), x); break;
    case 3: x.inc_age(); break;
    case 4: x = x.destroy_block(r.below(x.size()), M().prob.sset); break;
    default:
    {
      // plant an ephemeral constant of arbitrary magnitude
      gene g(*terminal::cast(M().syms[r.below(4)]));
      g.par = rnd_double(r);
      x = x.replace(locus{index_t(x.size() - 1), 0}, g);
      if (r.below(2)) x = x.replace(locus{index_t(r.below(x.size())), 0}, g);
    }
    }
  if (r.below(3) == 0) x = with_age(x, rnd_age(r), M().prob.sset);
  // a sub-program taken as an individual on its own: the entry locus is any row, not [0,0]
  if (r.below(4) == 0) x = x.get_block(locus{index_t(r.below(x.size())), 0});
  return x;
}

inline i_mep make_imep(splitmix &r, bool allow_empty = true, unsigned max_len = 40)
{
  if (allow_empty && r.below(40) == 0) return i_mep();
  return make_imep_len(r, 4 + unsigned(r.below(r.below(4) ? 12 : max_len)));
}

inline team<i_mep> make_team(splitmix &r)
{
  const unsigned len(4 + unsigned(r.below(16)));
  M().prob.env.mep.code_length = len;
  M().prob.env.team.individuals = 1 + unsigned(r.below(5));
  team<i_mep> t(M().prob);
  for (auto j(r.below(5)); j; --j)
    switch (r.below(4))
    {
    case 0: t.mutation(0.3, M().prob); break;
    case 1: M().prob.env.mep.code_length = len; t = crossover(t, team<i_mep>(M().prob)); break;
    case 2: t.inc_age(); break;
    default:
    {
      std::vector<i_mep> v(t.begin(), t.end());
      v[r.below(v.size())] = make_imep_len(r, len);
      t = team<i_mep>(v);
    }
    }
  return t;
}

inline population<i_mep> make_pop(splitmix &r)
{
  auto &env(M().prob.env);
  env.mep.code_length = 4 + unsigned(r.below(10));
  env.individuals = 1 + unsigned(r.below(r.below(6) ? 6 : 24));
  env.min_individuals = 1;
  population<i_mep> p(M().prob);
  for (auto j(r.below(10)); j; --j)
    switch (r.below(7))
    {
    case 0: if (p.layers() < 5) p.add_layer(); break;
    case 1:
    {
      const unsigned l(unsigned(r.below(p.layers())));
      for (auto k(r.below(p.individuals(l) + 1)); k; --k) p.pop_from_layer(l);
      break;
    }
    case 2:
    {
      const unsigned l(unsigned(r.below(p.layers())));
      p.add_to_layer(l, make_imep(r, false, 10));
      break;
    }
    case 3: p.inc_age(); break;
    case 4:
    {
      const unsigned l(unsigned(r.below(p.layers())));
      if (p.allowed(l) > 1) p.set_allowed(l, 1 + unsigned(r.below(p.allowed(l))));
      break;
    }
    case 5:
    {
      const unsigned l(unsigned(r.below(p.layers())));
      if (p.individuals(l))
      {
        const unsigned i(unsigned(r.below(p.individuals(l))));
        p[{l, i}].mutation(0.5, M().prob);
        if (r.below(2)) p[{l, i}] = make_imep(r, false, 10);
      }
      break;
    }
    default: if (p.layers() > 1) p.remove_layer(unsigned(r.below(p.layers()))); break;
    }
  return p;
}

inline summary<i_mep> make_summ(splitmix &r)
{
  summary<i_mep> s;
  if (r.below(8))
  {
    s.best.solution = make_imep(r, false, 24);
    s.best.score.fitness = make_fit(r, false);
    switch (r.below(4))
    {
    case 0: s.best.score.accuracy = -1.0; break;
    case 1: s.best.score.accuracy = double(r.below(1001)) / 1000.0; break;
    case 2: s.best.score.accuracy = 1.0 / 3.0; break;
    default: s.best.score.accuracy = double(r.next() >> 11) / 9007199254740992.0; break;
    }
  }
  s.elapsed = std::chrono::milliseconds(r.below(4) ? r.below(100000) : r.below(2147483648ull));
  s.mutations = r.below(3) ? r.below(1000000) : r.next();
  s.crossovers = r.below(3) ? r.below(1000000) : r.next();
  s.gen = unsigned(r.below(3) ? r.below(1000) : r.next());
  s.last_imp = unsigned(r.below(3) ? r.below(1000) : r.next());
  return s;
}

}  // namespace c11

#endif
