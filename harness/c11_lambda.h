// Trained models (lambda_f kinds) for the C11 harness.
//
// Description (integers):
//   kind  0 reg | 1 dyn | 2 gauss | 3 binary | 4 teamReg | 5 teamDyn | 6 teamGauss | 7 teamBinary
//   reg        imep
//   dyn        imep dynpart names            dynpart = matu nslot slot... dataset_size
//   gauss      imep ndist dist... names      names   = n (len char...)*
//   binary     imep names
//   teamReg    n imep...
//   teamDyn    classes n (imep dynpart)... names         (teamGauss / teamBinary alike)
#ifndef VERIF_C11_LAMBDA_H
#define VERIF_C11_LAMBDA_H

#include "c11_big.h"

#include "kernel/gp/src/lambda_f.h"
#include "kernel/gp/src/problem.h"

namespace c11
{

using dyn_t = basic_dyn_slot_lambda_f<i_mep, true, true>;
using dynm_t = basic_dyn_slot_lambda_f<i_mep, true, false>;
using gauss_t = basic_gaussian_lambda_f<i_mep, true, true>;
using gaussm_t = basic_gaussian_lambda_f<i_mep, true, false>;
using binary_t = basic_binary_lambda_f<i_mep, true, true>;
using tdyn_t = team_class_lambda_f<i_mep, true, true, basic_dyn_slot_lambda_f>;
using tgauss_t = team_class_lambda_f<i_mep, true, true, basic_gaussian_lambda_f>;
using tbinary_t = team_class_lambda_f<i_mep, true, true, basic_binary_lambda_f>;

#define VERIF_ROBA(tag, cls, member) \
  struct tag { friend auto get(tag); }; \
  template struct rob_auto<tag, &cls::member>;

VERIF_ROBA(dyn_matrix, dyn_t, slot_matrix_)
VERIF_ROBA(dyn_class, dyn_t, slot_class_)
VERIF_ROBA(dyn_size, dyn_t, dataset_size_)
VERIF_ROBA(dynm_matrix, dynm_t, slot_matrix_)
VERIF_ROBA(dynm_class, dynm_t, slot_class_)
VERIF_ROBA(dynm_size, dynm_t, dataset_size_)
VERIF_ROBA(gauss_dist, gauss_t, gauss_dist_)
VERIF_ROBA(gaussm_dist, gaussm_t, gauss_dist_)
VERIF_ROBA(tdyn_team, tdyn_t, team_)
VERIF_ROBA(tdyn_classes, tdyn_t, classes_)
VERIF_ROBA(tgauss_team, tgauss_t, team_)
VERIF_ROBA(tgauss_classes, tgauss_t, classes_)
VERIF_ROBA(tbinary_team, tbinary_t, team_)
VERIF_ROBA(tbinary_classes, tbinary_t, classes_)

// ---- three small supervised problems, built once (right after the symbol set of M()) ----------
struct lam_env
{
  src_problem cls3, cls2, regr;

  static std::string csv(int kind)
  {
    // deterministic data: the models depend on it, both harness processes must agree
    splitmix r(20240929u + unsigned(kind));
    std::ostringstream o;
    static const char *names3[] = {"\"Iris setosa\"", "\"versi-color\"", "\"C3\""};
    static const char *names2[] = {"\"g\"", "\"bad one\""};
    const int rows(kind == 2 ? 30 : 48);
    for (int i(0); i < rows; ++i)
    {
      const int c(int(r.below(kind == 0 ? 3 : 2)));
      double x[4];
      for (auto &v : x) v = double(r.between(-500, 501)) / 100.0 + (kind == 2 ? 0.0 : 2.0 * c);
      if (kind == 0) o << names3[c];
      else if (kind == 1) o << names2[c];
      else o << (x[0] * x[1] - 3.5 * x[2] + 0.25);
      for (auto v : x) o << ',' << v;
      o << '\n';
    }
    return o.str();
  }

  static void init(src_problem &p, int kind)
  {
    p.env.init();
    std::istringstream in(csv(kind));
    p.data().read_csv(in);
    p.setup_symbols();
    // real-valued ephemeral constants of several magnitudes
    p.sset.insert<real::real>(cvect{0}, -1000.0, 1000.0);
    p.sset.insert<real::real>(cvect{0}, -1e200, 1e200);
    p.sset.insert<real::real>(cvect{0}, -1e-200, 1e-200);
    p.env.mep.code_length = 16;
  }

  lam_env()
  {
    init(cls3, 0);
    init(cls2, 1);
    init(regr, 2);
  }
};

inline lam_env &L()
{
  (void)M();            // opcodes: M() first, then the three supervised problems
  static lam_env e;
  return e;
}

// symbol table of one symbol set: nsym (opcode hasPar arity)*
inline std::string symtab_of(const symbol_set &ss)
{
  std::vector<const symbol *> all;
  for (opcode_t op(0); op < 4000; ++op)
    if (const symbol *sy = ss.decode(op)) all.push_back(sy);
  desc o; o << all.size();
  for (auto s : all) o << s->opcode() << (mep_env::has_par(s) ? 1u : 0u) << s->arity();
  return o.s;
}

// ---- descriptions ------------------------------------------------------------------------------
inline void enc_names(desc &o, const basic_src_lambda_f &l, class_t classes)
{
  o << classes;
  for (class_t c(0); c < classes; ++c)
  {
    const std::string n(l.name(value_t(int(c))));
    o << n.size();
    for (unsigned char ch : n) o << unsigned(ch);
  }
}
template<class MT, class CT> void enc_dynpart(desc &o, const MT &m, const CT &sc, std::size_t ds)
{
  o << enc(m) << sc.size();
  for (auto c : sc) o << c;
  o << ds;
}
template<class V> void enc_dists(desc &o, const V &v)
{
  o << v.size();
  for (const auto &d : v) o << enc(d);
}

struct lam_case
{
  std::unique_ptr<basic_src_lambda_f> model;
  std::string description;
  const src_problem *prob;
  int kind;
};

inline i_mep lam_ind(splitmix &r, src_problem &p)
{
  p.env.mep.code_length = 6 + unsigned(r.below(20));
  i_mep x(p);
  for (auto j(r.below(4)); j; --j)
    switch (r.below(3))
    {
    case 0: x.mutation(0.3, p); break;
    case 1: x = crossover(x, i_mep(p)); break;
    default: x.inc_age(); break;
    }
  return x;
}

inline team<i_mep> lam_team(splitmix &r, src_problem &p)
{
  p.env.mep.code_length = 6 + unsigned(r.below(12));
  p.env.team.individuals = 1 + unsigned(r.below(4));
  team<i_mep> t(p);
  for (auto j(r.below(3)); j; --j)
    if (r.below(2)) t.mutation(0.3, p); else t.inc_age();
  return t;
}

inline lam_case make_lambda(splitmix &r)
{
  lam_case k;
  k.kind = int(r.below(8));
  desc o; o << unsigned(k.kind);
  auto &E(L());
  switch (k.kind)
  {
  case 0:
  {
    src_problem &p(r.below(2) ? E.regr : E.cls3);
    const i_mep x(lam_ind(r, p));
    k.model = std::make_unique<reg_lambda_f<i_mep>>(x);
    enc_into(o, x);
    k.prob = &p;
    break;
  }
  case 1:
  {
    src_problem &p(r.below(2) ? E.cls3 : E.cls2);
    const i_mep x(lam_ind(r, p));
    auto m(std::make_unique<dyn_t>(x, p.data(), 1 + unsigned(r.below(5))));
    enc_into(o, x);
    enc_dynpart(o, (*m).*get(dyn_matrix()), (*m).*get(dyn_class()), (*m).*get(dyn_size()));
    enc_names(o, *m, p.data().classes());
    k.model = std::move(m);
    k.prob = &p;
    break;
  }
  case 2:
  {
    src_problem &p(r.below(2) ? E.cls3 : E.cls2);
    const i_mep x(lam_ind(r, p));
    auto m(std::make_unique<gauss_t>(x, p.data()));
    enc_into(o, x);
    enc_dists(o, (*m).*get(gauss_dist()));
    enc_names(o, *m, p.data().classes());
    k.model = std::move(m);
    k.prob = &p;
    break;
  }
  case 3:
  {
    src_problem &p(E.cls2);
    const i_mep x(lam_ind(r, p));
    auto m(std::make_unique<binary_t>(x, p.data()));
    enc_into(o, x);
    enc_names(o, *m, p.data().classes());
    k.model = std::move(m);
    k.prob = &p;
    break;
  }
  case 4:
  {
    src_problem &p(E.regr);
    const team<i_mep> t(lam_team(r, p));
    k.model = std::make_unique<reg_lambda_f<team<i_mep>>>(t);
    o << t.individuals();
    for (const auto &x : t) enc_into(o, x);
    k.prob = &p;
    break;
  }
  case 5:
  {
    src_problem &p(r.below(2) ? E.cls3 : E.cls2);
    const team<i_mep> t(lam_team(r, p));
    auto m(std::make_unique<tdyn_t>(t, p.data(), 1 + unsigned(r.below(4))));
    const auto &mem((*m).*get(tdyn_team()));
    o << (*m).*get(tdyn_classes()) << mem.size();
    for (std::size_t i(0); i < mem.size(); ++i)
    {
      enc_into(o, t[unsigned(i)]);
      enc_dynpart(o, mem[i].*get(dynm_matrix()), mem[i].*get(dynm_class()), mem[i].*get(dynm_size()));
    }
    enc_names(o, *m, p.data().classes());
    k.model = std::move(m);
    k.prob = &p;
    break;
  }
  case 6:
  {
    src_problem &p(r.below(2) ? E.cls3 : E.cls2);
    const team<i_mep> t(lam_team(r, p));
    auto m(std::make_unique<tgauss_t>(t, p.data()));
    const auto &mem((*m).*get(tgauss_team()));
    o << (*m).*get(tgauss_classes()) << mem.size();
    for (std::size_t i(0); i < mem.size(); ++i)
    {
      enc_into(o, t[unsigned(i)]);
      enc_dists(o, mem[i].*get(gaussm_dist()));
    }
    enc_names(o, *m, p.data().classes());
    k.model = std::move(m);
    k.prob = &p;
    break;
  }
  default:
  {
    src_problem &p(E.cls2);
    const team<i_mep> t(lam_team(r, p));
    auto m(std::make_unique<tbinary_t>(t, p.data()));
    const auto &mem((*m).*get(tbinary_team()));
    o << (*m).*get(tbinary_classes()) << mem.size();
    for (std::size_t i(0); i < mem.size(); ++i) enc_into(o, t[unsigned(i)]);
    enc_names(o, *m, p.data().classes());
    k.model = std::move(m);
    k.prob = &p;
    break;
  }
  }
  k.description = o.s;
  return k;
}

// predictions on every training example and on perturbed inputs
inline std::string predictions(const basic_src_lambda_f &l, const src_problem &p, std::uint64_t seed)
{
  splitmix r(seed);
  std::string s;
  std::vector<dataframe::example> in(p.data().begin(), p.data().end());
  const std::size_t base(in.size());
  for (std::size_t i(0); i < 24 && base; ++i)
  {
    dataframe::example e(in[r.below(base)]);
    for (auto &v : e.input)
      if (std::holds_alternative<D_DOUBLE>(v))
        v = r.below(3) ? double(r.between(-100000, 100001)) / 1000.0 : rnd_double(r);
    in.push_back(e);
  }
  for (const auto &e : in)
  {
    const value_t v(l(e));
    s += ' ' + val_str(v);
    if (has_value(v)) s += ":" + verif::hex(l.name(v));
    const auto t(l.tag(e));
    s += "/" + u(t.label) + "," + d(t.sureness);
  }
  return s;
}

inline int prob_id(const src_problem *p)
{
  return p == &L().cls3 ? 0 : p == &L().cls2 ? 1 : 2;
}
inline src_problem &prob_of(unsigned id)
{
  return id == 0 ? L().cls3 : id == 1 ? L().cls2 : L().regr;
}

inline void register_lambda_kinds()
{
  // load<T> registers the kinds for T on first use: make the factory know all eight ids
  { std::istringstream e; (void)serialize::lambda::load<i_mep>(e, L().regr.sset); }
  { std::istringstream e; (void)serialize::lambda::load<team<i_mep>>(e, L().regr.sset); }
}

inline std::string lambda_bytes(const basic_src_lambda_f &l, bool *ok = nullptr)
{
  std::ostringstream o;
  const bool r(serialize::save(o, l));
  if (ok) *ok = r;
  return o.str();
}

}  // namespace c11

#endif
