// Round-3 generators of the C11 harness: further template instantiations (matrix<T> for the other
// integral types, team / population / summary over i_ga and i_de), evaluator_proxy, search::save/load
// through env.misc.serialization_file, histories of serialize::lambda::load<T> calls against the
// process-wide factory, boundary doubles through save_float_to_stream / load_float_from_stream.
//
// Descriptions:
//   matl/matul/mats/matus/matc/matsc/matuc   cols n e...
//   teamga  n iga...          popga/popde  nlayers (allowed ninds ind...)*
//   summga/summde  known [ind fit accbits] elapsed mutations crossovers gen last_imp
//   proxy/search   persist count cache            (cache: bits seal nlive (slot d0 d1 fit)*)
//   lamfac  ncalls (team kind)*                   outcome of every call in the tags (`out=` bit string)
//   flt     bits
#ifndef VERIF_C11_MORE_H
#define VERIF_C11_MORE_H

#include "c11_big.h"
#include "c11_lambda.h"

#include <cstdio>
#include <fstream>

namespace c11
{

// ---- descriptions of the other matrix element types (unsigned elements as unsigned numbers) -----
template<class T> std::string enc_mat(const matrix<T> &m)
{
  desc o; o << m.cols();
  std::uint64_t n(0);
  for (auto it(m.begin()); it != m.end(); ++it) ++n;
  o << n;
  for (auto e : m)
    if constexpr (std::is_unsigned_v<T>) o << std::uint64_t(e);
    else o.i(static_cast<std::int64_t>(e));
  return o.s;
}

template<class T> matrix<T> make_mat_any(splitmix &r)
{
  const std::size_t rows(r.below(8) ? r.below(6) : r.below(24)), cols(r.below(8) ? r.below(6) : r.below(24));
  matrix<T> m(rows, cols);
  for (auto &e : m)
    switch (r.below(5))
    {
    case 0: e = T(r.below(10)); break;
    case 1: e = T(std::numeric_limits<T>::max() - T(r.below(2))); break;
    case 2: e = T(std::numeric_limits<T>::min() + T(r.below(2))); break;
    case 3:
    {
      // the values that are white space / NUL as characters
      static const int ws[] = {9, 10, 11, 12, 13, 32, 0, 48, 45, 43};
      e = T(ws[r.below(10)]);
      break;
    }
    default: e = T(r.next()); break;
    }
  for (auto j(r.below(3)); j && !m.empty(); --j)
    switch (r.below(4))
    {
    case 0: m = fliplr(m); break;
    case 1: m = flipud(m); break;
    case 2: m = transpose(m); break;
    default: m = rot90(m); break;
    }
  return m;
}

// ---- containers over i_ga / i_de ---------------------------------------------------------------
VERIF_ROB(teamga_sig, team<i_ga>, hash_t, signature_)

inline std::string enc(const team<i_ga> &t)
{
  desc o; o << t.individuals();
  for (const auto &x : t) o << enc(x);
  return o.s;
}
template<class T> std::string enc_pop(const population<T> &p)
{
  desc o; o << p.layers();
  for (unsigned l(0); l < p.layers(); ++l)
  {
    o << p.allowed(l) << p.individuals(l);
    for (unsigned i(0); i < p.individuals(l); ++i) o << enc(p[{l, i}]);
  }
  return o.s;
}
template<class T> std::string enc_summ(const summary<T> &s)
{
  desc o;
  if (s.best.solution.empty()) o << 0u;
  else
  {
    o << 1u;
    o << enc(s.best.solution);
    o << enc(s.best.score.fitness);
    o.f(s.best.score.accuracy);
  }
  o.i(s.elapsed.count());
  o << s.mutations << s.crossovers << s.gen << s.last_imp;
  return o.s;
}

inline std::string sig_or_dash(const i_ga &x) { return x.empty() ? std::string("-") : enc(x.signature()); }
inline std::string sig_or_dash(const i_de &x) { return x.empty() ? std::string("-") : enc(x.signature()); }

inline std::string obs(const team<i_ga> &t)
{
  std::string s(enc(t) + " valid=" + u(t.is_valid()));
  for (const auto &x : t) s += " sig=" + sig_or_dash(x);
  return s;
}
template<class T> std::string obs_pop(const population<T> &p)
{
  std::string s(enc_pop(p));
  for (unsigned l(0); l < p.layers(); ++l)
    for (unsigned i(0); i < p.individuals(l); ++i) s += " sig=" + sig_or_dash(p[{l, i}]);
  return s;
}
template<class T> std::string obs_summ(const summary<T> &s)
{
  return enc_summ(s) + (s.best.solution.empty() ? std::string() : " sig=" + sig_or_dash(s.best.solution));
}

// one GA / DE problem per object: the individuals of a container share it
struct ga_ctx
{
  ga_env e;
  explicit ga_ctx(splitmix &r) : e(r, 1 + unsigned(r.below(6))) {}
  i_ga ind(splitmix &r)
  {
    i_ga x(e.prob);
    for (auto j(r.below(4)); j; --j)
      switch (r.below(3))
      {
      case 0: x.mutation(0.5, e.prob); break;
      case 1: x.inc_age(); break;
      default:
      {
        static const int ext[] = {std::numeric_limits<int>::min(), std::numeric_limits<int>::max(), 0, -1};
        x[r.below(x.parameters())] = ext[r.below(4)];
      }
      }
    if (r.below(4) == 0) x = with_age(x, rnd_age(r));
    return x;
  }
};
struct de_ctx
{
  de_env e;
  explicit de_ctx(splitmix &r) : e(r, 1 + unsigned(r.below(6))) {}
  i_de ind(splitmix &r)
  {
    i_de x(e.prob);
    for (auto j(r.below(4)); j; --j)
      switch (r.below(2))
      {
      case 0: x.inc_age(); break;
      default: x[r.below(x.parameters())] = rnd_double(r);
      }
    if (r.below(4) == 0) x = with_age(x, rnd_age(r));
    return x;
  }
};

template<class T, class C> population<T> make_pop_of(splitmix &r, C &c)
{
  auto &env(c.e.prob.env);
  env.individuals = 1 + unsigned(r.below(r.below(6) ? 5 : 16));
  env.min_individuals = 1;
  population<T> p(c.e.prob);
  for (auto j(r.below(10)); j; --j)
    switch (r.below(7))
    {
    case 0: if (p.layers() < 4) p.add_layer(); break;
    case 1:
    {
      const unsigned l(unsigned(r.below(p.layers())));
      for (auto k(r.below(p.individuals(l) + 1)); k; --k) p.pop_from_layer(l);
      break;
    }
    case 2: p.add_to_layer(unsigned(r.below(p.layers())), c.ind(r)); break;
    case 3: p.inc_age(); break;
    case 4:
    {
      const unsigned l(unsigned(r.below(p.layers())));
      if (p.allowed(l) > 1) p.set_allowed(l, 1 + unsigned(r.below(p.allowed(l))));
      break;
    }
    case 5:
    {
      const unsigned l(unsigned(r.below(p.layers())));
      if (p.individuals(l)) p[{l, unsigned(r.below(p.individuals(l)))}] = c.ind(r);
      break;
    }
    default: if (p.layers() > 1) p.remove_layer(unsigned(r.below(p.layers()))); break;
    }
  return p;
}

template<class T, class C> summary<T> make_summ_of(splitmix &r, C &c)
{
  summary<T> s;
  if (r.below(8))
  {
    s.best.solution = c.ind(r);
    s.best.score.fitness = make_fit(r, false);
    s.best.score.accuracy = r.below(2) ? double(r.below(1001)) / 1000.0 : double(r.next() >> 11) / 9007199254740992.0;
  }
  s.elapsed = std::chrono::milliseconds(r.below(4) ? r.below(100000) : r.below(2147483648ull));
  s.mutations = r.below(3) ? r.below(1000000) : r.next();
  s.crossovers = r.below(3) ? r.below(1000000) : r.next();
  s.gen = unsigned(r.below(3) ? r.below(1000) : r.next());
  s.last_imp = unsigned(r.below(3) ? r.below(1000) : r.next());
  return s;
}

// ---- evaluator_proxy ---------------------------------------------------------------------------
// an evaluator whose answer is a function of the program and whose invocations are visible; with
// `persist` it has a persistent part of its own (the number of evaluations made)
struct counting_eva : public evaluator<i_mep>
{
  std::uint64_t calls = 0;
  bool persist = false;
  std::uint64_t *probe = nullptr;          // counts the invocations of the real evaluator

  counting_eva() = default;
  counting_eva(bool p, std::uint64_t *pr) : persist(p), probe(pr) {}

  fitness_t operator()(const i_mep &x) override
  {
    ++calls;
    if (probe) ++*probe;
    const hash_t h(x.signature());
    const unsigned n(1 + unsigned(h.data[1] % 3));
    fitness_t f(with_size(n), 0.0);
    for (unsigned i(0); i < n; ++i)
      f[i] = (double((h.data[0] >> (7 * i)) % 2000003) - 1000000.0) / (i ? 7.0 : 1.0)
             * (h.data[1] % 11 == 0 ? 1e290 : h.data[1] % 13 == 0 ? 1e-300 : 1.0);
    return f;
  }
  bool save(std::ostream &o) const override
  {
    if (persist) o << calls << '\n';
    return o.good();
  }
  bool load(std::istream &i) override
  {
    if (persist) return !!(i >> calls);
    return true;
  }
};

using proxy_t = evaluator_proxy<i_mep, counting_eva>;
struct proxy_cache_tag { friend auto get(proxy_cache_tag); };
template struct rob_auto<proxy_cache_tag, &proxy_t::cache_>;
struct proxy_eva_tag { friend auto get(proxy_eva_tag); };
template struct rob_auto<proxy_eva_tag, &proxy_t::eva_>;

inline std::string enc_proxy(const proxy_t &p, unsigned bits)
{
  const counting_eva &e(p.*get(proxy_eva_tag()));
  desc o; o << (e.persist ? 1u : 0u) << (e.persist ? e.calls : 0u);
  o << enc_cache(p.*get(proxy_cache_tag()), bits);
  return o.s;
}

// answers of a proxy on a battery of programs: the fitness and whether the real evaluator ran
inline std::string answers(proxy_t &p, const std::vector<i_mep> &pool, std::uint64_t &probe)
{
  std::string s;
  for (const auto &x : pool)
  {
    const std::uint64_t before(probe);
    const fitness_t f(p(x));
    s += " [" + enc(f) + (probe != before ? " E" : " C") + "]";
  }
  return s;
}

// ---- search::save / load -------------------------------------------------------------------------
struct probe_search : public search<i_mep, std_es>
{
  using search<i_mep, std_es>::search;
  using search<i_mep, std_es>::init;
  using search<i_mep, std_es>::close;
  evaluator<i_mep> &eva() { return *eva1_; }
};

inline std::string tmp_dir()
{
  const char *d(std::getenv("VERIF_C11_TMP"));
  return d ? d : "/var/tmp";
}

inline std::string slurp(const std::string &path, bool *exists = nullptr)
{
  std::ifstream in(path, std::ios::binary);
  if (exists) *exists = bool(in);
  std::ostringstream o; o << in.rdbuf();
  return o.str();
}

// ---- boundary doubles --------------------------------------------------------------------------------
inline std::vector<double> boundary_doubles()
{
  std::vector<double> v;
  const auto add3([&](double x)
  {
    for (double s : {1.0, -1.0})
    {
      const double y(s * x);
      v.push_back(y);
      v.push_back(std::nextafter(y, 0.0));
      v.push_back(std::nextafter(y, s * std::numeric_limits<double>::infinity()));
    }
  });
  for (int e(-1074); e <= 1023; ++e) add3(std::ldexp(1.0, e));                 // powers of two, all binades
  for (int e(-323); e <= 308; ++e) add3(std::strtod(("1e" + std::to_string(e)).c_str(), nullptr));   // powers of ten
  for (int k(1); k <= 22; ++k) add3(std::pow(10.0, k) - 1.0);
  add3(std::numeric_limits<double>::max());
  add3(std::numeric_limits<double>::min());
  add3(std::numeric_limits<double>::denorm_min());
  add3(verif::from_bits(0x000fffffffffffffull));                                 // largest subnormal
  add3(9007199254740992.0); add3(9007199254740993.0); add3(0.1); add3(1.0 / 3.0); add3(5e-324);
  add3(2.2250738585072011e-308); add3(1.7976931348623157e308); add3(8.5e-317); add3(4.35e-311);
  v.push_back(0.0); v.push_back(-0.0);
  std::vector<double> fin;
  for (double x : v) if (std::isfinite(x)) fin.push_back(x);
  return fin;
}

}  // namespace c11

#endif
