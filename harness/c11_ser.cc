// C11 harness: objects produced by histories are saved by vita; for each one a line
//   obj <type> <description ints> | <hex of the bytes written by save()> | <oracle>
// is printed.  <oracle> is the verdict of the property's own oracle, computed here without
// the Lean model: reload into a fresh object, compare every observable, re-save, compare bytes.
//
// usage: c11_ser <seed> <count-per-type> [types...]
#include "c11_ser.h"

using namespace c11;

namespace
{

// ---------------------------------------------------------------------------------------
void emit(const std::string &type, const std::string &description, const std::string &bytes,
          const std::string &verdict, const std::string &tags = "")
{
  std::cout << "obj " << type << ' ' << description << " | " << verif::hex(bytes) << " | "
            << verdict << " | " << (tags.empty() ? "-" : tags) << "\n";
}

// ---------------------------------------------------------------------------------------
void gen_hash(splitmix &r, unsigned n)
{
  for (unsigned k(0); k < n; ++k)
  {
    hash_t h;
    switch (r.below(5))
    {
    case 0: h = hash_t(r.next(), r.next()); break;
    case 1: h = hash_t(r.below(3) ? 0 : ~0ull, r.below(2) ? 0 : ~0ull); break;
    case 2: h = hash_t(r.below(1000), r.below(1000)); break;
    default:
    {
      std::vector<unsigned char> buf(r.below(64));
      for (auto &b : buf) b = (unsigned char)r.below(256);
      h = hash::hash128(buf.data(), buf.size());
      for (auto j(r.below(3)); j; --j) h.combine(hash_t(r.next(), r.next()));
    }
    }
    emit("hash", enc(h), save_bytes(h),
         roundtrip(h, [] { return hash_t(); },
                   [](hash_t &y, std::istream &in) { return y.load(in); },
                   [](const hash_t &y) { return enc(y); }));
  }
}

fitness_t rnd_fitness(splitmix &r, unsigned size)
{
  fitness_t f(with_size(size), 0.0);
  for (unsigned i(0); i < size; ++i) f[i] = rnd_double(r);
  return f;
}

void gen_fit(splitmix &r, unsigned n)
{
  for (unsigned k(0); k < n; ++k)
  {
    const unsigned size(r.below(40) == 0 ? 0 : 1 + r.below(r.below(4) ? 3 : 9));
    fitness_t f(rnd_fitness(r, size));
    // a short arithmetic history (kept only while every component stays finite)
    for (auto j(r.below(4)); j && size; --j)
    {
      fitness_t g(f);
      switch (r.below(4))
      {
      case 0: g += rnd_fitness(r, size); break;
      case 1: g -= rnd_fitness(r, size); break;
      case 2: g = g * rnd_double(r, false); break;
      default: g = g / 3.0; break;
      }
      bool fin(true);
      for (auto v : g) fin = fin && std::isfinite(v);
      if (fin) f = g;
    }
    emit("fit", enc(f), save_bytes(f),
         roundtrip(f, [] { return fitness_t(); },
                   [](fitness_t &y, std::istream &in) { return y.load(in); },
                   [](const fitness_t &y) { return enc(y); }),
         "size=" + u(f.size()));
  }
}

// ---------------------------------------------------------------------------------------
struct ga_env
{
  ga_problem prob;
  explicit ga_env(splitmix &r, unsigned params)
  {
    prob.env.init();
    for (unsigned i(0); i < params; ++i)
    {
      int lo, hi;
      switch (r.below(4))
      {
      case 0: lo = -10; hi = 10; break;
      case 1: lo = std::numeric_limits<int>::min(); hi = std::numeric_limits<int>::max(); break;
      case 2: lo = 0; hi = 1 + int(r.below(100000)); break;
      default: lo = -int(r.below(2000000000)) - 1; hi = int(r.below(2000000000)) + 1; break;
      }
      prob.insert(range(lo, hi));
    }
  }
};

// individuals with an age that only a previous load can produce
template<class T> T with_age(const T &x, unsigned age)
{
  std::string bytes(save_bytes(x));
  const auto nl(bytes.find('\n'));
  bytes = std::to_string(age) + bytes.substr(nl);
  T y;
  std::istringstream in(bytes);
  if (!y.load(in)) return x;
  return y;
}

unsigned rnd_age(splitmix &r)
{
  switch (r.below(4))
  {
  case 0: return 0;
  case 1: return unsigned(r.below(200));
  case 2: return unsigned(r.next());
  default: return std::numeric_limits<unsigned>::max() - unsigned(r.below(2));
  }
}

std::string obs_iga(const i_ga &y)
{
  std::ostringstream o;
  o << enc(y) << " sig=" << enc(y.signature()) << " valid=" << y.is_valid();
  return o.str();
}

void gen_iga(splitmix &r, unsigned n)
{
  for (unsigned k(0); k < n; ++k)
  {
    i_ga x;
    if (r.below(30))
    {
      ga_env e(r, 1 + unsigned(r.below(r.below(5) ? 8 : 60)));
      x = i_ga(e.prob);
      for (auto j(r.below(6)); j; --j)
        switch (r.below(4))
        {
        case 0: x.mutation(0.5, e.prob); break;
        case 1: if (x.parameters() >= 2) x = crossover(x, i_ga(e.prob)); break;
        case 2: x.inc_age(); break;
        default:
        {
          static const int ext[] = {std::numeric_limits<int>::min(), std::numeric_limits<int>::max(), 0, -1};
          x[r.below(x.parameters())] = ext[r.below(4)];
        }
        }
      if (r.below(3) == 0) x = with_age(x, rnd_age(r));
    }
    emit("iga", enc(x), save_bytes(x),
         roundtrip(x, [] { return i_ga(); },
                   [](i_ga &y, std::istream &in) { return y.load(in); }, obs_iga),
         "n=" + u(x.parameters()));
  }
}

struct de_env
{
  de_problem prob;
  explicit de_env(splitmix &r, unsigned params)
  {
    prob.env.init();
    for (unsigned i(0); i < params; ++i)
    {
      const double w(r.below(3) ? 10.0 : std::ldexp(1.0, int(r.between(-30, 900))));
      prob.insert(range(-w, w));
    }
  }
};

std::string obs_ide(const i_de &y)
{
  std::ostringstream o;
  o << enc(y) << " sig=" << enc(y.signature()) << " valid=" << y.is_valid();
  return o.str();
}

void gen_ide(splitmix &r, unsigned n)
{
  for (unsigned k(0); k < n; ++k)
  {
    i_de x;
    if (r.below(30))
    {
      de_env e(r, 1 + unsigned(r.below(r.below(5) ? 8 : 60)));
      x = i_de(e.prob);
      for (auto j(r.below(6)); j; --j)
        switch (r.below(3))
        {
        case 0:
        {
          i_de c(x.crossover(0.9, range(0.5, 1.0), i_de(e.prob), i_de(e.prob), i_de(e.prob)));
          bool fin(true);
          for (auto v : c) fin = fin && std::isfinite(v);
          if (fin) x = c;
          break;
        }
        case 1: x.inc_age(); break;
        default: x[r.below(x.parameters())] = rnd_double(r);
        }
      if (r.below(3) == 0) x = with_age(x, rnd_age(r));
    }
    emit("ide", enc(x), save_bytes(x),
         roundtrip(x, [] { return i_de(); },
                   [](i_de &y, std::istream &in) { return y.load(in); }, obs_ide),
         "n=" + u(x.parameters()));
  }
}

// ---------------------------------------------------------------------------------------
template<class T> void gen_mat(splitmix &r, unsigned n, const char *type)
{
  for (unsigned k(0); k < n; ++k)
  {
    const std::size_t rows(r.below(8) ? r.below(7) : r.below(40)), cols(r.below(8) ? r.below(7) : r.below(40));
    matrix<T> m(rows, cols);
    for (auto &e : m)
      switch (r.below(4))
      {
      case 0: e = T(r.below(10)); break;
      case 1: e = std::numeric_limits<T>::max() - T(r.below(2)); break;
      case 2: e = std::numeric_limits<T>::min() + T(r.below(2)); break;
      default: e = T(r.next()); break;
      }
    for (auto j(r.below(3)); j && !m.empty(); --j)
      switch (r.below(4))
      {
      case 0: m = fliplr(m); break;
      case 1: m = flipud(m); break;
      case 2: m = transpose(m); break;
      default: m = rot90(m); break;
      }
    emit(type, enc(m), save_bytes(m),
         roundtrip(m, [] { return matrix<T>(); },
                   [](matrix<T> &y, std::istream &in) { return y.load(in); },
                   [](const matrix<T> &y) { return snap(y); }),
         "rows=" + u(m.rows()) + ",cols=" + u(m.cols()));
  }
}

// ---------------------------------------------------------------------------------------
void gen_dist(splitmix &r, unsigned n)
{
  for (unsigned k(0); k < n; ++k)
  {
    distribution<double> x;
    const unsigned adds(r.below(10) ? unsigned(r.below(40)) : unsigned(r.below(400)));
    const int mode(int(r.below(6)));   // 5 = extreme magnitudes
    for (unsigned j(0); j < adds; ++j)
      switch (mode)
      {
      case 0: x.add(double(r.between(-5, 6))); break;
      case 1: x.add(double(r.between(-300, 300)) / 7.0); break;
      case 2: x.add(rnd_double(r, false)); break;
      case 3: x.add(std::ldexp(double(r.between(-9, 10)), int(r.between(-40, 40)))); break;
      case 4: x.add(j % 5 ? 1e-3 * double(r.below(50)) : std::nan("")); break;
      default: x.add(std::ldexp(double(r.between(-9, 10)), int(r.between(-1000, 1000)))); break;
      }
    bool fin(std::isfinite(x.*get(dist_mean())) && std::isfinite(x.*get(dist_min()))
             && std::isfinite(x.*get(dist_max())) && std::isfinite(x.*get(dist_m2())));
    for (const auto &kv : x.seen()) fin = fin && std::isfinite(kv.first);
    emit("dist", enc(x), save_bytes(x),
         roundtrip(x, [] { return distribution<double>(); },
                   [](distribution<double> &y, std::istream &in) { return y.load(in); },
                   [](const distribution<double> &y) { return snap(y); }),
         std::string("finite=") + (fin ? "1" : "0") + ",count=" + u(x.count()));
  }
}

}  // namespace

#include "c11_ser_big.h"

int main(int argc, char *argv[])
{
  vita::log::reporting_level = vita::log::lOFF;
  const std::uint64_t seed(argc > 1 ? std::stoull(argv[1]) : 1);
  const unsigned n(argc > 2 ? unsigned(std::stoul(argv[2])) : 100);
  std::vector<std::string> types;
  for (int i(3); i < argc; ++i) types.push_back(argv[i]);
  const auto want([&](const char *t)
                  { return types.empty() || std::find(types.begin(), types.end(), t) != types.end(); });

  vita::random::seed(unsigned(seed * 7919 + 13));
  // one independent stream per type, so that a type can be regenerated alone (replays)
  const auto rs([&](unsigned k) { return splitmix(seed * 1000003ull + k); });
  { auto r(rs(1)); if (want("hash")) gen_hash(r, n); }
  { auto r(rs(2)); if (want("fit")) gen_fit(r, n); }
  { auto r(rs(3)); if (want("iga")) gen_iga(r, n); }
  { auto r(rs(4)); if (want("ide")) gen_ide(r, n); }
  { auto r(rs(5)); if (want("mati")) gen_mat<int>(r, n, "mati"); }
  { auto r(rs(6)); if (want("matu")) gen_mat<unsigned>(r, n, "matu"); }
  { auto r(rs(7)); if (want("dist")) gen_dist(r, n); }
  gen_big(seed, n, want);
  return 0;
}
