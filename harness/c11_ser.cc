// C11 harness: objects produced by histories are saved by vita; for each one a line
//   obj <type> <description ints> | <hex of the bytes written by save()> | <oracle> | <tags>
// is printed.  <oracle> is the verdict of the property's own oracle, computed here without
// the Lean model: reload into a fresh object, compare every observable, re-save, compare bytes.
//
// usage: c11_ser <seed> <count-per-type> [types...]
//        c11_ser ld          (stdin: ld <type> <ctx…> <hex>; see c11_ser_more.h)
#include "c11_big.h"
#include "c11_alloc.h"

using namespace c11;

namespace
{

// `ctx`: context the model's load needs (symbol table of the object's own symbol set); when empty
// the `symtab` line printed at start applies
void emit(const std::string &type, const std::string &description, const std::string &bytes,
          const std::string &verdict, const std::string &tags = "", const std::string &ctx = "")
{
  std::cout << "obj " << type << ' ' << description << " | " << verif::hex(bytes) << " | "
            << verdict << " | " << (tags.empty() ? "-" : tags);
  if (!ctx.empty()) std::cout << " | " << ctx;
  std::cout << "\n";
}

void gen_hash(splitmix &r, unsigned n)
{
  for (unsigned k(0); k < n; ++k)
  {
    const hash_t h(make_hash(r));
    emit("hash", enc(h), save_bytes(h),
         roundtrip(h, [] { return hash_t(); },
                   [](hash_t &y, std::istream &in) { return y.load(in); },
                   [](const hash_t &y) { return enc(y); }));
  }
}

void gen_fit(splitmix &r, unsigned n)
{
  for (unsigned k(0); k < n; ++k)
  {
    const fitness_t f(make_fit(r));
    emit("fit", enc(f), save_bytes(f),
         roundtrip(f, [] { return fitness_t(); },
                   [](fitness_t &y, std::istream &in) { return y.load(in); },
                   [](const fitness_t &y) { return enc(y); }),
         "size=" + u(f.size()));
  }
}

void gen_iga(splitmix &r, unsigned n)
{
  for (unsigned k(0); k < n; ++k)
  {
    const i_ga x(make_iga(r));
    emit("iga", enc(x), save_bytes(x),
         roundtrip(x, [] { return i_ga(); },
                   [](i_ga &y, std::istream &in) { return y.load(in); }, obs_iga),
         "n=" + u(x.parameters()));
  }
}

void gen_ide(splitmix &r, unsigned n)
{
  for (unsigned k(0); k < n; ++k)
  {
    const i_de x(make_ide(r));
    emit("ide", enc(x), save_bytes(x),
         roundtrip(x, [] { return i_de(); },
                   [](i_de &y, std::istream &in) { return y.load(in); }, obs_ide),
         "n=" + u(x.parameters()));
  }
}

template<class T> void gen_mat(splitmix &r, unsigned n, const char *type)
{
  for (unsigned k(0); k < n; ++k)
  {
    const matrix<T> m(make_mat<T>(r));
    emit(type, enc(m), save_bytes(m),
         roundtrip(m, [] { return matrix<T>(); },
                   [](matrix<T> &y, std::istream &in) { return y.load(in); },
                   [](const matrix<T> &y) { return snap(y); }),
         "rows=" + u(m.rows()) + ",cols=" + u(m.cols()));
  }
}

void gen_dist(splitmix &r, unsigned n)
{
  for (unsigned k(0); k < n; ++k)
  {
    const distribution<double> x(make_dist(r));
    emit("dist", enc(x), save_bytes(x),
         roundtrip(x, [] { return distribution<double>(); },
                   [](distribution<double> &y, std::istream &in) { return y.load(in); },
                   [](const distribution<double> &y) { return snap(y); }),
         std::string("finite=") + (dist_finite(x) ? "1" : "0") + ",count=" + u(x.count()));
  }
}

}  // namespace

#include "c11_ser_big.h"
#include "c11_ser_more.h"

int main(int argc, char *argv[])
{
  vita::log::reporting_level = vita::log::lOFF;
  (void)c11::M();                                      // the symbol sets are built first, in a fixed
  (void)c11::L();                                      // order: same opcodes in every harness process
  if (argc > 1 && std::string(argv[1]) == "ld") return ld_loop();
  std::cout << "symtab " << c11::M().symtab() << std::endl;
  const std::uint64_t seed(argc > 1 ? std::stoull(argv[1]) : 1);
  const unsigned n(argc > 2 ? unsigned(std::stoul(argv[2])) : 100);
  std::vector<std::string> types;
  for (int i(3); i < argc; ++i) types.push_back(argv[i]);
  const auto want([&](const char *t)
                  { return types.empty() || std::find(types.begin(), types.end(), t) != types.end(); });

  vita::random::seed(unsigned(seed * 7919 + 13));
  // one independent stream per type, so that a type can be regenerated alone (replays)
  const auto rs([&](unsigned k) { return splitmix(seed * 1000003ull + k); });
  { auto r(rs(1)); if (want("hash")) gen_hash(r, n); }
  { auto r(rs(2)); if (want("fit")) gen_fit(r, n); }
  { auto r(rs(3)); if (want("iga")) gen_iga(r, n); }
  { auto r(rs(4)); if (want("ide")) gen_ide(r, n); }
  { auto r(rs(5)); if (want("mati")) gen_mat<int>(r, n, "mati"); }
  { auto r(rs(6)); if (want("matu")) gen_mat<unsigned>(r, n, "matu"); }
  { auto r(rs(7)); if (want("dist")) gen_dist(r, n); }
  gen_big(seed, n, want);
  gen_more(seed, n, want);
  return 0;
}
