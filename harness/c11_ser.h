// Shared code of the C11 (save/load round trip) and C12 (failed load leaves the target
// untouched) harnesses: canonical descriptions of vita objects as flat integer lists,
// object generators driven by histories, the properties' own oracles.
//
// Descriptions (doubles as 64-bit patterns, everything in decimal):
//   hash  d0 d1                 fit n b...            iga age n g...      ide age n b...
//   mati/matu cols n e...       dist count mean min max m2 n (key val)...
#ifndef VERIF_C11_SER_H
#define VERIF_C11_SER_H

#include "common/verif.h"

#include "kernel/vita.h"

#include <cmath>
#include <functional>
#include <limits>
#include <sstream>

namespace c11
{
using namespace vita;
using verif::splitmix;

// ---- access to a few non-public data members (explicit instantiation ignores access) ----
template<class Tag, typename Tag::type M> struct rob
{
  friend typename Tag::type get(Tag) { return M; }
};
#define VERIF_ROB(tag, cls, mtype, member)            \
  struct tag { using type = mtype cls::*; friend type get(tag); }; \
  template struct rob<tag, &cls::member>;

VERIF_ROB(iga_sig, individual<i_ga>, hash_t, signature_)
VERIF_ROB(ide_sig, individual<i_de>, hash_t, signature_)
VERIF_ROB(imep_sig, individual<i_mep>, hash_t, signature_)
VERIF_ROB(dist_m2, distribution<double>, double, m2_)
VERIF_ROB(dist_mean, distribution<double>, double, mean_)
VERIF_ROB(dist_min, distribution<double>, double, min_)
VERIF_ROB(dist_max, distribution<double>, double, max_)

inline std::string u(std::uint64_t x) { return std::to_string(x); }
inline std::string d(double x) { return std::to_string(verif::bits(x)); }

struct desc
{
  std::string s;
  desc &operator<<(const std::string &t) { if (!s.empty()) s += ' '; s += t; return *this; }
  desc &operator<<(std::uint64_t x) { return *this << u(x); }
  desc &i(std::int64_t x) { return *this << std::to_string(x); }
  desc &f(double x) { return *this << d(x); }
};

// ---- descriptions ----------------------------------------------------------------------
inline std::string enc(const hash_t &h) { desc o; o << h.data[0] << h.data[1]; return o.s; }
inline std::string enc(const fitness_t &f)
{
  desc o; o << f.size();
  for (auto v : f) o.f(v);
  return o.s;
}
inline std::string enc(const i_ga &x)
{
  desc o; o << x.age() << x.parameters();
  for (auto g : x) o.i(g);
  return o.s;
}
inline std::string enc(const i_de &x)
{
  desc o; o << x.age() << x.parameters();
  for (auto g : x) o.f(g);
  return o.s;
}
template<class T> std::string enc(const matrix<T> &m)
{
  desc o; o << m.cols();
  std::uint64_t n(0);
  for (auto it(m.begin()); it != m.end(); ++it) ++n;
  o << n;
  for (auto e : m) o.i(static_cast<std::int64_t>(e));
  return o.s;
}
inline std::string enc(const distribution<double> &x)
{
  desc o;
  o << x.count();
  o.f(x.*get(dist_mean())).f(x.*get(dist_min())).f(x.*get(dist_max())).f(x.*get(dist_m2()));
  o << x.seen().size();
  for (const auto &kv : x.seen()) { o.f(kv.first); o << kv.second; }
  return o.s;
}

// deep snapshot used by the C12 oracle (description + raw cached signature + consistency)
inline std::string snap(const hash_t &h) { return enc(h); }
inline std::string snap(const fitness_t &f) { return enc(f); }
inline std::string snap(const i_ga &x)
{ return enc(x) + " sig=" + enc(x.*get(iga_sig())) + " valid=" + u(x.is_valid()); }
inline std::string snap(const i_de &x)
{ return enc(x) + " sig=" + enc(x.*get(ide_sig())) + " valid=" + u(x.is_valid()); }
template<class T> std::string snap(const matrix<T> &m) { return enc(m) + " rows=" + u(m.rows()); }
inline std::string snap(const distribution<double> &x) { return enc(x) + " valid=" + u(x.is_valid()); }

// ---- save / load wrappers --------------------------------------------------------------
template<class T> std::string save_bytes(const T &x, bool *ok = nullptr)
{
  std::ostringstream o;
  const bool r(x.save(o));
  if (ok) *ok = r;
  return o.str();
}

// ---- random doubles ----------------------------------------------------------------------
inline double rnd_double(splitmix &r, bool extreme = true)
{
  for (;;)
  {
    double v;
    switch (r.below(extreme ? 10 : 6))
    {
    case 0: v = double(r.between(-20, 21)); break;
    case 1: v = double(r.between(-1000000, 1000001)) / 1000.0; break;
    case 2: v = (double(r.next() >> 11) / 9007199254740992.0 - 0.5) * 2000.0; break;
    case 3: v = std::ldexp(double(r.next() >> 11) / 9007199254740992.0 - 0.5, int(r.between(-60, 60))); break;
    case 4: v = -877.04100000000005 + double(r.between(0, 3)); break;
    case 5: v = (double(r.next() >> 11) / 9007199254740992.0) * 1e6; break;
    case 6: v = verif::from_bits(r.next()); break;                       // any bit pattern
    case 7:
    {
      static const double tab[] = {0.0, -0.0, std::numeric_limits<double>::max(),
                                   std::numeric_limits<double>::lowest(),
                                   std::numeric_limits<double>::min(),
                                   std::numeric_limits<double>::denorm_min(),
                                   -std::numeric_limits<double>::denorm_min(),
                                   std::numeric_limits<double>::epsilon(), 1e22, 1e23, 9007199254740993.0,
                                   0.1, 1.0 / 3.0, 2.2250738585072009e-308, 1.7976931348623157e308};
      v = tab[r.below(sizeof(tab) / sizeof(tab[0]))];
      break;
    }
    case 8: v = std::ldexp(1.0 + double(r.next() >> 12) / 4503599627370496.0, int(r.between(-1074, 1024))); break;
    default: v = verif::from_bits(r.next() & 0x800fffffffffffffull); break;  // subnormals
    }
    if (std::isfinite(v)) return v;
  }
}


// ---- objects produced by histories ---------------------------------------------------------
inline hash_t make_hash(splitmix &r)
{
  hash_t h;
  switch (r.below(5))
  {
  case 0: h = hash_t(r.next(), r.next()); break;
  case 1: h = hash_t(r.below(3) ? 0 : ~0ull, r.below(2) ? 0 : ~0ull); break;
  case 2: h = hash_t(r.below(1000), r.below(1000)); break;
  default:
  {
    std::vector<unsigned char> buf(r.below(64));
    for (auto &b : buf) b = (unsigned char)r.below(256);
    h = hash::hash128(buf.data(), buf.size());
    for (auto j(r.below(3)); j; --j) h.combine(hash_t(r.next(), r.next()));
  }
  }
  return h;
}

inline fitness_t rnd_fitness(splitmix &r, unsigned size)
{
  fitness_t f(with_size(size), 0.0);
  for (unsigned i(0); i < size; ++i) f[i] = rnd_double(r);
  return f;
}

inline fitness_t make_fit(splitmix &r, bool allow_empty = true)
{
  const unsigned size(allow_empty && r.below(40) == 0 ? 0 : 1 + r.below(r.below(4) ? 3 : 9));
  fitness_t f(rnd_fitness(r, size));
  // a short arithmetic history (kept only while every component stays finite)
  for (auto j(r.below(4)); j && size; --j)
  {
    fitness_t g(f);
    switch (r.below(4))
    {
    case 0: g += rnd_fitness(r, size); break;
    case 1: g -= rnd_fitness(r, size); break;
    case 2: g = g * rnd_double(r, false); break;
    default: g = g / 3.0; break;
    }
    bool fin(true);
    for (auto v : g) fin = fin && std::isfinite(v);
    if (fin) f = g;
  }
  return f;
}

struct ga_env
{
  ga_problem prob;
  explicit ga_env(splitmix &r, unsigned params)
  {
    prob.env.init();
    for (unsigned i(0); i < params; ++i)
    {
      int lo, hi;
      switch (r.below(4))
      {
      case 0: lo = -10; hi = 10; break;
      case 1: lo = std::numeric_limits<int>::min(); hi = std::numeric_limits<int>::max(); break;
      case 2: lo = 0; hi = 1 + int(r.below(100000)); break;
      default: lo = -int(r.below(2000000000)) - 1; hi = int(r.below(2000000000)) + 1; break;
      }
      prob.insert(range(lo, hi));
    }
  }
};

// individuals with an age that only a previous load can produce
template<class T, class... A> T with_age(const T &x, unsigned age, const A &... ss)
{
  std::string bytes(save_bytes(x));
  const auto nl(bytes.find('\n'));
  bytes = std::to_string(age) + bytes.substr(nl);
  T y;
  std::istringstream in(bytes);
  if (!y.load(in, ss...)) return x;
  return y;
}

inline unsigned rnd_age(splitmix &r)
{
  switch (r.below(4))
  {
  case 0: return 0;
  case 1: return unsigned(r.below(200));
  case 2: return unsigned(r.next());
  default: return std::numeric_limits<unsigned>::max() - unsigned(r.below(2));
  }
}

inline i_ga make_iga(splitmix &r)
{
  i_ga x;
  if (r.below(30))
  {
    ga_env e(r, 1 + unsigned(r.below(r.below(5) ? 8 : 60)));
    x = i_ga(e.prob);
    for (auto j(r.below(6)); j; --j)
      switch (r.below(4))
      {
      case 0: x.mutation(0.5, e.prob); break;
      case 1: if (x.parameters() >= 2) x = crossover(x, i_ga(e.prob)); break;
      case 2: x.inc_age(); break;
      default:
      {
        static const int ext[] = {std::numeric_limits<int>::min(), std::numeric_limits<int>::max(), 0, -1};
        x[r.below(x.parameters())] = ext[r.below(4)];
      }
      }
    if (r.below(3) == 0) x = with_age(x, rnd_age(r));
  }
  return x;
}

struct de_env
{
  de_problem prob;
  explicit de_env(splitmix &r, unsigned params)
  {
    prob.env.init();
    for (unsigned i(0); i < params; ++i)
    {
      const double w(r.below(3) ? 10.0 : std::ldexp(1.0, int(r.between(-30, 900))));
      prob.insert(range(-w, w));
    }
  }
};

inline i_de make_ide(splitmix &r)
{
  i_de x;
  if (r.below(30))
  {
    de_env e(r, 1 + unsigned(r.below(r.below(5) ? 8 : 60)));
    x = i_de(e.prob);
    for (auto j(r.below(6)); j; --j)
      switch (r.below(3))
      {
      case 0:
      {
        i_de c(x.crossover(0.9, range(0.5, 1.0), i_de(e.prob), i_de(e.prob), i_de(e.prob)));
        bool fin(true);
        for (auto v : c) fin = fin && std::isfinite(v);
        if (fin) x = c;
        break;
      }
      case 1: x.inc_age(); break;
      default: x[r.below(x.parameters())] = rnd_double(r);
      }
    if (r.below(3) == 0) x = with_age(x, rnd_age(r));
  }
  return x;
}

template<class T> matrix<T> make_mat(splitmix &r)
{
  const std::size_t rows(r.below(8) ? r.below(7) : r.below(40)), cols(r.below(8) ? r.below(7) : r.below(40));
  matrix<T> m(rows, cols);
  for (auto &e : m)
    switch (r.below(4))
    {
    case 0: e = T(r.below(10)); break;
    case 1: e = std::numeric_limits<T>::max() - T(r.below(2)); break;
    case 2: e = std::numeric_limits<T>::min() + T(r.below(2)); break;
    default: e = T(r.next()); break;
    }
  for (auto j(r.below(3)); j && !m.empty(); --j)
    switch (r.below(4))
    {
    case 0: m = fliplr(m); break;
    case 1: m = flipud(m); break;
    case 2: m = transpose(m); break;
    default: m = rot90(m); break;
    }
  return m;
}

inline bool dist_finite(const distribution<double> &x)
{
  bool fin(std::isfinite(x.*get(dist_mean())) && std::isfinite(x.*get(dist_min()))
           && std::isfinite(x.*get(dist_max())) && std::isfinite(x.*get(dist_m2())));
  for (const auto &kv : x.seen()) fin = fin && std::isfinite(kv.first);
  return fin;
}

inline distribution<double> make_dist(splitmix &r, bool allow_extreme = true)
{
  distribution<double> x;
  const unsigned adds(r.below(10) ? unsigned(r.below(40)) : unsigned(r.below(400)));
  const int mode(int(r.below(allow_extreme ? 6 : 5)));   // 5 = extreme magnitudes
  for (unsigned j(0); j < adds; ++j)
    switch (mode)
    {
    case 0: x.add(double(r.between(-5, 6))); break;
    case 1: x.add(double(r.between(-300, 300)) / 7.0); break;
    case 2: x.add(rnd_double(r, false)); break;
    case 3: x.add(std::ldexp(double(r.between(-9, 10)), int(r.between(-40, 40)))); break;
    case 4: x.add(j % 5 ? 1e-3 * double(r.below(50)) : std::nan("")); break;
    default: x.add(std::ldexp(double(r.between(-9, 10)), int(r.between(-1000, 1000)))); break;
    }
  return x;
}

inline std::string obs_iga(const i_ga &y)
{
  std::ostringstream o;
  o << enc(y) << " sig=" << enc(y.signature()) << " valid=" << y.is_valid();
  return o.str();
}

inline std::string obs_ide(const i_de &y)
{
  std::ostringstream o;
  o << enc(y) << " sig=" << enc(y.signature()) << " valid=" << y.is_valid();
  return o.str();
}

// ---- the property's own oracle for C11: reload into a fresh object -------------------------
// Returns "ok" or "bad:<reason>".
template<class T, class Fresh, class Load, class Obs>
std::string roundtrip(const T &x, Fresh fresh, Load load, Obs obs)
{
  bool sok(false);
  const std::string bytes(save_bytes(x, &sok));
  if (!sok) return "bad:save-returned-false";
  T y(fresh());
  std::istringstream in(bytes);
  try
  {
    if (!load(y, in)) return "bad:load-failed";
  }
  catch (const std::exception &) { return "bad:load-threw"; }
  const std::string ox(obs(x)), oy(obs(y));
  if (ox != oy) return "bad:reloaded-object-differs";
  bool sok2(false);
  const std::string again(save_bytes(y, &sok2));
  if (!sok2 || again != bytes) return "bad:resave-differs";
  return "ok";
}

}  // namespace c11

#endif
