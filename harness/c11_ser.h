// Shared code of the C11 (save/load round trip) and C12 (failed load leaves the target
// untouched) harnesses: canonical descriptions of vita objects as flat integer lists,
// object generators driven by histories, the properties' own oracles.
//
// Descriptions (doubles as 64-bit patterns, everything in decimal):
//   hash  d0 d1                 fit n b...            iga age n g...      ide age n b...
//   mati/matu cols n e...       dist count mean min max m2 n (key val)...
#ifndef VERIF_C11_SER_H
#define VERIF_C11_SER_H

#include "common/verif.h"

#include "kernel/vita.h"

#include <cmath>
#include <functional>
#include <limits>
#include <sstream>

namespace c11
{
using namespace vita;
using verif::splitmix;

// ---- access to a few non-public data members (explicit instantiation ignores access) ----
template<class Tag, typename Tag::type M> struct rob
{
  friend typename Tag::type get(Tag) { return M; }
};
#define VERIF_ROB(tag, cls, mtype, member)            \
  struct tag { using type = mtype cls::*; friend type get(tag); }; \
  template struct rob<tag, &cls::member>;

VERIF_ROB(iga_sig, individual<i_ga>, hash_t, signature_)
VERIF_ROB(ide_sig, individual<i_de>, hash_t, signature_)
VERIF_ROB(imep_sig, individual<i_mep>, hash_t, signature_)
VERIF_ROB(dist_m2, distribution<double>, double, m2_)
VERIF_ROB(dist_mean, distribution<double>, double, mean_)
VERIF_ROB(dist_min, distribution<double>, double, min_)
VERIF_ROB(dist_max, distribution<double>, double, max_)

inline std::string u(std::uint64_t x) { return std::to_string(x); }
inline std::string d(double x) { return std::to_string(verif::bits(x)); }

struct desc
{
  std::string s;
  desc &operator<<(const std::string &t) { if (!s.empty()) s += ' '; s += t; return *this; }
  desc &operator<<(std::uint64_t x) { return *this << u(x); }
  desc &i(std::int64_t x) { return *this << std::to_string(x); }
  desc &f(double x) { return *this << d(x); }
};

// ---- descriptions ----------------------------------------------------------------------
inline std::string enc(const hash_t &h) { desc o; o << h.data[0] << h.data[1]; return o.s; }
inline std::string enc(const fitness_t &f)
{
  desc o; o << f.size();
  for (auto v : f) o.f(v);
  return o.s;
}
inline std::string enc(const i_ga &x)
{
  desc o; o << x.age() << x.parameters();
  for (auto g : x) o.i(g);
  return o.s;
}
inline std::string enc(const i_de &x)
{
  desc o; o << x.age() << x.parameters();
  for (auto g : x) o.f(g);
  return o.s;
}
template<class T> std::string enc(const matrix<T> &m)
{
  desc o; o << m.cols();
  std::uint64_t n(0);
  for (auto it(m.begin()); it != m.end(); ++it) ++n;
  o << n;
  for (auto e : m) o.i(static_cast<std::int64_t>(e));
  return o.s;
}
inline std::string enc(const distribution<double> &x)
{
  desc o;
  o << x.count();
  o.f(x.*get(dist_mean())).f(x.*get(dist_min())).f(x.*get(dist_max())).f(x.*get(dist_m2()));
  o << x.seen().size();
  for (const auto &kv : x.seen()) { o.f(kv.first); o << kv.second; }
  return o.s;
}

// deep snapshot used by the C12 oracle (description + raw cached signature + consistency)
inline std::string snap(const hash_t &h) { return enc(h); }
inline std::string snap(const fitness_t &f) { return enc(f); }
inline std::string snap(const i_ga &x)
{ return enc(x) + " sig=" + enc(x.*get(iga_sig())) + " valid=" + u(x.is_valid()); }
inline std::string snap(const i_de &x)
{ return enc(x) + " sig=" + enc(x.*get(ide_sig())) + " valid=" + u(x.is_valid()); }
template<class T> std::string snap(const matrix<T> &m) { return enc(m) + " rows=" + u(m.rows()); }
inline std::string snap(const distribution<double> &x) { return enc(x) + " valid=" + u(x.is_valid()); }

// ---- save / load wrappers --------------------------------------------------------------
template<class T> std::string save_bytes(const T &x, bool *ok = nullptr)
{
  std::ostringstream o;
  const bool r(x.save(o));
  if (ok) *ok = r;
  return o.str();
}

// ---- random doubles ----------------------------------------------------------------------
inline double rnd_double(splitmix &r, bool extreme = true)
{
  for (;;)
  {
    double v;
    switch (r.below(extreme ? 10 : 6))
    {
    case 0: v = double(r.between(-20, 21)); break;
    case 1: v = double(r.between(-1000000, 1000001)) / 1000.0; break;
    case 2: v = (double(r.next() >> 11) / 9007199254740992.0 - 0.5) * 2000.0; break;
    case 3: v = std::ldexp(double(r.next() >> 11) / 9007199254740992.0 - 0.5, int(r.between(-60, 60))); break;
    case 4: v = -877.04100000000005 + double(r.between(0, 3)); break;
    case 5: v = (double(r.next() >> 11) / 9007199254740992.0) * 1e6; break;
    case 6: v = verif::from_bits(r.next()); break;                       // any bit pattern
    case 7:
    {
      static const double tab[] = {0.0, -0.0, std::numeric_limits<double>::max(),
                                   std::numeric_limits<double>::lowest(),
                                   std::numeric_limits<double>::min(),
                                   std::numeric_limits<double>::denorm_min(),
                                   -std::numeric_limits<double>::denorm_min(),
                                   std::numeric_limits<double>::epsilon(), 1e22, 1e23, 9007199254740993.0,
                                   0.1, 1.0 / 3.0, 2.2250738585072009e-308, 1.7976931348623157e308};
      v = tab[r.below(sizeof(tab) / sizeof(tab[0]))];
      break;
    }
    case 8: v = std::ldexp(1.0 + double(r.next() >> 12) / 4503599627370496.0, int(r.between(-1074, 1024))); break;
    default: v = verif::from_bits(r.next() & 0x800fffffffffffffull); break;  // subnormals
    }
    if (std::isfinite(v)) return v;
  }
}

// ---- the property's own oracle for C11: reload into a fresh object -------------------------
// Returns "ok" or "bad:<reason>".
template<class T, class Fresh, class Load, class Obs>
std::string roundtrip(const T &x, Fresh fresh, Load load, Obs obs)
{
  bool sok(false);
  const std::string bytes(save_bytes(x, &sok));
  if (!sok) return "bad:save-returned-false";
  T y(fresh());
  std::istringstream in(bytes);
  if (!load(y, in)) return "bad:load-failed";
  const std::string ox(obs(x)), oy(obs(y));
  if (ox != oy) return "bad:reloaded-object-differs";
  bool sok2(false);
  const std::string again(save_bytes(y, &sok2));
  if (!sok2 || again != bytes) return "bad:resave-differs";
  return "ok";
}

}  // namespace c11

#endif
