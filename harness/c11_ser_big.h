// generators for the composite types (i_mep, team, population, summary, cache)
#ifndef VERIF_C11_SER_BIG_H
#define VERIF_C11_SER_BIG_H

#include "c11_big.h"
#include "c11_lambda.h"

namespace
{

// a `pre` line is flushed before the reload is attempted: if the real load() is stopped by the
// sanitizer the driver still knows which object (and which tags) it died on
void pre(const std::string &type, unsigned k, const std::string &tags)
{
  std::cout << "pre " << type << ' ' << k << ' ' << (tags.empty() ? "-" : tags) << std::endl;
}

void gen_imep(splitmix &r, unsigned n)
{
  for (unsigned k(0); k < n; ++k)
  {
    const i_mep x(make_imep(r));
    unsigned npar(0), nonint(0);
    for (index_t i(0); i < x.size(); ++i)
      for (category_t c(0); c < x.categories(); ++c)
        if (mep_env::has_par(x[locus{i, c}].sym))
        {
          ++npar;
          const double p(x[locus{i, c}].par);
          if (p != std::floor(p) || std::fabs(p) >= 1e6) ++nonint;
        }
    const std::string tags("genes=" + u(x.size() * x.categories()) + ",erc=" + u(npar) + ",erc_nontrivial=" + u(nonint ? 1 : 0));
    pre("imep", k, tags);
    emit("imep", enc(x), save_bytes(x),
         roundtrip(x, [] { return i_mep(); },
                   [](i_mep &y, std::istream &in) { return y.load(in, M().prob.sset); },
                   [](const i_mep &y) { return obs(y); }),
         tags);
  }
}

void gen_team(splitmix &r, unsigned n)
{
  for (unsigned k(0); k < n; ++k)
  {
    const team<i_mep> x(make_team(r));
    const std::string tags("members=" + u(x.individuals()));
    pre("team", k, tags);
    emit("team", enc(x), save_bytes(x),
         roundtrip(x, [] { return team<i_mep>(); },
                   [](team<i_mep> &y, std::istream &in) { return y.load(in, M().prob.sset); },
                   [](const team<i_mep> &y) { return obs(y); }),
         tags);
  }
}

void gen_pop(splitmix &r, unsigned n)
{
  for (unsigned k(0); k < n; ++k)
  {
    const population<i_mep> x(make_pop(r));
    unsigned partial(0);
    for (unsigned l(0); l < x.layers(); ++l)
      if (x.individuals(l) < x.allowed(l)) partial = 1;
    // the fresh object is what a caller has at hand: a population of the same problem
    const unsigned short0(x.individuals(0) < M().prob.env.individuals ? 1 : 0);
    const std::string tags("layers=" + u(x.layers()) + ",partial=" + u(partial) + ",short0=" + u(short0)
                           + ",individuals=" + u(x.individuals()));
    pre("pop", k, tags);
    const bool valid_before(x.is_valid());
    std::string verdict(
      roundtrip(x, [] { return population<i_mep>(M().prob); },
                [](population<i_mep> &y, std::istream &in) { return y.load(in, M().prob); },
                [](const population<i_mep> &y) { return obs(y); }));
    if (verdict == "ok" && valid_before)
    {
      population<i_mep> y(M().prob);
      std::istringstream in(save_bytes(x));
      if (y.load(in, M().prob) && !y.is_valid()) verdict = "bad:reloaded-object-fails-is_valid";
    }
    emit("pop", enc(x), save_bytes(x), verdict, tags);
  }
}

void gen_summ(splitmix &r, unsigned n)
{
  for (unsigned k(0); k < n; ++k)
  {
    const summary<i_mep> x(make_summ(r));
    const std::string tags("known=" + u(x.best.solution.empty() ? 0 : 1));
    pre("summ", k, tags);
    emit("summ", enc(x), save_bytes(x),
         roundtrip(x, [] { return summary<i_mep>(); },
                   [](summary<i_mep> &y, std::istream &in) { return y.load(in, M().prob); },
                   [](const summary<i_mep> &y) { return obs(y); }),
         tags);
  }
}

void gen_cache(splitmix &r, unsigned n)
{
  for (unsigned k(0); k < n; ++k)
  {
    cache_case x(make_cache(r));
    for (auto j(r.below(8)); j; --j)       // keys never inserted (the empty signature is not a key)
    {
      const hash_t h(make_hash(r));
      if (!h.empty()) x.keys.push_back(h);
    }
    const std::string tags("bits=" + u(x.bits) + ",clears=" + u(x.clears) + ",stale=" + u(x.stale));
    pre("cache", k, tags);
    bool sok(false);
    const std::string bytes(save_bytes(*x.c, &sok));
    std::string verdict("ok");
    if (!sok) verdict = "bad:save-returned-false";
    else
    {
      cache y(x.bits);
      std::istringstream in(bytes);
      if (!y.load(in)) verdict = "bad:load-failed";
      else if (lookups(y, x.keys) != lookups(*x.c, x.keys)) verdict = "bad:reloaded-object-differs";
      else if (save_bytes(y) != bytes) verdict = "bad:resave-differs";
    }
    emit("cache", enc_cache(*x.c, x.bits), bytes, verdict, tags);
  }
}

void gen_lambda(splitmix &r, unsigned n)
{
  register_lambda_kinds();
  for (unsigned k(0); k < n; ++k)
  {
    const lam_case x(make_lambda(r));
    const std::string tags("kind=" + u(unsigned(x.kind)) + ",prob=" + u(unsigned(prob_id(x.prob))));
    pre("lam", k, tags);
    bool sok(false);
    const std::string bytes(lambda_bytes(*x.model, &sok));
    std::string verdict("ok");
    if (!sok) verdict = "bad:save-returned-false";
    else
    {
      std::unique_ptr<basic_src_lambda_f> y;
      std::istringstream in(bytes);
      try
      {
        y = x.kind < 4 ? serialize::lambda::load<i_mep>(in, x.prob->sset)
                       : serialize::lambda::load<team<i_mep>>(in, x.prob->sset);
      }
      catch (const std::exception &) { verdict = "bad:load-threw"; }
      if (verdict == "ok")
      {
        const std::uint64_t ps(r.next());
        if (!y) verdict = "bad:load-failed";
        else if (!y->is_valid()) verdict = "bad:reloaded-object-fails-is_valid";
        else if (predictions(*y, *x.prob, ps) != predictions(*x.model, *x.prob, ps))
          verdict = "bad:reloaded-object-differs";
        else if (lambda_bytes(*y) != bytes) verdict = "bad:resave-differs";
      }
    }
    emit("lam", x.description, bytes, verdict, tags, symtab_of(x.prob->sset));
  }
}

template<class W> void gen_big(std::uint64_t seed, unsigned n, W want)
{
  const auto rs([&](unsigned k) { return splitmix(seed * 1000003ull + k); });
  { auto r(rs(11)); if (want("imep")) gen_imep(r, n); }
  { auto r(rs(12)); if (want("team")) gen_team(r, n); }
  { auto r(rs(13)); if (want("pop")) gen_pop(r, n); }
  { auto r(rs(14)); if (want("summ")) gen_summ(r, n); }
  { auto r(rs(15)); if (want("cache")) gen_cache(r, n); }
  { auto r(rs(16)); if (want("lam")) gen_lambda(r, n); }
}

}  // namespace
#endif
