// generators for the composite types (i_mep, team, population, summary, cache, models)
#ifndef VERIF_C11_SER_BIG_H
#define VERIF_C11_SER_BIG_H
namespace
{
template<class W> void gen_big(std::uint64_t, unsigned, W) {}
}
#endif
