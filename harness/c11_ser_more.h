// round-3 generators (see c11_more.h); included by c11_ser.cc after c11_ser_big.h
#ifndef VERIF_C11_SER_MORE_H
#define VERIF_C11_SER_MORE_H

#include "c11_more.h"

namespace
{

template<class T> void gen_mat_any(splitmix &r, unsigned n, const char *type)
{
  for (unsigned k(0); k < n; ++k)
  {
    const matrix<T> m(make_mat_any<T>(r));
    unsigned ws(0);
    if constexpr (sizeof(T) == 1)
      for (auto e : m) { const int v(int(static_cast<unsigned char>(e))); if (v == 32 || (v >= 9 && v <= 13)) ws = 1; }
    const std::string tags("rows=" + u(m.rows()) + ",cols=" + u(m.cols()) + ",ws=" + u(ws));
    pre(type, k, tags);
    emit(type, enc_mat(m), save_bytes(m),
         roundtrip(m, [] { return matrix<T>(); },
                   [](matrix<T> &y, std::istream &in) { return y.load(in); },
                   [](const matrix<T> &y) { return enc_mat(y) + " rows=" + u(y.rows()); }),
         tags);
  }
}

void gen_teamga(splitmix &r, unsigned n)
{
  for (unsigned k(0); k < n; ++k)
  {
    ga_ctx c(r);
    std::vector<i_ga> v;
    for (auto j(1 + r.below(5)); j; --j) v.push_back(c.ind(r));
    const team<i_ga> x(v);
    const std::string tags("members=" + u(x.individuals()));
    pre("teamga", k, tags);
    emit("teamga", enc(x), save_bytes(x),
         roundtrip(x, [] { return team<i_ga>(); },
                   [&c](team<i_ga> &y, std::istream &in) { return y.load(in, c.e.prob.sset); },
                   [](const team<i_ga> &y) { return obs(y); }),
         tags);
  }
}

template<class T, class C> void gen_pop_of(splitmix &r, unsigned n, const char *type)
{
  for (unsigned k(0); k < n; ++k)
  {
    C c(r);
    const population<T> x(make_pop_of<T>(r, c));
    unsigned partial(0);
    for (unsigned l(0); l < x.layers(); ++l)
      if (x.individuals(l) < x.allowed(l)) partial = 1;
    const std::string tags("layers=" + u(x.layers()) + ",partial=" + u(partial) + ",individuals=" + u(x.individuals()));
    pre(type, k, tags);
    emit(type, enc_pop(x), save_bytes(x),
         roundtrip(x, [&c] { return population<T>(c.e.prob); },
                   [&c](population<T> &y, std::istream &in) { return y.load(in, c.e.prob); },
                   [](const population<T> &y) { return obs_pop(y); }),
         tags);
  }
}

template<class T, class C> void gen_summ_of(splitmix &r, unsigned n, const char *type)
{
  for (unsigned k(0); k < n; ++k)
  {
    C c(r);
    const summary<T> x(make_summ_of<T>(r, c));
    const std::string tags("known=" + u(x.best.solution.empty() ? 0 : 1));
    pre(type, k, tags);
    emit(type, enc_summ(x), save_bytes(x),
         roundtrip(x, [] { return summary<T>(); },
                   [&c](summary<T> &y, std::istream &in) { return y.load(in, c.e.prob); },
                   [](const summary<T> &y) { return obs_summ(y); }),
         tags);
  }
}

// a pool of programs and a history of queries / clears on a proxy
struct proxy_case
{
  unsigned bits;
  bool persist;
  std::uint64_t probe = 0;
  std::vector<i_mep> pool;
  std::unique_ptr<proxy_t> p;
  unsigned clears = 0;
};

void proxy_history(splitmix &r, proxy_case &k, evaluator<i_mep> &eva)
{
  for (auto j(r.below(80)); j; --j)
    switch (r.below(12))
    {
    case 0: eva.clear(); ++k.clears; break;
    default: (void)eva(k.pool[r.below(k.pool.size())]); break;
    }
}

void gen_proxy(splitmix &r, unsigned n)
{
  for (unsigned k(0); k < n; ++k)
  {
    proxy_case x;
    x.bits = 7 + unsigned(r.below(3));
    x.persist = r.below(2) == 0;
    for (auto j(2 + r.below(30)); j; --j) x.pool.push_back(make_imep(r, false, 10));
    x.p = std::make_unique<proxy_t>(counting_eva(x.persist, &x.probe), x.bits);
    proxy_history(r, x, *x.p);
    const std::string tags("bits=" + u(x.bits) + ",persist=" + u(x.persist) + ",clears=" + u(x.clears));
    pre("proxy", k, tags);
    const std::string description(enc_proxy(*x.p, x.bits));
    bool sok(false);
    const std::string bytes(save_bytes(*x.p, &sok));
    std::string verdict("ok");
    if (!sok) verdict = "bad:save-returned-false";
    else
    {
      std::uint64_t probe2(0);
      proxy_t y(counting_eva(x.persist, &probe2), x.bits);
      std::istringstream in(bytes);
      if (!y.load(in)) verdict = "bad:load-failed";
      else if (enc_proxy(y, x.bits) != description) verdict = "bad:reloaded-object-differs";
      else if (save_bytes(y) != bytes) verdict = "bad:resave-differs";
      else
      {
        // programs never seen as well: both proxies must call the real evaluator on them
        std::vector<i_mep> probes(x.pool);
        for (auto j(r.below(6)); j; --j) probes.push_back(make_imep(r, false, 10));
        if (answers(y, probes, probe2) != answers(*x.p, probes, x.probe)) verdict = "bad:reloaded-object-differs";
        else if (save_bytes(y) != save_bytes(*x.p)) verdict = "bad:resave-differs";
      }
    }
    emit("proxy", description, bytes, verdict, tags, u(x.bits) + " " + u(x.persist));
  }
}

void gen_search(splitmix &r, unsigned n)
{
  const std::string dir(tmp_dir());
  for (unsigned k(0); k < n; ++k)
  {
    problem &prob(M().prob);
    const unsigned bits(r.below(8) ? 7 + unsigned(r.below(3)) : 0);      // 0: no cache, the evaluator is not wrapped
    const bool named(r.below(10) != 0);
    const std::string path(dir + "/c11_search_" + std::to_string(::getpid()) + ".txt");
    std::remove(path.c_str());
    prob.env.cache_size = bits;
    prob.env.misc.serialization_file = named ? path : std::string();
    std::vector<i_mep> pool;
    for (auto j(2 + r.below(24)); j; --j) pool.push_back(make_imep(r, false, 10));

    std::uint64_t probe1(0), probe2(0);
    probe_search s1(prob);
    s1.training_evaluator<counting_eva>(false, &probe1);
    unsigned clears(0);
    for (auto j(r.below(70)); j; --j)
      if (r.below(14) == 0) { s1.eva().clear(); ++clears; }
      else (void)s1.eva()(pool[r.below(pool.size())]);
    const std::string tags("bits=" + u(bits) + ",named=" + u(named) + ",clears=" + u(clears));
    pre("search", k, tags);
    // named bits persist count cache: what the file holds (a fresh cache when nothing is written)
    const std::string head(u(named) + " " + u(bits) + " 0 0 ");
    const std::string description(head + (named && bits
      ? enc_cache(static_cast<proxy_t &>(s1.eva()).*get(proxy_cache_tag()), bits) : u(bits) + " 1 0"));
    s1.close();                                   // search::save()
    bool exists(false);
    const std::string bytes(slurp(path, &exists));
    std::string verdict("ok");
    if (exists != named) verdict = named ? "bad:file-not-written" : "bad:file-written-without-a-name";
    else
    {
      const auto code_len(prob.env.mep.code_length);
      probe_search s2(prob);
      s2.training_evaluator<counting_eva>(false, &probe2);
      s2.init();                                  // tune_parameters() + search::load()
      prob.env.mep.code_length = code_len;
      if (named && bits)
      {
        proxy_t &p1(static_cast<proxy_t &>(s1.eva())), &p2(static_cast<proxy_t &>(s2.eva()));
        if (enc_proxy(p2, bits) != enc_proxy(p1, bits)) verdict = "bad:reloaded-object-differs";
        else if (save_bytes(p2) != bytes) verdict = "bad:resave-differs";
        else if (answers(p2, pool, probe2) != answers(p1, pool, probe1)) verdict = "bad:reloaded-object-differs";
        else
        {
          // both evaluators have now answered the same queries: they must still save to the same file
          s1.close();
          const std::string again1(slurp(path));
          s2.close();
          if (slurp(path) != again1) verdict = "bad:resave-differs";
        }
      }
      else if (named && !bytes.empty()) verdict = "bad:file-not-empty-without-cache";
    }
    std::remove(path.c_str());
    prob.env.misc.serialization_file.clear();
    emit("search", description, bytes, verdict, tags, u(named) + " " + u(bits));
  }
}

// histories of `serialize::lambda::load<T>` calls on freshly saved models against an initially empty factory
void gen_lamfac(splitmix &r, unsigned n)
{
  namespace sl = vita::serialize::lambda;
  for (unsigned k(0); k < n; ++k)
  {
    sl::detail::factory_.clear();
    const unsigned calls(1 + unsigned(r.below(6)));
    desc o; o << calls;
    std::string out, verdict("ok");
    std::string first_bytes;
    for (unsigned c(0); c < calls; ++c)
    {
      const lam_case x(make_lambda(r));
      // mostly the matching T; sometimes the other one (the default template argument is i_mep)
      const bool model_team(x.kind >= 4);
      const bool as_team(r.below(3) ? model_team : !model_team);
      o << (as_team ? 1u : 0u) << unsigned(x.kind);
      const std::string bytes(lambda_bytes(*x.model));
      if (c == 0) first_bytes = bytes;
      std::unique_ptr<basic_src_lambda_f> y;
      std::istringstream in(bytes);
      try
      {
        y = as_team ? sl::load<team<i_mep>>(in, x.prob->sset) : sl::load<i_mep>(in, x.prob->sset);
      }
      catch (const std::exception &) { y = nullptr; out += 'x'; continue; }
      const bool good(y && lambda_bytes(*y) == bytes);
      out += y ? (good ? '1' : 'd') : '0';
      // the property's own part: with the T of the model the load must reproduce it
      if (as_team == model_team && !good) verdict = "bad:load-failed";
    }
    pre("lamfac", k, "calls=" + u(calls));
    emit("lamfac", o.s, first_bytes, verdict, "calls=" + u(calls) + ",out=" + out);
  }
  register_lambda_kinds();
}

void gen_flt(unsigned n)
{
  const std::vector<double> v(boundary_doubles());
  unsigned k(0);
  for (double x : v)
  {
    if (k >= n) break;
    std::ostringstream o;
    save_float_to_stream(o, x);
    o << '\n';
    std::string verdict("ok");
    double y(0.0);
    std::istringstream in(o.str());
    if (!load_float_from_stream(in, &y)) verdict = "bad:load-failed";
    else if (verif::bits(y) != verif::bits(x)) verdict = "bad:reloaded-object-differs";
    emit("flt", d(x), o.str(), verdict, std::string("sub=") + (std::fabs(x) < std::numeric_limits<double>::min() ? "1" : "0"));
    ++k;
  }
}

// ---- `ld` mode: the real load of bytes given on stdin (used when the model's save differs from vita's:
// the real load must read the model's bytes back to the same object) ---------------------------------------
//   ld <type> <ctx> <hex>   ->   ok x <description>   |   fail
template<class T, class L, class E> std::string ld_one(T y, const std::string &bytes, L load, E encf)
{
  std::istringstream in(bytes);
  try
  {
    if (!load(y, in)) return "fail";
  }
  catch (const std::exception &) { return "fail"; }
  return "ok x " + encf(y);
}

template<class T> std::string ld_mat(const std::string &bytes)
{
  return ld_one(matrix<T>(), bytes, [](matrix<T> &y, std::istream &in) { return y.load(in); },
                [](const matrix<T> &y) { return enc_mat(y); });
}

inline int ld_loop()
{
  splitmix r0(7);
  ga_ctx ga(r0);
  de_ctx de(r0);
  std::string line;
  while (std::getline(std::cin, line))
  {
    const auto t(verif::split(line));
    if (t.size() < 4 || t[0] != "ld") { std::cout << "bad-op\n"; continue; }
    const std::string &type(t[1]);
    const std::string bytes(verif::unhex(t.back()));
    std::string a("bad-op");
    if (type == "matl") a = ld_mat<long>(bytes);
    else if (type == "matul") a = ld_mat<unsigned long>(bytes);
    else if (type == "mats") a = ld_mat<short>(bytes);
    else if (type == "matus") a = ld_mat<unsigned short>(bytes);
    else if (type == "matc") a = ld_mat<char>(bytes);
    else if (type == "matsc") a = ld_mat<signed char>(bytes);
    else if (type == "matuc") a = ld_mat<unsigned char>(bytes);
    else if (type == "teamga")
      a = ld_one(team<i_ga>(), bytes, [&](team<i_ga> &y, std::istream &in) { return y.load(in, ga.e.prob.sset); },
                 [](const team<i_ga> &y) { return enc(y); });
    else if (type == "popga")
      a = ld_one(population<i_ga>(ga.e.prob), bytes,
                 [&](population<i_ga> &y, std::istream &in) { return y.load(in, ga.e.prob); },
                 [](const population<i_ga> &y) { return enc_pop(y); });
    else if (type == "popde")
      a = ld_one(population<i_de>(de.e.prob), bytes,
                 [&](population<i_de> &y, std::istream &in) { return y.load(in, de.e.prob); },
                 [](const population<i_de> &y) { return enc_pop(y); });
    else if (type == "summga")
      a = ld_one(summary<i_ga>(), bytes, [&](summary<i_ga> &y, std::istream &in) { return y.load(in, ga.e.prob); },
                 [](const summary<i_ga> &y) { return enc_summ(y); });
    else if (type == "summde")
      a = ld_one(summary<i_de>(), bytes, [&](summary<i_de> &y, std::istream &in) { return y.load(in, de.e.prob); },
                 [](const summary<i_de> &y) { return enc_summ(y); });
    else if (type == "proxy" && t.size() >= 5)
    {
      const unsigned bits(unsigned(std::stoul(t[2])));
      const bool persist(t[3] != "0");
      std::uint64_t probe(0);
      proxy_t y(counting_eva(persist, &probe), bits);
      std::istringstream in(bytes);
      a = y.load(in) ? "ok x " + enc_proxy(y, bits) : std::string("fail");
    }
    else if (type == "flt")
    {
      double y(0.0);
      std::istringstream in(bytes);
      a = load_float_from_stream(in, &y) ? "ok x " + d(y) : std::string("fail");
    }
    std::cout << a << std::endl;
  }
  return 0;
}

template<class W> void gen_more(std::uint64_t seed, unsigned n, W want)
{
  const auto rs([&](unsigned k) { return splitmix(seed * 1000003ull + k); });
  { auto r(rs(21)); if (want("matl")) gen_mat_any<long>(r, n, "matl"); }
  { auto r(rs(22)); if (want("matul")) gen_mat_any<unsigned long>(r, n, "matul"); }
  { auto r(rs(23)); if (want("mats")) gen_mat_any<short>(r, n, "mats"); }
  { auto r(rs(24)); if (want("matus")) gen_mat_any<unsigned short>(r, n, "matus"); }
  { auto r(rs(25)); if (want("matc")) gen_mat_any<char>(r, n, "matc"); }
  { auto r(rs(26)); if (want("matsc")) gen_mat_any<signed char>(r, n, "matsc"); }
  { auto r(rs(27)); if (want("matuc")) gen_mat_any<unsigned char>(r, n, "matuc"); }
  { auto r(rs(31)); if (want("teamga")) gen_teamga(r, n); }
  { auto r(rs(32)); if (want("popga")) gen_pop_of<i_ga, ga_ctx>(r, n, "popga"); }
  { auto r(rs(33)); if (want("popde")) gen_pop_of<i_de, de_ctx>(r, n, "popde"); }
  { auto r(rs(34)); if (want("summga")) gen_summ_of<i_ga, ga_ctx>(r, n, "summga"); }
  { auto r(rs(35)); if (want("summde")) gen_summ_of<i_de, de_ctx>(r, n, "summde"); }
  { auto r(rs(41)); if (want("proxy")) gen_proxy(r, n); }
  { auto r(rs(42)); if (want("search")) gen_search(r, n); }
  { auto r(rs(43)); if (want("lamfac")) gen_lamfac(r, n); }
  if (want("flt")) gen_flt(n);
}

}  // namespace
#endif
