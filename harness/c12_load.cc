// C12 harness: feeds (damaged / truncated) byte strings to the REAL load functions on a target
// that holds unrelated valid content and reports, per request line
//     ld <type> <target-seed> <hex bytes>
// one answer line
//     <ok|fail|exc:<what>> <same|changed> <description of the target after the call> [## <where>]
// `same/changed` is the property's own oracle: a deep snapshot of the target taken before the call compared
// with one taken after it.  The snapshot has two parts:
//   * c12m::deep  EVERY data member of the target, recursively (member list generated from the clang AST:
//                 harness/c12_members_gen.h, value rules in harness/c12_snap.h);
//   * snap        the observable description + raw cached signature + is_valid() (c11_ser.h / c11_big.h).
// `## <where>` names the first member that differs (outermost -> innermost) when `changed`.
// The request `stats` answers the visit / populated counters of the deep snapshot and the histogram of the
// target features.
// Allocation requests above 64 MiB throw std::bad_alloc (a damaged element count must not take
// the harness down); such exceptions are reported as exc:bad_alloc.
//
// The requests are read from a duplicate of stdin and fd 0 is re-opened on /dev/null: the targets of type
// summary come from real evolution runs, and evolution::run polls the keyboard (std::cin).
#include "c11_big.h"

#include "c11_alloc.h"

#include "c12_snap.h"
#include "c12_targets.h"

#include <fcntl.h>
#include <unistd.h>

using namespace c11;

namespace
{

template<class T, class Load, class Snap, class Enc>
std::string run_load(const std::string &tag, T &target, const std::string &bytes, Load load, Snap snapf, Enc encf)
{
  const auto deep_before(c12m::deep(tag, target));
  const std::string before(snapf(target));
  std::istringstream in(bytes);
  std::string verdict;
  try
  {
    verdict = load(target, in) ? "ok" : "fail";
  }
  catch (const std::bad_alloc &) { verdict = "exc:bad_alloc"; }
  catch (const std::length_error &) { verdict = "exc:length_error"; }
  catch (const vita::exception::data_format &) { verdict = "exc:data_format"; }
  catch (const std::exception &e) { verdict = std::string("exc:std:") + typeid(e).name(); }
  // every member first (no precondition), then the observers (is_valid() of a torn target may trap)
  const auto deep_after(c12m::deep(tag, target));
  const std::string where(c12m::first_difference(deep_before, deep_after));
  const std::string after(snapf(target));
  const bool same(where == "-" && before == after);
  return verdict + (same ? " same " : " changed ") + encf(target)
         + (same || verdict == "ok" ? std::string() : " ## " + (where == "-" ? std::string("observers") : where));
}

}  // namespace

#include "c12_load_big.h"

int main()
{
  vita::log::reporting_level = vita::log::lOFF;
  // requests on a private descriptor, keyboard = /dev/null
  const int req_fd(dup(0));
  const int nul(open("/dev/null", O_RDONLY));
  if (req_fd < 0 || nul < 0 || dup2(nul, 0) < 0) { std::cout << "bad-stdin\n"; return 2; }
  FILE *req(fdopen(req_fd, "r"));
  if (!req) { std::cout << "bad-stdin\n"; return 2; }

  (void)c11::M();      // the symbol sets are built first, in the same order as in c11_ser:
  (void)c11::L();      // same opcodes
  char *buf(nullptr);
  std::size_t cap(0);
  ssize_t got;
  while ((got = getline(&buf, &cap, req)) >= 0)
  {
    std::string line(buf, std::size_t(got));
    while (!line.empty() && (line.back() == '\n' || line.back() == '\r')) line.pop_back();
    const auto t(verif::split(line));
    if (t.size() == 1 && t[0] == "stats") { std::cout << c12m::stats_line() << "\n"; std::cout.flush(); continue; }
    if (t.size() == 1 && t[0] == "symcats")
    {
      // opcode:category of every symbol of the harness's symbol set (for the opcode substitutions)
      std::string o("symcats");
      for (auto sy : c11::M().syms) o += ' ' + std::to_string(sy->opcode()) + ':' + std::to_string(sy->category());
      std::cout << o << "\n";
      std::cout.flush();
      continue;
    }
    if (t.size() < 4 || t[0] != "ld") { std::cout << "bad-op\n"; std::cout.flush(); continue; }
    const std::string &type(t[1]);
    const std::uint64_t tseed(std::stoull(t[2]));
    const std::string bytes(verif::unhex(t[3]));
    splitmix r(tseed);
    vita::random::seed(unsigned(tseed * 31 + 7));

    if (type == "hash")
    {
      hash_t x(make_hash(r));
      std::cout << run_load(type, x, bytes, [](hash_t &y, std::istream &in) { return y.load(in); },
                            [](const hash_t &y) { return snap(y); }, [](const hash_t &y) { return enc(y); })
                << "\n";
    }
    else if (type == "fit")
    {
      fitness_t x(make_fit(r, false));
      std::cout << run_load(type, x, bytes, [](fitness_t &y, std::istream &in) { return y.load(in); },
                            [](const fitness_t &y) { return snap(y); },
                            [](const fitness_t &y) { return enc(y); })
                << "\n";
    }
    else if (type == "iga")
    {
      i_ga x(make_iga(r));
      (void)x.signature();   // the cached signature is part of the target's state
      std::cout << run_load(type, x, bytes, [](i_ga &y, std::istream &in) { return y.load(in); },
                            [](const i_ga &y) { return snap(y); }, [](const i_ga &y) { return enc(y); })
                << "\n";
    }
    else if (type == "ide")
    {
      i_de x(make_ide(r));
      (void)x.signature();
      std::cout << run_load(type, x, bytes, [](i_de &y, std::istream &in) { return y.load(in); },
                            [](const i_de &y) { return snap(y); }, [](const i_de &y) { return enc(y); })
                << "\n";
    }
    else if (type == "mati")
    {
      matrix<int> x(make_mat<int>(r));
      std::cout << run_load(type, x, bytes, [](matrix<int> &y, std::istream &in) { return y.load(in); },
                            [](const matrix<int> &y) { return snap(y); },
                            [](const matrix<int> &y) { return enc(y); })
                << "\n";
    }
    else if (type == "matu")
    {
      matrix<unsigned> x(make_mat<unsigned>(r));
      std::cout << run_load(type, x, bytes, [](matrix<unsigned> &y, std::istream &in) { return y.load(in); },
                            [](const matrix<unsigned> &y) { return snap(y); },
                            [](const matrix<unsigned> &y) { return enc(y); })
                << "\n";
    }
    else if (type == "dist")
    {
      distribution<double> x(make_dist(r, false));
      std::cout << run_load(type, x, bytes, [](distribution<double> &y, std::istream &in) { return y.load(in); },
                            [](const distribution<double> &y) { return snap(y); },
                            [](const distribution<double> &y) { return enc(y); })
                << "\n";
    }
    else if (type == "lam")
      std::cout << c12big::load_lambda(unsigned(tseed), bytes) << "\n";
    else if (type == "cache")
      std::cout << c12big::load_cache(unsigned(tseed), bytes) << "\n";
    else if (type == "cachet")
      std::cout << c12big::load_cache_target(r, bytes) << "\n";
    else if (!c12big::dispatch(type, tseed, r, bytes))
      std::cout << "bad-op\n";
    std::cout.flush();
  }
  std::free(buf);
  return 0;
}
