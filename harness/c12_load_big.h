// C12: targets and load wrappers for the composite types
#ifndef VERIF_C12_LOAD_BIG_H
#define VERIF_C12_LOAD_BIG_H
namespace c12big
{
inline bool dispatch(const std::string &, c11::splitmix &, const std::string &) { return false; }
}
#endif
