// C12: targets and load wrappers for the composite types
#ifndef VERIF_C12_LOAD_BIG_H
#define VERIF_C12_LOAD_BIG_H

#include "c11_big.h"
#include "c11_lambda.h"
#include "c12_targets.h"

namespace c12big
{
using namespace c11;

// Building a target by its history costs more than the load under test: the last few targets are kept (keyed by
// the target seed) and COPIED for each request (the copy carries every member, cached signatures included).
template<class T, class Make> T cached_target(std::uint64_t tseed, Make make)
{
  static std::map<std::uint64_t, T> cache;
  static std::vector<std::uint64_t> order;
  auto it(cache.find(tseed));
  if (it == cache.end())
  {
    if (order.size() >= 24)
    {
      cache.erase(order.front());
      order.erase(order.begin());
    }
    it = cache.emplace(tseed, make()).first;
    order.push_back(tseed);
  }
  return it->second;
}

inline bool dispatch(const std::string &type, std::uint64_t tseed, splitmix &r, const std::string &bytes)
{
  if (type == "imep")
  {
    i_mep x(cached_target<i_mep>(tseed, [&r] { return c12t::make_target_imep(r); }));
    std::cout << run_load(type, x, bytes, [](i_mep &y, std::istream &in) { return y.load(in, M().prob.sset); },
                          [](const i_mep &y) { return snap(y); }, [](const i_mep &y) { return enc(y); })
              << "\n";
    return true;
  }
  if (type == "team")
  {
    team<i_mep> x(cached_target<team<i_mep>>(tseed, [&r] { return c12t::make_target_team(r); }));
    std::cout << run_load(type, x, bytes,
                          [](team<i_mep> &y, std::istream &in) { return y.load(in, M().prob.sset); },
                          [](const team<i_mep> &y) { return snap(y); },
                          [](const team<i_mep> &y) { return enc(y); })
              << "\n";
    return true;
  }
  if (type == "pop")
  {
    population<i_mep> x(cached_target<population<i_mep>>(tseed, [&r] { return c12t::make_target_pop(r); }));
    std::cout << run_load(type, x, bytes,
                          [](population<i_mep> &y, std::istream &in) { return y.load(in, M().prob); },
                          [](const population<i_mep> &y) { return snap(y); },
                          [](const population<i_mep> &y) { return enc(y); })
              << "\n";
    return true;
  }
  if (type == "summ")
  {
    summary<i_mep> x(cached_target<summary<i_mep>>(tseed, [&r] { return c12t::make_target_summ(r); }));
    std::cout << run_load(type, x, bytes,
                          [](summary<i_mep> &y, std::istream &in) { return y.load(in, M().prob); },
                          [](const summary<i_mep> &y) { return snap(y); },
                          [](const summary<i_mep> &y) { return enc(y); })
              << "\n";
    return true;
  }
  return false;
}

// `ld lam <problem id> <hex>`: the stream constructors of the trained models, through
// serialize::lambda::load.  There is no target; the documented outcomes are a model, nullptr (unknown
// id / no id) and exception::data_format.  On success the model is saved again (for the comparison with
// the Lean model's load-then-save).
inline std::string load_lambda(unsigned prob, const std::string &bytes)
{
  static bool reg((register_lambda_kinds(), true));
  (void)reg;
  std::istringstream in(bytes);
  std::unique_ptr<basic_src_lambda_f> y;
  try
  {
    y = serialize::lambda::load<i_mep>(in, prob_of(prob).sset);
  }
  catch (const vita::exception::data_format &) { return "exc:data_format same -"; }
  catch (const std::bad_alloc &) { return "exc:bad_alloc same -"; }
  catch (const std::length_error &) { return "exc:length_error same -"; }
  catch (const std::exception &e) { return std::string("exc:std:") + typeid(e).name() + " same -"; }
  if (!y) return "null same -";
  return "ok same " + verif::hex(lambda_bytes(*y));
}

// `ld cachet <target seed> <hex>`: cache::load on a cache populated by a history (insert / clear / find).
// Outside the property's list (documented "could be changed"): the check only requires what the flow
// analysis proves, i.e. that a failed load modifies nothing but `table_`.
inline std::string load_cache_target(splitmix &r, const std::string &bytes)
{
  cache_case k(make_cache(r));
  const unsigned bits(k.bits);
  return run_load("cachet", *k.c, bytes, [](cache &y, std::istream &in) { return y.load(in); },
                  [bits](const cache &y) { return enc_cache(y, bits); },
                  [bits](const cache &y) { return enc_cache(y, bits); });
}

// `ld cache <bits> <hex>`: cache::load is outside C12 (documented "could be changed"); the entry is
// used by the C11 check to load bytes produced by the Lean model into a fresh cache
inline std::string load_cache(unsigned bits, const std::string &bytes)
{
  if (bits < 1 || bits > 20) return "bad-op";
  cache c(bits);
  std::istringstream in(bytes);
  const bool ok(c.load(in));
  return std::string(ok ? "ok" : "fail") + " changed " + enc_cache(c, bits);
}
}  // namespace c12big
#endif
