// C12: load targets built by histories that POPULATE every data member.
//
// A failed load that tears a member can only be observed on a target in which that member holds
// something (a moved-from empty analyzer is an empty analyzer).  The targets used by c12_load are therefore
//   * summary    : (a) the summary of a REAL evolution run (evolution<i_mep, alps_es>::run on the harness's
//                  symbol set: analyzer with per-symbol / per-layer statistics, best individual, counters,
//                  elapsed time), afterwards perturbed; (b) a hand-assembled summary whose analyzer received
//                  several `add`s in several groups;
//   * population : several layers, layers of different size, aged individuals, cached signatures;
//   * team       : members of different age, cached signatures of the team and of the members;
//   * i_mep      : also blocks (`get_block`: active code not starting at locus [0,0]), every crossover flavour.
// c12m::feature() counts what was actually produced (reported in the evidence).
#ifndef VERIF_C12_TARGETS_H
#define VERIF_C12_TARGETS_H

#include "c11_big.h"
#include "c12_snap.h"

namespace c12t
{
using namespace c11;

// a deterministic, cheap fitness: distance of the program's outputs from x^2 + 1 on a few points
class toy_evaluator final : public evaluator<i_mep>
{
public:
  fitness_t operator()(const i_mep &x) override
  {
    static const double in[] = {0.0, 1.0, -2.5, 3.0};
    double err(0.0);
    for (double v : in)
    {
      M().z->val = v;
      const auto res(run(x));
      double o(1000.0);
      if (res.index() == 2 && std::isfinite(std::get<D_DOUBLE>(res)))
        o = std::min(1000.0, std::fabs(std::get<D_DOUBLE>(res) - (v * v + 1.0)));
      err += o;
    }
    return {-err, -double(x.active_symbols())};
  }
};

struct env_guard
{
  environment saved;
  env_guard() : saved(M().prob.env) {}
  ~env_guard() { M().prob.env = saved; }
};

// the summary of a real evolution (pool entry k: own seeds, independent of the request order)
inline summary<i_mep> evolve_summary(unsigned k)
{
  env_guard g;
  auto &env(M().prob.env);
  env.mep.code_length = 6 + k % 7;
  env.individuals = 12 + 3 * (k % 4);
  env.min_individuals = 2;
  env.layers = 2 + k % 3;
  env.generations = 3 + k % 5;
  env.alps.age_gap = 2;
  vita::random::seed(7001 + k);
  toy_evaluator eva;
  evolution<i_mep, alps_es> evo(M().prob, eva);
  return evo.run(1);
}

inline const summary<i_mep> &pool_summary(unsigned k)
{
  constexpr unsigned K = 12;
  static std::vector<std::unique_ptr<summary<i_mep>>> pool(K);
  k %= K;
  if (!pool[k]) pool[k] = std::make_unique<summary<i_mep>>(evolve_summary(k));
  return *pool[k];
}

inline summary<i_mep> make_target_summ(splitmix &r)
{
  summary<i_mep> x;
  if (r.below(2))
  {
    x = pool_summary(unsigned(r.below(1000)));
    c12m::feature("summ:evolved");
    // life goes on after the run
    if (r.below(2)) x.best.score.accuracy = double(r.below(1001)) / 1000.0;
    if (r.below(2)) x.best.score.is_solution = true;
    if (r.below(3) == 0) x.elapsed += std::chrono::milliseconds(1 + r.below(100000));
    if (r.below(3) == 0) x.last_imp = unsigned(r.below(x.gen + 1));
  }
  else
  {
    x = make_summ(r);
    c12m::feature("summ:assembled");
    const unsigned groups(1 + unsigned(r.below(3))), fsize(1 + unsigned(r.below(3)));
    for (auto j(1 + r.below(12)); j; --j)    // (one analyzer, one fitness size: precondition of the statistics)
      x.az.add(make_imep(r, false, 10), rnd_fitness(r, fsize), unsigned(r.below(groups)));
    x.best.score.is_solution = r.below(2);
    if (x.best.solution.empty() && r.below(2))
    {
      // a score without a solution is not part of the record either
      x.best.score.fitness = make_fit(r, false);
      x.best.score.accuracy = 0.5;
    }
  }
  if (!x.best.solution.empty()) (void)x.best.solution.signature();
  return x;
}

inline population<i_mep> make_target_pop(splitmix &r)
{
  population<i_mep> x(make_pop(r));
  // several layers of different size, aged individuals
  if (r.below(4))
  {
    const unsigned want(2 + unsigned(r.below(3)));
    while (x.layers() < want)
    {
      x.add_layer();
      const unsigned l(x.layers() - 1);
      for (auto k(r.below(x.individuals(l) + 1)); k && x.individuals(l) > 1; --k) x.pop_from_layer(l);
    }
    for (auto k(r.below(4)); k; --k) x.inc_age();
    for (unsigned l(0); l < x.layers(); ++l)
      if (x.individuals(l) && r.below(2))
        x[{l, unsigned(r.below(x.individuals(l)))}] = make_imep(r, false, 10);
  }
  for (unsigned l(0); l < x.layers(); ++l)
    for (unsigned i(0); i < x.individuals(l); ++i) (void)x[{l, i}].signature();
  c12m::feature("pop:layers=" + std::to_string(x.layers()));
  return x;
}

inline team<i_mep> make_target_team(splitmix &r)
{
  team<i_mep> x(make_team(r));
  if (r.below(3))
  {
    // members of different age
    std::vector<i_mep> v(x.begin(), x.end());
    for (auto &m : v)
      for (auto k(r.below(4)); k; --k) m.inc_age();
    x = team<i_mep>(v);
  }
  bool differ(false);
  for (const auto &m : x)
  {
    (void)m.signature();
    differ = differ || m.age() != x.begin()->age();
  }
  (void)x.signature();
  c12m::feature(std::string("team:members=") + std::to_string(x.individuals()) + (differ ? ":ages-differ" : ""));
  return x;
}

inline i_mep make_target_imep(splitmix &r)
{
  i_mep x(make_imep(r, false));
  if (r.below(3) == 0)
  {
    // a block: the active code starts somewhere else than [0,0]
    const auto bl(x.blocks());
    if (!bl.empty())
    {
      auto it(bl.begin());
      std::advance(it, long(r.below(bl.size())));
      x = x.get_block(*it);
      c12m::feature("imep:block");
    }
  }
  (void)x.signature();      // the cached signature is part of the target's state
  c12m::feature(std::string("imep:best=") + (x.best() == locus{0, 0} ? "origin" : "elsewhere"));
  return x;
}

}  // namespace c12t
#endif
