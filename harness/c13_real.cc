// C13 correspondence harness: runs the real primitives of real.h (and str::ife) on argument
// tuples read from stdin and prints the outcome and the argument positions that were requested.
//   names                                 -> the primitives driven here
//   run <name> <par:16hex> <v0> … <v4>    -> <outcome> <asked i,j,… | ->
//   fn <op> <a:16hex> <b:16hex>           -> 16hex   (the C++ operator / libm function itself)
// The same lines are answered by the Lean driver from the generated terms.
#include "c01_wire.h"

#include "kernel/vita.h"
#include "kernel/gp/src/primitive/real.h"
#include "kernel/gp/src/primitive/string.h"

#include <cmath>
#include <map>
#include <memory>
#include <variant>

namespace
{
struct params : vita::symbol_params
{
  std::vector<vita::value_t> a;
  double par = 0.0;
  std::vector<unsigned> asked;
  vita::value_t fetch_arg(unsigned i) override { asked.push_back(i); return a.at(i); }
  vita::value_t fetch_opaque_arg(unsigned i) override { return fetch_arg(i); }
  vita::terminal_param_t fetch_param() const override { return par; }
};

double fn(const std::string &op, double a, double b, bool &ok)
{
  ok = true;
  if (op == "add") return a + b;
  if (op == "sub") return a - b;
  if (op == "mul") return a * b;
  if (op == "div") return a / b;
  if (op == "neg") return -a;
  if (op == "fabs") return std::fabs(a);
  if (op == "floor") return std::floor(a);
  if (op == "sqrt") return std::sqrt(a);
  if (op == "log") return std::log(a);
  if (op == "exp") return std::exp(a);
  if (op == "sin") return std::sin(a);
  if (op == "cos") return std::cos(a);
  if (op == "fmod") return std::fmod(a, b);
  if (op == "fmin") return std::fmin(a, b);
  if (op == "fmax") return std::fmax(a, b);
  if (op == "isfinite") return std::isfinite(a) ? 1.0 : 0.0;
  if (op == "lt") return std::isless(a, b) ? 1.0 : 0.0;
  if (op == "le") return a <= b ? 1.0 : 0.0;
  if (op == "eq") return a == b ? 1.0 : 0.0;
  ok = false;
  return 0.0;
}
}  // namespace

int main()
{
  using namespace vita;
  log::reporting_level = log::lOFF;

  std::vector<std::pair<std::string, std::unique_ptr<symbol>>> prim;
  auto add = [&](const char *n, std::unique_ptr<symbol> s) { prim.emplace_back(n, std::move(s)); };
  add("real", std::make_unique<real::real>(cvect{0}));
  add("integer", std::make_unique<real::integer>(cvect{0}));
  add("abs", std::make_unique<real::abs>(cvect{0}));
  add("add", std::make_unique<real::add>(cvect{0}));
  add("aq", std::make_unique<real::aq>(cvect{0}));
  add("cos", std::make_unique<real::cos>(cvect{0}));
  add("div", std::make_unique<real::div>(cvect{0}));
  add("gt", std::make_unique<real::gt>(cvect{0, 0}));
  add("idiv", std::make_unique<real::idiv>(cvect{0}));
  add("ifb", std::make_unique<real::ifb>(cvect{0, 0}));
  add("ife", std::make_unique<real::ife>(cvect{0, 0}));
  add("ifl", std::make_unique<real::ifl>(cvect{0, 0}));
  add("ifz", std::make_unique<real::ifz>(cvect{0}));
  add("length", std::make_unique<real::length>(cvect{0, 0}));
  add("ln", std::make_unique<real::ln>(cvect{0}));
  add("lt", std::make_unique<real::lt>(cvect{0, 0}));
  add("max", std::make_unique<real::max>(cvect{0}));
  add("mod", std::make_unique<real::mod>(cvect{0}));
  add("mul", std::make_unique<real::mul>(cvect{0}));
  add("sin", std::make_unique<real::sin>(cvect{0}));
  add("sqrt", std::make_unique<real::sqrt>(cvect{0}));
  add("sub", std::make_unique<real::sub>(cvect{0}));
  add("sigmoid", std::make_unique<real::sigmoid>(cvect{0}));
  add("sife", std::make_unique<str::ife>(cvect{0, 0}));

  std::string line;
  while (std::getline(std::cin, line))
  {
    const auto t = verif::split(line);
    if (t.empty()) continue;
    try
    {
      if (t[0] == "names")
      {
        std::string s;
        for (auto &kv : prim) s += (s.empty() ? "" : " ") + kv.first;
        std::cout << s << "\n";
      }
      else if (t[0] == "run" && t.size() >= 3)
      {
        const symbol *sym = nullptr;
        for (auto &kv : prim) if (kv.first == t[1]) sym = kv.second.get();
        if (!sym) { std::cout << "bad-op\n"; continue; }
        params p;
        p.par = verif::from_bits(std::stoull(t[2], nullptr, 16));
        for (std::size_t i = 3; i < t.size(); ++i) p.a.push_back(wire::dec(t[i]));
        while (p.a.size() < 5) p.a.push_back(value_t());
        std::string out;
        try { out = wire::enc(sym->eval(p)); }
        catch (const std::bad_variant_access &) { out = "T"; }
        std::string as;
        for (auto i : p.asked) as += (as.empty() ? "" : ",") + std::to_string(i);
        std::cout << out << " " << (as.empty() ? "-" : as) << "\n";
      }
      else if (t[0] == "fn" && t.size() == 4)
      {
        bool ok;
        const double r = fn(t[1], verif::from_bits(std::stoull(t[2], nullptr, 16)),
                            verif::from_bits(std::stoull(t[3], nullptr, 16)), ok);
        std::cout << (ok ? wire::hex16(verif::bits(r)) : std::string("bad-op")) << "\n";
      }
      else
        std::cout << "bad-op\n";
    }
    catch (const std::exception &)
    {
      std::cout << "bad-op\n";
    }
  }
  return 0;
}
