// C13 correspondence harness: runs the real primitives of real.h (and str::ife) on argument
// tuples read from stdin and prints the outcome and the argument positions that were requested.
//   names                                 -> the primitives driven here
//   run <name> <par:16hex> <v0> … <v4>    -> <outcome> <asked i,j,… | ->
//   fn <op> <a:16hex> <b:16hex>           -> 16hex   (the C++ operator / libm function itself)
//   init real <min:16hex> <upp:16hex> <seed> | init integer <min> <upp> <seed>
//                                         -> <16hex> <parametric 0|1>   (terminal::init() after random::seed)
//   pen <i0> <i1> <i2> <i3>               -> 16hex   symbol::penalty() of a FIFE/FIFL gene whose arguments sit
//                                            at rows i0..i3 (through interpreter<i_mep>::penalty())
//   lex - <text:hex>                      -> the value of the constant symbol_factory::make(text) builds | exc
// names beyond the real family: bzero bone band bnot bor (bool.h), var<k> (variable reading feature k; the
// values of the line are the example), cdbl (constant<double>, value = <par>), cint / cstr (value = <v0>)
// The same lines are answered by the Lean driver from the generated terms.
#include "c01_wire.h"

#include "kernel/vita.h"
#include "kernel/gp/src/primitive/real.h"
#include "kernel/gp/src/primitive/string.h"
#include "kernel/gp/src/primitive/bool.h"
#include "kernel/gp/src/constant.h"
#include "kernel/gp/src/variable.h"

#include <cmath>
#include <map>
#include <memory>
#include <variant>

namespace
{
struct params : vita::symbol_params
{
  std::vector<vita::value_t> a;
  double par = 0.0;
  std::vector<unsigned> asked;
  vita::value_t fetch_arg(unsigned i) override { asked.push_back(i); return a.at(i); }
  vita::value_t fetch_opaque_arg(unsigned i) override { return fetch_arg(i); }
  vita::terminal_param_t fetch_param() const override { return par; }
  vita::value_t fetch_var(unsigned i) override { return i < a.size() ? a[i] : vita::value_t(); }
};

double fn(const std::string &op, double a, double b, bool &ok)
{
  ok = true;
  if (op == "add") return a + b;
  if (op == "sub") return a - b;
  if (op == "mul") return a * b;
  if (op == "div") return a / b;
  if (op == "neg") return -a;
  if (op == "fabs") return std::fabs(a);
  if (op == "floor") return std::floor(a);
  if (op == "sqrt") return std::sqrt(a);
  if (op == "log") return std::log(a);
  if (op == "exp") return std::exp(a);
  if (op == "sin") return std::sin(a);
  if (op == "cos") return std::cos(a);
  if (op == "fmod") return std::fmod(a, b);
  if (op == "fmin") return std::fmin(a, b);
  if (op == "fmax") return std::fmax(a, b);
  if (op == "isfinite") return std::isfinite(a) ? 1.0 : 0.0;
  if (op == "lt") return std::isless(a, b) ? 1.0 : 0.0;
  if (op == "le") return a <= b ? 1.0 : 0.0;
  if (op == "eq") return a == b ? 1.0 : 0.0;
  ok = false;
  return 0.0;
}
}  // namespace

int main()
{
  using namespace vita;
  log::reporting_level = log::lOFF;

  std::vector<std::pair<std::string, std::unique_ptr<symbol>>> prim;
  auto add = [&](const char *n, std::unique_ptr<symbol> s) { prim.emplace_back(n, std::move(s)); };
  add("real", std::make_unique<real::real>(cvect{0}));
  add("integer", std::make_unique<real::integer>(cvect{0}));
  add("abs", std::make_unique<real::abs>(cvect{0}));
  add("add", std::make_unique<real::add>(cvect{0}));
  add("aq", std::make_unique<real::aq>(cvect{0}));
  add("cos", std::make_unique<real::cos>(cvect{0}));
  add("div", std::make_unique<real::div>(cvect{0}));
  add("gt", std::make_unique<real::gt>(cvect{0, 0}));
  add("idiv", std::make_unique<real::idiv>(cvect{0}));
  add("ifb", std::make_unique<real::ifb>(cvect{0, 0}));
  add("ife", std::make_unique<real::ife>(cvect{0, 0}));
  add("ifl", std::make_unique<real::ifl>(cvect{0, 0}));
  add("ifz", std::make_unique<real::ifz>(cvect{0}));
  add("length", std::make_unique<real::length>(cvect{0, 0}));
  add("ln", std::make_unique<real::ln>(cvect{0}));
  add("lt", std::make_unique<real::lt>(cvect{0, 0}));
  add("max", std::make_unique<real::max>(cvect{0}));
  add("mod", std::make_unique<real::mod>(cvect{0}));
  add("mul", std::make_unique<real::mul>(cvect{0}));
  add("sin", std::make_unique<real::sin>(cvect{0}));
  add("sqrt", std::make_unique<real::sqrt>(cvect{0}));
  add("sub", std::make_unique<real::sub>(cvect{0}));
  add("sigmoid", std::make_unique<real::sigmoid>(cvect{0}));
  add("sife", std::make_unique<str::ife>(cvect{0, 0}));
  add("bzero", std::make_unique<boolean::zero>(cvect{0}));
  add("bone", std::make_unique<boolean::one>(cvect{0}));
  add("band", std::make_unique<boolean::l_and>(cvect{0}));
  add("bnot", std::make_unique<boolean::l_not>(cvect{0}));
  add("bor", std::make_unique<boolean::l_or>(cvect{0}));
  const std::vector<std::string> ext_names{"cdbl", "cint", "cstr", "var"};

  std::string line;
  while (std::getline(std::cin, line))
  {
    const auto t = verif::split(line);
    if (t.empty()) continue;
    try
    {
      if (t[0] == "names")
      {
        std::string s;
        for (auto &kv : prim) s += (s.empty() ? "" : " ") + kv.first;
        for (auto &n : ext_names) s += " " + n;
        std::cout << s << "\n";
      }
      else if (t[0] == "init" && t.size() == 5)
      {
        random::seed(unsigned(std::stoul(t[4])));
        if (t[1] == "real")
        {
          const real::real r(cvect{0}, verif::from_bits(std::stoull(t[2], nullptr, 16)),
                             verif::from_bits(std::stoull(t[3], nullptr, 16)));
          std::cout << wire::hex16(verif::bits(r.init())) << " " << (r.parametric() ? 1 : 0) << "\n";
        }
        else
        {
          const real::integer r(cvect{0}, int(std::stoll(t[2])), int(std::stoll(t[3])));
          std::cout << wire::hex16(verif::bits(r.init())) << " " << (r.parametric() ? 1 : 0) << "\n";
        }
      }
      else if (t[0] == "pen" && t.size() == 5)
      {
        // a FIFE gene at row 0 whose four arguments are rows i0..i3 of a single-category genome of REAL terminals
        static const real::ife fife(cvect{0, 0});
        static const real::ifl fifl(cvect{0, 0});
        static const real::real num(cvect{0});
        std::vector<index_t> ix;
        index_t top = 1;
        for (int k = 1; k <= 4; ++k) { ix.push_back(index_t(std::stoul(t[k]))); top = std::max<index_t>(top, ix.back()); }
        std::string both;
        for (const symbol *f : {static_cast<const symbol *>(&fife), static_cast<const symbol *>(&fifl)})
        {
          std::vector<gene> gv;
          gv.emplace_back(std::make_pair(const_cast<symbol *>(f), std::vector<index_t>(ix.begin(), ix.end())));
          for (index_t r = 1; r <= top; ++r) gv.emplace_back(num);
          const i_mep ind(gv);
          interpreter<i_mep> it(&ind);
          both += (both.empty() ? "" : " ") + wire::hex16(verif::bits(it.penalty()));
        }
        std::cout << both << "\n";
      }
      else if (t[0] == "lex" && t.size() == 3)
      {
        // what symbol_factory::make(text) builds for a token that is not a registered name
        std::string out;
        try
        {
          symbol_factory f;
          const auto sy = f.make(verif::unhex(t[2]), cvect{0});
          params p;
          out = sy ? wire::enc(sy->eval(p)) : std::string("null");
        }
        catch (const std::exception &) { out = "exc"; }
        std::cout << out << "\n";
      }
      else if (t[0] == "run" && t.size() >= 3)
      {
        const symbol *sym = nullptr;
        for (auto &kv : prim) if (kv.first == t[1]) sym = kv.second.get();
        params p;
        p.par = verif::from_bits(std::stoull(t[2], nullptr, 16));
        for (std::size_t i = 3; i < t.size(); ++i) p.a.push_back(wire::dec(t[i]));
        while (p.a.size() < 5) p.a.push_back(value_t());
        std::unique_ptr<symbol> tmp;
        if (!sym)
        {
          if (t[1] == "cdbl")
          {
            // through the text constructor with 17 significant digits (constant<double>(double) itself goes
            // through std::to_string, i.e. six decimals: the object then holds the rounded value by design)
            char buf[40];
            std::snprintf(buf, sizeof buf, "%.17g", p.par);
            tmp = std::make_unique<constant<double>>(std::string(buf));
          }
          else if (t[1] == "cint" && p.a[0].index() == 1) tmp = std::make_unique<constant<int>>(std::get<int>(p.a[0]));
          else if (t[1] == "cstr" && p.a[0].index() == 3)
            tmp = std::make_unique<constant<std::string>>(std::get<std::string>(p.a[0]));
          else if (t[1].rfind("var", 0) == 0 && t[1].size() > 3)
            tmp = std::make_unique<variable>("X", unsigned(std::stoul(t[1].substr(3))));
          sym = tmp.get();
        }
        if (!sym) { std::cout << "bad-op\n"; continue; }
        std::string out;
        try { out = wire::enc(sym->eval(p)); }
        catch (const std::bad_variant_access &) { out = "T"; }
        std::string as;
        for (auto i : p.asked) as += (as.empty() ? "" : ",") + std::to_string(i);
        std::cout << out << " " << (as.empty() ? "-" : as) << "\n";
      }
      else if (t[0] == "fn" && t.size() == 4)
      {
        bool ok;
        const double r = fn(t[1], verif::from_bits(std::stoull(t[2], nullptr, 16)),
                            verif::from_bits(std::stoull(t[3], nullptr, 16)), ok);
        std::cout << (ok ? wire::hex16(verif::bits(r)) : std::string("bad-op")) << "\n";
      }
      else
        std::cout << "bad-op\n";
    }
    catch (const std::exception &)
    {
      std::cout << "bad-op\n";
    }
  }
  return 0;
}
