// C14 correspondence harness: runs the real integer primitives of int.h on operand
// tuples read from stdin (one per line: <name> x0 x1 x2 x3) and prints
//   ok <value>            the value returned
//   ub <value>            UBSan reported undefined behaviour while evaluating
// The same lines are answered by the Lean driver from the generated terms.
//   number <par:16hex>    integer::number::eval on a gene parameter  -> ok <int> | ub <int>
//   init <m> <u> <seed>   integer::number(c, m, u).init() after random::seed(seed) -> <16hex> (the parameter)
//   cast <value>          integer::cast(value_t)                     -> ok <int> | T
//   b64 <op> <a:16hex> <b:16hex|int>   the exact double operation itself (lt le eq isnan isfinite ofint trunc)
//   loadrun <par text>    i_mep::load of a three-row INT program whose parameters are <par text>, then vita::run
//                         -> load=<0|1> valid=<0|1> <ok v|ub v|T|V>
// (compiled with -fsanitize=float-cast-overflow: g++ does not include it in -fsanitize=undefined)
#define VERIF_UBSAN_HOOK
#include "c01_wire.h"

#include "kernel/vita.h"
#include "kernel/gp/src/primitive/int.h"

#include <cmath>
#include <map>
#include <memory>
#include <sstream>

namespace
{
struct params : vita::symbol_params
{
  std::vector<int> a;
  vita::value_t fetch_arg(unsigned i) override { return vita::value_t(a.at(i)); }
  vita::value_t fetch_opaque_arg(unsigned i) override { return fetch_arg(i); }
  double par = 0.0;
  vita::terminal_param_t fetch_param() const override { return par; }
};

std::string b64(const std::string &op, const std::string &x, const std::string &y)
{
  const double a = verif::from_bits(std::stoull(x, nullptr, 16));
  if (op == "ofint") return wire::hex16(verif::bits(static_cast<double>(std::stoll(y))));
  if (op == "isnan") return std::isnan(a) ? "1" : "0";
  if (op == "isfinite") return std::isfinite(a) ? "1" : "0";
  if (op == "trunc")
  {
    if (!std::isfinite(a)) return "none";
    if (!(std::fabs(a) < 9223372036854775808.0)) return "big";
    return std::to_string(static_cast<long long>(a));
  }
  const double b = verif::from_bits(std::stoull(y, nullptr, 16));
  if (op == "lt") return a < b ? "1" : "0";
  if (op == "le") return a <= b ? "1" : "0";
  if (op == "eq") return a == b ? "1" : "0";
  return "bad-op";
}
}

int main()
{
  using namespace vita;
  std::map<std::string, std::unique_ptr<symbol>> prim;
  prim["add"] = std::make_unique<integer::add>(cvect{0});
  prim["sub"] = std::make_unique<integer::sub>(cvect{0});
  prim["mul"] = std::make_unique<integer::mul>(cvect{0});
  prim["div"] = std::make_unique<integer::div>(cvect{0});
  prim["mod"] = std::make_unique<integer::mod>(cvect{0});
  prim["shl"] = std::make_unique<integer::shl>(cvect{0});
  prim["ife"] = std::make_unique<integer::ife>(cvect{0, 0});
  prim["ifl"] = std::make_unique<integer::ifl>(cvect{0, 0});
  prim["ifz"] = std::make_unique<integer::ifz>(cvect{0});

  log::reporting_level = log::lOFF;
  const integer::number number0(cvect{0});

  std::string line;
  while (std::getline(std::cin, line))
  {
    const auto t = verif::split(line);
    if (t.empty()) continue;
    if (t[0] == "number" && t.size() == 2)
    {
      params p;
      p.par = verif::from_bits(std::stoull(t[1], nullptr, 16));
      const auto before = verif::ubsan_reports;
      const value_t v = number0.eval(p);
      const bool ub = verif::ubsan_reports != before;
      std::cout << (ub ? "ub " : "ok ") << wire::enc(v) << "\n";
      continue;
    }
    if (t[0] == "init" && t.size() == 4)
    {
      const integer::number n(cvect{0}, int(std::stoll(t[1])), int(std::stoll(t[2])));
      random::seed(unsigned(std::stoul(t[3])));
      const auto before = verif::ubsan_reports;
      const double d = n.init();
      std::cout << wire::hex16(verif::bits(d)) << " " << (n.parametric() ? 1 : 0)
                << (verif::ubsan_reports != before ? " ub" : "") << "\n";
      continue;
    }
    if (t[0] == "cast" && t.size() == 2)
    {
      std::string out;
      try { out = "ok " + std::to_string(integer::cast(wire::dec(t[1]))); }
      catch (const std::bad_variant_access &) { out = "T"; }
      std::cout << out << "\n";
      continue;
    }
    if (t[0] == "b64" && t.size() == 4)
    {
      std::cout << b64(t[1], t[2], t[3]) << "\n";
      continue;
    }
    if (t[0] == "loadrun" && t.size() == 2)
    {
      // public API only: a symbol set with the INT ephemeral constant and ADD, an individual read
      // with i_mep::load, vita::run
      problem pr;
      pr.env.init();
      const auto *num = pr.sset.insert<integer::number>(cvect{0});
      const auto *add = pr.sset.insert<integer::add>(cvect{0});
      std::ostringstream txt;
      txt << "0\n3 1\n" << add->opcode() << " 1 2\n" << num->opcode() << " " << t[1] << "\n"
          << num->opcode() << " " << t[1] << "\n0 0\n";
      std::istringstream in(txt.str());
      i_mep ind;
      const bool ok = ind.load(in, pr.sset);
      std::cout << "load=" << ok;
      if (ok)
      {
        const bool valid = ind.is_valid();
        std::cout << " valid=" << valid;
        if (valid)
        {
          const auto before = verif::ubsan_reports;
          std::string out;
          try { out = wire::enc(run(ind)); }
          catch (const std::bad_variant_access &) { out = "T"; }
          std::cout << (verif::ubsan_reports != before ? " ub " : " ok ") << out;
        }
      }
      std::cout << "\n";
      continue;
    }
    if (t[0] == "names")
    {
      std::string s;
      for (auto &kv : prim) s += (s.empty() ? "" : " ") + kv.first;
      std::cout << s << "\n";
      continue;
    }
    auto it = prim.find(t[0]);
    if (it == prim.end()) { std::cout << "bad-op\n"; continue; }
    params p;
    for (std::size_t i = 1; i < t.size(); ++i) p.a.push_back(int(std::stoll(t[i])));
    while (p.a.size() < 4) p.a.push_back(0);
    const auto before = verif::ubsan_reports;
    const value_t v = it->second->eval(p);
    const bool ub = verif::ubsan_reports != before;
    std::cout << (ub ? "ub " : "ok ") << std::get<D_INT>(v) << "\n";
  }
  return 0;
}
