// C14 correspondence harness: runs the real integer primitives of int.h on operand
// tuples read from stdin (one per line: <name> x0 x1 x2 x3) and prints
//   ok <value>            the value returned
//   ub <value>            UBSan reported undefined behaviour while evaluating
// The same lines are answered by the Lean driver from the generated terms.
#define VERIF_UBSAN_HOOK
#include "common/verif.h"

#include "kernel/vita.h"
#include "kernel/gp/src/primitive/int.h"

#include <map>
#include <memory>

namespace
{
struct params : vita::symbol_params
{
  std::vector<int> a;
  vita::value_t fetch_arg(unsigned i) override { return vita::value_t(a.at(i)); }
  vita::value_t fetch_opaque_arg(unsigned i) override { return fetch_arg(i); }
  vita::terminal_param_t fetch_param() const override { return 0; }
};
}

int main()
{
  using namespace vita;
  std::map<std::string, std::unique_ptr<symbol>> prim;
  prim["add"] = std::make_unique<integer::add>(cvect{0});
  prim["sub"] = std::make_unique<integer::sub>(cvect{0});
  prim["mul"] = std::make_unique<integer::mul>(cvect{0});
  prim["div"] = std::make_unique<integer::div>(cvect{0});
  prim["mod"] = std::make_unique<integer::mod>(cvect{0});
  prim["shl"] = std::make_unique<integer::shl>(cvect{0});
  prim["ife"] = std::make_unique<integer::ife>(cvect{0, 0});
  prim["ifl"] = std::make_unique<integer::ifl>(cvect{0, 0});
  prim["ifz"] = std::make_unique<integer::ifz>(cvect{0});

  std::string line;
  while (std::getline(std::cin, line))
  {
    const auto t = verif::split(line);
    if (t.empty()) continue;
    if (t[0] == "names")
    {
      std::string s;
      for (auto &kv : prim) s += (s.empty() ? "" : " ") + kv.first;
      std::cout << s << "\n";
      continue;
    }
    auto it = prim.find(t[0]);
    if (it == prim.end()) { std::cout << "bad-op\n"; continue; }
    params p;
    for (std::size_t i = 1; i < t.size(); ++i) p.a.push_back(int(std::stoll(t[i])));
    while (p.a.size() < 4) p.a.push_back(0);
    const auto before = verif::ubsan_reports;
    const value_t v = it->second->eval(p);
    const bool ub = verif::ubsan_reports != before;
    std::cout << (ub ? "ub " : "ok ") << std::get<D_INT>(v) << "\n";
  }
  return 0;
}
