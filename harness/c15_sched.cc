// C15 schedule harness: systematic exploration and random replay of thread interleavings on the REAL
// vita::cache / vita::evaluator_proxy.
//
// Real threads operate on one real cache (or one real evaluator_proxy); a cooperative scheduler lets
// exactly one of them advance at a time from one scheduling point to the next.  Scheduling points:
//   * inside the cache's critical sections, from the guarded hook vita::verif_hook::sched_point
//     (src/kernel/cache.cc, -DVITA_VERIF):  find 10 (lock taken) / 11 (compared, before copy+release),
//     insert 20 / 21, clear() 30 / 31, clear(key) 40 / 41 (after acquisition / before release);
//   * inside load / save, from the stream the harness hands them: load parks when it starts reading
//     (50, the lock is held) and before every further entry (51.. : the previous entry is in the
//     table); save parks at its first write (60) and after the header / after entries (61..);
//   * harness level: 12 between find() returning and the caller using the result, 70 inside the
//     evaluator that evaluator_proxy::operator() calls on a miss (NO lock may be held there),
//     71 when the proxy has returned.
//
// Two phases per run:
//   A  systematic: for a list of small configurations (2-3 threads x 1-3 operations, keys that share
//      a slot and keys that do not, preloaded entries, seal at UINT_MAX, proxy calls) a depth-first
//      enumeration of ALL schedules with at most <pb> preemptions (stateless: every schedule is
//      re-executed from scratch on fresh threads and a fresh cache).  A transition is offered only if
//      the lock discipline EXTRACTED from cache.cc (argv, from tools/translate_cache_locks.py) lets the
//      thread have the lock - so with "find takes no lock" the lookups are driven into the writers'
//      critical sections without any timing;
//   B  random schedules on random configurations which also start operations that must block
//      (probes): the thread has to stay blocked for the probe time and must be woken by the release.
//
// Output: one line per macro step  `<step> = <observed outcome>[ | <oracle verdict>]`  (checked, line
// by line, against the Lean model by lean/Vita/C15/Driver.lean) and `#` comment lines.  Oracle of the
// harness itself: every lookup / proxy result / saved entry is nothing or L equal words that name the
// right key and a store that was started under it.  An acquisition that the specification of the
// readers-writer lock forbids is annotated `ovl <0|1>` (1: the two critical sections touch the same
// slot / the seal with at least one write - a data race at hook granularity).
// Timing never decides against the code: a step that must succeed is awaited for minutes, only steps
// expected to block are probed for a short time, and a thread found blocked is accepted as blocked.
//
// usage: c15_sched <seed> <dfs-cap-per-config> <random-configs> <random-schedules> <max-probes> <disc> <seal-atomic> <pb>
//        disc = 7 characters: lock of find, reference? (0/1), insert, clear(), clear(key), save, load
//               N none, S shared, X exclusive, U unknown (not the table's mutex)
#include "common/verif.h"

#include "kernel/vita.h"

#include <atomic>
#include <chrono>
#include <condition_variable>
#include <functional>
#include <mutex>
#include <set>
#include <thread>

namespace
{
using vita::fitness_t;
using vita::hash_t;

std::mutex G;
std::condition_variable CV;

enum class op_t {none, find, insert, clear, clearkey, save, load, proxy, quit};

struct opd
{
  op_t op = op_t::none;
  unsigned key = 0;                 // find / insert / clearkey / proxy
  unsigned vid = 0;                 // insert / proxy: id of the value
  unsigned seal = 1;                // load
  bool bad = false;                 // load: the image announces one entry more than it holds
  std::vector<std::pair<unsigned, unsigned>> entries;   // load: (key, id)
};

struct worker
{
  int id = 0;
  std::thread th;
  // protected by G
  opd cmd;
  bool has_cmd = false;
  int go = 0;
  unsigned long arrivals = 0;   // incremented whenever the thread parks or finishes its operation
  bool parked = false;
  int point = 0;
  std::string result;           // find / proxy: the value; save: the text; load: "1" / "0"
};

thread_local worker *tl_worker = nullptr;
thread_local bool tl_quiet = false;     // the thread is working on a private object: no scheduling points

void park(int point)
{
  worker *w(tl_worker);
  if (!w || tl_quiet) return;
  std::unique_lock lk(G);
  w->parked = true;
  w->point = point;
  ++w->arrivals;
  CV.notify_all();
  CV.wait(lk, [w] { return w->go > 0; });
  --w->go;
  w->parked = false;
}

const unsigned BITS = 7;
unsigned L = 3;

unsigned slot_of(unsigned k) { return k < 8 ? 5 : (k & 15); }
hash_t key_of(unsigned k) { return hash_t(std::uint64_t(slot_of(k)) + (std::uint64_t(k) << BITS), 1000 + k); }
unsigned key_from(std::uint64_t d0) { return unsigned(d0 >> BITS); }
double word_of(unsigned k, unsigned id) { return double(k * 100000u + id); }

fitness_t value_of(unsigned k, unsigned id)
{
  fitness_t::values_t v;
  for (unsigned i(0); i < L; ++i) v.push_back(word_of(k, id));
  return fitness_t(v);
}

std::string show_words(const fitness_t &f, const char *sep)
{
  std::string s;
  for (std::size_t i(0); i < f.size(); ++i)
  {
    const auto w(static_cast<unsigned long long>(f[i]));
    s += (i ? sep : "") + std::to_string(w / 100000u) + ":" + std::to_string(w % 100000u);
  }
  return s;
}
std::string show(const fitness_t &f) { return f.size() ? "r " + show_words(f, " ") : "r none"; }

// ---- streams with scheduling points ------------------------------------------------------------
class park_inbuf : public std::streambuf
{
public:
  park_inbuf(std::string d, std::vector<std::size_t> m) : data_(std::move(d)), marks_(std::move(m)) {}
protected:
  int_type underflow() override
  {
    if (gptr() && gptr() < egptr()) return traits_type::to_int_type(*gptr());
    if (seg_ + 1 >= marks_.size()) return traits_type::eof();
    park(50 + int(std::min<std::size_t>(seg_, 9)));
    char *b(data_.data());
    setg(b + marks_[seg_], b + marks_[seg_], b + marks_[seg_ + 1]);
    ++seg_;
    if (gptr() == egptr()) return underflow();
    return traits_type::to_int_type(*gptr());
  }
private:
  std::string data_;
  std::vector<std::size_t> marks_;   // segment boundaries: 0, end of header+entry 0, end of entry 1, ..., size
  std::size_t seg_ = 0;
};

class park_outbuf : public std::streambuf
{
public:
  std::string text;
protected:
  int_type overflow(int_type ch) override
  {
    if (first_) { first_ = false; park(60); }
    if (ch == traits_type::eof()) return 0;
    text.push_back(char(ch));
    if (ch == '\n' && ++newlines_ % 2 == 0 && parks_ < 2) { ++parks_; park(61); }
    return ch;
  }
private:
  bool first_ = true;
  int newlines_ = 0, parks_ = 0;
};

// ---- the shared object: a bare cache, or the cache inside an evaluator_proxy ---------------------
struct prog_t            // the "individual" handed to the proxy: only its signature matters
{
  unsigned k = 0, vid = 0;
  hash_t signature() const { return key_of(k); }
};

class eval_t : public vita::evaluator<prog_t>
{
public:
  fitness_t operator()(const prog_t &p) override
  {
    park(70);                       // evaluating: evaluator_proxy must hold no lock here
    return value_of(p.k, p.vid);
  }
};

struct shared_t
{
  std::unique_ptr<vita::cache> cache;
  std::unique_ptr<vita::evaluator_proxy<prog_t, eval_t>> proxy;

  void clear() { if (proxy) proxy->clear(); else cache->clear(); }
  bool load(std::istream &in) { return proxy ? proxy->load(in) : cache->load(in); }
  bool save(std::ostream &out) { return proxy ? proxy->save(out) : cache->save(out); }
};
shared_t *the_obj = nullptr;

void body(worker *w)
{
  tl_worker = w;
  for (;;)
  {
    opd c;
    {
      std::unique_lock lk(G);
      CV.wait(lk, [w] { return w->has_cmd; });
      c = w->cmd;
    }
    if (c.op == op_t::quit) return;
    std::string res;
    switch (c.op)
    {
    case op_t::find:
    {
      auto &&r(the_obj->cache->find(key_of(c.key)));   // a value - or, in a broken tree, a reference into the table
      park(12);                                        // ... the caller uses it later
      const fitness_t copy(r);
      res = show(copy);
      break;
    }
    case op_t::proxy:
    {
      prog_t p; p.k = c.key; p.vid = c.vid;
      const fitness_t f((*the_obj->proxy)(p));
      park(71);
      res = show(f);
      break;
    }
    case op_t::insert: the_obj->cache->insert(key_of(c.key), value_of(c.key, c.vid)); break;
    case op_t::clear: the_obj->clear(); break;
    case op_t::clearkey: the_obj->cache->clear(key_of(c.key)); break;
    case op_t::save:
    {
      park_outbuf ob;
      std::ostream os(&ob);
      the_obj->save(os);
      res = ob.text;
      break;
    }
    case op_t::load:
    {
      // the image: built with the real save on a private cache (no assumption about the text format)
      std::vector<std::string> parts;
      std::string header;
      {
        tl_quiet = true;
        for (const auto &e : c.entries)
        {
          vita::cache tmp(BITS);
          tmp.insert(key_of(e.first), value_of(e.first, e.second));
          std::ostringstream ss;
          tmp.save(ss);
          const std::string s(ss.str());
          std::size_t p(s.find('\n'));
          p = s.find('\n', p + 1);
          parts.push_back(s.substr(p + 1));
        }
        header = std::to_string(c.seal) + " \n" + std::to_string(c.entries.size() + (c.bad ? 1 : 0)) + "\n";
        tl_quiet = false;
      }
      std::string data(header);
      std::vector<std::size_t> marks{0};
      for (std::size_t i(0); i < parts.size(); ++i)
      {
        data += parts[i];
        marks.push_back(data.size());
      }
      if (parts.empty()) marks.push_back(data.size());
      park_inbuf ib(data, marks);
      std::istream is(&ib);
      res = the_obj->load(is) ? "1" : "0";
      break;
    }
    default: break;
    }
    std::unique_lock lk(G);
    w->has_cmd = false;
    w->result = res;
    w->point = 0;
    ++w->arrivals;
    CV.notify_all();
  }
}

using ms = std::chrono::milliseconds;
const ms SHORT(60);
ms LONG(600000);      // 10 minutes; 20 s when the extracted discipline is already known to be broken (the mirror of
                      // the lock is then a guess, and whatever is concluded from a time-out is reported as a broken tie)

// let `w` advance (give it a command or release it from its park) and wait for its next arrival
bool advance(worker &w, ms patience, const opd *cmd = nullptr, unsigned long *seen = nullptr)
{
  std::unique_lock lk(G);
  const auto before(w.arrivals);
  if (seen) *seen = before;
  if (cmd) { w.cmd = *cmd; w.has_cmd = true; }
  else ++w.go;
  CV.notify_all();
  return CV.wait_for(lk, patience, [&] { return w.arrivals != before; });
}

// ---- configurations -------------------------------------------------------------------------------
struct config
{
  unsigned L = 3;
  bool proxy = false;
  std::vector<opd> pre;                    // executed by thread 0, alone, before the interleaving
  std::vector<std::vector<opd>> prog;      // per thread
  std::string name;
};

opd mk(op_t op, unsigned key = 0) { opd o; o.op = op; o.key = key; return o; }
opd mkload(unsigned seal, std::vector<unsigned> keys, bool bad = false)
{
  opd o; o.op = op_t::load; o.seal = seal; o.bad = bad;
  for (auto k : keys) o.entries.push_back({k, 0});
  return o;
}
const unsigned SEAL_MAX = 4294967295u;

std::vector<config> core_configs()
{
  std::vector<config> cs;
  auto add = [&](const char *name, unsigned l, bool proxy, std::vector<opd> pre, std::vector<std::vector<opd>> prog) {
    config c; c.name = name; c.L = l; c.proxy = proxy; c.pre = std::move(pre); c.prog = std::move(prog); cs.push_back(c);
  };
  const op_t F(op_t::find), I(op_t::insert), C(op_t::clear), K(op_t::clearkey), S(op_t::save), P(op_t::proxy);
  add("find|insert-same-slot", 3, false, {mk(I, 1)}, {{mk(F, 1)}, {mk(I, 2)}});
  add("find|insert-other-slot", 3, false, {mk(I, 1)}, {{mk(F, 1)}, {mk(I, 9)}});
  add("find|insert-same-key", 2, false, {mk(I, 1)}, {{mk(F, 1)}, {mk(I, 1)}});
  add("find|clear", 3, false, {mk(I, 1)}, {{mk(F, 1)}, {mk(C)}});
  add("find|clearkey", 1, false, {mk(I, 1)}, {{mk(F, 1)}, {mk(K, 1)}});
  add("find|load", 3, false, {mk(I, 1)}, {{mk(F, 1)}, {mkload(1, {2, 9})}});
  add("find|loadbad", 2, false, {mk(I, 1)}, {{mk(F, 1)}, {mkload(1, {2, 9}, true)}});
  add("save|insert", 3, false, {mk(I, 1), mk(I, 9)}, {{mk(S)}, {mk(I, 2)}});
  add("save|load", 2, false, {mk(I, 1), mk(I, 9)}, {{mk(S)}, {mkload(1, {2, 10})}});
  add("wrap:find|clear", 5, false, {mkload(SEAL_MAX, {1, 9})}, {{mk(F, 1)}, {mk(C)}});
  add("wrap:save|clear", 3, false, {mkload(SEAL_MAX, {1, 9})}, {{mk(S)}, {mk(C)}});
  add("2x2", 3, false, {mk(I, 1)}, {{mk(F, 1), mk(F, 2)}, {mk(I, 2), mk(I, 1)}});
  add("3 threads", 3, false, {}, {{mk(F, 1)}, {mk(I, 1)}, {mk(I, 2)}});
  add("3 threads clear", 2, false, {mk(I, 1)}, {{mk(F, 1)}, {mk(I, 2)}, {mk(C)}});
  add("proxy|proxy-same-key", 3, true, {}, {{mk(P, 1)}, {mk(P, 1)}});
  add("proxy|proxy-same-slot", 3, true, {mk(P, 1)}, {{mk(P, 1)}, {mk(P, 2)}});
  add("proxy|clear", 2, true, {mk(P, 1)}, {{mk(P, 1)}, {mk(C)}});
  add("proxy|proxy|clear", 3, true, {}, {{mk(P, 1)}, {mk(P, 2)}, {mk(C)}});
  add("proxy|load", 3, true, {}, {{mk(P, 1)}, {mkload(1, {1, 2})}});
  add("proxy|save", 2, true, {mk(P, 9)}, {{mk(P, 1)}, {mk(S)}});
  return cs;
}

config random_config(verif::splitmix &rng, bool thorough)
{
  static const unsigned lens[] = {1, 2, 3, 5};
  static const unsigned keys[] = {1, 2, 3, 9, 10};
  config c;
  c.L = lens[rng.below(4)];
  c.proxy = rng.chance(0.3);
  c.name = c.proxy ? "random-proxy" : "random";
  const unsigned n(2 + unsigned(rng.below(thorough ? 3 : 2)));
  auto rnd_op = [&]() {
    const auto x(rng.below(100));
    const unsigned k(keys[rng.below(5)]);
    if (c.proxy)
    {
      if (x < 60) return mk(op_t::proxy, k);
      if (x < 75) return mk(op_t::clear);
      if (x < 88) return mk(op_t::save);
      return mkload(rng.chance(0.3) ? SEAL_MAX : 1 + unsigned(rng.below(2)), {keys[rng.below(5)], keys[rng.below(5)]},
                    rng.chance(0.2));
    }
    if (x < 35) return mk(op_t::find, k);
    if (x < 62) return mk(op_t::insert, k);
    if (x < 72) return mk(op_t::clear);
    if (x < 82) return mk(op_t::clearkey, k);
    if (x < 91) return mk(op_t::save);
    return mkload(rng.chance(0.3) ? SEAL_MAX : 1 + unsigned(rng.below(2)), {keys[rng.below(5)], keys[rng.below(5)]},
                  rng.chance(0.2));
  };
  const unsigned npre(unsigned(rng.below(3)));
  for (unsigned i(0); i < npre; ++i)
    c.pre.push_back(c.proxy ? mk(op_t::proxy, keys[rng.below(5)]) : mk(op_t::insert, keys[rng.below(5)]));
  c.prog.resize(n);
  for (auto &p : c.prog)
  {
    const unsigned len(1 + unsigned(rng.below(thorough ? 3 : 2)));
    for (unsigned i(0); i < len; ++i) p.push_back(rnd_op());
  }
  return c;
}

// ---- one schedule ---------------------------------------------------------------------------------
std::string DISC("S0XXXSX");
bool SEAL_ATOMIC(false);
long maybe_left(0);      // acquisitions of a lock the translator could not identify ('U'): tried and timed, while this lasts
unsigned long n_overlaps(0), n_bad(0);

enum class tri {no, yes, maybe};

struct cand { int t; bool probe; };

// chooser(candidates, last thread that moved) -> index into candidates, or -1 to stop choosing (drain)
using chooser_t = std::function<int(const std::vector<cand> &, int)>;

class schedule
{
public:
  schedule(const config &c, long *probes) : cfg(c), probes_left(probes), n(unsigned(c.prog.size())) {}

  void run(const chooser_t &choose)
  {
    L = cfg.L;
    shared_t obj;
    if (cfg.proxy) obj.proxy = std::make_unique<vita::evaluator_proxy<prog_t, eval_t>>(eval_t(), BITS);
    else obj.cache = std::make_unique<vita::cache>(BITS);
    the_obj = &obj;
    for (unsigned i(0); i < n; ++i)
    {
      ws.push_back(std::make_unique<worker>());
      ws.back()->id = int(i);
      ws.back()->th = std::thread(body, ws.back().get());
    }
    pc.assign(n, 0); pt.assign(n, 0); active.assign(n, false); cur.assign(n, opd());
    ids.assign(16, {}); next_id.assign(16, 0);
    std::cout << "init " << L << " " << n << " = init\n";

    // the prefix: thread 0 alone
    std::vector<opd> prog0(cfg.pre);
    prog0.insert(prog0.end(), cfg.prog[0].begin(), cfg.prog[0].end());
    progs = cfg.prog;
    progs[0] = prog0;
    while (!aborted && !(pc[0] >= cfg.pre.size() && !active[0])) step(0, false);
    std::cout << "# interleaving\n";

    int last(-1);
    for (;;)
    {
      if (aborted) break;
      std::vector<cand> cs(candidates());
      if (cs.empty()) break;
      const int i(choose(cs, last));
      if (i < 0) break;
      step(cs[i].t, cs[i].probe);
      last = cs[i].t;
    }
    drain();
    {
      std::unique_lock lk(G);
      for (auto &w : ws) { w->cmd.op = op_t::quit; w->has_cmd = true; w->go += 1000; }
      CV.notify_all();
    }
    for (auto &w : ws) w->th.join();
    the_obj = nullptr;
  }

  bool aborted = false;      // a thread that had to make progress did not: the schedule cannot be finished
  unsigned preemptions = 0;

  // transitions the extracted discipline lets happen now (+ probes while the budget lasts)
  std::vector<cand> candidates() const
  {
    std::vector<cand> cs;
    for (unsigned t(0); t < n; ++t)
    {
      if (int(t) == pending) continue;
      if (!active[t] && pc[t] >= progs[t].size()) continue;
      const char k(next_acquire(t));
      if (k == 0) { cs.push_back({int(t), false}); continue; }
      if (pending >= 0 && k != 'N') continue;     // no acquisition while a thread is queued on the lock: what the
                                                  // implementation then does (reader or writer preference) is not specified
      const tri e(enabled(k, int(t)));
      if (e == tri::yes) cs.push_back({int(t), false});
      else if (pending < 0 && (*probes_left > 0 || (e == tri::maybe && maybe_left > 0))) cs.push_back({int(t), true});
    }
    return cs;
  }

private:
  const config &cfg;
  long *probes_left;
  unsigned n;
  std::vector<std::unique_ptr<worker>> ws;
  std::vector<std::vector<opd>> progs;
  std::vector<std::size_t> pc;     // next operation of the thread's program
  std::vector<int> pt;             // last scheduling point reached inside the current operation (0: none)
  std::vector<bool> active;        // an operation is in progress
  std::vector<opd> cur;
  std::vector<std::set<unsigned>> ids;   // ids of the stores started per key
  std::vector<unsigned> next_id;
  int pending = -1;                // the one thread that is blocked in an acquisition
  char pending_kind = 0;
  unsigned long pending_arrivals = 0;   // its arrival counter when it was sent into the acquisition
  std::uint64_t mseal = 1;         // mirror of seal_ (to know which clear() wraps)

  // ---- the mirror of the lock --------------------------------------------------------------------
  static char lock_of_point(const opd &o, int p, const std::string &d)
  {
    // the lock (by the discipline `d`) a thread holds when it is parked at point p
    if (p == 10 || p == 11) return d[0];
    if (p == 20 || p == 21) return d[2];
    if (p == 30 || p == 31) return d[3];
    if (p == 40 || p == 41) return d[4];
    if (p >= 50 && p < 60) return d[6];
    if (p >= 60 && p < 70) return d[5];
    (void)o;
    return 'N';
  }
  char holds(int t, const std::string &d) const { return active[t] ? lock_of_point(cur[t], pt[t], d) : 'N'; }

  // the lock kind the thread's NEXT transition has to acquire (0: the next transition is no acquisition)
  char next_acquire(int t, const std::string *dd = nullptr) const
  {
    const std::string &d(dd ? *dd : DISC);
    if (!active[t])
    {
      switch (progs[t][pc[t]].op)
      {
      case op_t::find: case op_t::proxy: return d[0];
      case op_t::insert: return d[2];
      case op_t::clear: return d[3];
      case op_t::clearkey: return d[4];
      case op_t::save: return d[5];
      case op_t::load: return d[6];
      default: return 0;
      }
    }
    if (cur[t].op == op_t::proxy && pt[t] == 70) return d[2];     // the proxy's insert
    return 0;
  }

  tri enabled(char kind, int t, const std::string *dd = nullptr) const
  {
    const std::string &d(dd ? *dd : DISC);
    bool any(false), anyx(false), anyu(false);
    for (unsigned u(0); u < n; ++u)
    {
      if (int(u) == t) continue;
      const char h(holds(int(u), d));
      if (h != 'N') any = true;
      if (h == 'X') anyx = true;
      if (h == 'U') anyu = true;
    }
    if (kind == 'N') return tri::yes;
    if (kind == 'U') return any ? tri::maybe : tri::yes;
    if (anyu) return tri::maybe;
    if (kind == 'S') return anyx ? tri::no : tri::yes;
    return any ? tri::no : tri::yes;
  }

  // ---- which memory an operation touches (for the overlap annotation) ----------------------------
  struct acc { std::set<unsigned> slots; bool all = false, wslots = false, rseal = false, wseal = false; };
  acc access_of(const opd &o, int p) const
  {
    acc a;
    const bool proxy_insert(o.op == op_t::proxy && (p == 20 || p == 21 || p == 70));
    switch (o.op)
    {
    case op_t::find: a.slots = {slot_of(o.key)}; a.rseal = true; break;
    case op_t::proxy: a.slots = {slot_of(o.key)}; a.rseal = true; a.wslots = proxy_insert; break;
    case op_t::insert: a.slots = {slot_of(o.key)}; a.rseal = true; a.wslots = true; break;
    case op_t::clear: a.wseal = true; if (mseal == SEAL_MAX) { a.all = true; a.wslots = true; } break;
    case op_t::clearkey: a.slots = {slot_of(o.key)}; a.wslots = true; break;
    case op_t::save: a.all = true; a.rseal = true; break;
    case op_t::load: for (auto &e : o.entries) a.slots.insert(slot_of(e.first)); a.wslots = true; a.wseal = true; break;
    default: break;
    }
    return a;
  }
  static bool conflict(const acc &a, const acc &b)
  {
    bool common(a.all ? (b.all || !b.slots.empty()) : b.all ? !a.slots.empty() : false);
    for (auto s : a.slots) if (b.slots.count(s)) common = true;
    if (common && (a.wslots || b.wslots)) return true;
    const bool seal_a(a.rseal || a.wseal), seal_b(b.rseal || b.wseal);
    return !SEAL_ATOMIC && seal_a && seal_b && (a.wseal || b.wseal);
  }

  // an acquisition by `t` has just succeeded: does the SPECIFICATION (shared for find/save, exclusive
  // for the others) forbid it, and if so do the overlapping critical sections conflict?
  std::string overlap_note(int t, char spec_kind, const opd &o, int p)
  {
    static const std::string canon("S0XXXSX");
    bool forbidden(false), confl(false);
    for (unsigned u(0); u < n; ++u)
    {
      if (int(u) == t || !active[u]) continue;
      const char h(lock_of_point(cur[u], pt[u], canon));
      if (h == 'N') continue;
      if (spec_kind == 'X' || h == 'X')
      {
        forbidden = true;
        if (conflict(access_of(o, p), access_of(cur[u], pt[u]))) confl = true;
      }
    }
    if (!forbidden) return "";
    ++n_overlaps;
    return std::string(" | ovl ") + (confl ? "1" : "0");
  }

  // ---- oracle ------------------------------------------------------------------------------------
  std::string judge_value(const std::string &res, unsigned key, bool must_have)
  {
    if (res == "r none") return must_have ? "BAD proxy-returned-nothing" : "ok";
    const auto t2(verif::split(res));
    if (t2.size() != L + 1) return "BAD wrong-length";
    for (std::size_t i(1); i < t2.size(); ++i)
    {
      if (t2[i] != t2[1]) return "BAD torn-value";
      const auto colon(t2[i].find(':'));
      const unsigned kk(std::stoul(t2[i].substr(0, colon))), ii(std::stoul(t2[i].substr(colon + 1)));
      if (kk != key) return "BAD value-of-another-key";
      if (kk >= ids.size() || !ids[kk].count(ii)) return "BAD value-never-stored";
    }
    return "ok";
  }

  // "s@<seal> <k>/<w>,<w>.. ..." from the text save wrote; verdict in *v
  std::string parse_save(const std::string &text, std::string *v)
  {
    std::istringstream in(text);
    *v = "ok";
    unsigned long long seal(0), num(0);
    if (!(in >> seal >> num)) { *v = "BAD save-header"; return "s@?"; }
    std::string out("s@" + std::to_string(seal));
    unsigned long long got(0);
    for (;;)
    {
      hash_t h;
      if (!h.load(in)) break;
      fitness_t f;
      if (!f.load(in)) { *v = "BAD save-entry-truncated"; break; }
      ++got;
      const unsigned k(key_from(h.data[0]));
      out += " " + std::to_string(k) + "/" + show_words(f, ",");
      if (!(h == key_of(k))) { *v = "BAD save-entry-unknown-key"; continue; }
      const std::string j(judge_value(show(f), k, true));
      if (j != "ok" && *v == "ok") *v = j + "-in-saved-entry";
    }
    if (got != num && *v == "ok") *v = "BAD save-count-differs";
    return out;
  }

  // ---- one macro step of thread t -----------------------------------------------------------------
  void emit(const std::string &s) { std::cout << s << "\n"; if (s.find(" BAD ") != std::string::npos) ++n_bad; }

  void after_release(std::string &out)
  {
    // the pending thread may get the lock now; it has "arrived" when it is parked at its first point
    if (pending < 0) return;
    worker &p(*ws[pending]);
    const tri can(enabled(pending_kind, pending));
    bool arrived;
    {
      std::unique_lock lk(G);
      arrived = CV.wait_for(lk, can == tri::yes ? LONG : SHORT, [&] { return p.arrivals != pending_arrivals; });
    }
    if (arrived)
    {
      out += " woke " + std::to_string(pending);
      const int t(pending);
      pending = -1;
      {
        std::unique_lock lk(G);
        pt[t] = p.parked ? p.point : 0;
      }
    }
  }

  void start(int t, bool probe)
  {
    opd o(progs[t][pc[t]]);
    const std::string ts(std::to_string(t));
    std::string name;
    char spec('X');
    switch (o.op)
    {
    case op_t::find: name = "facq " + ts + " " + std::to_string(o.key); spec = 'S'; break;
    case op_t::proxy:
      o.vid = next_id[o.key]++;
      name = "pacq " + ts + " " + std::to_string(o.key); spec = 'S'; break;
    case op_t::insert:
      o.vid = next_id[o.key]++;
      ids[o.key].insert(o.vid);
      name = "wacq " + ts + " " + std::to_string(o.key) + " " + std::to_string(o.vid); break;
    case op_t::clear: name = "cacq " + ts; break;
    case op_t::clearkey: name = "kacq " + ts + " " + std::to_string(o.key); break;
    case op_t::save: name = "sacq " + ts; spec = 'S'; break;
    case op_t::load:
      name = "lacq " + ts + " " + std::to_string(o.seal) + " " + (o.bad ? "0" : "1");
      for (auto &e : o.entries)
      {
        e.second = next_id[e.first]++;
        ids[e.first].insert(e.second);
        name += " " + std::to_string(e.first) + ":" + std::to_string(e.second);
      }
      break;
    default: break;
    }
    cur[t] = o; active[t] = true; pt[t] = 0; ++pc[t];
    const tri e(enabled(next_acquire_kind(o), t));
    unsigned long seen(0);
    const bool got(advance(*ws[t], e == tri::yes ? LONG : SHORT, &o, &seen));
    if (probe) { --*probes_left; if (e == tri::maybe) --maybe_left; }
    if (got)
    {
      read_point(t);
      emit(name + " = ok" + overlap_note(t, spec, o, pt[t]));
      if (e == tri::no) emit("# discipline-mismatch: the extracted discipline says this acquisition must block");
      after_arrival(t);
    }
    else if (e == tri::yes)
    {
      emit(name + " = blocked");
      emit("stuck " + ts + " = BAD blocked-although-the-extracted-discipline-lets-it-in");
      aborted = true;
    }
    else
    {
      emit(name + " = blocked");
      pending = t; pending_kind = next_acquire_kind(o); pending_arrivals = seen;
    }
  }

  static char next_acquire_kind(const opd &o)
  {
    switch (o.op)
    {
    case op_t::find: case op_t::proxy: return DISC[0];
    case op_t::insert: return DISC[2];
    case op_t::clear: return DISC[3];
    case op_t::clearkey: return DISC[4];
    case op_t::save: return DISC[5];
    case op_t::load: return DISC[6];
    default: return 'N';
    }
  }

  void read_point(int t)
  {
    std::unique_lock lk(G);
    pt[t] = ws[t]->parked ? ws[t]->point : 0;
    if (!ws[t]->has_cmd) pt[t] = 0;
  }
  bool finished(int t) { std::unique_lock lk(G); return !ws[t]->has_cmd; }
  std::string result(int t) { std::unique_lock lk(G); return ws[t]->result; }

  // an operation that has no scheduling point at all would be finished on arrival
  void after_arrival(int t)
  {
    if (finished(t)) finish(t);
  }

  void finish(int t) { active[t] = false; pt[t] = 0; }

  void step(int t, bool probe)
  {
    if (aborted) return;
    if (!active[t]) { start(t, probe); return; }
    worker &w(*ws[t]);
    const std::string ts(std::to_string(t));
    const int from(pt[t]);
    const opd &o(cur[t]);
    // the proxy's insert is an acquisition in the middle of the operation
    if (o.op == op_t::proxy && from == 70)
    {
      ids[o.key].insert(o.vid);
      const tri e(enabled(DISC[2], t));
      const std::string name("wacq " + ts + " " + std::to_string(o.key) + " " + std::to_string(o.vid));
      unsigned long seen(0);
      const bool got(advance(w, e == tri::yes ? LONG : SHORT, nullptr, &seen));
      if (probe) { --*probes_left; if (e == tri::maybe) --maybe_left; }
      if (got) { read_point(t); emit(name + " = ok" + overlap_note(t, 'X', o, pt[t])); }
      else if (e == tri::yes)
      {
        emit(name + " = blocked");
        emit("stuck " + ts + " = BAD blocked-although-the-extracted-discipline-lets-it-in");
        aborted = true;
      }
      else { emit(name + " = blocked"); pending = t; pending_kind = DISC[2]; pending_arrivals = seen; }
      return;
    }
    if (!advance(w, LONG))
    {
      emit("stuck " + ts + " = BAD thread-made-no-progress");
      aborted = true;
      return;
    }
    read_point(t);
    const int to(pt[t]);
    const bool fin(finished(t));
    std::string out("ok");
    switch (o.op)
    {
    case op_t::find:
      if (from == 10) emit("fcmp " + ts + " = ok");
      else if (from == 11) { after_release(out); emit("fret " + ts + " = " + out); }
      else
      {
        const std::string res(result(t));
        emit("rcopy " + ts + " = " + res + " | " + judge_value(res, o.key, false));
      }
      break;
    case op_t::proxy:
      if (from == 10) emit("fcmp " + ts + " = ok");
      else if (from == 11)
      {
        after_release(out);
        emit("fret " + ts + " = " + out);
        if (to == 70) emit("peval " + ts + " = ok");
      }
      else if (from == 20) emit("wwr " + ts + " = ok");
      else if (from == 21) { after_release(out); emit("wrel " + ts + " = " + out); }
      else if (from == 71)
      {
        const std::string res(result(t));
        emit("pret " + ts + " = " + res + " | " + judge_value(res, o.key, true));
      }
      break;
    case op_t::insert:
      if (from == 20) emit("wwr " + ts + " = ok");
      else { after_release(out); emit("wrel " + ts + " = " + out); }
      break;
    case op_t::clear:
      if (from == 30) { mseal = mseal == SEAL_MAX ? 1 : mseal + 1; emit("cinv " + ts + " = ok"); }
      else { after_release(out); emit("crel " + ts + " = " + out); }
      break;
    case op_t::clearkey:
      if (from == 40) emit("kinv " + ts + " = ok");
      else { after_release(out); emit("krel " + ts + " = " + out); }
      break;
    case op_t::save:
      if (!fin) emit("spt " + ts + " = ok");
      else
      {
        after_release(out);
        emit("srel " + ts + " = " + out);
        std::string v;
        const std::string e(parse_save(result(t), &v));
        emit("sres " + ts + " = " + e + " | " + v);
      }
      break;
    case op_t::load:
      if (!fin) emit("lent " + ts + " = ok");
      else
      {
        const std::string r(result(t));
        if (r == "1") mseal = o.seal;
        after_release(out);
        emit("lrel " + ts + " = " + out);
        emit("lres " + ts + " = " + r + " | " + (r == (o.bad ? "0" : "1") ? "ok" : "BAD load-result"));
      }
      break;
    default: break;
    }
    if (fin) finish(t);
  }

  void drain()
  {
    // finish every operation in progress and every operation still to start (no more choices)
    for (bool again(true); again && !aborted;)
    {
      again = false;
      for (unsigned t(0); t < n; ++t)
      {
        if (int(t) == pending) continue;
        if (active[t])
        {
          if (next_acquire(int(t)) != 0 && pending >= 0) continue;      // one queued thread at a time
          step(int(t), false); again = true;
        }
        else if (pc[t] < progs[t].size() && pending < 0 && enabled(next_acquire(int(t)), int(t)) == tri::yes)
        { step(int(t), false); again = true; }
      }
      if (!again && pending >= 0)
      {
        // nobody left to release the lock: the pending thread must have it by now
        const int p(pending);
        std::string out;
        after_release(out);
        if (pending >= 0)
        {
          emit("stuck " + std::to_string(p) + " = BAD pending-thread-never-got-the-lock");
          aborted = true;
          // let it go anyway so that the threads can be joined
          break;
        }
        emit("stuck " + std::to_string(p) + " = BAD pending-thread-woke-without-a-release");
        again = true;
      }
    }
  }
};

}  // namespace

int main(int argc, char **argv)
{
  vita::log::reporting_level = vita::log::lOFF;
  const std::uint64_t seed(argc > 1 ? std::stoull(argv[1]) : 1);
  const unsigned long dfs_cap(argc > 2 ? std::stoul(argv[2]) : 100);
  const unsigned rnd_configs(argc > 3 ? std::stoul(argv[3]) : 4);
  const unsigned rnd_schedules(argc > 4 ? std::stoul(argv[4]) : 20);
  long probes(argc > 5 ? std::stol(argv[5]) : 60);
  if (argc > 6 && std::strlen(argv[6]) == 7) DISC = argv[6];
  SEAL_ATOMIC = argc > 7 && std::string(argv[7]) == "1";
  if (DISC.find_first_of("NU") != std::string::npos || DISC[1] == '1') LONG = ms(20000);
  const unsigned pb(argc > 8 ? std::stoul(argv[8]) : 2);
  const bool thorough(dfs_cap >= 1000);
  maybe_left = 3 * probes;
  verif::splitmix rng(seed);
  vita::verif_hook::sched_callback = park;

  // single-threaded form of the reference defect: the result of find must not change under a later insert
  {
    L = 3;
    vita::cache c(BITS);
    c.insert(key_of(1), value_of(1, 0));
    auto &&r(c.find(key_of(1)));
    c.insert(key_of(2), value_of(2, 0));
    const fitness_t now(r);
    std::cout << "single = " << show(now) << " | " << (show(now) == "r 1:0 1:0 1:0" ? "ok" : "BAD result-of-find-changed-by-a-later-insert") << "\n";
  }

  // ---- phase A: systematic ------------------------------------------------------------------------
  std::vector<config> cfgs(core_configs());
  for (unsigned i(0); i < rnd_configs; ++i) cfgs.push_back(random_config(rng, thorough));
  long no_probes(0);
  unsigned long total(0);
  for (std::size_t ci(0); ci < cfgs.size(); ++ci)
  {
    const config &cfg(cfgs[ci]);
    struct frame { std::vector<int> cands; std::size_t idx; };
    std::vector<frame> stack;
    unsigned long count(0);
    bool complete(false), nondet(false);
    for (;;)
    {
      std::size_t depth(0);
      unsigned preempt(0);
      schedule s(cfg, &no_probes);
      std::cout << "# config " << ci << " (" << cfg.name << ") schedule " << count << "\n";
      s.run([&](const std::vector<cand> &cs, int last) {
        std::vector<int> ts;
        bool last_in(false);
        for (auto &c : cs) if (c.t == last) last_in = true;
        if (last_in) ts.push_back(last);
        if (!(last_in && preempt >= pb))
          for (auto &c : cs) if (c.t != last) ts.push_back(c.t);
        if (depth < stack.size())
        {
          if (stack[depth].cands != ts) { nondet = true; return -1; }
        }
        else stack.push_back({ts, 0});
        const int t(stack[depth].cands[stack[depth].idx]);
        if (last_in && t != last) ++preempt;
        ++depth;
        for (std::size_t i(0); i < cs.size(); ++i) if (cs[i].t == t) return int(i);
        return -1;
      });
      ++count; ++total;
      if (nondet || s.aborted) break;
      while (!stack.empty() && stack.back().idx + 1 >= stack.back().cands.size()) stack.pop_back();
      if (stack.empty()) { complete = true; break; }
      ++stack.back().idx;
      if (count >= dfs_cap) break;
    }
    std::cout << "# explored config " << ci << " (" << cfg.name << ") schedules=" << count << " complete=" << (complete ? 1 : 0)
              << (nondet ? " nondeterministic-replay" : "") << "\n";
  }
  std::cout << "# systematic schedules=" << total << " configs=" << cfgs.size() << " pb=" << pb << "\n";

  // ---- phase B: random schedules with probes ------------------------------------------------------
  for (unsigned sc(0); sc < rnd_schedules; ++sc)
  {
    const config cfg(sc % 3 == 0 ? cfgs[rng.below(cfgs.size())] : random_config(rng, true));
    schedule s(cfg, &probes);
    std::cout << "# random schedule " << sc << " (" << cfg.name << ")\n";
    unsigned steps(20 + unsigned(rng.below(60)));
    s.run([&](const std::vector<cand> &cs, int) {
      if (steps-- == 0) return -1;
      // a probe is taken with probability 1/2 when one is offered
      std::vector<int> idx;
      for (std::size_t i(0); i < cs.size(); ++i) if (!cs[i].probe || rng.chance(0.5)) idx.push_back(int(i));
      if (idx.empty()) for (std::size_t i(0); i < cs.size(); ++i) if (!cs[i].probe) idx.push_back(int(i));
      if (idx.empty()) return -1;
      return idx[rng.below(idx.size())];
    });
    if (s.aborted) break;
  }
  std::cout << "# done overlaps=" << n_overlaps << " bad=" << n_bad << "\n";
  return 0;
}
