// C15 schedule-replay harness.  Real threads operate on one real vita::cache; a cooperative
// scheduler lets exactly one of them advance at a time from one scheduling point to the next.
// Scheduling points inside the cache's critical sections come from the guarded hook
// vita::verif_hook::sched_point (src/kernel/cache.cc, -DVITA_VERIF):
//   find: 10 after the shared lock, 11 after the comparison (before the copy and the release)
//   insert: 20 / 21    clear(): 30 / 31    clear(key): 40 / 41   (after acquisition / before release)
// plus one harness-level point (12) between find() returning and the caller using the result.
//
// The harness chooses the schedule itself (seeded), because what it may do next depends on what the
// real threads did (a thread that does not get the lock is "pending"), and prints the trace
//     <macro step> = <observed outcome>
// which lean/Vita/C15/Driver.lean checks against the model, transition by transition.  Its own
// oracle: every lookup result is nothing, or L equal words that encode the looked-up key and the id
// of an insert that was started under that key (`| ok` / `| BAD <why>` at the end of rcopy lines).
//
// usage: c15_sched <seed> <schedules> <max-blocked-probes>
#include "common/verif.h"

#include "kernel/vita.h"

#include <atomic>
#include <chrono>
#include <condition_variable>
#include <mutex>
#include <set>
#include <thread>

namespace
{
using vita::fitness_t;
using vita::hash_t;

std::mutex G;
std::condition_variable CV;

enum class op_t {none, find, insert, clear, clearkey, quit};

struct worker
{
  int id = 0;
  std::thread th;
  // protected by G
  op_t op = op_t::none;
  unsigned key = 0, vid = 0;
  int go = 0;
  unsigned long arrivals = 0;   // incremented whenever the thread parks or finishes its operation
  bool parked = false;
  int point = 0;
  bool busy = false;
  std::string result;
};

thread_local worker *tl_worker = nullptr;

void park(int point)
{
  worker *w(tl_worker);
  if (!w) return;
  std::unique_lock lk(G);
  w->parked = true;
  w->point = point;
  ++w->arrivals;
  CV.notify_all();
  CV.wait(lk, [w] { return w->go > 0; });
  --w->go;
  w->parked = false;
}

vita::cache *the_cache = nullptr;
unsigned L = 3;
const unsigned BITS = 4;

hash_t key_of(unsigned k) { return hash_t(0x5ull + (std::uint64_t(k) << BITS), 1000 + k); }
double word_of(unsigned k, unsigned id) { return double(k * 100000u + id); }

fitness_t value_of(unsigned k, unsigned id)
{
  fitness_t::values_t v;
  for (unsigned i(0); i < L; ++i) v.push_back(word_of(k, id));
  return fitness_t(v);
}

std::string show(const fitness_t &f)
{
  if (!f.size()) return "r none";
  std::string s("r");
  for (std::size_t i(0); i < f.size(); ++i)
  {
    const auto w(static_cast<unsigned long long>(f[i]));
    s += " " + std::to_string(w / 100000u) + ":" + std::to_string(w % 100000u);
  }
  return s;
}

void body(worker *w)
{
  tl_worker = w;
  for (;;)
  {
    op_t op; unsigned k, id;
    {
      std::unique_lock lk(G);
      CV.wait(lk, [w] { return w->op != op_t::none; });
      op = w->op; k = w->key; id = w->vid;
    }
    if (op == op_t::quit) return;
    std::string res;
    switch (op)
    {
    case op_t::find:
    {
      auto &&r(the_cache->find(key_of(k)));   // a reference into the table, or a value
      park(12);                               // ... the caller uses it later
      const fitness_t copy(r);
      res = show(copy);
      break;
    }
    case op_t::insert: the_cache->insert(key_of(k), value_of(k, id)); break;
    case op_t::clear: the_cache->clear(); break;
    case op_t::clearkey: the_cache->clear(key_of(k)); break;
    default: break;
    }
    std::unique_lock lk(G);
    w->op = op_t::none;
    w->busy = false;
    w->result = res;
    ++w->arrivals;
    CV.notify_all();
  }
}

using ms = std::chrono::milliseconds;
const ms SHORT(60), LONG(30000);

// let `w` advance (give it a command or release it from its park) and wait for its next arrival
bool advance(worker &w, ms patience, op_t cmd = op_t::none, unsigned k = 0, unsigned id = 0)
{
  std::unique_lock lk(G);
  const auto before(w.arrivals);
  if (cmd != op_t::none) { w.op = cmd; w.key = k; w.vid = id; w.busy = true; }
  else ++w.go;
  CV.notify_all();
  return CV.wait_for(lk, patience, [&] { return w.arrivals != before; });
}

}  // namespace

int main(int argc, char **argv)
{
  vita::log::reporting_level = vita::log::lOFF;
  const std::uint64_t seed(argc > 1 ? std::stoull(argv[1]) : 1);
  const unsigned schedules(argc > 2 ? std::stoul(argv[2]) : 20);
  long probes_left(argc > 3 ? std::stol(argv[3]) : 100);
  verif::splitmix rng(seed);
  vita::verif_hook::sched_callback = park;

  // single-threaded form of the defect: the result of find must not change under a later insert
  {
    L = 3;
    vita::cache c(BITS);
    c.insert(key_of(1), value_of(1, 0));
    auto &&r(c.find(key_of(1)));
    c.insert(key_of(2), value_of(2, 0));
    const fitness_t now(r);
    std::cout << "single = " << show(now) << " | " << (show(now) == "r 1:0 1:0 1:0" ? "ok" : "BAD result-of-find-changed-by-a-later-insert") << "\n";
  }

  for (unsigned sc(0); sc < schedules; ++sc)
  {
    const bool witness(sc == 0);
    static const unsigned lens[] = {1, 2, 3, 5};
    L = witness ? 3 : lens[rng.below(4)];
    const unsigned n(witness ? 2 : 2 + rng.below(4));
    const unsigned nkeys(witness ? 2 : 1 + rng.below(3));
    vita::cache cache(BITS);
    the_cache = &cache;
    std::vector<std::unique_ptr<worker>> ws;
    for (unsigned i(0); i < n; ++i)
    {
      ws.push_back(std::make_unique<worker>());
      ws.back()->id = int(i);
      ws.back()->th = std::thread(body, ws.back().get());
    }
    std::cout << "init " << L << " " << n << " 0 = init\n";

    // mirror of who holds what (the harness's own bookkeeping, used to choose patience only)
    std::set<int> readers, writers;
    int pending(-1); bool pending_shared(false);
    std::vector<int> phase(n, 0);        // 0 idle; else next macro step of the current operation
    std::vector<op_t> cur(n, op_t::none);
    std::vector<unsigned> curk(n, 0);
    std::vector<std::set<unsigned>> ids(8);   // ids of the inserts started per key
    std::vector<unsigned> next_id(8, 0);

    auto enabled = [&](bool shared, int t) {
      if (shared) return writers.empty();
      for (int r : readers) if (r != t) return false;
      return writers.empty();
    };
    auto after_release = [&](std::string &out) {
      // the pending thread may get the lock now; it is "arrived" when it is parked at its first point
      if (pending < 0) return;
      worker &p(*ws[pending]);
      const bool can(enabled(pending_shared, pending));
      bool arrived;
      {
        std::unique_lock lk(G);
        arrived = CV.wait_for(lk, can ? LONG : SHORT, [&] { return p.parked; });
      }
      if (arrived)
      {
        out += " woke " + std::to_string(pending);
        (pending_shared ? readers : writers).insert(pending);
        phase[pending] = 2;
        pending = -1;
      }
    };
    auto acquire = [&](int t, op_t op, unsigned k, unsigned id, const std::string &name) {
      const bool shared(op == op_t::find);
      const bool can(enabled(shared, t));
      const bool maybe(can && shared && !readers.empty());   // a stricter lock may keep a reader out
      const bool got(advance(*ws[t], can && !maybe ? LONG : SHORT, op, k, id));
      cur[t] = op; curk[t] = k;
      std::cout << name << " = " << (got ? "ok" : "blocked") << "\n";
      if (got) { (shared ? readers : writers).insert(t); phase[t] = 2; }
      else { pending = t; pending_shared = shared; phase[t] = 1; --probes_left; }
    };
    auto progress = [&](int t) {
      worker &w(*ws[t]);
      std::string out("ok");
      const std::string ts(std::to_string(t));
      switch (cur[t])
      {
      case op_t::find:
        if (phase[t] == 2) { advance(w, LONG); std::cout << "fcmp " << ts << " = ok\n"; phase[t] = 3; }
        else if (phase[t] == 3)
        {
          advance(w, LONG);           // returns from find (copy + release), parks at 12
          readers.erase(t);
          after_release(out);
          std::cout << "fret " << ts << " = " << out << "\n";
          phase[t] = 4;
        }
        else
        {
          advance(w, LONG);           // the caller reads the result
          std::string res;
          { std::unique_lock lk(G); res = w.result; }
          // oracle: nothing, or L equal words naming this key and an insert started under it
          std::string verdict("ok");
          if (res != "r none")
          {
            const auto t2(verif::split(res));
            if (t2.size() != L + 1) verdict = "BAD wrong-length";
            for (std::size_t i(1); i < t2.size() && verdict == "ok"; ++i)
            {
              if (t2[i] != t2[1]) verdict = "BAD torn-value";
              const auto colon(t2[i].find(':'));
              const unsigned kk(std::stoul(t2[i].substr(0, colon))), ii(std::stoul(t2[i].substr(colon + 1)));
              if (kk != curk[t]) verdict = "BAD value-of-another-key";
              else if (!ids[kk].count(ii)) verdict = "BAD value-never-stored";
            }
          }
          std::cout << "rcopy " << ts << " = " << res << " | " << verdict << "\n";
          phase[t] = 0; cur[t] = op_t::none;
        }
        break;
      case op_t::insert: case op_t::clear: case op_t::clearkey:
      {
        const char *pre(cur[t] == op_t::insert ? "w" : cur[t] == op_t::clear ? "c" : "k");
        if (phase[t] == 2)
        {
          advance(w, LONG);
          std::cout << pre << (cur[t] == op_t::insert ? "wr " : "inv ") << ts << " = ok\n";
          phase[t] = 3;
        }
        else
        {
          advance(w, LONG);           // leaves the critical section, operation finished
          writers.erase(t);
          after_release(out);
          std::cout << pre << "rel " << ts << " = " << out << "\n";
          phase[t] = 0; cur[t] = op_t::none;
        }
        break;
      }
      default: break;
      }
    };
    auto start = [&](int t, op_t op, unsigned k) {
      const std::string ts(std::to_string(t));
      if (op == op_t::find) acquire(t, op, k, 0, "facq " + ts + " " + std::to_string(k));
      else if (op == op_t::insert)
      {
        const unsigned id(next_id[k]++);
        ids[k].insert(id);
        acquire(t, op, k, id, "wacq " + ts + " " + std::to_string(k) + " " + std::to_string(id));
      }
      else if (op == op_t::clear) acquire(t, op, 0, 0, "cacq " + ts);
      else acquire(t, op, k, 0, "kacq " + ts + " " + std::to_string(k));
    };

    if (witness)
    {
      start(1, op_t::insert, 1); progress(1); progress(1);
      start(0, op_t::find, 1); progress(0); progress(0);      // thread 0 now holds the result of find
      start(1, op_t::insert, 2); progress(1); progress(1);
      progress(0);
    }
    else
    {
      const unsigned steps(20 + rng.below(60));
      for (unsigned i(0); i < steps; ++i)
      {
        const int t(int(rng.below(n)));
        if (t == pending) continue;
        if (phase[t] == 0)
        {
          if (pending >= 0) continue;               // one pending thread at a time
          const auto c(rng.below(100));
          const op_t op(c < 45 ? op_t::find : c < 80 ? op_t::insert : c < 90 ? op_t::clear : op_t::clearkey);
          const bool shared(op == op_t::find);
          const bool conflict(!enabled(shared, t) || (shared && !readers.empty()));
          if (conflict && (probes_left <= 0 || rng.chance(0.5))) continue;
          start(t, op, 1 + unsigned(rng.below(nkeys)));
        }
        else progress(t);
      }
    }
    // drain: finish every operation
    for (bool again(true); again;)
    {
      again = false;
      for (unsigned t(0); t < n; ++t)
        if (int(t) != pending && phase[t] != 0) { progress(int(t)); again = true; }
      if (!again && pending >= 0)
      {
        // nobody left to release the lock: the pending thread must have it by now
        const int p(pending);
        std::string out;
        after_release(out);
        std::cout << "stuck " << p << " = BAD " << (pending >= 0 ? "pending-thread-never-got-the-lock" : "pending-thread-woke-without-a-release") << "\n";
        if (pending >= 0) break;
        again = true;
      }
    }
    {
      std::unique_lock lk(G);
      for (auto &w : ws) { w->op = op_t::quit; w->go += 1000; }
      CV.notify_all();
    }
    for (auto &w : ws) w->th.join();
    the_cache = nullptr;
  }
  return 0;
}
