// C15 stress harness (built with ThreadSanitizer and, separately, with ASan+UBSan): free-running
// reader, writer and clearing threads on one real vita::cache.  Keys 1..4 share a table slot, keys
// 5..6 live in slots of their own; key k always carries values of LEN[k] components (1 = inline
// storage of small_vector<double,1>, more = heap), every component encodes (k, id) where id is the
// serial number of the insert.  Oracle: a lookup of k returns nothing or LEN[k] equal components that
// name k and an insert already started under k.  Sanitizer reports end the process (exit codes 97/99).
//
// usage: c15_stress <seed> <milliseconds> <readers> <writers> <clearers>
#include "common/verif.h"

#include "kernel/vita.h"

#include <atomic>
#include <chrono>
#include <thread>

namespace
{
using vita::fitness_t;
using vita::hash_t;

const unsigned BITS = 3, NKEYS = 6;
const unsigned LEN[NKEYS + 1] = {0, 1, 3, 4, 6, 1, 5};

hash_t key_of(unsigned k)
{
  // 1..4: same low bits (one slot); 5, 6: other slots
  return k <= 4 ? hash_t(0x3ull + (std::uint64_t(k) << BITS), 500 + k) : hash_t(std::uint64_t(k), 500 + k);
}

fitness_t value_of(unsigned k, unsigned long id)
{
  fitness_t::values_t v;
  for (unsigned i(0); i < LEN[k]; ++i) v.push_back(double(k) * 1e9 + double(id));
  return fitness_t(v);
}

std::atomic<unsigned long> next_id[NKEYS + 1];
std::atomic<bool> stop{false};
std::atomic<unsigned long> n_find{0}, n_hit{0}, n_ins{0}, n_clear{0}, n_clearkey{0}, n_bad{0};
std::string first_bad;
std::mutex bad_m;

void bad(const std::string &s)
{
  ++n_bad;
  std::lock_guard lk(bad_m);
  if (first_bad.empty()) first_bad = s;
}
}  // namespace

int main(int argc, char **argv)
{
  vita::log::reporting_level = vita::log::lOFF;
  const std::uint64_t seed(argc > 1 ? std::stoull(argv[1]) : 1);
  const unsigned msec(argc > 2 ? std::stoul(argv[2]) : 1000);
  const unsigned nr(argc > 3 ? std::stoul(argv[3]) : 3), nw(argc > 4 ? std::stoul(argv[4]) : 2),
                 nc(argc > 5 ? std::stoul(argv[5]) : 1);
  vita::cache c(BITS);
  for (auto &a : next_id) a = 0;

  std::vector<std::thread> ts;
  for (unsigned r(0); r < nr; ++r)
    ts.emplace_back([&c, seed, r] {
      verif::splitmix rng(seed * 1000 + r);
      while (!stop.load(std::memory_order_relaxed))
      {
        const unsigned k(1 + unsigned(rng.below(NKEYS)));
        const fitness_t f(c.find(key_of(k)));     // exactly what evaluator_proxy::operator() does
        const unsigned long issued(next_id[k].load());
        ++n_find;
        if (!f.size()) continue;
        ++n_hit;
        if (f.size() != LEN[k]) { bad("wrong-length key=" + std::to_string(k) + " size=" + std::to_string(f.size())); continue; }
        const double w(f[0]);
        bool same(true);
        for (std::size_t i(1); i < f.size(); ++i) same = same && f[i] == w;
        if (!same) { bad("torn-value key=" + std::to_string(k)); continue; }
        const double kk(std::floor(w / 1e9)), id(w - kk * 1e9);
        if (kk != double(k)) bad("value-of-another-key looked-up=" + std::to_string(k) + " got=" + std::to_string(kk));
        else if (!(id >= 0 && id < double(issued))) bad("value-never-stored key=" + std::to_string(k));
      }
    });
  for (unsigned w(0); w < nw; ++w)
    ts.emplace_back([&c, seed, w] {
      verif::splitmix rng(seed * 2000 + w);
      while (!stop.load(std::memory_order_relaxed))
      {
        const unsigned k(1 + unsigned(rng.below(NKEYS)));
        const unsigned long id(next_id[k].fetch_add(1));
        c.insert(key_of(k), value_of(k, id));
        ++n_ins;
      }
    });
  for (unsigned x(0); x < nc; ++x)
    ts.emplace_back([&c, seed, x] {
      verif::splitmix rng(seed * 3000 + x);
      while (!stop.load(std::memory_order_relaxed))
      {
        if (rng.chance(0.3)) { c.clear(); ++n_clear; }
        else { c.clear(key_of(1 + unsigned(rng.below(NKEYS)))); ++n_clearkey; }
        std::this_thread::sleep_for(std::chrono::microseconds(rng.below(200)));
      }
    });

  std::this_thread::sleep_for(std::chrono::milliseconds(msec));
  stop = true;
  for (auto &t : ts) t.join();
  std::cout << "stress finds=" << n_find << " hits=" << n_hit << " inserts=" << n_ins << " clears=" << n_clear
            << " clearkeys=" << n_clearkey << " bad=" << n_bad << (first_bad.empty() ? "" : " first=" + first_bad) << "\n";
  return n_bad ? 3 : 0;
}
