// C15 stress harness (built with ThreadSanitizer and, separately, with ASan+UBSan): free-running
// threads on one real vita::cache, or on the cache inside one real vita::evaluator_proxy.
//
// Roles: readers (find), writers (insert), clearers (clear() / clear(key)), savers (save into a string,
// every saved entry is judged), loaders (load one of a few prepared images - some carry the seal
// UINT_MAX, so that the next clear() wraps and wipes the table; some are truncated, so that load
// fails half-way), proxies (evaluator_proxy::operator(): find, on a miss evaluate, insert).
// Keys 1..4 share a table slot, keys 5..6 live in slots of their own.  Key k carries values of LEN[k]
// components (1 = inline storage of small_vector<double,1>, more = heap) or, with `varlen`, of a length
// that changes from store to store (1..7: the slot's heap buffer is reallocated under the readers);
// every component encodes (k, id, length).  Oracle: a lookup of k returns nothing or one value whose
// components are all equal, name k, an id already issued for k and the value's own length.
// Sanitizer reports end the process (exit codes 97/99).
//
// usage: c15_stress <seed> <milliseconds> <readers> <writers> <clearers> [<savers> <loaders> <proxies> <varlen 0|1>]
#include "common/verif.h"

#include "kernel/vita.h"

#include <atomic>
#include <chrono>
#include <thread>

namespace
{
using vita::fitness_t;
using vita::hash_t;

const unsigned BITS = 7, NKEYS = 6;
const unsigned LEN[NKEYS + 1] = {0, 1, 3, 4, 6, 1, 5};
bool VARLEN = false;

hash_t key_of(unsigned k)
{
  // 1..4: same low bits (one slot); 5, 6: other slots
  return k <= 4 ? hash_t(0x3ull + (std::uint64_t(k) << BITS), 500 + k) : hash_t(std::uint64_t(k), 500 + k);
}
unsigned key_from(const hash_t &h) { return unsigned(h.data[1] - 500); }

unsigned len_of(unsigned k, unsigned long id) { return VARLEN ? 1 + unsigned((id * 2654435761ul >> 7) % 7) : LEN[k]; }

fitness_t value_of(unsigned k, unsigned long id)
{
  const unsigned len(len_of(k, id));
  fitness_t::values_t v;
  for (unsigned i(0); i < len; ++i) v.push_back(double(k) * 1e10 + double(id) * 10.0 + double(len));
  return fitness_t(v);
}

std::atomic<unsigned long> next_id[NKEYS + 1];
std::atomic<bool> stop{false};
std::atomic<unsigned long> n_find{0}, n_hit{0}, n_ins{0}, n_clear{0}, n_clearkey{0}, n_bad{0}, n_save{0}, n_saved{0},
                           n_load{0}, n_loadfail{0}, n_proxy{0}, n_eval{0};
std::string first_bad;
std::mutex bad_m;

void bad(const std::string &s)
{
  ++n_bad;
  std::lock_guard lk(bad_m);
  if (first_bad.empty()) first_bad = s;
}

// judge a value returned for key k (what: lookup / proxy / saved-entry)
void judge(const char *what, unsigned k, const fitness_t &f, bool may_be_empty)
{
  const unsigned long issued(k <= NKEYS ? next_id[k].load() : 0);
  const std::string w(what);
  if (k < 1 || k > NKEYS) { bad("unknown-key-in-" + w); return; }
  if (!f.size()) { if (!may_be_empty) bad("empty-value-in-" + w + " key=" + std::to_string(k)); return; }
  const double c(f[0]);
  bool same(true);
  for (std::size_t i(1); i < f.size(); ++i) same = same && f[i] == c;
  if (!same) { bad("torn-value " + w + " key=" + std::to_string(k)); return; }
  const double kk(std::floor(c / 1e10)), rest(c - kk * 1e10), id(std::floor(rest / 10.0)), len(rest - id * 10.0);
  if (kk != double(k)) bad("value-of-another-key " + w + " looked-up=" + std::to_string(k) + " got=" + std::to_string(kk));
  else if (!(id >= 0 && id < double(issued))) bad("value-never-stored " + w + " key=" + std::to_string(k));
  else if (len != double(f.size())) bad("wrong-length " + w + " key=" + std::to_string(k) + " size=" + std::to_string(f.size()));
}

struct prog_t
{
  unsigned k = 0;
  hash_t signature() const { return key_of(k); }
};

class eval_t : public vita::evaluator<prog_t>
{
public:
  fitness_t operator()(const prog_t &p) override
  {
    ++n_eval;
    return value_of(p.k, next_id[p.k].fetch_add(1));
  }
};

struct shared_t
{
  std::unique_ptr<vita::cache> cache;
  std::unique_ptr<vita::evaluator_proxy<prog_t, eval_t>> proxy;
  void clear() { if (proxy) proxy->clear(); else cache->clear(); }
  bool load(std::istream &in) { return proxy ? proxy->load(in) : cache->load(in); }
  bool save(std::ostream &out) { return proxy ? proxy->save(out) : cache->save(out); }
};
}  // namespace

int main(int argc, char **argv)
{
  vita::log::reporting_level = vita::log::lOFF;
  const std::uint64_t seed(argc > 1 ? std::stoull(argv[1]) : 1);
  const unsigned msec(argc > 2 ? std::stoul(argv[2]) : 1000);
  auto arg = [&](int i, unsigned d) { return argc > i ? unsigned(std::stoul(argv[i])) : d; };
  const unsigned nr(arg(3, 3)), nw(arg(4, 2)), nc(arg(5, 1)), ns(arg(6, 0)), nl(arg(7, 0)), np(arg(8, 0));
  VARLEN = arg(9, 0) != 0;
  for (auto &a : next_id) a = 0;

  shared_t obj;
  if (np) obj.proxy = std::make_unique<vita::evaluator_proxy<prog_t, eval_t>>(eval_t(), BITS);
  else obj.cache = std::make_unique<vita::cache>(BITS);

  // images for the loaders (built single-threaded with the real save): full table with seal 1, 2 and
  // UINT_MAX, and one that announces more entries than it holds (load fails after writing them)
  std::vector<std::string> images;
  if (nl)
  {
    for (unsigned v(0); v < 4; ++v)
    {
      vita::cache tmp(BITS);
      for (unsigned k(1); k <= NKEYS; ++k)
        if (v != 3 || k % 2) tmp.insert(key_of(k), value_of(k, next_id[k].fetch_add(1)));
      std::ostringstream ss;
      tmp.save(ss);
      std::string s(ss.str());
      const std::size_t p(s.find('\n'));
      const char *seals[] = {"1 ", "2 ", "4294967295 ", "1 "};
      s = seals[v] + s.substr(p);
      if (v == 3)
      {
        // announces one entry more than it holds (whole entries: a stream cut inside an entry is C12's matter)
        const std::size_t q(s.find('\n', s.find('\n') + 1));
        const unsigned long n(std::stoul(s.substr(s.find('\n') + 1, q)));
        s = s.substr(0, s.find('\n') + 1) + std::to_string(n + 1) + s.substr(q);
      }
      images.push_back(s);
    }
  }

  std::vector<std::thread> ts;
  if (!np)
  {
    for (unsigned r(0); r < nr; ++r)
      ts.emplace_back([&obj, seed, r] {
        verif::splitmix rng(seed * 1000 + r);
        while (!stop.load(std::memory_order_relaxed))
        {
          const unsigned k(1 + unsigned(rng.below(NKEYS)));
          const fitness_t f(obj.cache->find(key_of(k)));     // exactly what evaluator_proxy::operator() does
          ++n_find;
          if (f.size()) ++n_hit;
          judge("lookup", k, f, true);
        }
      });
    for (unsigned w(0); w < nw; ++w)
      ts.emplace_back([&obj, seed, w] {
        verif::splitmix rng(seed * 2000 + w);
        while (!stop.load(std::memory_order_relaxed))
        {
          const unsigned k(1 + unsigned(rng.below(NKEYS)));
          const unsigned long id(next_id[k].fetch_add(1));
          obj.cache->insert(key_of(k), value_of(k, id));
          ++n_ins;
        }
      });
  }
  for (unsigned p(0); p < np; ++p)
    ts.emplace_back([&obj, seed, p] {
      verif::splitmix rng(seed * 6000 + p);
      while (!stop.load(std::memory_order_relaxed))
      {
        prog_t prg; prg.k = 1 + unsigned(rng.below(NKEYS));
        const fitness_t f((*obj.proxy)(prg));
        ++n_proxy;
        judge("proxy", prg.k, f, false);
      }
    });
  for (unsigned x(0); x < nc; ++x)
    ts.emplace_back([&obj, seed, x, np] {
      verif::splitmix rng(seed * 3000 + x);
      while (!stop.load(std::memory_order_relaxed))
      {
        if (np || rng.chance(0.3)) { obj.clear(); ++n_clear; }
        else { obj.cache->clear(key_of(1 + unsigned(rng.below(NKEYS)))); ++n_clearkey; }
        std::this_thread::sleep_for(std::chrono::microseconds(rng.below(200)));
      }
    });
  for (unsigned x(0); x < ns; ++x)
    ts.emplace_back([&obj, seed, x] {
      verif::splitmix rng(seed * 4000 + x);
      while (!stop.load(std::memory_order_relaxed))
      {
        std::ostringstream ss;
        obj.save(ss);
        ++n_save;
        std::istringstream in(ss.str());
        unsigned long long seal(0), num(0), got(0);
        if (!(in >> seal >> num)) { bad("save-header"); continue; }
        for (;;)
        {
          hash_t h;
          if (!h.load(in)) break;
          fitness_t f;
          if (!f.load(in)) { bad("save-entry-truncated"); break; }
          ++got; ++n_saved;
          const unsigned k(key_from(h));
          if (k < 1 || k > NKEYS || !(h == key_of(k))) { bad("save-entry-unknown-key"); continue; }
          judge("saved-entry", k, f, false);
        }
        if (got != num) bad("save-count-differs announced=" + std::to_string(num) + " written=" + std::to_string(got));
        std::this_thread::sleep_for(std::chrono::microseconds(rng.below(300)));
      }
    });
  for (unsigned x(0); x < nl; ++x)
    ts.emplace_back([&obj, &images, seed, x] {
      verif::splitmix rng(seed * 5000 + x);
      while (!stop.load(std::memory_order_relaxed))
      {
        const std::size_t i(rng.below(images.size()));
        std::istringstream in(images[i]);
        const bool ok(obj.load(in));
        ++n_load;
        if (!ok) ++n_loadfail;
        if (ok != (i != 3)) bad("load-result image=" + std::to_string(i));
        if (i == 2) { obj.clear(); ++n_clear; }            // the seal wraps: the table is wiped
        std::this_thread::sleep_for(std::chrono::microseconds(rng.below(300)));
      }
    });

  std::this_thread::sleep_for(std::chrono::milliseconds(msec));
  stop = true;
  for (auto &t : ts) t.join();
  std::cout << "stress finds=" << n_find << " hits=" << n_hit << " inserts=" << n_ins << " clears=" << n_clear
            << " clearkeys=" << n_clearkey << " saves=" << n_save << " saved-entries=" << n_saved << " loads=" << n_load
            << " failed-loads=" << n_loadfail << " proxy-calls=" << n_proxy << " evaluations=" << n_eval
            << " bad=" << n_bad << (first_bad.empty() ? "" : " first=" + first_bad) << "\n";
  return n_bad ? 3 : 0;
}
