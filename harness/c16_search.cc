// C16 harness (2): monitors REAL `src_search<i_mep, std_es>` sessions (one or more `run(k)` calls on the
// same search object) on a data set with unique row ids.
//
// request : search <mode> <strat> <n> <param> <preva> <gens> <inds> <vseed> <k1> [<k2> ...]
//             mode   real : the strategy is installed with src_search::validation_strategy(validator_id);
//                           both frames are printed at every after_generation callback and before / after
//                           every run(k) call
//                    spy  : the same strategy object (holdout_validation / dss / as_is_validation) is
//                           wrapped in a decorator installed through search::validation_strategy<V>(),
//                           which prints every init / shake / close call of search::run + evolution::run
//                           with both frames before and after, the return value and the number of
//                           evaluator clears (counting evaluators handed to the strategy)
//             strat  asis | holdout | dss | holdout-unset | dss-unset  (unset: the environment parameter
//                    is left to src_search::tune_parameters)
//             param  validation percentage (holdout) / period (dss) / ignored
//             preva  examples put in the validation frame before the search is built
//             ki     number of runs of the i-th run() call
// answer  : <item> ;; <item> ;; ...
//   item  : O <label> | tr | va                      observation (id:age:diff), label = start<c> / cb<c>.<gen> /
//                                                    ret<c>  (c = index of the run() call)
//           H <perc> <run> | pre_tr | pre_va | post_tr | post_va | clears hasEva ## <oracle>
//           D init <run> | pre_tr | pre_va | post_tr | post_va | ret ct cv ## <oracle>     (as c16_validation)
//           D shake <gap> <g> | … ; D close <run> | …
//           A <call> <arg> | pre_tr | pre_va | post_tr | post_va | ret ## <oracle>        as_is call
//           B <gen>                                  after_generation callback (spy mode: position only)
//           R <c> <k>                                run(k) number c starts;  Z <c>  run() returned
#include "kernel/vita.h"
#include "common/verif.h"

#include <map>
#include <sstream>

using namespace vita;

namespace
{

const std::uint64_t ALTERED = 1000000000ull;

double in1(unsigned id) { return 0.5 * id + 0.25; }
double in2(unsigned id) { return 3.0 * id - 7.0; }

std::string csv(unsigned first, unsigned n)
{
  std::ostringstream os;
  for (unsigned id(first); id < first + n; ++id)
    os << id << ',' << in1(id) << ',' << in2(id) << '\n';
  return os.str();
}

std::uint64_t canon(const dataframe::example &e)
{
  if (!std::holds_alternative<D_DOUBLE>(e.output))
    return ALTERED * 2;
  const double o(std::get<D_DOUBLE>(e.output));
  if (!(o >= 0.0 && o < 1e8) || o != static_cast<double>(static_cast<unsigned>(o)))
    return ALTERED * 2;
  const auto id(static_cast<unsigned>(o));
  const bool intact(e.input.size() == 2 && std::holds_alternative<D_DOUBLE>(e.input[0])
                    && std::holds_alternative<D_DOUBLE>(e.input[1])
                    && std::get<D_DOUBLE>(e.input[0]) == in1(id)
                    && std::get<D_DOUBLE>(e.input[1]) == in2(id));
  return intact ? id : id + ALTERED;
}

struct snap_ex { std::uint64_t id; unsigned age; std::uintmax_t diff; };
using snap = std::vector<snap_ex>;

snap take(const dataframe &d)
{
  snap s;
  for (const auto &e : d)
    s.push_back({canon(e), e.age, e.difficulty});
  return s;
}

std::string show_ids(const snap &s)
{
  std::string r;
  for (const auto &e : s) { if (!r.empty()) r += ' '; r += std::to_string(e.id); }
  return r;
}

std::string show_full(const snap &s)
{
  std::string r;
  for (const auto &e : s)
  {
    if (!r.empty()) r += ' ';
    r += std::to_string(e.id) + ":" + std::to_string(e.age) + ":" + std::to_string(e.diff);
  }
  return r;
}

// ---- own oracle (independent of the Lean model) ---------------------------------------------
std::map<std::uint64_t, long> bag(const snap &a, const snap &b)
{
  std::map<std::uint64_t, long> m;
  for (const auto &e : a) ++m[e.id];
  for (const auto &e : b) ++m[e.id];
  return m;
}

void conservation(const std::map<std::uint64_t, long> &pre, const snap &qtr, const snap &qva,
                  std::vector<std::string> &bad)
{
  auto post(bag(qtr, qva));
  bool lost(false), dup(false), alt(false);
  for (const auto &[id, n] : pre)
    if (post[id] < n) lost = true;
  for (const auto &[id, n] : post)
  {
    if (id >= ALTERED) alt = true;
    const auto it(pre.find(id));
    if (it == pre.end() ? n > 0 : n > it->second) dup = true;
  }
  if (alt) bad.push_back("altered");
  if (lost) bad.push_back("lost");
  if (dup && !alt) bad.push_back("dup");
}

std::string verdict(const std::vector<std::string> &bad)
{
  if (bad.empty()) return "fine";
  std::string r;
  for (const auto &b : bad) { if (!r.empty()) r += ' '; r += b; }
  return r;
}

struct counting final : cached_evaluator
{
  unsigned n = 0;
  void clear() override { ++n; }
};

enum class strat_t { asis, holdout, dss };

struct session
{
  src_problem &p;
  std::string out;
  std::map<std::uint64_t, long> loaded;

  dataframe &tr() { return p.data(dataset_t::training); }
  dataframe &va() { return p.data(dataset_t::validation); }

  void emit(const std::string &s)
  {
    if (!out.empty()) out += " ;; ";
    out += s;
  }

  // an observation point: the property's "at every moment" clause, checked here (oracle) and by Lean
  void observe(const std::string &label)
  {
    const snap t(take(tr())), v(take(va()));
    std::vector<std::string> bad;
    conservation(loaded, t, v, bad);
    emit("O " + label + " | " + show_full(t) + " | " + show_full(v) + " ## " + verdict(bad));
  }
};

// decorator printing every call search::run / evolution::run make on the strategy
struct spy_vs final : validation_strategy
{
  session &s;
  std::unique_ptr<validation_strategy> inner;
  strat_t kind;
  counting *ct, *cv;
  bool has_eva;

  spy_vs(session &ss, std::unique_ptr<validation_strategy> i, strat_t k, counting *t, counting *v,
         bool he)
    : s(ss), inner(std::move(i)), kind(k), ct(t), cv(v), has_eva(he) {}

  template<class F> void call(int what, unsigned arg, F &&f)
  {
    const snap ptr(take(s.tr())), pva(take(s.va()));
    const unsigned c0t(ct->n), c0v(cv->n);
    const bool ret(f());
    const snap qtr(take(s.tr())), qva(take(s.va()));
    const unsigned dt(ct->n - c0t), dv(cv->n - c0v);

    std::vector<std::string> bad;
    conservation(bag(ptr, pva), qtr, qva, bad);
    const auto &env(s.p.env);

    if (kind == strat_t::holdout)
    {
      // only init does something; shake/close are the defaults of the interface
      if (what == 0)
      {
        const unsigned perc(*env.validation_percentage);
        if (qtr.empty()) bad.push_back("empty-tr");
        if (arg == 0)
        {
          const std::size_t share(std::max<std::size_t>(ptr.size() * (100 - perc) / 100, 1));
          if (qtr.size() != share) bad.push_back("share");
          if (dt != (has_eva ? 1u : 0u)) bad.push_back("report");
        }
        else if (show_ids(ptr) != show_ids(qtr) || show_ids(pva) != show_ids(qva) || dt)
          bad.push_back("later-run");
        s.emit("H " + std::to_string(perc) + " " + std::to_string(arg) + " | " + show_ids(ptr) + " | "
               + show_ids(pva) + " | " + show_ids(qtr) + " | " + show_ids(qva) + " | "
               + std::to_string(dt) + " " + std::to_string(int(has_eva)) + " ## " + verdict(bad));
        return;
      }
    }
    if (kind == strat_t::dss)
    {
      const unsigned gap(*env.dss);
      const bool reshuffle(what == 0 || (what == 1 && arg != 0 && arg % gap == 0));
      if (reshuffle)
      {
        if (qtr.empty()) bad.push_back("empty-tr");
        if (qva.empty()) bad.push_back("empty-va");
        for (const auto &e : qtr)
          if (e.age != 1 || e.diff != 0) { bad.push_back("reset"); break; }
        std::map<std::uint64_t, std::pair<unsigned, std::uintmax_t>> was;
        for (const auto &e : ptr) was[e.id] = {e.age, e.diff};
        for (const auto &e : pva) was[e.id] = {e.age, e.diff};
        for (const auto &e : qva)
        {
          const auto w(was[e.id]);
          const bool same(what == 0 ? (e.age == 1 && e.diff == 0)
                                    : (e.age == w.first + 1 && e.diff == w.second));
          if (!same) { bad.push_back("val-changed"); break; }
        }
        if (dt != 1 || dv != 1 || (what == 1 && !ret)) bad.push_back("report");
      }
      else if (what == 1)
      {
        if (ret || dt || dv || show_full(ptr) != show_full(qtr) || show_full(pva) != show_full(qva))
          bad.push_back("report");
      }
      else
      {
        if (!qtr.empty() || qva.size() != ptr.size() + pva.size()) bad.push_back("close");
        if (dt != 1 || dv != 1) bad.push_back("report");
      }
      const std::string head(what == 0 ? "D init " + std::to_string(arg)
                             : what == 1 ? "D shake " + std::to_string(gap) + " " + std::to_string(arg)
                                         : "D close " + std::to_string(arg));
      s.emit(head + " | " + show_full(ptr) + " | " + show_full(pva) + " | " + show_full(qtr) + " | "
             + show_full(qva) + " | " + std::to_string(int(ret)) + " " + std::to_string(dt) + " "
             + std::to_string(dv) + " ## " + verdict(bad));
      return;
    }
    // as_is, and the default shake / close of hold-out: nothing may change, nothing is reported
    if (ret || dt || dv || show_full(ptr) != show_full(qtr) || show_full(pva) != show_full(qva))
      bad.push_back("as-is-changed");
    s.emit(std::string("A ") + (what == 0 ? "init " : what == 1 ? "shake " : "close ")
           + std::to_string(arg) + " | " + show_full(ptr) + " | " + show_full(pva) + " | "
           + show_full(qtr) + " | " + show_full(qva) + " | " + std::to_string(int(ret)) + " ## "
           + verdict(bad));
  }

  void init(unsigned r) override { call(0, r, [&] { inner->init(r); return false; }); }
  bool shake(unsigned g) override
  {
    bool ret(false);
    call(1, g, [&] { return ret = inner->shake(g); });
    return ret;
  }
  void close(unsigned r) override { call(2, r, [&] { inner->close(r); return false; }); }
};

std::string do_search(const std::vector<std::string> &t)
{
  const bool spy(t[1] == "spy");
  const std::string sname(t[2]);
  const unsigned n(std::stoul(t[3])), param(std::stoul(t[4])), preva(std::stoul(t[5])),
                 gens(std::stoul(t[6])), inds(std::stoul(t[7]));
  random::seed(std::stoul(t[8]));

  const strat_t kind(sname.rfind("holdout", 0) == 0 ? strat_t::holdout
                     : sname.rfind("dss", 0) == 0   ? strat_t::dss
                                                    : strat_t::asis);
  const bool unset(sname.size() > 6 && sname.substr(sname.size() - 6) == "-unset");

  std::istringstream is(csv(1, n));
  src_problem p(is);
  p.setup_symbols();
  for (unsigned i(0); i < preva; ++i)
  {
    // same schema: take a copy of a loaded row and give it a fresh id
    auto e(*p.data(dataset_t::training).begin());
    const unsigned id(n + i + 1);
    e.output = value_t(static_cast<D_DOUBLE>(id));
    e.input = {value_t(in1(id)), value_t(in2(id))};
    p.data(dataset_t::validation).push_back(e);
  }

  p.env.individuals = inds;
  p.env.generations = gens;
  p.env.layers = 1;
  p.env.mep.code_length = 12;
  p.env.max_stuck_time = 1000;
  if (!unset)
  {
    if (kind == strat_t::dss) p.env.dss = param;
    if (kind == strat_t::holdout) p.env.validation_percentage = param;
  }

  session s{p, {}, {}};
  s.loaded = bag(take(s.tr()), take(s.va()));

  counting ct, cv;
  src_search<i_mep, std_es> srch(p);
  if (spy)
  {
    std::unique_ptr<validation_strategy> inner;
    const bool has_eva(std::stoul(t[8]) % 3 != 0);
    switch (kind)
    {
    case strat_t::dss:     inner = std::make_unique<dss>(p, ct, cv); break;
    case strat_t::holdout: inner = std::make_unique<holdout_validation>(p, has_eva ? &ct : nullptr);
                           break;
    default:               inner = std::make_unique<as_is_validation>();
    }
    static_cast<search<i_mep, std_es> &>(srch).validation_strategy<spy_vs>(
      s, std::move(inner), kind, &ct, &cv, has_eva);
  }
  else
    srch.validation_strategy(kind == strat_t::dss       ? validator_id::dss
                             : kind == strat_t::holdout ? validator_id::holdout
                                                        : validator_id::as_is);

  unsigned call(0);
  srch.after_generation(
    [&](const population<i_mep> &, const summary<i_mep> &sum)
    {
      if (spy)
        s.emit("B " + std::to_string(sum.gen));
      else
        s.observe("cb" + std::to_string(call) + "." + std::to_string(sum.gen));
    });

  for (std::size_t k(9); k < t.size(); ++k, ++call)
  {
    const unsigned runs(std::stoul(t[k]));
    if (spy)
      s.emit("R " + std::to_string(call) + " " + std::to_string(runs));
    else
      s.observe("start" + std::to_string(call) + "." + std::to_string(runs));
    srch.run(runs);
    if (spy)
      s.emit("Z " + std::to_string(call));
    else
      s.observe("ret" + std::to_string(call) + ".0");
  }

  // the environment the search ended up with (the share / period actually in force)
  s.emit("P " + std::to_string(p.env.validation_percentage.has_value() ? long(*p.env.validation_percentage) : -1L)
         + " " + std::to_string(p.env.dss.has_value() ? long(*p.env.dss) : -1L));
  return s.out;
}

}  // namespace

int main()
{
  log::reporting_level = log::lOFF;

  // evolution::run polls the keyboard (stdin) at every generation: read every request first, then
  // detach stdin
  std::vector<std::string> lines;
  for (std::string l; std::getline(std::cin, l);)
    lines.push_back(l);
  if (!std::freopen("/dev/null", "r", stdin))
    return 3;

  for (const auto &line : lines)
  {
    const auto t(verif::split(line));
    std::string ans("bad-request");
    try
    {
      if (t.size() >= 10 && t[0] == "search" && (t[1] == "real" || t[1] == "spy"))
        ans = do_search(t);
    }
    catch (const std::exception &e)
    {
      ans = std::string("exception ") + e.what();
    }
    std::cout << ans << std::endl;
  }
}
