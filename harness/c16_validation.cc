// C16 harness: drives holdout_validation::init and dss::init/shake/close directly on a src_problem
// whose examples carry unique ids, prints both sets before/after every call (for the Lean driver)
// and the verdict of its own multiset oracle.
//
// request  : holdout <n> <perc> <prefill_va> <vseed> <run> <run> ...        (vseed % 3 == 0: no evaluator given)
//            dss <n> <gap> <initial_va> <runs> <gens> <vseed> <profile_seed>
//            schema <n> <nva> <seed>   dataframe::clone_schema called directly: `A schema 0 | … | 0` (nothing moves)
//            wsum <n> <seed>       (only meaningful in a build with asserts / debug log: NDEBUG off)
// answer   : <step> ## <oracle> ;; <step> ## <oracle> ;; ...
//   step   : H <perc> <run> | pre_tr | pre_va | post_tr | post_va | clears hasEva  (ids)
//            D init <run> | pre_tr | pre_va | post_tr | post_va | ret ct cv        (id:age:diff)
//            D shake <gap> <g> | ... ; D close <run> | ...
//   oracle : "fine" or a space separated list of failed clauses
//            (lost dup altered empty-tr empty-va share later-run reset val-changed report close schema)
// The training frame carries class metadata (two labels), the validation frame none: after a call that
// fills an EMPTY validation frame from the training frame, validation.classes() == training.classes().
#include "kernel/vita.h"
#include "kernel/gp/src/dss.h"
#include "kernel/gp/src/holdout_validation.h"
#include "common/verif.h"

#include <algorithm>
#include <map>
#include <sstream>

using namespace vita;

namespace
{

const std::uint64_t ALTERED = 1000000000ull;

dataframe::example make_example(unsigned id)
{
  dataframe::example e;
  e.input = {value_t(0.5 * id + 0.25), value_t(std::string("row") + std::to_string(id)),
             value_t(int(id) * 3 - 7)};
  e.output = value_t(int(id));
  return e;
}

// canonical id of an example: its id when the payload is intact, id + ALTERED otherwise
std::uint64_t canon(const dataframe::example &e)
{
  if (!std::holds_alternative<D_INT>(e.output))
    return ALTERED * 2;
  const auto id(static_cast<unsigned>(std::get<D_INT>(e.output)));
  const auto want(make_example(id));
  return e.input == want.input ? id : id + ALTERED;
}

struct snap_ex { std::uint64_t id; unsigned age; std::uintmax_t diff; };
using snap = std::vector<snap_ex>;

snap take(const dataframe &d)
{
  snap s;
  for (const auto &e : d)
    s.push_back({canon(e), e.age, e.difficulty});
  return s;
}

std::string show_ids(const snap &s)
{
  std::string r;
  for (const auto &e : s) { if (!r.empty()) r += ' '; r += std::to_string(e.id); }
  return r;
}

std::string show_full(const snap &s)
{
  std::string r;
  for (const auto &e : s)
  {
    if (!r.empty()) r += ' ';
    r += std::to_string(e.id) + ":" + std::to_string(e.age) + ":" + std::to_string(e.diff);
  }
  return r;
}

// ---- the harness's own oracle (independent of the Lean model) -------------------------------
std::map<std::uint64_t, long> bag(const snap &a, const snap &b)
{
  std::map<std::uint64_t, long> m;
  for (const auto &e : a) ++m[e.id];
  for (const auto &e : b) ++m[e.id];
  return m;
}

void conservation(const snap &ptr, const snap &pva, const snap &qtr, const snap &qva,
                  std::vector<std::string> &bad)
{
  auto pre(bag(ptr, pva)), post(bag(qtr, qva));
  bool lost(false), dup(false), alt(false);
  for (const auto &[id, n] : pre)
    if (post[id] < n) lost = true;
  for (const auto &[id, n] : post)
  {
    if (id >= ALTERED) alt = true;
    if (pre.count(id) ? n > pre[id] : true) dup = true;
  }
  if (alt) bad.push_back("altered");
  if (lost) bad.push_back("lost");
  if (dup && !alt) bad.push_back("dup");
}

std::string verdict(const std::vector<std::string> &bad)
{
  if (bad.empty()) return "fine";
  std::string r;
  for (const auto &b : bad) { if (!r.empty()) r += ' '; r += b; }
  return r;
}

// gives a frame the metadata of a two-class data set (no examples)
void give_schema(dataframe &d)
{
  std::istringstream is("a,1.0,2.0\nb,3.0,4.0\n");
  d.read_csv(is);
  d.clear();
}

struct counting final : cached_evaluator
{
  unsigned n = 0;
  void clear() override { ++n; }
};

std::string do_holdout(const std::vector<std::string> &t)
{
  const unsigned n(std::stoul(t[1])), perc(std::stoul(t[2])), prefill(std::stoul(t[3]));
  random::seed(std::stoul(t[4]));

  src_problem p;
  give_schema(p.data(dataset_t::training));
  for (unsigned i(0); i < n; ++i)
    p.data(dataset_t::training).push_back(make_example(i + 1));
  for (unsigned i(0); i < prefill; ++i)
    p.data(dataset_t::validation).push_back(make_example(n + i + 1));
  p.env.validation_percentage = perc;

  counting ct;
  const bool has_eva(std::stoul(t[4]) % 3 != 0);
  holdout_validation v(p, has_eva ? &ct : nullptr);

  std::string out;
  for (std::size_t k(5); k < t.size(); ++k)
  {
    const unsigned run(std::stoul(t[k]));
    const snap ptr(take(p.data(dataset_t::training))), pva(take(p.data(dataset_t::validation)));
    const unsigned c0(ct.n);
    v.init(run);
    const unsigned dt(ct.n - c0);
    const snap qtr(take(p.data(dataset_t::training))), qva(take(p.data(dataset_t::validation)));

    std::vector<std::string> bad;
    conservation(ptr, pva, qtr, qva, bad);
    if (qtr.empty()) bad.push_back("empty-tr");
    if (run == 0)
    {
      const std::size_t share(std::max<std::size_t>(ptr.size() * (100 - perc) / 100, 1));
      if (qtr.size() != share) bad.push_back("share");
      // the split changes the training set: cached fitness values must be dropped (when an evaluator is known)
      if (dt != (has_eva ? 1u : 0u)) bad.push_back("report");
      // the validation frame describes the examples it received
      if (p.data(dataset_t::validation).classes() != p.data(dataset_t::training).classes()
          || p.data(dataset_t::training).classes() != 2)
        bad.push_back("schema");
    }
    else if (show_ids(ptr) != show_ids(qtr) || show_ids(pva) != show_ids(qva) || dt)
      bad.push_back("later-run");

    if (!out.empty()) out += " ;; ";
    out += "H " + std::to_string(perc) + " " + std::to_string(run) + " | " + show_ids(ptr) + " | "
           + show_ids(pva) + " | " + show_ids(qtr) + " | " + show_ids(qva) + " | " + std::to_string(dt)
           + " " + std::to_string(int(has_eva)) + " ## " + verdict(bad);
  }
  return out;
}

std::string do_dss(const std::vector<std::string> &t)
{
  const unsigned n(std::stoul(t[1])), gap(std::stoul(t[2])), initial_va(std::stoul(t[3])),
                 runs(std::stoul(t[4])), gens(std::stoul(t[5]));
  random::seed(std::stoul(t[6]));
  verif::splitmix prof(std::stoull(t[7]));

  src_problem p;
  give_schema(p.data(dataset_t::training));
  for (unsigned i(0); i < n; ++i)
    p.data(i < initial_va ? dataset_t::validation : dataset_t::training).push_back(make_example(i + 1));
  p.env.dss = gap;

  counting ct, cv;
  dss d(p, ct, cv);

  auto &tr(p.data(dataset_t::training));
  auto &va(p.data(dataset_t::validation));

  std::string out;
  bool runaway(false);   // a strategy that duplicates examples grows without bound: stop the case
  auto step = [&](const std::string &head, int kind, unsigned g, auto &&call)
  {
    if (runaway) return;
    const snap ptr(take(tr)), pva(take(va));
    const unsigned c0t(ct.n), c0v(cv.n);
    const bool ret(call());
    const snap qtr(take(tr)), qva(take(va));
    const unsigned dt(ct.n - c0t), dv(cv.n - c0v);

    std::vector<std::string> bad;
    conservation(ptr, pva, qtr, qva, bad);
    const bool reshuffle(kind == 0 || (kind == 1 && g != 0 && g % gap == 0));
    if (reshuffle)
    {
      if (qtr.empty()) bad.push_back("empty-tr");
      if (qva.empty()) bad.push_back("empty-va");
      for (const auto &e : qtr)
        if (e.age != 1 || e.diff != 0) { bad.push_back("reset"); break; }
      // validation examples keep their counters (after the age update of the call)
      std::map<std::uint64_t, std::pair<unsigned, std::uintmax_t>> was;
      for (const auto &e : ptr) was[e.id] = {e.age, e.diff};
      for (const auto &e : pva) was[e.id] = {e.age, e.diff};
      for (const auto &e : qva)
      {
        const auto w(was[e.id]);
        const bool same(kind == 0 ? (e.age == 1 && e.diff == 0)
                                  : (e.age == w.first + 1 && e.diff == w.second));
        if (!same) { bad.push_back("val-changed"); break; }
      }
      if (dt != 1 || dv != 1 || (kind == 1 && !ret)) bad.push_back("report");
    }
    else if (kind == 1)
    {
      if (ret || dt || dv || show_full(ptr) != show_full(qtr) || show_full(pva) != show_full(qva))
        bad.push_back("report");
    }
    else  // close
    {
      if (!qtr.empty() || qva.size() != ptr.size() + pva.size()) bad.push_back("close");
      if (dt != 1 || dv != 1) bad.push_back("report");
    }

    // an empty validation frame that received the training examples describes them
    if ((reshuffle || kind == 2) && pva.empty() && !ptr.empty() && va.classes() != tr.classes())
      bad.push_back("schema");
    if (tr.classes() != 2)
      bad.push_back("schema");

    if (!out.empty()) out += " ;; ";
    out += head + " | " + show_full(ptr) + " | " + show_full(pva) + " | " + show_full(qtr) + " | "
           + show_full(qva) + " | " + std::to_string(int(ret)) + " " + std::to_string(dt) + " "
           + std::to_string(dv) + " ## " + verdict(bad);
    if (qtr.size() + qva.size() > 2 * std::size_t(n) + 16) runaway = true;
  };

  for (unsigned r(0); r < runs; ++r)
  {
    step("D init " + std::to_string(r), 0, 0, [&] { d.init(r); return false; });

    for (unsigned g(0); g < gens; ++g)
    {
      // "arbitrary evaluations": what evaluators do to the counters between two shakes
      // modes 4..7 (rare): counters at the limits of their types – difficulty near 2^64 (the weight sum
      // wraps), ages whose cube wraps (2^22: weight 0, weight_sum can be 0) or that wrap themselves
      const unsigned mode(prof.below(16) == 0 ? 4 + prof.below(4) : prof.below(4));
      for (auto &e : tr)
        switch (mode)
        {
        case 0:  e.difficulty += prof.below(4);  break;
        case 1:  if (prof.below(5) == 0) e.difficulty += 1000 + prof.below(100000);  break;
        case 2:  break;
        case 4:  e.difficulty = ~std::uintmax_t(0) - prof.below(3);  break;
        case 5:  e.difficulty = 0;  break;
        case 6:  if (prof.below(2)) e.difficulty = (std::uintmax_t(1) << 63) + prof.below(2);  break;
        case 7:  e.difficulty += prof.below(50);  break;
        default: e.difficulty += prof.below(50);
        }
      if (mode == 5)        // every weight is 0 after the ++age of the next reshuffle
        for (auto *d : {&tr, &va})
          for (auto &e : *d) { e.age = (1u << 22) - 1;  e.difficulty = 0; }
      if (mode == 7)        // ages at the end of `unsigned`
        for (auto &e : va)
          if (prof.below(2)) e.age = ~0u - prof.below(2);

      step("D shake " + std::to_string(gap) + " " + std::to_string(g), 1, g,
           [&] { return d.shake(g); });
    }

    step("D close " + std::to_string(r), 2, 0, [&] { d.close(r); return false; });
  }
  return out;
}

// dataframe::clone_schema called directly: metadata only, no example moves
std::string do_schema(const std::vector<std::string> &t)
{
  const unsigned n(std::stoul(t[1])), nva(std::stoul(t[2]));
  verif::splitmix r(std::stoull(t[3]));
  dataframe a, b;
  give_schema(a);
  for (unsigned i(0); i < n; ++i)
  {
    auto e(make_example(i + 1));
    e.age = r.below(5);  e.difficulty = r.below(100);
    a.push_back(e);
  }
  for (unsigned i(0); i < nva; ++i)
    b.push_back(make_example(n + i + 1));
  const bool rev(r.below(4) == 0);       // sometimes the other way round (training takes the empty schema)
  const snap pa(take(a)), pb(take(b));
  if (rev) a.clone_schema(b); else b.clone_schema(a);
  const snap qa(take(a)), qb(take(b));
  std::vector<std::string> bad;
  conservation(pa, pb, qa, qb, bad);
  if (show_full(pa) != show_full(qa) || show_full(pb) != show_full(qb)) bad.push_back("schema-moved-examples");
  if (a.classes() != b.classes() || a.classes() != (rev ? 0u : 2u)) bad.push_back("schema");
  return "A schema 0 | " + show_full(pa) + " | " + show_full(pb) + " | " + show_full(qa) + " | " + show_full(qb)
         + " | 0 ## " + verdict(bad);
}

// weight sum as the library computes it (debug log of shake_impl), as this harness computes it, and
// the counters, for the Lean model (`W` line).  Needs a build with NDEBUG off.
std::string do_wsum(const std::vector<std::string> &t)
{
  const unsigned n(std::stoul(t[1]));
  verif::splitmix r(std::stoull(t[2]));
  random::seed(std::stoul(t[2]) & 0x7fffffff);

  src_problem p;
  for (unsigned i(0); i < n; ++i)
  {
    auto e(make_example(i + 1));
    if (i == 0) { e.age = 1;  e.difficulty = r.next(); }           // the training frame: average age 1
    else
    {
      const unsigned m(r.below(4));
      e.age = m == 0 ? r.below(5) : m == 1 ? (1u << 21) + r.below(1u << 22) : m == 2 ? ~0u - 1 - r.below(3)
                                                                             : r.below(3000000);
      e.difficulty = r.below(3) ? r.next() : r.below(100);
    }
    p.data(i == 0 ? dataset_t::training : dataset_t::validation).push_back(e);
  }
  p.env.dss = 1;
  counting ct, cv;
  dss d(p, ct, cv);

  // expected: counters after the ++age of shake(), order = validation then training (move_to_validation)
  std::string items;
  std::uintmax_t own(0);
  for (auto *f : {&p.data(dataset_t::validation), &p.data(dataset_t::training)})
    for (const auto &e : *f)
    {
      const unsigned a(e.age + 1);
      own += e.difficulty + std::uintmax_t(a) * a * a;
      items += (items.empty() ? "" : " ") + std::to_string(canon(e)) + ":" + std::to_string(a) + ":"
               + std::to_string(e.difficulty);
    }
  if (own == 0)
    return "wsum skipped-zero | " + items;      // assert(weight_sum) would abort

  std::ostringstream cap;
  auto *old(std::cout.rdbuf(cap.rdbuf()));
  const auto lvl(log::reporting_level);
  log::reporting_level = log::lDEBUG;
  d.shake(1);
  log::reporting_level = lvl;
  std::cout.rdbuf(old);

  const std::string txt(cap.str());
  const auto pos(txt.find("weight sum: "));
  std::string seen("none");
  if (pos != std::string::npos)
  {
    seen.clear();
    for (auto i(pos + 12); i < txt.size() && std::isdigit(static_cast<unsigned char>(txt[i])); ++i)
      seen += txt[i];
  }
  return "wsum " + seen + " " + std::to_string(own) + " | " + items;
}

}  // namespace

int main()
{
  log::reporting_level = log::lOFF;

  std::string line;
  while (std::getline(std::cin, line))
  {
    const auto t(verif::split(line));
    std::string ans("bad-request");
    try
    {
      if (t.size() >= 6 && t[0] == "holdout") ans = do_holdout(t);
      else if (t.size() == 8 && t[0] == "dss") ans = do_dss(t);
      else if (t.size() == 3 && t[0] == "wsum") ans = do_wsum(t);
      else if (t.size() == 4 && t[0] == "schema") ans = do_schema(t);
    }
    catch (const std::exception &e)
    {
      ans = std::string("exception ") + e.what();
    }
    std::cout << ans << std::endl;
  }
}
