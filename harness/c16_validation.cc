// C16 harness: drives holdout_validation::init and dss::init/shake/close directly on a src_problem
// whose examples carry unique ids, prints both sets before/after every call (for the Lean driver)
// and the verdict of its own multiset oracle.
//
// request  : holdout <n> <perc> <prefill_va> <vseed> <run> <run> ...
//            dss <n> <gap> <initial_va> <runs> <gens> <vseed> <profile_seed>
// answer   : <step> ## <oracle> ;; <step> ## <oracle> ;; ...
//   step   : H <perc> <run> | pre_tr | pre_va | post_tr | post_va                  (ids)
//            D init <run> | pre_tr | pre_va | post_tr | post_va | ret ct cv        (id:age:diff)
//            D shake <gap> <g> | ... ; D close <run> | ...
//   oracle : "fine" or a space separated list of failed clauses
//            (lost dup altered empty-tr empty-va share later-run reset val-changed report close)
#include "kernel/vita.h"
#include "kernel/gp/src/dss.h"
#include "kernel/gp/src/holdout_validation.h"
#include "common/verif.h"

#include <algorithm>
#include <map>

using namespace vita;

namespace
{

const std::uint64_t ALTERED = 1000000000ull;

dataframe::example make_example(unsigned id)
{
  dataframe::example e;
  e.input = {value_t(0.5 * id + 0.25), value_t(std::string("row") + std::to_string(id)),
             value_t(int(id) * 3 - 7)};
  e.output = value_t(int(id));
  return e;
}

// canonical id of an example: its id when the payload is intact, id + ALTERED otherwise
std::uint64_t canon(const dataframe::example &e)
{
  if (!std::holds_alternative<D_INT>(e.output))
    return ALTERED * 2;
  const auto id(static_cast<unsigned>(std::get<D_INT>(e.output)));
  const auto want(make_example(id));
  return e.input == want.input ? id : id + ALTERED;
}

struct snap_ex { std::uint64_t id; unsigned age; std::uintmax_t diff; };
using snap = std::vector<snap_ex>;

snap take(const dataframe &d)
{
  snap s;
  for (const auto &e : d)
    s.push_back({canon(e), e.age, e.difficulty});
  return s;
}

std::string show_ids(const snap &s)
{
  std::string r;
  for (const auto &e : s) { if (!r.empty()) r += ' '; r += std::to_string(e.id); }
  return r;
}

std::string show_full(const snap &s)
{
  std::string r;
  for (const auto &e : s)
  {
    if (!r.empty()) r += ' ';
    r += std::to_string(e.id) + ":" + std::to_string(e.age) + ":" + std::to_string(e.diff);
  }
  return r;
}

// ---- the harness's own oracle (independent of the Lean model) -------------------------------
std::map<std::uint64_t, long> bag(const snap &a, const snap &b)
{
  std::map<std::uint64_t, long> m;
  for (const auto &e : a) ++m[e.id];
  for (const auto &e : b) ++m[e.id];
  return m;
}

void conservation(const snap &ptr, const snap &pva, const snap &qtr, const snap &qva,
                  std::vector<std::string> &bad)
{
  auto pre(bag(ptr, pva)), post(bag(qtr, qva));
  bool lost(false), dup(false), alt(false);
  for (const auto &[id, n] : pre)
    if (post[id] < n) lost = true;
  for (const auto &[id, n] : post)
  {
    if (id >= ALTERED) alt = true;
    if (pre.count(id) ? n > pre[id] : true) dup = true;
  }
  if (alt) bad.push_back("altered");
  if (lost) bad.push_back("lost");
  if (dup && !alt) bad.push_back("dup");
}

std::string verdict(const std::vector<std::string> &bad)
{
  if (bad.empty()) return "fine";
  std::string r;
  for (const auto &b : bad) { if (!r.empty()) r += ' '; r += b; }
  return r;
}

struct counting final : cached_evaluator
{
  unsigned n = 0;
  void clear() override { ++n; }
};

std::string do_holdout(const std::vector<std::string> &t)
{
  const unsigned n(std::stoul(t[1])), perc(std::stoul(t[2])), prefill(std::stoul(t[3]));
  random::seed(std::stoul(t[4]));

  src_problem p;
  for (unsigned i(0); i < n; ++i)
    p.data(dataset_t::training).push_back(make_example(i + 1));
  for (unsigned i(0); i < prefill; ++i)
    p.data(dataset_t::validation).push_back(make_example(n + i + 1));
  p.env.validation_percentage = perc;

  holdout_validation v(p);

  std::string out;
  for (std::size_t k(5); k < t.size(); ++k)
  {
    const unsigned run(std::stoul(t[k]));
    const snap ptr(take(p.data(dataset_t::training))), pva(take(p.data(dataset_t::validation)));
    v.init(run);
    const snap qtr(take(p.data(dataset_t::training))), qva(take(p.data(dataset_t::validation)));

    std::vector<std::string> bad;
    conservation(ptr, pva, qtr, qva, bad);
    if (qtr.empty()) bad.push_back("empty-tr");
    if (run == 0)
    {
      const std::size_t share(std::max<std::size_t>(ptr.size() * (100 - perc) / 100, 1));
      if (qtr.size() != share) bad.push_back("share");
    }
    else if (show_ids(ptr) != show_ids(qtr) || show_ids(pva) != show_ids(qva))
      bad.push_back("later-run");

    if (!out.empty()) out += " ;; ";
    out += "H " + std::to_string(perc) + " " + std::to_string(run) + " | " + show_ids(ptr) + " | "
           + show_ids(pva) + " | " + show_ids(qtr) + " | " + show_ids(qva) + " ## " + verdict(bad);
  }
  return out;
}

std::string do_dss(const std::vector<std::string> &t)
{
  const unsigned n(std::stoul(t[1])), gap(std::stoul(t[2])), initial_va(std::stoul(t[3])),
                 runs(std::stoul(t[4])), gens(std::stoul(t[5]));
  random::seed(std::stoul(t[6]));
  verif::splitmix prof(std::stoull(t[7]));

  src_problem p;
  for (unsigned i(0); i < n; ++i)
    p.data(i < initial_va ? dataset_t::validation : dataset_t::training).push_back(make_example(i + 1));
  p.env.dss = gap;

  counting ct, cv;
  dss d(p, ct, cv);

  auto &tr(p.data(dataset_t::training));
  auto &va(p.data(dataset_t::validation));

  std::string out;
  bool runaway(false);   // a strategy that duplicates examples grows without bound: stop the case
  auto step = [&](const std::string &head, int kind, unsigned g, auto &&call)
  {
    if (runaway) return;
    const snap ptr(take(tr)), pva(take(va));
    const unsigned c0t(ct.n), c0v(cv.n);
    const bool ret(call());
    const snap qtr(take(tr)), qva(take(va));
    const unsigned dt(ct.n - c0t), dv(cv.n - c0v);

    std::vector<std::string> bad;
    conservation(ptr, pva, qtr, qva, bad);
    const bool reshuffle(kind == 0 || (kind == 1 && g != 0 && g % gap == 0));
    if (reshuffle)
    {
      if (qtr.empty()) bad.push_back("empty-tr");
      if (qva.empty()) bad.push_back("empty-va");
      for (const auto &e : qtr)
        if (e.age != 1 || e.diff != 0) { bad.push_back("reset"); break; }
      // validation examples keep their counters (after the age update of the call)
      std::map<std::uint64_t, std::pair<unsigned, std::uintmax_t>> was;
      for (const auto &e : ptr) was[e.id] = {e.age, e.diff};
      for (const auto &e : pva) was[e.id] = {e.age, e.diff};
      for (const auto &e : qva)
      {
        const auto w(was[e.id]);
        const bool same(kind == 0 ? (e.age == 1 && e.diff == 0)
                                  : (e.age == w.first + 1 && e.diff == w.second));
        if (!same) { bad.push_back("val-changed"); break; }
      }
      if (dt != 1 || dv != 1 || (kind == 1 && !ret)) bad.push_back("report");
    }
    else if (kind == 1)
    {
      if (ret || dt || dv || show_full(ptr) != show_full(qtr) || show_full(pva) != show_full(qva))
        bad.push_back("report");
    }
    else  // close
    {
      if (!qtr.empty() || qva.size() != ptr.size() + pva.size()) bad.push_back("close");
      if (dt != 1 || dv != 1) bad.push_back("report");
    }

    if (!out.empty()) out += " ;; ";
    out += head + " | " + show_full(ptr) + " | " + show_full(pva) + " | " + show_full(qtr) + " | "
           + show_full(qva) + " | " + std::to_string(int(ret)) + " " + std::to_string(dt) + " "
           + std::to_string(dv) + " ## " + verdict(bad);
    if (qtr.size() + qva.size() > 2 * std::size_t(n) + 16) runaway = true;
  };

  for (unsigned r(0); r < runs; ++r)
  {
    step("D init " + std::to_string(r), 0, 0, [&] { d.init(r); return false; });

    for (unsigned g(0); g < gens; ++g)
    {
      // "arbitrary evaluations": what evaluators do to the counters between two shakes
      const unsigned mode(prof.below(4));
      for (auto &e : tr)
        switch (mode)
        {
        case 0:  e.difficulty += prof.below(4);  break;
        case 1:  if (prof.below(5) == 0) e.difficulty += 1000 + prof.below(100000);  break;
        case 2:  break;
        default: e.difficulty += prof.below(50);
        }

      step("D shake " + std::to_string(gap) + " " + std::to_string(g), 1, g,
           [&] { return d.shake(g); });
    }

    step("D close " + std::to_string(r), 2, 0, [&] { d.close(r); return false; });
  }
  return out;
}

}  // namespace

int main()
{
  log::reporting_level = log::lOFF;

  std::string line;
  while (std::getline(std::cin, line))
  {
    const auto t(verif::split(line));
    std::string ans("bad-request");
    try
    {
      if (t.size() >= 6 && t[0] == "holdout") ans = do_holdout(t);
      else if (t.size() == 8 && t[0] == "dss") ans = do_dss(t);
    }
    catch (const std::exception &e)
    {
      ans = std::string("exception ") + e.what();
    }
    std::cout << ans << std::endl;
  }
}
