// C17 harness: executes the real i_ga / i_de operators and prints every execution as one step in the
// format of lean/Vita/C17/Driver.lean (integers in decimal, doubles as u64 bit patterns).
//
//   gc <vseed> <count> <lo hi>...                       i_ga(problem), `count` times
//   gseq <vseed> <opseed> <steps> <lo hi>...            operator sequence on a pool of 6 individuals:
//                                                       mutation (p in {0,.05,.3,.5,1}) / crossover
//   dc <vseed> <count> <lobits hibits>...               i_de(problem), `count` times
//   dx <vseed> <opseed> <trials> <pbits> <wlobits> <whibits> <mode> <lobits hibits>...
//        mode 0: target/a/b/c are randomly created individuals
//        mode 1: their genomes are overwritten with adversarial values (equal donors, huge base with tiny
//                difference, zeros, target equal to the mutant …) drawn from opseed
//   answer: steps separated by " ;; "
#include "kernel/vita.h"
#include "common/verif.h"

using namespace vita;

namespace
{

template<class V> std::string ints(const V &v)
{
  std::string r;
  for (auto x : v) { if (!r.empty()) r += ' '; r += std::to_string(x); }
  return r;
}

template<class V> std::string dbits(const V &v)
{
  std::string r;
  for (double x : v) { if (!r.empty()) r += ' '; r += std::to_string(verif::bits(x)); }
  return r;
}

template<class T> void set_age(T &x, unsigned a) { while (x.age() < a) x.inc_age(); }

std::vector<range_t<int>> int_ranges(const std::vector<std::string> &t, std::size_t from)
{
  std::vector<range_t<int>> r;
  for (std::size_t i(from); i + 1 < t.size(); i += 2)
    r.push_back({std::stoi(t[i]), std::stoi(t[i + 1])});
  return r;
}

std::vector<range_t<double>> real_ranges(const std::vector<std::string> &t, std::size_t from)
{
  std::vector<range_t<double>> r;
  for (std::size_t i(from); i + 1 < t.size(); i += 2)
    r.push_back({verif::from_bits(std::stoull(t[i])), verif::from_bits(std::stoull(t[i + 1]))});
  return r;
}

std::string range_txt(const std::vector<range_t<int>> &rs)
{
  std::string r;
  for (const auto &x : rs) r += " " + std::to_string(x.first) + " " + std::to_string(x.second);
  return r;
}

std::string range_txt(const std::vector<range_t<double>> &rs)
{
  std::string r;
  for (const auto &x : rs)
    r += " " + std::to_string(verif::bits(x.first)) + " " + std::to_string(verif::bits(x.second));
  return r;
}

void add(std::string &out, const std::string &step)
{
  if (!out.empty()) out += " ;; ";
  out += step;
}

std::string do_gc(const std::vector<std::string> &t)
{
  random::seed(std::stoul(t[1]));
  const auto rs(int_ranges(t, 3));
  ga_problem prob(rs);
  std::string out;
  for (unsigned k(std::stoul(t[2])); k; --k)
  {
    const i_ga x(prob);
    add(out, "GC" + range_txt(rs) + " | " + ints(x) + " ## " + std::to_string(x.age()));
  }
  return out;
}

std::string do_gseq(const std::vector<std::string> &t)
{
  random::seed(std::stoul(t[1]));
  verif::splitmix op(std::stoull(t[2]));
  const auto rs(int_ranges(t, 4));
  ga_problem prob(rs);

  std::vector<i_ga> pool;
  for (int i(0); i < 6; ++i)
  {
    pool.emplace_back(prob);
    set_age(pool.back(), op.below(40));
  }

  const double ps[] = {0.0, 0.05, 0.3, 0.5, 1.0};
  std::string out;
  for (unsigned s(std::stoul(t[3])); s; --s)
  {
    const auto k(op.below(pool.size()));
    if (op.below(2))
    {
      const i_ga pre(pool[k]);
      const double p(ps[op.below(5)]);
      const unsigned n(pool[k].mutation(p, prob));
      add(out, "GM" + range_txt(rs) + " | " + ints(pre) + " | " + ints(pool[k]) + " | " + std::to_string(n)
               + " " + std::to_string(pre.age()) + " " + std::to_string(pool[k].age())
               + " ## " + std::to_string(verif::bits(p)));
    }
    else
    {
      const auto i(op.below(pool.size())), j(op.below(pool.size()));
      const i_ga child(crossover(pool[i], pool[j]));
      add(out, "GX" + range_txt(rs) + " | " + ints(pool[i]) + " | " + ints(pool[j]) + " | " + ints(child)
               + " | " + std::to_string(pool[i].age()) + " " + std::to_string(pool[j].age()) + " "
               + std::to_string(child.age()) + " ## -");
      pool[k] = child;
      if (op.below(3) == 0) pool[k].inc_age();
    }
  }
  return out;
}

std::string do_dc(const std::vector<std::string> &t)
{
  random::seed(std::stoul(t[1]));
  const auto rs(real_ranges(t, 3));
  de_problem prob(rs);
  std::string out;
  for (unsigned k(std::stoul(t[2])); k; --k)
  {
    const i_de x(prob);
    add(out, "DC" + range_txt(rs) + " | " + dbits(x) + " ## " + std::to_string(x.age()));
  }
  return out;
}

double adversarial(verif::splitmix &r, double lo, double hi)
{
  switch (r.below(8))
  {
  case 0:  return 0.0;
  case 1:  return -0.0;
  case 2:  return lo;
  case 3:  return hi;
  case 4:  return (lo + hi) / 2;
  case 5:  return 1e9 + double(r.below(1000));
  case 6:  return double(r.between(-5, 6)) * 1e-9;
  default: return lo + (hi - lo) * (double(r.below(1 << 20)) / (1 << 20));
  }
}

std::string do_dx(const std::vector<std::string> &t)
{
  random::seed(std::stoul(t[1]));
  verif::splitmix op(std::stoull(t[2]));
  const unsigned trials(std::stoul(t[3]));
  const double p(verif::from_bits(std::stoull(t[4])));
  const range_t<double> w(verif::from_bits(std::stoull(t[5])), verif::from_bits(std::stoull(t[6])));
  const int mode(std::stoi(t[7]));
  const auto rs(real_ranges(t, 8));
  de_problem prob(rs);

  std::string out;
  for (unsigned k(0); k < trials; ++k)
  {
    i_de x[4] = {i_de(prob), i_de(prob), i_de(prob), i_de(prob)};   // target, a, b, c
    if (mode == 1)
      for (auto &ind : x)
      {
        std::vector<double> v(rs.size());
        for (std::size_t i(0); i < v.size(); ++i)
          v[i] = adversarial(op, rs[i].first, rs[i].second);
        ind = v;
      }
    if (mode == 1 && op.below(3) == 0)         // equal donors somewhere: difference exactly zero
    {
      std::vector<double> va(x[1]), vb(x[2]);
      for (std::size_t i(0); i < va.size(); ++i)
        if (op.below(2)) vb[i] = va[i];
      x[2] = vb;
    }
    for (auto &ind : x) set_age(ind, op.below(30));

    const i_de tr(x[0].crossover(p, w, x[1], x[2], x[3]));
    add(out, "DX " + t[4] + " " + t[5] + " " + t[6] + " | " + dbits(x[0]) + " | " + dbits(x[1]) + " | "
             + dbits(x[2]) + " | " + dbits(x[3]) + " | " + dbits(tr) + " | "
             + std::to_string(x[0].age()) + " " + std::to_string(x[1].age()) + " "
             + std::to_string(x[2].age()) + " " + std::to_string(x[3].age()) + " "
             + std::to_string(tr.age()) + " ## -");
  }
  return out;
}

}  // namespace

int main()
{
  log::reporting_level = log::lOFF;

  std::string line;
  while (std::getline(std::cin, line))
  {
    const auto t(verif::split(line));
    std::string ans("bad-request");
    try
    {
      if (t.size() >= 5 && t[0] == "gc") ans = do_gc(t);
      else if (t.size() >= 6 && t[0] == "gseq") ans = do_gseq(t);
      else if (t.size() >= 5 && t[0] == "dc") ans = do_dc(t);
      else if (t.size() >= 10 && t[0] == "dx") ans = do_dx(t);
    }
    catch (const std::exception &e)
    {
      ans = std::string("exception ") + e.what();
    }
    std::cout << ans << std::endl;
  }
}
