// C17 harness: executes the real i_ga / i_de operators and the strategy-level recombination operators and
// prints what it OBSERVED (genomes, ages, counters).  It never prints an interval: the intervals / boxes / weight
// intervals are the ones the REQUEST wrote (the checker keeps them), the harness only DECLARES them to the
// library through the public way the request names.
//
// slot token      <cat>:<way>:<lo>:<hi>     one terminal of category <cat> (categories 0,1,2… in order; several
//                                           tokens may share a category = several terminals in one category)
//                 GA: lo/hi decimal integers;  DE: lo/hi = u64 bit patterns of doubles
//   way = kind*100 + tA*10 + tB   tA/tB: C++ type of the first / second endpoint as the user writes it
//         types 0 double 1 int 2 long 3 float 4 unsigned 5 short 6 long long 7 std::size_t
//         kind 0  prob.insert(vita::range(A(lo), B(hi)))            rvalues
//              1  A a(lo); B b(hi); prob.insert(vita::range(a, b))   lvalues (pair of references)
//              2  prob.insert(std::pair<A, B>(lo, hi))
//              3  prob.insert(std::make_pair(A(lo), B(hi)))
//              4  prob.sset.insert<ga::X>(range_t<V>{lo, hi}, cat)   explicit category (V = int / double)
//              5  auto r(vita::range(A(lo), B(hi))); prob.insert(r)  named pair
//   problem way (pway): 0 = problem(std::vector<range_t<V>>)  1 = problem(n, range_t<V>)  2 = insert per slot
//
// age plan: individuals get an age through the public API only – `inc_age()` loops and `load()` – and the
//   harness keeps ITS OWN count of the generations lived (never trusts age()).
//
//   gc    <vseed> <count> <pway> <slot>...
//   gseq  <vseed> <opseed> <steps> <pway> <slot>...
//   gstr  <vseed> <opseed> <steps> <pcrossbits> <pmutbits> <brood> <pway> <slot>...     recombination::base<i_ga>::run
//   dc    <vseed> <count> <pway> <slot>...
//   dx    <vseed> <opseed> <trials> <pbits> <wway>:<wlobits>:<whibits> <mode> <pway> <slot>...
//   dstr  <vseed> <opseed> <steps> <pbits> <wway>:<wlobits>:<whibits> <mode> <pway> <slot>...   recombination::de<i_de>::run
//   laws  <lobits> <hibits> ...                                                          IEEE facts on this box
//   answer: steps separated by " ;; " (formats: see the do_* functions; doubles as u64 bit patterns)
#include "kernel/vita.h"
#include "common/verif.h"

#include <cmath>
#include <limits>

using namespace vita;

namespace
{

using u64 = std::uint64_t;

template<class V> std::string ints(const V &v)
{
  std::string r;
  for (auto x : v) { if (!r.empty()) r += ' '; r += std::to_string(x); }
  return r.empty() ? "-" : r;
}

template<class V> std::string dbits(const V &v)
{
  std::string r;
  for (double x : v) { if (!r.empty()) r += ' '; r += std::to_string(verif::bits(x)); }
  return r.empty() ? "-" : r;
}

std::string genes(const i_ga &x) { return ints(x); }
std::string genes(const i_de &x) { return dbits(x); }

void add(std::string &out, const std::string &step)
{
  if (!out.empty()) out += " ;; ";
  out += step;
}

struct bad_request : std::runtime_error { using std::runtime_error::runtime_error; };

// ---- declaring intervals the way a user would ---------------------------------------------------------
struct slot { unsigned cat; unsigned way; double lo, hi; };

std::vector<std::string> split_on(const std::string &s, char c)
{
  std::vector<std::string> r;
  std::string cur;
  for (char ch : s)
    if (ch == c) { r.push_back(cur); cur.clear(); }
    else cur += ch;
  r.push_back(cur);
  return r;
}

template<class V> double parse_end(const std::string &s);
template<> double parse_end<int>(const std::string &s) { return static_cast<double>(std::stoll(s)); }
template<> double parse_end<double>(const std::string &s) { return verif::from_bits(std::stoull(s)); }

template<class V> std::vector<slot> slots(const std::vector<std::string> &t, std::size_t from)
{
  std::vector<slot> r;
  for (std::size_t i(from); i < t.size(); ++i)
  {
    const auto f(split_on(t[i], ':'));
    if (f.size() != 4) throw bad_request("slot " + t[i]);
    r.push_back({unsigned(std::stoul(f[0])), unsigned(std::stoul(f[1])), parse_end<V>(f[2]), parse_end<V>(f[3])});
  }
  if (r.empty()) throw bad_request("no slot");
  return r;
}

// the endpoint as a value of the C++ type the request names; the conversion must be exact (the generator only
// asks for types that can hold the value) – otherwise the request is refused, never silently rounded
template<class A> A exact(double v)
{
  if (!(v >= static_cast<double>(std::numeric_limits<A>::lowest())
        && v <= static_cast<double>(std::numeric_limits<A>::max())))
    throw bad_request("endpoint does not fit its type");
  const A a(static_cast<A>(v));
  if (static_cast<double>(a) != v) throw bad_request("endpoint not exact in its type");
  return a;
}

template<class P> struct prob_traits;
template<> struct prob_traits<ga_problem> { using value = int; using sym = ga::integer; using ind = i_ga; };
template<> struct prob_traits<de_problem> { using value = double; using sym = ga::real; using ind = i_de; };

template<class P, class A, class B> void declare(P &prob, const slot &s)
{
  using V = typename prob_traits<P>::value;
  const A lo(exact<A>(s.lo));
  const B hi(exact<B>(s.hi));
  switch (s.way / 100)
  {
  case 0: prob.insert(vita::range(exact<A>(s.lo), exact<B>(s.hi))); break;
  case 1: { A a(lo); B b(hi); prob.insert(vita::range(a, b)); break; }
  case 2: prob.insert(std::pair<A, B>(lo, hi)); break;
  case 3: prob.insert(std::make_pair(lo, hi)); break;
  case 4: prob.sset.template insert<typename prob_traits<P>::sym>(range_t<V>{exact<V>(s.lo), exact<V>(s.hi)},
                                                                   category_t(s.cat)); break;
  case 5: { const auto r(vita::range(exact<A>(s.lo), exact<B>(s.hi))); prob.insert(r); break; }
  default: throw bad_request("declaration kind");
  }
}

template<class P, class A> void declare_b(P &prob, const slot &s)
{
  switch (s.way % 10)
  {
  case 0: declare<P, A, double>(prob, s); break;
  case 1: declare<P, A, int>(prob, s); break;
  case 2: declare<P, A, long>(prob, s); break;
  case 3: declare<P, A, float>(prob, s); break;
  case 4: declare<P, A, unsigned>(prob, s); break;
  case 5: declare<P, A, short>(prob, s); break;
  case 6: declare<P, A, long long>(prob, s); break;
  case 7: declare<P, A, std::size_t>(prob, s); break;
  default: throw bad_request("type of the second endpoint");
  }
}

template<class P> void declare_slot(P &prob, const slot &s)
{
  switch ((s.way / 10) % 10)
  {
  case 0: declare_b<P, double>(prob, s); break;
  case 1: declare_b<P, int>(prob, s); break;
  case 2: declare_b<P, long>(prob, s); break;
  case 3: declare_b<P, float>(prob, s); break;
  case 4: declare_b<P, unsigned>(prob, s); break;
  case 5: declare_b<P, short>(prob, s); break;
  case 6: declare_b<P, long long>(prob, s); break;
  case 7: declare_b<P, std::size_t>(prob, s); break;
  default: throw bad_request("type of the first endpoint");
  }
}

template<class P> std::unique_ptr<P> make_problem(unsigned pway, const std::vector<slot> &ss)
{
  using V = typename prob_traits<P>::value;
  if (pway == 0 || pway == 1)
  {
    std::vector<range_t<V>> rs;
    for (std::size_t i(0); i < ss.size(); ++i)
    {
      if (ss[i].cat != i) throw bad_request("vector constructor needs one slot per category");
      rs.push_back({exact<V>(ss[i].lo), exact<V>(ss[i].hi)});
    }
    if (pway == 0)
      return std::make_unique<P>(rs);
    for (const auto &r : rs)
      if (r != rs[0]) throw bad_request("uniform constructor needs equal slots");
    return std::make_unique<P>(rs.size(), rs[0]);
  }
  if (pway != 2) throw bad_request("problem way");

  auto prob(std::make_unique<P>());
  unsigned next(0);
  for (const auto &s : ss)
  {
    if (s.cat > next) throw bad_request("categories must be contiguous");
    if (s.cat < next && s.way / 100 != 4)
      throw bad_request("a further terminal of an existing category needs an explicit category (kind 4)");
    declare_slot(*prob, s);
    if (s.cat == next) ++next;
    if (prob->sset.categories() != next) throw bad_request("unexpected number of categories");
  }
  return prob;
}

// the weight interval, assigned to environment::de.weight the way a user would
template<class A, class B> void weight_ab(environment &env, unsigned kind, double lo, double hi)
{
  const A a(exact<A>(lo));
  const B b(exact<B>(hi));
  switch (kind)
  {
  case 0: env.de.weight = vita::range(exact<A>(lo), exact<B>(hi)); break;
  case 1: { A x(a); B y(b); env.de.weight = vita::range(x, y); break; }
  case 2: env.de.weight = std::pair<A, B>(a, b); break;
  case 3: env.de.weight = std::make_pair(a, b); break;
  case 4: env.de.weight = {exact<double>(lo), exact<double>(hi)}; break;
  case 5: env.de.weight.first = a; env.de.weight.second = b; break;
  default: throw bad_request("weight kind");
  }
}

template<class A> void weight_a(environment &env, unsigned way, double lo, double hi)
{
  switch (way % 10)
  {
  case 0: weight_ab<A, double>(env, way / 100, lo, hi); break;
  case 1: weight_ab<A, int>(env, way / 100, lo, hi); break;
  case 2: weight_ab<A, long>(env, way / 100, lo, hi); break;
  case 3: weight_ab<A, float>(env, way / 100, lo, hi); break;
  default: throw bad_request("weight type");
  }
}

void declare_weight(environment &env, const std::string &tok)
{
  const auto f(split_on(tok, ':'));
  if (f.size() != 3) throw bad_request("weight " + tok);
  const unsigned way(std::stoul(f[0]));
  const double lo(parse_end<double>(f[1])), hi(parse_end<double>(f[2]));
  switch ((way / 10) % 10)
  {
  case 0: weight_a<double>(env, way, lo, hi); break;
  case 1: weight_a<int>(env, way, lo, hi); break;
  case 2: weight_a<long>(env, way, lo, hi); break;
  case 3: weight_a<float>(env, way, lo, hi); break;
  default: throw bad_request("weight type");
  }
}

// ---- ages through the public API, with the harness's own count -------------------------------------------
void set_genome(i_ga &x, const std::vector<int> &g) { for (std::size_t i(0); i < g.size(); ++i) x[i] = g[i]; }
void set_genome(i_de &x, const std::vector<double> &g) { x = g; }

template<class T> bool load_age(T &x, u64 age)
{
  const std::vector<typename T::value_type> g(x.begin(), x.end());
  std::stringstream ss;
  ss << age << '\n' << g.size() << '\n';
  for (std::size_t i(0); i < g.size(); ++i) ss << 0 << '\n';
  if (!x.load(ss)) return false;
  set_genome(x, g);
  return true;
}

// Gives `x` (age 0 … or whatever it has lived so far: `lived`) an age drawn from `r`; returns the AG step.
// plan: 0 young  1 around 2^8  2 around 2^16 by inc_age  3 around 2^16 by load  4 around 2^31  5 just below 2^32
//       6 some other magnitude by load
template<class T> std::string give_age(T &x, u64 &lived, verif::splitmix &r, unsigned plan)
{
  const u64 max32(4294967295ull);
  u64 by_load(0), incs(0);
  bool use_load(false);
  switch (plan)
  {
  case 0: incs = r.below(40); break;
  case 1: incs = 250 + r.below(12); break;
  case 2: incs = 65530 + r.below(13); break;
  case 3: use_load = true; by_load = 65530 + r.below(13); incs = r.below(8); break;
  case 4: use_load = true; by_load = 2147483645ull + r.below(7); incs = r.below(4); break;
  case 5: { const u64 k(r.below(6)); use_load = true; by_load = max32 - k; incs = r.below(k + 1); break; }
  default:
    use_load = true;
    {
      static const u64 other[] = {70000, 131071, 131072, 1000000, 16777216, 1000000000, 3000000000ull};
      by_load = other[r.below(sizeof(other) / sizeof(other[0]))];
    }
    incs = r.below(3);
  }
  if (use_load)
  {
    if (!load_age(x, by_load)) return "AG | load-failed " + std::to_string(by_load);
    lived = by_load;
  }
  u64 done(0);
  for (; done < incs && lived < max32; ++done) { x.inc_age(); ++lived; }
  // AG | how base incs lived observed
  return std::string("AG | ") + (use_load ? "load " : "inc ") + std::to_string(use_load ? by_load : 0) + " "
         + std::to_string(done) + " " + std::to_string(lived) + " " + std::to_string(x.age());
}

unsigned age_plan(verif::splitmix &r)
{
  static const unsigned w[] = {0, 0, 0, 0, 0, 0, 1, 1, 2, 3, 3, 4, 4, 5, 5, 6};
  return w[r.below(sizeof(w) / sizeof(w[0]))];
}

// ---- GA ------------------------------------------------------------------------------------------------------
std::string do_gc(const std::vector<std::string> &t)
{
  random::seed(std::stoul(t[1]));
  const auto prob(make_problem<ga_problem>(std::stoul(t[3]), slots<int>(t, 4)));
  std::string out;
  for (unsigned k(std::stoul(t[2])); k; --k)
  {
    const i_ga x(*prob);
    add(out, "GC | " + genes(x) + " | " + std::to_string(x.age()));
  }
  return out;
}

// GM | pre | post | ret agePre agePost | livedPre | pbits
// GX | lhs | rhs | child | ageL ageR ageC | livedL livedR
std::string do_gseq(const std::vector<std::string> &t)
{
  random::seed(std::stoul(t[1]));
  verif::splitmix op(std::stoull(t[2]));
  const auto prob(make_problem<ga_problem>(std::stoul(t[4]), slots<int>(t, 5)));

  std::string out;
  std::vector<i_ga> pool;
  std::vector<u64> lived;
  for (int i(0); i < 6; ++i)
  {
    pool.emplace_back(*prob);
    lived.push_back(0);
    add(out, give_age(pool.back(), lived.back(), op, age_plan(op)));
  }

  const double ps[] = {0.0, 0.05, 0.3, 0.5, 1.0};
  for (unsigned s(std::stoul(t[3])); s; --s)
  {
    const auto k(op.below(pool.size()));
    if (op.below(2))
    {
      const i_ga pre(pool[k]);
      const double p(ps[op.below(5)]);
      const unsigned n(pool[k].mutation(p, *prob));
      add(out, "GM | " + genes(pre) + " | " + genes(pool[k]) + " | " + std::to_string(n)
               + " " + std::to_string(pre.age()) + " " + std::to_string(pool[k].age())
               + " | " + std::to_string(lived[k]) + " | " + std::to_string(verif::bits(p)));
    }
    else
    {
      const auto i(op.below(pool.size())), j(op.below(pool.size()));
      const i_ga child(crossover(pool[i], pool[j]));
      add(out, "GX | " + genes(pool[i]) + " | " + genes(pool[j]) + " | " + genes(child)
               + " | " + std::to_string(pool[i].age()) + " " + std::to_string(pool[j].age()) + " "
               + std::to_string(child.age()) + " | " + std::to_string(lived[i]) + " " + std::to_string(lived[j]));
      const u64 l(std::max(lived[i], lived[j]));
      pool[k] = child;
      lived[k] = l;
      if (op.below(3) == 0 && lived[k] < 4294967295ull) { pool[k].inc_age(); ++lived[k]; }
    }
  }
  return out;
}

template<class T> std::string pop_step(const population<T> &pop, const std::vector<u64> &lived)
{
  std::string g, a, l;
  for (unsigned i(0); i < pop.individuals(0); ++i)
  {
    if (i) { g += " ; "; a += ' '; l += ' '; }
    g += genes(pop[{0, i}]);
    a += std::to_string(pop[{0, i}].age());
    l += std::to_string(lived[i]);
  }
  return "POP | " + g + " | " + a + " | " + l;
}

template<class T> void age_population(population<T> &pop, std::vector<u64> &lived, verif::splitmix &op,
                                      std::string &out)
{
  for (unsigned i(0); i < pop.individuals(0); ++i)
  {
    lived.push_back(0);
    add(out, give_age(pop[{0, i}], lived.back(), op, age_plan(op)));
  }
}

// POP | g0 ; g1 ; … | ages | lived          then per call of recombination::base<i_ga>::run(parents):
// GS | parents (indices) | offspring | ageOff | crossovers mutations (what the call added to the summary)
std::string do_gstr(const std::vector<std::string> &t)
{
  random::seed(std::stoul(t[1]));
  verif::splitmix op(std::stoull(t[2]));
  const auto prob(make_problem<ga_problem>(std::stoul(t[7]), slots<int>(t, 8)));
  prob->env.individuals = 3 + op.below(6);
  prob->env.p_cross = verif::from_bits(std::stoull(t[4]));
  prob->env.p_mutation = verif::from_bits(std::stoull(t[5]));
  prob->env.brood_recombination = std::stoul(t[6]);
  prob->env.mate_zone = 1 + op.below(2 * prob->env.individuals);
  prob->env.tournament_size = 2;

  std::string out;
  population<i_ga> pop(*prob);
  std::vector<u64> lived;
  age_population(pop, lived, op, out);
  add(out, pop_step(pop, lived));

  test_evaluator<i_ga> eva(test_evaluator_type::random);
  summary<i_ga> stats;
  recombination::base<i_ga> rec(pop, eva, &stats);
  for (unsigned s(std::stoul(t[3])); s; --s)
  {
    recombination::base<i_ga>::parents_t parents;
    const unsigned np(1 + (op.below(4) != 0));
    for (unsigned k(0); k < np; ++k) parents.push_back({0, unsigned(op.below(pop.individuals(0)))});
    const auto c0(stats.crossovers), m0(stats.mutations);
    const auto off(rec.run(parents));
    if (off.size() != 1) { add(out, "GS | wrong-number-of-offspring " + std::to_string(off.size())); continue; }
    std::string ps;
    for (auto c : parents) ps += (ps.empty() ? "" : " ") + std::to_string(c.index);
    add(out, "GS | " + ps + " | " + genes(off[0]) + " | " + std::to_string(off[0].age()) + " | "
             + std::to_string(stats.crossovers - c0) + " " + std::to_string(stats.mutations - m0));
  }
  return out;
}

// ---- DE ------------------------------------------------------------------------------------------------------
std::string do_dc(const std::vector<std::string> &t)
{
  random::seed(std::stoul(t[1]));
  const auto prob(make_problem<de_problem>(std::stoul(t[3]), slots<double>(t, 4)));
  std::string out;
  for (unsigned k(std::stoul(t[2])); k; --k)
  {
    const i_de x(*prob);
    add(out, "DC | " + genes(x) + " | " + std::to_string(x.age()));
  }
  return out;
}

double adversarial(verif::splitmix &r, double lo, double hi)
{
  switch (r.below(8))
  {
  case 0:  return 0.0;
  case 1:  return -0.0;
  case 2:  return lo;
  case 3:  return hi;
  case 4:  return lo / 2 + hi / 2;
  case 5:  return 1e9 + double(r.below(1000));
  case 6:  return double(r.between(-5, 6)) * 1e-9;
  default: return lo + (hi - lo) * (double(r.below(1 << 20)) / (1 << 20));
  }
}

// first declared interval of every category (adversarial values are built from it)
std::vector<range_t<double>> first_ranges(const std::vector<slot> &ss)
{
  std::vector<range_t<double>> r;
  for (const auto &s : ss)
    if (s.cat == r.size()) r.push_back({s.lo, s.hi});
  return r;
}

void make_adversarial(i_de &ind, const std::vector<range_t<double>> &rs, verif::splitmix &op)
{
  std::vector<double> v(rs.size());
  for (std::size_t i(0); i < v.size(); ++i)
    v[i] = adversarial(op, rs[i].first, rs[i].second);
  ind = v;
}

// DX | target | a | b | c | trial | aT aA aB aC aTrial | lT lA lB lC      (the weight actually used is
// env.de.weight as the library recorded it after the user-style assignment)
std::string do_dx(const std::vector<std::string> &t)
{
  random::seed(std::stoul(t[1]));
  verif::splitmix op(std::stoull(t[2]));
  const unsigned trials(std::stoul(t[3]));
  const double p(verif::from_bits(std::stoull(t[4])));
  const int mode(std::stoi(t[6]));
  const auto ss(slots<double>(t, 8));
  const auto prob(make_problem<de_problem>(std::stoul(t[7]), ss));
  declare_weight(prob->env, t[5]);
  prob->env.p_cross = p;
  const auto rs(first_ranges(ss));

  std::string out;
  for (unsigned k(0); k < trials; ++k)
  {
    i_de x[4] = {i_de(*prob), i_de(*prob), i_de(*prob), i_de(*prob)};   // target, a, b, c
    if (mode == 1)
      for (auto &ind : x) make_adversarial(ind, rs, op);
    if (mode == 1 && op.below(3) == 0)         // equal donors somewhere: difference exactly zero
    {
      std::vector<double> va(x[1].begin(), x[1].end()), vb(x[2].begin(), x[2].end());
      for (std::size_t i(0); i < va.size(); ++i)
        if (op.below(2)) vb[i] = va[i];
      x[2] = vb;
    }
    u64 lived[4] = {0, 0, 0, 0};
    for (int i(0); i < 4; ++i) add(out, give_age(x[i], lived[i], op, age_plan(op)));

    const i_de tr(x[0].crossover(prob->env.p_cross, prob->env.de.weight, x[1], x[2], x[3]));
    add(out, "DX | " + genes(x[0]) + " | " + genes(x[1]) + " | " + genes(x[2]) + " | " + genes(x[3]) + " | "
             + genes(tr) + " | "
             + std::to_string(x[0].age()) + " " + std::to_string(x[1].age()) + " "
             + std::to_string(x[2].age()) + " " + std::to_string(x[3].age()) + " "
             + std::to_string(tr.age()) + " | " + std::to_string(lived[0]) + " " + std::to_string(lived[1]) + " "
             + std::to_string(lived[2]) + " " + std::to_string(lived[3]));
  }
  return out;
}

// POP | …      then per call of recombination::de<i_de>::run(parents):
// DS | parents (indices) | offspring | ageOff
std::string do_dstr(const std::vector<std::string> &t)
{
  random::seed(std::stoul(t[1]));
  verif::splitmix op(std::stoull(t[2]));
  const double p(verif::from_bits(std::stoull(t[4])));
  const int mode(std::stoi(t[6]));
  const auto ss(slots<double>(t, 8));
  const auto prob(make_problem<de_problem>(std::stoul(t[7]), ss));
  declare_weight(prob->env, t[5]);
  prob->env.p_cross = p;
  prob->env.individuals = 4 + op.below(4);
  prob->env.mate_zone = 1 + op.below(2 * prob->env.individuals);
  prob->env.tournament_size = 2;
  const auto rs(first_ranges(ss));

  std::string out;
  population<i_de> pop(*prob);
  if (mode == 1)
    for (unsigned i(0); i < pop.individuals(0); ++i)
      if (op.below(2)) make_adversarial(pop[{0, i}], rs, op);
  std::vector<u64> lived;
  age_population(pop, lived, op, out);
  add(out, pop_step(pop, lived));

  test_evaluator<i_de> eva(test_evaluator_type::random);
  summary<i_de> stats;
  recombination::de<i_de> rec(pop, eva, &stats);
  for (unsigned s(std::stoul(t[3])); s; --s)
  {
    recombination::de<i_de>::parents_t parents;
    const unsigned np(1 + (op.below(4) != 0));
    for (unsigned k(0); k < np; ++k) parents.push_back({0, unsigned(op.below(pop.individuals(0)))});
    const auto off(rec.run(parents));
    if (off.size() != 1) { add(out, "DS | wrong-number-of-offspring " + std::to_string(off.size())); continue; }
    std::string ps;
    for (auto c : parents) ps += (ps.empty() ? "" : " ") + std::to_string(c.index);
    add(out, "DS | " + ps + " | " + genes(off[0]) + " | " + std::to_string(off[0].age()));
  }
  return out;
}

// ---- IEEE facts used as hypotheses by the Lean theorems, evaluated on this machine's doubles ---------------------
// laws <lobits> <hibits> …   for every box: the largest canonical draw u = 1 − 2^-53 and a few others;
// LW | lo hi | w | u y x ; u y x ; …   w = hi − lo, y = u*w, x = lo + y  (each one rounded operation, volatile)
std::string do_laws(const std::vector<std::string> &t)
{
  std::string out;
  const double us[] = {0.0, 0x1p-53, 0.25, 0.5, 1.0 - 0x1p-52, 1.0 - 0x1p-53};
  for (std::size_t i(1); i + 1 < t.size(); i += 2)
  {
    const volatile double lo(verif::from_bits(std::stoull(t[i]))), hi(verif::from_bits(std::stoull(t[i + 1])));
    const volatile double w(hi - lo);
    std::string s("LW | " + std::to_string(verif::bits(lo)) + " " + std::to_string(verif::bits(hi)) + " | "
                  + std::to_string(verif::bits(w)) + " | ");
    bool first(true);
    for (double u0 : us)
    {
      const volatile double u(u0);
      const volatile double y(u * w);
      const volatile double x(lo + y);
      s += std::string(first ? "" : " ; ") + std::to_string(verif::bits(u)) + " " + std::to_string(verif::bits(y))
           + " " + std::to_string(verif::bits(x));
      first = false;
    }
    add(out, s);
  }
  return out.empty() ? "bad-request" : out;
}

}  // namespace

int main()
{
  log::reporting_level = log::lOFF;

  std::string line;
  while (std::getline(std::cin, line))
  {
    const auto t(verif::split(line));
    std::string ans("bad-request");
    try
    {
      if (t.size() >= 5 && t[0] == "gc") ans = do_gc(t);
      else if (t.size() >= 6 && t[0] == "gseq") ans = do_gseq(t);
      else if (t.size() >= 9 && t[0] == "gstr") ans = do_gstr(t);
      else if (t.size() >= 5 && t[0] == "dc") ans = do_dc(t);
      else if (t.size() >= 9 && t[0] == "dx") ans = do_dx(t);
      else if (t.size() >= 9 && t[0] == "dstr") ans = do_dstr(t);
      else if (t.size() >= 3 && t[0] == "laws") ans = do_laws(t);
    }
    catch (const bad_request &e)
    {
      ans = std::string("bad-request ") + e.what();
    }
    catch (const std::exception &e)
    {
      ans = std::string("exception ") + e.what();
    }
    std::cout << ans << std::endl;
  }
}
