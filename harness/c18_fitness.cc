// C18 correspondence harness: the real relational operators, dominating(),
// model_measurements::operator>=, element-wise arithmetic, combine, distance, abs, sqrt,
// round_to of vita::fitness_t on vectors given as 64-bit patterns (decimal).
// Same line protocol as lean/Vita/C18/Driver.lean:
//   rel <n> a… <m> b…           -> r <lt><eq><gt><ge><le><ne><dom a b><dom b a>
//   mm <n> a… accA <m> b… accB  -> r <0|1>
//   add|sub|mul <n> a… <m> b…   -> v <k> bits…   | fault   (rhs shorter: Expects(i < size()))
//   divs|muls <n> a… v          -> v <k> bits…
//   abs|sqrt|round <n> a…       -> v <k> bits…
//   combine <n> a… <m> b…       -> v <k> bits…
//   dist <n> a… <m> b…          -> s bits        | fault
//   aeq <n> a… <m> b… e         -> r <0|1>       | fault   (f2 shorter: Expects(i < size()))
//   isfinite|isnan|issmall|isnonneg <n> a…   -> r <0|1>
//   show <n> a…                 -> t <what operator<< writes>
// NaN results are printed as `nan`.
#include "common/verif.h"

#include "kernel/fitness.h"
#include "kernel/model_measurements.h"

#include <cmath>
#include <sstream>

namespace
{
using vita::fitness_t;

bool take(const std::vector<std::string> &t, std::size_t &pos, fitness_t &out)
{
  if (pos >= t.size()) return false;
  const std::size_t n = std::stoull(t[pos++]);
  if (n > t.size() || pos + n > t.size()) return false;
  fitness_t::values_t v;
  for (std::size_t i = 0; i < n; ++i)
    v.push_back(verif::from_bits(std::stoull(t[pos++])));
  out = fitness_t(v);
  return true;
}

std::string show(double d)
{
  return std::isnan(d) ? std::string("nan") : std::to_string(verif::bits(d));
}

std::string show(const fitness_t &f)
{
  std::string s = "v " + std::to_string(f.size());
  for (std::size_t i = 0; i < f.size(); ++i) s += " " + show(f[i]);
  return s;
}
}  // namespace

int main()
{
  std::cout.setf(std::ios::unitbuf);   // an abort must not swallow earlier answers
  std::string line;
  while (std::getline(std::cin, line))
  {
    const auto t = verif::split(line);
    if (t.empty()) { std::cout << "bad-op\n"; continue; }
    const std::string &cmd = t[0];
    bool numeric = true;
    for (std::size_t i = 1; i < t.size(); ++i)
      if (t[i].empty() || t[i].size() > 20 || t[i].find_first_not_of("0123456789") != std::string::npos
          || (t[i].size() == 20 && t[i] > "18446744073709551615"))
        numeric = false;
    if (!numeric) { std::cout << "bad-op\n"; continue; }
    std::size_t pos = 1;
    fitness_t a, b;
    if (cmd == "rel")
    {
      if (!take(t, pos, a) || !take(t, pos, b) || pos != t.size()) { std::cout << "bad-op\n"; continue; }
      std::string r = "r ";
      r += (a < b) ? '1' : '0';
      r += (a == b) ? '1' : '0';
      r += (a > b) ? '1' : '0';
      r += (a >= b) ? '1' : '0';
      r += (a <= b) ? '1' : '0';
      r += (a != b) ? '1' : '0';
      r += vita::dominating(a, b) ? '1' : '0';
      r += vita::dominating(b, a) ? '1' : '0';
      std::cout << r << "\n";
    }
    else if (cmd == "mm")
    {
      if (!take(t, pos, a) || pos >= t.size()) { std::cout << "bad-op\n"; continue; }
      const double acc_a = verif::from_bits(std::stoull(t[pos++]));
      if (!take(t, pos, b) || pos + 1 != t.size()) { std::cout << "bad-op\n"; continue; }
      const double acc_b = verif::from_bits(std::stoull(t[pos++]));
      vita::model_measurements ma(a, 0.0), mb(b, 0.0);
      ma.accuracy = acc_a;
      mb.accuracy = acc_b;
      std::cout << "r " << ((ma >= mb) ? '1' : '0') << "\n";
    }
    else if (cmd == "add" || cmd == "sub" || cmd == "mul" || cmd == "combine" || cmd == "dist")
    {
      if (!take(t, pos, a) || !take(t, pos, b) || pos != t.size()) { std::cout << "bad-op\n"; continue; }
      if (cmd == "combine") { std::cout << show(vita::combine(a, b)) << "\n"; continue; }
      if (b.size() < a.size()) { std::cout << "fault\n"; continue; }   // the contract of operator[]
      if (cmd == "add") std::cout << show(a + b) << "\n";
      else if (cmd == "sub") std::cout << show(a - b) << "\n";
      else if (cmd == "mul") std::cout << show(a * b) << "\n";
      else std::cout << "s " << show(vita::distance(a, b)) << "\n";
    }
    else if (cmd == "divs" || cmd == "muls")
    {
      if (!take(t, pos, a) || pos + 1 != t.size()) { std::cout << "bad-op\n"; continue; }
      const double v = verif::from_bits(std::stoull(t[pos]));
      std::cout << show(cmd == "divs" ? a / v : a * v) << "\n";
    }
    else if (cmd == "abs" || cmd == "sqrt" || cmd == "round")
    {
      if (!take(t, pos, a) || pos != t.size()) { std::cout << "bad-op\n"; continue; }
      std::cout << show(cmd == "abs" ? vita::abs(a) : cmd == "sqrt" ? vita::sqrt(a) : vita::round_to(a)) << "\n";
    }
    else if (cmd == "aeq")
    {
      if (!take(t, pos, a) || !take(t, pos, b) || pos + 1 != t.size()) { std::cout << "bad-op\n"; continue; }
      const double e = verif::from_bits(std::stoull(t[pos]));
      if (b.size() < a.size()) { std::cout << "fault\n"; continue; }   // the contract of operator[]
      std::cout << "r " << (vita::almost_equal(a, b, e) ? '1' : '0') << "\n";
    }
    else if (cmd == "isfinite" || cmd == "isnan" || cmd == "issmall" || cmd == "isnonneg")
    {
      if (!take(t, pos, a) || pos != t.size()) { std::cout << "bad-op\n"; continue; }
      const bool r = cmd == "isfinite" ? vita::isfinite(a) : cmd == "isnan" ? vita::isnan(a)
                     : cmd == "issmall" ? vita::issmall(a) : vita::isnonnegative(a);
      std::cout << "r " << (r ? '1' : '0') << "\n";
    }
    else if (cmd == "show")
    {
      if (!take(t, pos, a) || pos != t.size()) { std::cout << "bad-op\n"; continue; }
      std::ostringstream ss;
      ss << a;
      std::cout << "t " << ss.str() << "\n";
    }
    else
      std::cout << "bad-op\n";
  }
  return 0;
}
