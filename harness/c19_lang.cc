// C19 correspondence harness.
//
// Line protocol (one request per line, one answer per line):
//
//   syms
//       -> one line: for every shipped symbol class the harness can instantiate
//          `key|kind|name-hex|arity|res|a0,a1,..|c-hex|cpp-hex|mql-hex|py-hex` separated by
//          blanks.  The signature is printed for the category vector {10,11}; the four
//          strings are what the *compiled* display(format) returns (terminals: for the
//          parameter 2.5, constants for their own value).
//   disp <key> <cats> <par-bits>
//       -> `c-hex cpp-hex mql-hex py-hex` : display() of one symbol (cross-check of the
//          extracted table, terminals with an arbitrary parameter)
//   prog <ngenes> { <key> <cats> <par-bits> <nargs> <arg>* }  ninputs { nvals { <val> } }
//       -> `c-hex cpp-hex mql-hex py-hex ; v ; v ...`
//          the real `out::X_language << individual` texts and `vita::run` on every input
//          vector.  Values: `void` | `i:<int>` | `d:<u64 bits>` | `s:<hex>`; `exc` when
//          the interpreter threw.
//
//   genome <nrows> <ncats> { <key> <cats> <par-bits> <nargs> <arg row>* }*(nrows*ncats)  ninputs { nvals { <val> } }
//       -> `c-hex cpp-hex mql-hex py-hex valid=<0|1> ; v ; v ...`
//          the individual whose matrix genome_(row, category) holds exactly the given genes
//          (row-major; the symbol of the gene at column c must have category c; the best locus
//          is [0,0]; genes with the same symbol key and categories share ONE symbol object, as
//          genes of a real population share the symbols of the symbol_set); built with the public API: i_mep(vector<gene>) for the last column,
//          i_mep::replace(locus, gene) for every other locus.  `valid` = i_mep::is_valid().
//          The individual is remembered (the last 16) for `team` and `stream`.
//   team <k>
//       -> `c-hex cpp-hex mql-hex py-hex` : `out::X_language << team<i_mep>` of the last k individuals
//          (oldest first)
//   stream <op>*
//       -> one `flag:long:text-hex` per `print` op, applied to ONE std::ostringstream and the last
//          individual.  ops: c cpp mql py list dump inline tree graphviz long short pf<n>
//          (= out::print_format(print_format_t(n))) print fresh (a new stream)
//
//   repl <s-hex> <from-hex> <to-hex>
//       -> hex of vita::replace_all(s, from, to) (src/utility/utility.cc): the routine language() puts
//          the rendering of an argument in place of a placeholder with, called directly
//
// keys: `real::abs` ... (class names), `const:d:<hex text>`, `const:i:<hex text>`,
//       `const:s:<hex text>`, `var:<hex name>:<index>`.
// cats: comma separated category vector handed to the constructor.
#include "common/verif.h"

#include "kernel/vita.h"
#include "utility/utility.h"
#include "kernel/gp/src/primitive/bool.h"
#include "kernel/gp/src/primitive/int.h"
#include "kernel/gp/src/primitive/real.h"
#include "kernel/gp/src/primitive/string.h"
#include "kernel/gp/src/constant.h"
#include "kernel/gp/src/variable.h"

#include <deque>
#include <functional>
#include <map>
#include <memory>

namespace
{
using namespace vita;
using maker = std::function<std::unique_ptr<symbol>(const cvect &)>;

template<class T> maker mk()
{
  return [](const cvect &c) { return std::make_unique<T>(c); };
}

struct entry { std::string key; unsigned ncats; maker make; };

const std::vector<entry> &table()
{
  static const std::vector<entry> t = {
    {"real::real", 1, mk<real::real>()},
    {"real::integer", 1, mk<real::integer>()},
    {"real::abs", 1, mk<real::abs>()},
    {"real::add", 1, mk<real::add>()},
    {"real::aq", 1, mk<real::aq>()},
    {"real::cos", 1, mk<real::cos>()},
    {"real::div", 1, mk<real::div>()},
    {"real::gt", 2, mk<real::gt>()},
    {"real::idiv", 1, mk<real::idiv>()},
    {"real::ifb", 2, mk<real::ifb>()},
    {"real::ife", 2, mk<real::ife>()},
    {"real::ifl", 2, mk<real::ifl>()},
    {"real::ifz", 1, mk<real::ifz>()},
    {"real::length", 2, mk<real::length>()},
    {"real::ln", 1, mk<real::ln>()},
    {"real::lt", 2, mk<real::lt>()},
    {"real::max", 1, mk<real::max>()},
    {"real::mod", 1, mk<real::mod>()},
    {"real::mul", 1, mk<real::mul>()},
    {"real::sin", 1, mk<real::sin>()},
    {"real::sqrt", 1, mk<real::sqrt>()},
    {"real::sub", 1, mk<real::sub>()},
    {"real::sigmoid", 1, mk<real::sigmoid>()},
    {"integer::number", 1, mk<integer::number>()},
    {"integer::add", 1, mk<integer::add>()},
    {"integer::div", 1, mk<integer::div>()},
    {"integer::ife", 2, mk<integer::ife>()},
    {"integer::ifl", 2, mk<integer::ifl>()},
    {"integer::ifz", 1, mk<integer::ifz>()},
    {"integer::mod", 1, mk<integer::mod>()},
    {"integer::mul", 1, mk<integer::mul>()},
    {"integer::shl", 1, mk<integer::shl>()},
    {"integer::sub", 1, mk<integer::sub>()},
    {"boolean::zero", 1, mk<boolean::zero>()},
    {"boolean::one", 1, mk<boolean::one>()},
    {"boolean::l_and", 1, mk<boolean::l_and>()},
    {"boolean::l_not", 1, mk<boolean::l_not>()},
    {"boolean::l_or", 1, mk<boolean::l_or>()},
    {"str::ife", 2, mk<str::ife>()},
  };
  return t;
}

cvect parse_cats(const std::string &s)
{
  cvect c;
  std::size_t i = 0;
  while (i < s.size())
  {
    std::size_t j = s.find(',', i);
    if (j == std::string::npos) j = s.size();
    c.push_back(category_t(std::stoul(s.substr(i, j - i))));
    i = j + 1;
  }
  return c;
}

std::unique_ptr<symbol> make_symbol(const std::string &key, const cvect &c)
{
  if (key.rfind("const:", 0) == 0 && key.size() > 8)
  {
    const std::string txt = verif::unhex(key.substr(8));
    switch (key[6])
    {
    case 'd': return std::make_unique<constant<double>>(txt, c.at(0));
    case 'i': return std::make_unique<constant<int>>(txt, c.at(0));
    case 's': return std::make_unique<constant<std::string>>(txt, c.at(0));
    default:  return nullptr;
    }
  }
  if (key.rfind("var:", 0) == 0)
  {
    const auto p = key.find(':', 4);
    if (p == std::string::npos) return nullptr;
    return std::make_unique<variable>(verif::unhex(key.substr(4, p - 4)),
                                      unsigned(std::stoul(key.substr(p + 1))), c.at(0));
  }
  for (const auto &e : table())
    if (e.key == key)
    {
      if (c.size() < e.ncats) return nullptr;
      return e.make(c);
    }
  return nullptr;
}

std::string disp4(const symbol *s, terminal_param_t par)
{
  static const symbol::format fs[4] = {symbol::c_format, symbol::cpp_format,
                                       symbol::mql_format, symbol::python_format};
  std::string r;
  for (auto f : fs)
  {
    const std::string d = s->terminal() ? terminal::cast(s)->display(par, f)
                                        : function::cast(s)->display(f);
    r += (r.empty() ? "" : " ") + verif::hex(d);
  }
  return r;
}

std::string canon(const value_t &v)
{
  switch (v.index())
  {
  case d_void:   return "void";
  case d_int:    return "i:" + std::to_string(std::get<D_INT>(v));
  case d_double: return "d:" + std::to_string(verif::bits(std::get<D_DOUBLE>(v)));
  case d_string: return "s:" + verif::hex(std::get<D_STRING>(v));
  default:       return "other";
  }
}

value_t parse_val(const std::string &t)
{
  if (t == "void") return {};
  if (t.rfind("i:", 0) == 0) return value_t(int(std::stoll(t.substr(2))));
  if (t.rfind("d:", 0) == 0) return value_t(verif::from_bits(std::stoull(t.substr(2))));
  if (t.rfind("s:", 0) == 0) return value_t(verif::unhex(t.substr(2)));
  return {};
}

template<class M> std::string lang(M manip, const i_mep &ind)
{
  std::ostringstream ss;
  ss << manip << ind;
  return ss.str();
}

struct built
{
  std::vector<std::unique_ptr<symbol>> syms;
  i_mep ind;
};

std::deque<built> &store()
{
  static std::deque<built> s;
  return s;
}

std::string four(const i_mep &ind)
{
  return verif::hex(lang(out::c_language, ind)) + " "
         + verif::hex(lang(out::cpp_language, ind)) + " "
         + verif::hex(lang(out::mql_language, ind)) + " "
         + verif::hex(lang(out::python_language, ind));
}

}  // namespace

int main()
{
  vita::log::reporting_level = vita::log::lOFF;
  vita::random::seed(1);

  std::string line;
  while (std::getline(std::cin, line))
  {
    const auto t = verif::split(line);
    if (t.empty()) { std::cout << "bad-op\n"; continue; }
    try
    {
      if (t[0] == "syms")
      {
        std::string out;
        for (const auto &e : table())
        {
          auto s = e.make(cvect{10, 11});
          std::string sig;
          if (!s->terminal())
            for (unsigned i = 0; i < s->arity(); ++i)
              sig += (i ? "," : "") + std::to_string(function::cast(s.get())->arg_category(i));
          std::string d = disp4(s.get(), 2.5);
          for (auto &ch : d) if (ch == ' ') ch = '|';
          out += (out.empty() ? "" : " ") + e.key + "|" + (s->terminal() ? "T" : "F") + "|"
                 + verif::hex(s->name()) + "|" + std::to_string(s->arity()) + "|"
                 + std::to_string(s->category()) + "|" + (sig.empty() ? "-" : sig) + "|"
                 + (s->terminal() && terminal::cast(s.get())->parametric() ? "P" : "N") + "|" + d;
        }
        std::cout << out << "\n";
      }
      else if (t[0] == "disp" && t.size() >= 4)
      {
        auto s = make_symbol(t[1], parse_cats(t[2]));
        if (!s) { std::cout << "bad-op\n"; continue; }
        std::cout << disp4(s.get(), verif::from_bits(std::stoull(t[3]))) << "\n";
      }
      else if (t[0] == "prog" && t.size() >= 2)
      {
        std::size_t p = 1;
        const std::size_t n = std::stoul(t.at(p++));
        std::vector<std::unique_ptr<symbol>> syms;
        std::vector<gene> gv;
        bool bad = false;
        for (std::size_t k = 0; k < n && !bad; ++k)
        {
          const std::string key = t.at(p++);
          const cvect c = parse_cats(t.at(p++));
          const double par = verif::from_bits(std::stoull(t.at(p++)));
          const std::size_t na = std::stoul(t.at(p++));
          std::vector<index_t> args;
          for (std::size_t a = 0; a < na; ++a) args.push_back(index_t(std::stoul(t.at(p++))));
          auto s = make_symbol(key, c);
          if (!s || s->arity() != na) { bad = true; break; }
          gene g(std::pair<symbol *, std::vector<index_t>>(s.get(), args));
          if (s->terminal()) g.par = par;
          gv.push_back(g);
          syms.push_back(std::move(s));
        }
        if (bad || gv.empty() || gv[0].sym->category() != 0) { std::cout << "bad-op\n"; continue; }
        const i_mep ind(gv);
        std::string out = verif::hex(lang(out::c_language, ind)) + " "
                          + verif::hex(lang(out::cpp_language, ind)) + " "
                          + verif::hex(lang(out::mql_language, ind)) + " "
                          + verif::hex(lang(out::python_language, ind));
        const std::size_t ni = p < t.size() ? std::stoul(t.at(p++)) : 0;
        for (std::size_t k = 0; k < ni; ++k)
        {
          const std::size_t nv = std::stoul(t.at(p++));
          std::vector<value_t> ex;
          for (std::size_t j = 0; j < nv; ++j) ex.push_back(parse_val(t.at(p++)));
          std::string r;
          try { r = canon(run(ind, ex)); }
          catch (const std::exception &) { r = "exc"; }
          out += " ; " + r;
        }
        std::cout << out << "\n";
      }
      else if (t[0] == "genome" && t.size() >= 3)
      {
        std::size_t p = 1;
        const std::size_t nr = std::stoul(t.at(p++));
        const std::size_t nc = std::stoul(t.at(p++));
        built b;
        std::vector<gene> cells;
        std::map<std::string, symbol *> interned;
        bool bad = nr == 0 || nc == 0;
        for (std::size_t k = 0; k < nr * nc && !bad; ++k)
        {
          const std::string key = t.at(p++);
          const std::string cats_s = t.at(p++);
          const cvect c = parse_cats(cats_s);
          const double par = verif::from_bits(std::stoull(t.at(p++)));
          const std::size_t na = std::stoul(t.at(p++));
          std::vector<index_t> args;
          for (std::size_t a = 0; a < na; ++a) args.push_back(index_t(std::stoul(t.at(p++))));
          // as in a symbol_set, equal symbols are ONE object shared by every gene that uses it
          // (an ephemeral constant keeps its value in the gene, not in the symbol)
          const std::string ikey = key + "|" + cats_s;
          symbol *sp = nullptr;
          if (auto it = interned.find(ikey); it != interned.end())
            sp = it->second;
          else
          {
            auto s = make_symbol(key, c);
            if (!s) { bad = true; break; }
            sp = s.get();
            interned[ikey] = sp;
            b.syms.push_back(std::move(s));
          }
          if (sp->arity() != na || sp->category() != k % nc) { bad = true; break; }
          gene g(std::pair<symbol *, std::vector<index_t>>(sp, args));
          if (sp->terminal()) g.par = par;
          cells.push_back(g);
        }
        if (bad) { std::cout << "bad-op\n"; continue; }
        std::vector<gene> lastcol;
        for (std::size_t r = 0; r < nr; ++r) lastcol.push_back(cells[r * nc + nc - 1]);
        i_mep ind(lastcol);
        for (std::size_t r = 0; r < nr; ++r)
          for (std::size_t c = 0; c + 1 < nc; ++c)
            ind = ind.replace(locus{index_t(r), category_t(c)}, cells[r * nc + c]);
        if (ind.size() != nr || ind.categories() != nc) { std::cout << "bad-op\n"; continue; }
        std::string out = four(ind) + " valid=" + (ind.is_valid() ? "1" : "0");
        const std::size_t ni = p < t.size() ? std::stoul(t.at(p++)) : 0;
        for (std::size_t k = 0; k < ni; ++k)
        {
          const std::size_t nv = std::stoul(t.at(p++));
          std::vector<value_t> ex;
          for (std::size_t j = 0; j < nv; ++j) ex.push_back(parse_val(t.at(p++)));
          std::string r;
          try { r = canon(run(ind, ex)); }
          catch (const std::exception &) { r = "exc"; }
          out += " ; " + r;
        }
        b.ind = ind;
        store().push_back(std::move(b));
        if (store().size() > 16) store().pop_front();
        std::cout << out << "\n";
      }
      else if (t[0] == "team" && t.size() == 2)
      {
        const std::size_t k = std::stoul(t[1]);
        if (k == 0 || k > store().size()) { std::cout << "bad-op\n"; continue; }
        std::vector<i_mep> v;
        for (std::size_t i = store().size() - k; i < store().size(); ++i) v.push_back(store()[i].ind);
        const team<i_mep> tm(v);
        std::ostringstream a, b2, c, d;
        a << out::c_language << tm;
        b2 << out::cpp_language << tm;
        c << out::mql_language << tm;
        d << out::python_language << tm;
        std::cout << verif::hex(a.str()) << " " << verif::hex(b2.str()) << " " << verif::hex(c.str())
                  << " " << verif::hex(d.str()) << "\n";
      }
      else if (t[0] == "repl" && t.size() == 4)
      {
        std::cout << verif::hex(vita::replace_all(verif::unhex(t[1]), verif::unhex(t[2]), verif::unhex(t[3])))
                  << "\n";
      }
      else if (t[0] == "stream")
      {
        if (store().empty()) { std::cout << "bad-op\n"; continue; }
        const i_mep &ind = store().back().ind;
        auto ss = std::make_unique<std::ostringstream>();
        std::string out;
        bool bad = false;
        for (std::size_t k = 1; k < t.size() && !bad; ++k)
        {
          const std::string &op = t[k];
          if (op == "c") *ss << out::c_language;
          else if (op == "cpp") *ss << out::cpp_language;
          else if (op == "mql") *ss << out::mql_language;
          else if (op == "py") *ss << out::python_language;
          else if (op == "list") *ss << out::list;
          else if (op == "dump") *ss << out::dump;
          else if (op == "inline") *ss << out::in_line;
          else if (op == "tree") *ss << out::tree;
          else if (op == "graphviz") *ss << out::graphviz;
          else if (op == "long") *ss << out::long_form;
          else if (op == "short") *ss << out::short_form;
          else if (op.rfind("pf", 0) == 0 && op.size() > 2)
            *ss << out::print_format(out::print_format_t(std::stoi(op.substr(2))));
          else if (op == "fresh") ss = std::make_unique<std::ostringstream>();
          else if (op == "print")
          {
            ss->str("");
            const int flag = int(out::print_format_flag(*ss));
            const bool lf = out::long_form_flag(*ss);
            *ss << ind;
            out += (out.empty() ? "" : " ") + std::to_string(flag) + ":" + (lf ? "1" : "0") + ":"
                   + verif::hex(ss->str());
          }
          else bad = true;
        }
        std::cout << (bad ? std::string("bad-op") : (out.empty() ? std::string("-") : out)) << "\n";
      }
      else
        std::cout << "bad-op\n";
    }
    catch (const std::exception &e)
    {
      std::cout << "bad-op\n";
    }
  }
  return 0;
}
