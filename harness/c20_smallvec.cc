// C20 correspondence harness: drives vita::small_vector<T,S> (S = 1..8, T = int, double,
// std::string, Tracked) through scripts of public operations on two vectors ("registers"
// 0 and 1) and keeps a std::vector<T> next to each of them as the harness's own oracle.
//
// requests (one answer line each)
//   new <int|double|string|tracked> <S>       start a script (both registers default-constructed)
//   <r> ctorN n | ctorNX n id | ctorList k id… | ctorCopy | ctorMove
//   <r> assignCopy | assignMove | assignSelf | clear
//   <r> pushBack v id | pushBack s i | emplaceBack v id | emplaceBack s i
//   <r> insert pos k id… | resize n | reserve n | setAt i id | getAt i | cmpEq | cmpLt
//   end                                       destroy both vectors, lifetime balance + leak check
// answer:  ok <obs> | <reg0> | <reg1> | ev <coa> <draw> <araw> <rraw> <rmoved>
//   <reg> = S size cap e0,e1,… # o0,o1,…     (elements of the small_vector # elements of the oracle)
//         = U size cap                        (moved-from: contents unspecified, not read)
//   elements: value ids; R = no live object at that address, M = moved-from object (Tracked),
//   X = a value that is no encoding of an id (uninitialised / corrupted)
//   `precond` = the request violates a precondition of the operation (nothing executed)
// Lifetime events (Tracked only): construct-over-alive, destroy-raw/double destroy,
// assign-to-raw, read-raw, read-moved; `end` adds the number of still-live objects (leak)
// and the balance of ::operator new / ::operator delete calls over the script (leaked blocks).
#include "common/verif.h"

#include "utility/small_vector.h"

#include <cmath>
#include <memory>
#include <new>
#include <cstdlib>
#include <unordered_map>
#include <sys/time.h>

// Count the blocks obtained from the global allocation functions (small_vector calls
// ::operator new / ::operator delete directly, std::string goes through std::allocator):
// the balance over a script is an exact, cheap leak check; LeakSanitizer still runs at exit.
static long live_allocs = 0;
void *operator new(std::size_t n)
{
  void *p = std::malloc(n ? n : 1);
  if (!p) throw std::bad_alloc();
  ++live_allocs;
  return p;
}
void *operator new[](std::size_t n) { return ::operator new(n); }
void operator delete(void *p) noexcept { if (p) { --live_allocs; std::free(p); } }
void operator delete[](void *p) noexcept { ::operator delete(p); }
void operator delete(void *p, std::size_t) noexcept { ::operator delete(p); }
void operator delete[](void *p, std::size_t) noexcept { ::operator delete(p); }

namespace
{
// ---------------------------------------------------------------- Tracked
enum class st : char { live, moved };
std::unordered_map<const void *, st> registry;
unsigned long ev_coa = 0, ev_draw = 0, ev_araw = 0, ev_rraw = 0, ev_rmoved = 0;

struct Tracked
{
  int id;

  static int read(const Tracked &o)
  {
    auto it = registry.find(&o);
    if (it == registry.end()) { ++ev_rraw; return -7; }
    if (it->second == st::moved) { ++ev_rmoved; return -8; }
    return o.id;
  }
  void born()
  {
    auto it = registry.find(this);
    if (it != registry.end()) { ++ev_coa; it->second = st::live; }
    else registry.emplace(this, st::live);
  }

  Tracked() : id(0) { born(); }
  explicit Tracked(int i) : id(i) { born(); }
  Tracked(const Tracked &o) : id(read(o)) { born(); }
  Tracked(Tracked &&o) : id(read(o))
  {
    born();
    auto it = registry.find(&o);
    if (it != registry.end()) it->second = st::moved;
  }
  Tracked &operator=(const Tracked &o)
  {
    const int v = read(o);
    auto it = registry.find(this);
    if (it == registry.end()) { ++ev_araw; return *this; }
    id = v;
    it->second = st::live;
    return *this;
  }
  Tracked &operator=(Tracked &&o)
  {
    const int v = read(o);
    auto it = registry.find(this);
    if (it == registry.end()) { ++ev_araw; return *this; }
    id = v;
    it->second = st::live;
    auto io = registry.find(&o);
    if (io != registry.end()) io->second = st::moved;   // also for self-move: value unspecified
    return *this;
  }
  ~Tracked()
  {
    auto it = registry.find(this);
    if (it == registry.end()) ++ev_draw;
    else registry.erase(it);
  }
  friend bool operator==(const Tracked &a, const Tracked &b) { return read(a) == read(b); }
  friend bool operator<(const Tracked &a, const Tracked &b) { return read(a) < read(b); }
};

// ---------------------------------------------------------------- value encodings
template<class T> struct conv;
template<> struct conv<int>
{
  static int make(int id) { return id; }
  static std::string show(const int &v) { return (v >= 0 && v < 100000000) ? std::to_string(v) : "X"; }
};
template<> struct conv<double>
{
  static double make(int id) { return double(id); }
  static std::string show(const double &v)
  {
    if (!(v >= 0.0 && v < 1e8) || std::floor(v) != v) return "X";
    return std::to_string(int(v));
  }
};
template<> struct conv<std::string>
{
  static std::string make(int id)
  {
    if (id == 0) return {};
    char b[40];
    std::snprintf(b, sizeof b, "element_%020d", id);      // longer than the SSO buffer
    return b;
  }
  static std::string show(const std::string &v)
  {
    if (v.empty()) return "0";
    if (v.size() != 28 || v.compare(0, 8, "element_") != 0) return "X";
    return std::to_string(std::stoi(v.substr(8)));
  }
};
template<> struct conv<Tracked>
{
  static Tracked make(int id) { return Tracked(id); }
  static std::string show(const Tracked &v)
  {
    auto it = registry.find(&v);
    if (it == registry.end()) return "R";
    if (it->second == st::moved) return "M";
    return std::to_string(v.id);
  }
};

struct session
{
  virtual ~session() = default;
  virtual std::string apply(const std::vector<std::string> &t) = 0;
  virtual std::string finish() = 0;
};

bool num(const std::string &s, long &out)
{
  if (s.empty() || s.size() > 9 || s.find_first_not_of("0123456789") != std::string::npos) return false;
  out = std::stol(s);
  return true;
}

template<class T, std::size_t S>
struct session_impl final : session
{
  using SV = vita::small_vector<T, S>;

  struct reg
  {
    void *mem = nullptr;
    SV *v = nullptr;
    std::vector<T> o;
    bool specified = true;
  };
  reg r_[2];

  static void *block()
  {
    void *p = std::malloc(sizeof(SV));
    std::memset(p, 0xAB, sizeof(SV));       // uninitialised inline elements become visible
    return p;
  }
  template<class... A> void construct(reg &r, A &&... a)
  {
    r.mem = block();
    r.v = new (r.mem) SV(std::forward<A>(a)...);
  }
  void destroy(reg &r)
  {
    if (r.v) { r.v->~SV(); std::free(r.mem); r.v = nullptr; r.mem = nullptr; }
  }

  long base_allocs;
  session_impl() { base_allocs = live_allocs; construct(r_[0]); construct(r_[1]); }
  ~session_impl() override { destroy(r_[0]); destroy(r_[1]); }

  std::string show(const reg &r) const
  {
    std::string s = r.specified ? "S " : "U ";
    s += std::to_string(r.v->size()) + " " + std::to_string(r.v->capacity());
    if (!r.specified) return s;
    s += " ";
    for (std::size_t i = 0; i < r.v->size(); ++i)
      s += (i ? "," : "") + conv<T>::show((*r.v)[i]);
    if (r.v->empty()) s += "-";
    s += " # ";
    for (std::size_t i = 0; i < r.o.size(); ++i)
      s += (i ? "," : "") + conv<T>::show(r.o[i]);
    if (r.o.empty()) s += "-";
    return s;
  }

  std::string apply(const std::vector<std::string> &t) override
  {
    long ri;
    if (t.size() < 2 || !num(t[0], ri) || ri > 1) return "bad-op";
    std::vector<long> a;
    const std::string &op = t[1];
    std::size_t first = 2;
    bool self = false;
    if (op == "pushBack" || op == "emplaceBack")
    {
      if (t.size() != 4 || (t[2] != "v" && t[2] != "s")) return "bad-op";
      self = t[2] == "s";
      first = 3;
    }
    for (std::size_t i = first; i < t.size(); ++i)
    {
      long v;
      if (!num(t[i], v)) return "bad-op";
      a.push_back(v);
    }
    reg &x = r_[ri], &y = r_[1 - ri];
    std::string obs = "-";
    const auto argc = [&](std::size_t n) { return a.size() == n; };
    const unsigned long e0[5] = {ev_coa, ev_draw, ev_araw, ev_rraw, ev_rmoved};

    if (op == "ctorN" || op == "ctorNX" || op == "ctorList" || op == "ctorCopy" || op == "ctorMove")
    {
      if (op == "ctorN" && !argc(1)) return "bad-op";
      if (op == "ctorNX" && !argc(2)) return "bad-op";
      if (op == "ctorList" && (a.empty() || a.size() != std::size_t(a[0]) + 1)) return "bad-op";
      if ((op == "ctorCopy" || op == "ctorMove") && !argc(0)) return "bad-op";
      if ((op == "ctorCopy" || op == "ctorMove") && !y.specified) return "precond";
      if ((op == "ctorN" || op == "ctorNX") && a[0] > 64) return "precond";
      destroy(x);
      if (op == "ctorN") { construct(x, std::size_t(a[0])); x.o = std::vector<T>(std::size_t(a[0])); }
      else if (op == "ctorNX")
      {
        const T val(conv<T>::make(int(a[1])));
        construct(x, std::size_t(a[0]), val);
        x.o = std::vector<T>(std::size_t(a[0]), val);
      }
      else if (op == "ctorList")
      {
        // an initializer_list of run-time length: copy-construct from a vector of the same type
        // built with the initializer_list constructor for the small lengths, else via insert
        std::vector<T> vals;
        for (std::size_t i = 1; i < a.size(); ++i) vals.push_back(conv<T>::make(int(a[i])));
        switch (vals.size())
        {
        case 0: construct(x, std::initializer_list<T>{}); break;
        case 1: construct(x, std::initializer_list<T>{vals[0]}); break;
        case 2: construct(x, std::initializer_list<T>{vals[0], vals[1]}); break;
        case 3: construct(x, std::initializer_list<T>{vals[0], vals[1], vals[2]}); break;
        case 4: construct(x, std::initializer_list<T>{vals[0], vals[1], vals[2], vals[3]}); break;
        case 5: construct(x, std::initializer_list<T>{vals[0], vals[1], vals[2], vals[3], vals[4]}); break;
        case 6: construct(x, std::initializer_list<T>{vals[0], vals[1], vals[2], vals[3], vals[4], vals[5]}); break;
        case 7: construct(x, std::initializer_list<T>{vals[0], vals[1], vals[2], vals[3], vals[4], vals[5], vals[6]}); break;
        case 8: construct(x, std::initializer_list<T>{vals[0], vals[1], vals[2], vals[3], vals[4], vals[5], vals[6], vals[7]}); break;
        case 9: construct(x, std::initializer_list<T>{vals[0], vals[1], vals[2], vals[3], vals[4], vals[5], vals[6], vals[7], vals[8]}); break;
        case 10: construct(x, std::initializer_list<T>{vals[0], vals[1], vals[2], vals[3], vals[4], vals[5], vals[6], vals[7], vals[8], vals[9]}); break;
        default: return "precond";
        }
        x.o = vals;
      }
      else if (op == "ctorCopy") { construct(x, static_cast<const SV &>(*y.v)); x.o = y.o; }
      else { construct(x, std::move(*y.v)); x.o = std::move(y.o); y.o.clear(); y.specified = false; }
      x.specified = true;
    }
    else if (op == "assignCopy")
    {
      if (!argc(0)) return "bad-op";
      if (!y.specified) return "precond";
      *x.v = static_cast<const SV &>(*y.v);
      x.o = y.o;
      x.specified = true;
    }
    else if (op == "assignMove")
    {
      if (!argc(0)) return "bad-op";
      if (!y.specified) return "precond";
      *x.v = std::move(*y.v);
      x.o = std::move(y.o);
      y.o.clear();
      x.specified = true;
      y.specified = false;
    }
    else if (op == "assignSelf")
    {
      if (!argc(0)) return "bad-op";
      SV &alias = *x.v;
      *x.v = static_cast<const SV &>(alias);
    }
    else if (op == "clear")
    {
      if (!argc(0)) return "bad-op";
      x.v->clear();
      x.o.clear();
      x.specified = true;
    }
    else
    {
      // everything below needs a vector with specified contents
      if (op != "pushBack" && op != "emplaceBack" && op != "insert" && op != "resize" && op != "reserve"
          && op != "setAt" && op != "getAt" && op != "cmpEq" && op != "cmpLt")
        return "bad-op";
      if (op == "insert" && (a.size() < 2 || a.size() != std::size_t(a[1]) + 2)) return "bad-op";
      if ((op == "pushBack" || op == "emplaceBack" || op == "resize" || op == "reserve" || op == "getAt")
          && !argc(1)) return "bad-op";
      if (op == "setAt" && !argc(2)) return "bad-op";
      if ((op == "cmpEq" || op == "cmpLt") && !argc(0)) return "bad-op";
      if (!x.specified) return "precond";
      if (op == "pushBack" || op == "emplaceBack")
      {
        if (self)
        {
          if (std::size_t(a[0]) >= x.v->size()) return "precond";
          if (op == "pushBack") x.v->push_back((*x.v)[std::size_t(a[0])]);
          else x.v->emplace_back((*x.v)[std::size_t(a[0])]);
          x.o.push_back(T(x.o[std::size_t(a[0])]));
        }
        else
        {
          if (op == "pushBack") x.v->push_back(conv<T>::make(int(a[0])));
          else x.v->emplace_back(conv<T>::make(int(a[0])));
          x.o.push_back(conv<T>::make(int(a[0])));
        }
      }
      else if (op == "insert")
      {
        if (std::size_t(a[0]) > x.v->size()) return "precond";
        std::vector<T> vals;
        for (std::size_t i = 2; i < a.size(); ++i) vals.push_back(conv<T>::make(int(a[i])));
        auto it = x.v->insert(x.v->begin() + a[0], vals.begin(), vals.end());
        obs = std::to_string(it - x.v->begin());
        x.o.insert(x.o.begin() + a[0], vals.begin(), vals.end());
      }
      else if (op == "resize")
      {
        if (a[0] > 64) return "precond";
        x.v->resize(std::size_t(a[0]));
        x.o.resize(std::size_t(a[0]));
      }
      else if (op == "reserve")
      {
        if (a[0] > 64) return "precond";
        x.v->reserve(std::size_t(a[0]));
        if (x.v->capacity() < std::size_t(a[0])) obs = "cap-too-small";
      }
      else if (op == "setAt")
      {
        if (std::size_t(a[0]) >= x.v->size()) return "precond";
        (*x.v)[std::size_t(a[0])] = conv<T>::make(int(a[1]));
        x.o[std::size_t(a[0])] = conv<T>::make(int(a[1]));
      }
      else if (op == "getAt")
      {
        if (std::size_t(a[0]) >= x.v->size()) return "precond";
        const SV &cv = *x.v;
        obs = conv<T>::show(cv[std::size_t(a[0])]);
      }
      else  // cmpEq, cmpLt
      {
        if (!y.specified) return "precond";
        const bool got = op == "cmpEq" ? (*x.v == *y.v) : (*x.v < *y.v);
        const bool want = op == "cmpEq" ? (x.o == y.o) : (x.o < y.o);
        const bool ne = (*x.v != *y.v), gt = (*x.v > *y.v), le = (*x.v <= *y.v), ge = (*x.v >= *y.v);
        const bool lt = (*x.v < *y.v), eq = (*x.v == *y.v);
        obs = std::string(got ? "1" : "0") + (want ? "1" : "0")
              + ((ne == !eq && gt == (*y.v < *x.v) && le == !gt && ge == !lt) ? "c" : "i");
      }
    }
    std::string s = "ok " + obs + " | " + show(r_[0]) + " | " + show(r_[1]) + " | ev";
    const unsigned long e1[5] = {ev_coa, ev_draw, ev_araw, ev_rraw, ev_rmoved};
    for (int i = 0; i < 5; ++i) s += " " + std::to_string(e1[i] - e0[i]);
    return s;
  }

  std::string finish() override
  {
    const unsigned long e0[5] = {ev_coa, ev_draw, ev_araw, ev_rraw, ev_rmoved};
    destroy(r_[0]);
    destroy(r_[1]);
    r_[0].o.clear(); r_[0].o.shrink_to_fit();
    r_[1].o.clear(); r_[1].o.shrink_to_fit();
    const unsigned long e1[5] = {ev_coa, ev_draw, ev_araw, ev_rraw, ev_rmoved};
    const auto live(registry.size());
    registry.clear();
    const long blocks = live_allocs - base_allocs;   // before any string of the answer is built
    std::string s = "end live " + std::to_string(live);
    s += " blocks " + std::to_string(blocks) + " ev";
    for (int i = 0; i < 5; ++i) s += " " + std::to_string(e1[i] - e0[i]);
    return s;
  }
};

template<class T> std::unique_ptr<session> make_s(long s)
{
  switch (s)
  {
  case 1: return std::make_unique<session_impl<T, 1>>();
  case 2: return std::make_unique<session_impl<T, 2>>();
  case 3: return std::make_unique<session_impl<T, 3>>();
  case 4: return std::make_unique<session_impl<T, 4>>();
  case 5: return std::make_unique<session_impl<T, 5>>();
  case 6: return std::make_unique<session_impl<T, 6>>();
  case 7: return std::make_unique<session_impl<T, 7>>();
  case 8: return std::make_unique<session_impl<T, 8>>();
  default: return nullptr;
  }
}
}  // namespace

int main()
{
  std::unique_ptr<session> cur;
  std::string line;
  line.reserve(1 << 16);       // keep the harness's own allocations out of the per-script balance
  registry.reserve(1 << 12);
  while (std::getline(std::cin, line))
  {
    const auto t = verif::split(line);
    // a request that does not terminate (e.g. a destroy loop that ran past `end`) is a result:
    // SIGVTALRM after 2 s of CPU time spent in one request kills the process
    struct itimerval tv = {{0, 0}, {2, 0}};
    setitimer(ITIMER_VIRTUAL, &tv, nullptr);
    if (t.empty()) { std::cout << "bad-op" << std::endl; continue; }
    if (t[0] == "new")
    {
      long s;
      if (t.size() != 3 || !num(t[2], s)) { std::cout << "bad-op" << std::endl; continue; }
      cur.reset();
      registry.clear();
      if (t[1] == "int") cur = make_s<int>(s);
      else if (t[1] == "double") cur = make_s<double>(s);
      else if (t[1] == "string") cur = make_s<std::string>(s);
      else if (t[1] == "tracked") cur = make_s<Tracked>(s);
      std::cout << (cur ? "ok new" : "bad-op") << std::endl;
      continue;
    }
    if (t[0] == "end")
    {
      if (!cur) { std::cout << "bad-op" << std::endl; continue; }
      std::cout << cur->finish() << std::endl;
      cur.reset();
      continue;
    }
    if (!cur) { std::cout << "bad-op" << std::endl; continue; }
    std::cout << cur->apply(t) << std::endl;
  }
  return 0;
}
