// C20 correspondence harness: drives vita::small_vector<T,S> (S = 1..8, T = int, double,
// std::string, Tracked, Pod) through scripts of public operations on two vectors ("registers"
// 0 and 1) and keeps a std::vector<T> next to each of them as the harness's own oracle.
//
// requests (one answer line each)
//   new <int|double|string|tracked|pod> <S>   start a script (both registers default-constructed)
//   <r> ctorN n | ctorNX n id | ctorList k id… | ctorCopy | ctorMove
//   <r> assignCopy | assignMove | assignSelf | clear
//   <r> pushBack v id | pushBack s i | emplaceBack v id | emplaceBack s i
//   <r> emplaceBack a<k> id                   emplace_back with k = 0..3 constructor arguments
//   <r> insert pos k id… | insertL pos k id… (from std::list iterators) | resize n | reserve n
//   <r> setAt i id | getAt i
//   <r> cmp <eq|ne|lt|gt|le|ge> | cmpEq | cmpLt          obs = <small_vector><std::vector><c|i>
//   <r> cmpMixed <S2> <op> <flip>             x op t / t op x with t a small_vector<T,S2> copy of y
//   <r> front | back | setFront id | setBack id | dataAt i | setData i id
//   <r> iterFwd | iterRev | empty | size | capOk | maxSize
//   end                                       destroy both vectors, lifetime balance + leak check
// Element VALUES: an id names a representation; `==` / `<` of the element type are not the
// identity / order of ids:  double 90000001 = -0.0, 90000002/3 = NaNs, 4 = +inf, 5 = -inf,
// 6 = -1.0, 7 = denorm_min, 8 = -2.0;  pod id = aux * 1000000 + key, compared by key only.
// answer:  ok <obs> | <reg0> | <reg1> | ev <coa> <draw> <araw> <rraw> <rmoved>
//   <reg> = S size cap e0,e1,… # o0,o1,…     (elements of the small_vector # elements of the oracle)
//         = U size cap                        (moved-from: contents unspecified, not read)
//   elements: value ids; R = no live object at that address, M = moved-from object (Tracked),
//   X = a value that is no encoding of an id (uninitialised / corrupted)
//   `precond` = the request violates a precondition of the operation (nothing executed)
// Lifetime events (Tracked only): construct-over-alive, destroy-raw/double destroy,
// assign-to-raw, read-raw, read-moved; `end` adds the number of still-live objects (leak)
// and the balance of ::operator new / ::operator delete calls over the script (leaked blocks).
#include "common/verif.h"

#include "utility/small_vector.h"

#include <cmath>
#include <list>
#include <memory>
#include <type_traits>
#include <new>
#include <cstdlib>
#include <unordered_map>
#include <sys/time.h>

// Count the blocks obtained from the global allocation functions (small_vector calls
// ::operator new / ::operator delete directly, std::string goes through std::allocator):
// the balance over a script is an exact, cheap leak check; LeakSanitizer still runs at exit.
// The file is compiled in six parts (-DC20_PART=0..5: main + allocation functions, then one
// element type each) so that the instantiations build in parallel; without C20_PART it is one TU.
#if defined(C20_PART)
#  define C20_HAS(n) (C20_PART == (n))
#else
#  define C20_HAS(n) 1
#endif

inline long live_allocs = 0;
#if C20_HAS(0)
void *operator new(std::size_t n)
{
  void *p = std::malloc(n ? n : 1);
  if (!p) throw std::bad_alloc();
  ++live_allocs;
  return p;
}
void *operator new[](std::size_t n) { return ::operator new(n); }
void operator delete(void *p) noexcept { if (p) { --live_allocs; std::free(p); } }
void operator delete[](void *p) noexcept { ::operator delete(p); }
void operator delete(void *p, std::size_t) noexcept { ::operator delete(p); }
void operator delete[](void *p, std::size_t) noexcept { ::operator delete(p); }
#endif

namespace c20
{
// ---------------------------------------------------------------- Tracked
enum class st : char { live, moved };
inline std::unordered_map<const void *, st> registry;
inline unsigned long ev_coa = 0, ev_draw = 0, ev_araw = 0, ev_rraw = 0, ev_rmoved = 0;

struct Tracked
{
  int id;

  static int read(const Tracked &o)
  {
    auto it = registry.find(&o);
    if (it == registry.end()) { ++ev_rraw; return -7; }
    if (it->second == st::moved) { ++ev_rmoved; return -8; }
    return o.id;
  }
  void born()
  {
    auto it = registry.find(this);
    if (it != registry.end()) { ++ev_coa; it->second = st::live; }
    else registry.emplace(this, st::live);
  }

  Tracked() : id(0) { born(); }
  explicit Tracked(int i) : id(i) { born(); }
  Tracked(int hi, int lo) : id(hi * 1000 + lo) { born(); }
  Tracked(int a, int b, int c) : id(a * 1000000 + b * 1000 + c) { born(); }
  Tracked(const Tracked &o) : id(read(o)) { born(); }
  Tracked(Tracked &&o) : id(read(o))
  {
    born();
    auto it = registry.find(&o);
    if (it != registry.end()) it->second = st::moved;
  }
  Tracked &operator=(const Tracked &o)
  {
    const int v = read(o);
    auto it = registry.find(this);
    if (it == registry.end()) { ++ev_araw; return *this; }
    id = v;
    it->second = st::live;
    return *this;
  }
  Tracked &operator=(Tracked &&o)
  {
    const int v = read(o);
    auto it = registry.find(this);
    if (it == registry.end()) { ++ev_araw; return *this; }
    id = v;
    it->second = st::live;
    auto io = registry.find(&o);
    if (io != registry.end()) io->second = st::moved;   // also for self-move: value unspecified
    return *this;
  }
  ~Tracked()
  {
    auto it = registry.find(this);
    if (it == registry.end()) ++ev_draw;
    else registry.erase(it);
  }
  friend bool operator==(const Tracked &a, const Tracked &b) { return read(a) == read(b); }
  friend bool operator<(const Tracked &a, const Tracked &b) { return read(a) < read(b); }
};

// ---------------------------------------------------------------- Pod
// A trivially copyable, trivially default constructible element with padding bytes (after
// `tag` and after `aux`) and a user-defined equality / order that looks at `key` only: two
// equal objects may differ in `tag`, `aux` and in the padding.
struct Pod
{
  char tag;
  int key;
  short aux;

  Pod() = default;
  explicit Pod(int id) : tag(tag_of(id % 1000000, id / 1000000)), key(id % 1000000), aux(short(id / 1000000)) {}
  Pod(int k, int a) : tag(tag_of(k, a)), key(k), aux(short(a)) {}
  Pod(int t, int k, int a) : tag(char(t)), key(k), aux(short(a)) {}

  static char tag_of(int k, int a) { return char((k + 3 * a) % 101); }
  friend bool operator==(const Pod &a, const Pod &b) { return a.key == b.key; }
  friend bool operator<(const Pod &a, const Pod &b) { return a.key < b.key; }
};
static_assert(std::is_trivially_copyable_v<Pod> && std::is_trivially_default_constructible_v<Pod>
              && sizeof(Pod) == 12, "Pod must be plain data with padding");

// ---------------------------------------------------------------- value encodings
inline const struct { int id; std::uint64_t bits; } dspecial[] = {
  {90000001, 0x8000000000000000ull},   // -0.0
  {90000002, 0x7ff8000000000000ull},   // NaN
  {90000003, 0xfff8000000000001ull},   // another NaN (sign, payload)
  {90000004, 0x7ff0000000000000ull},   // +inf
  {90000005, 0xfff0000000000000ull},   // -inf
  {90000006, 0xbff0000000000000ull},   // -1.0
  {90000007, 0x0000000000000001ull},   // denorm_min
  {90000008, 0xc000000000000000ull}};  // -2.0

template<class T> struct conv;
template<> struct conv<int>
{
  static int make(int id) { return id; }
  static std::string show(const int &v) { return (v >= 0 && v < 100000000) ? std::to_string(v) : "X"; }
};
template<> struct conv<double>
{
  static double make(int id)
  {
    for (const auto &d : dspecial) if (d.id == id) return verif::from_bits(d.bits);
    return double(id);
  }
  static std::string show(const double &v)   // by bit pattern: -0.0 and the NaNs are distinct ids
  {
    const std::uint64_t b = verif::bits(v);
    for (const auto &d : dspecial) if (d.bits == b) return std::to_string(d.id);
    if (!(v >= 0.0 && v < 1e8) || std::floor(v) != v) return "X";
    return std::to_string(int(v));
  }
};
template<> struct conv<Pod>
{
  static Pod make(int id)
  {
    Pod p;
    std::memset(static_cast<void *>(&p), 0x5A ^ (id & 0xff), sizeof p);   // the padding differs from value to value
    p.key = id % 1000000;
    p.aux = short(id / 1000000);
    p.tag = Pod::tag_of(p.key, p.aux);
    return p;
  }
  static std::string show(const Pod &v)
  {
    if (v.key < 0 || v.key >= 1000000 || v.aux < 0 || v.aux > 99 || v.tag != Pod::tag_of(v.key, v.aux)) return "X";
    return std::to_string(int(v.aux) * 1000000 + v.key);
  }
};
template<> struct conv<std::string>
{
  static std::string make(int id)
  {
    if (id == 0) return {};
    char b[40];
    std::snprintf(b, sizeof b, "element_%020d", id);      // longer than the SSO buffer
    return b;
  }
  static std::string show(const std::string &v)
  {
    if (v.empty()) return "0";
    if (v.size() != 28 || v.compare(0, 8, "element_") != 0) return "X";
    return std::to_string(std::stoi(v.substr(8)));
  }
};
template<> struct conv<Tracked>
{
  static Tracked make(int id) { return Tracked(id); }
  static std::string show(const Tracked &v)
  {
    auto it = registry.find(&v);
    if (it == registry.end()) return "R";
    if (it->second == st::moved) return "M";
    return std::to_string(v.id);
  }
};

// emplace_back with k constructor arguments that denote the element `id` (same call on the
// small_vector and on the std::vector oracle)
template<class T> struct emk
{
  template<class V> static bool go(V &v, int k, int id)      // int, double
  {
    if (k == 0) v.emplace_back();
    else if (k == 1) v.emplace_back(conv<T>::make(id));
    else return false;
    return true;
  }
};
template<> struct emk<std::string>
{
  template<class V> static bool go(V &v, int k, int id)
  {
    const std::string s(conv<std::string>::make(id));
    if (k == 0) v.emplace_back();
    else if (k == 1) v.emplace_back(s.c_str());
    else if (k == 2) v.emplace_back(s.c_str(), s.size());
    else if (k == 3) v.emplace_back(s, std::size_t(0), s.size());
    else return false;
    return true;
  }
};
template<> struct emk<Tracked>
{
  template<class V> static bool go(V &v, int k, int id)
  {
    if (k == 0) v.emplace_back();
    else if (k == 1) v.emplace_back(id);
    else if (k == 2) v.emplace_back(id / 1000, id % 1000);
    else if (k == 3) v.emplace_back(id / 1000000, (id / 1000) % 1000, id % 1000);
    else return false;
    return true;
  }
};
template<> struct emk<Pod>
{
  template<class V> static bool go(V &v, int k, int id)
  {
    const int key = id % 1000000, aux = id / 1000000;
    if (k == 0) v.emplace_back();
    else if (k == 1) v.emplace_back(id);
    else if (k == 2) v.emplace_back(key, aux);
    else if (k == 3) v.emplace_back(int(Pod::tag_of(key, aux)), key, aux);
    else return false;
    return true;
  }
};

inline int cmp_kind(const std::string &k)
{
  static const char *names[6] = {"eq", "ne", "lt", "gt", "le", "ge"};
  for (int i = 0; i < 6; ++i) if (k == names[i]) return i;
  return -1;
}

// the six relational operators of two containers, as a string of six 0/1 (eq ne lt gt le ge)
template<class A, class B> std::string six(const A &a, const B &b)
{
  std::string r;
  r += (a == b) ? '1' : '0';
  r += (a != b) ? '1' : '0';
  r += (a < b) ? '1' : '0';
  r += (a > b) ? '1' : '0';
  r += (a <= b) ? '1' : '0';
  r += (a >= b) ? '1' : '0';
  return r;
}

inline std::string cmp_obs(const std::string &got, const std::string &want, int k)
{
  std::string obs;
  obs += got[std::size_t(k)];
  obs += want[std::size_t(k)];
  obs += got == want ? "c" : ("i:" + got + "/" + want);
  return obs;
}

struct session
{
  virtual ~session() = default;
  virtual std::string apply(const std::vector<std::string> &t) = 0;
  virtual std::string finish() = 0;
};

inline bool num(const std::string &s, long &out)
{
  if (s.empty() || s.size() > 9 || s.find_first_not_of("0123456789") != std::string::npos) return false;
  out = std::stol(s);
  return true;
}

template<class T, std::size_t S>
struct session_impl final : session
{
  using SV = vita::small_vector<T, S>;

  struct reg
  {
    void *mem = nullptr;
    SV *v = nullptr;
    std::vector<T> o;
    bool specified = true;
  };
  reg r_[2];

  static void *block()
  {
    void *p = std::malloc(sizeof(SV));
    std::memset(p, 0xAB, sizeof(SV));       // uninitialised inline elements become visible
    return p;
  }
  template<class... A> void construct(reg &r, A &&... a)
  {
    r.mem = block();
    r.v = new (r.mem) SV(std::forward<A>(a)...);
  }
  void destroy(reg &r)
  {
    if (r.v) { r.v->~SV(); std::free(r.mem); r.v = nullptr; r.mem = nullptr; }
  }

  long base_allocs;
  session_impl() { base_allocs = live_allocs; construct(r_[0]); construct(r_[1]); }
  ~session_impl() override { destroy(r_[0]); destroy(r_[1]); }

  std::string show(const reg &r) const
  {
    std::string s = r.specified ? "S " : "U ";
    s += std::to_string(r.v->size()) + " " + std::to_string(r.v->capacity());
    if (!r.specified) return s;
    s += " ";
    for (std::size_t i = 0; i < r.v->size(); ++i)
      s += (i ? "," : "") + conv<T>::show((*r.v)[i]);
    if (r.v->empty()) s += "-";
    s += " # ";
    for (std::size_t i = 0; i < r.o.size(); ++i)
      s += (i ? "," : "") + conv<T>::show(r.o[i]);
    if (r.o.empty()) s += "-";
    return s;
  }

  // `x op t` (flip: `t op x`) where t is a small_vector<T,S2> holding the elements of y
  template<std::size_t S2> static std::string cmp_mixed(const reg &x, const reg &y, int k, bool flip)
  {
    vita::small_vector<T, S2> t;
    t.insert(t.end(), y.v->begin(), y.v->end());
    const SV &cx = *x.v;
    const vita::small_vector<T, S2> &ct = t;
    return flip ? cmp_obs(six(ct, cx), six(y.o, x.o), k) : cmp_obs(six(cx, ct), six(x.o, y.o), k);
  }

  static std::string show_list(const std::vector<std::string> &l)
  {
    std::string s;
    for (std::size_t i = 0; i < l.size(); ++i) s += (i ? "," : "") + l[i];
    return l.empty() ? "-" : s;
  }

  std::string apply(const std::vector<std::string> &t) override
  {
    long ri;
    if (t.size() < 2 || !num(t[0], ri) || ri > 1) return "bad-op";
    std::vector<long> a;
    const std::string &op = t[1];
    std::size_t first = 2;
    bool self = false;
    int nargs = -1;          // emplaceBack a<k>
    int ck = -1;             // comparison kind
    if (op == "pushBack" || op == "emplaceBack")
    {
      if (t.size() != 4) return "bad-op";
      if (op == "emplaceBack" && t[2].size() == 2 && t[2][0] == 'a' && t[2][1] >= '0' && t[2][1] <= '3')
        nargs = t[2][1] - '0';
      else if (t[2] != "v" && t[2] != "s") return "bad-op";
      self = t[2] == "s";
      first = 3;
    }
    else if (op == "cmp")
    {
      if (t.size() != 3 || (ck = cmp_kind(t[2])) < 0) return "bad-op";
      first = 3;
    }
    else if (op == "cmpMixed")
    {
      if (t.size() != 5 || (ck = cmp_kind(t[3])) < 0) return "bad-op";
      long s2, fl;
      if (!num(t[2], s2) || !num(t[4], fl) || (s2 != 1 && s2 != 4 && s2 != 8) || fl > 1) return "bad-op";
      a.push_back(s2);
      a.push_back(fl);
      first = 5;
    }
    else if (op == "cmpEq") ck = 0;
    else if (op == "cmpLt") ck = 2;
    for (std::size_t i = first; i < t.size(); ++i)
    {
      long v;
      if (!num(t[i], v)) return "bad-op";
      a.push_back(v);
    }
    reg &x = r_[ri], &y = r_[1 - ri];
    std::string obs = "-";
    const auto argc = [&](std::size_t n) { return a.size() == n; };
    const unsigned long e0[5] = {ev_coa, ev_draw, ev_araw, ev_rraw, ev_rmoved};

    if (op == "ctorN" || op == "ctorNX" || op == "ctorList" || op == "ctorCopy" || op == "ctorMove")
    {
      if (op == "ctorN" && !argc(1)) return "bad-op";
      if (op == "ctorNX" && !argc(2)) return "bad-op";
      if (op == "ctorList" && (a.empty() || a.size() != std::size_t(a[0]) + 1)) return "bad-op";
      if ((op == "ctorCopy" || op == "ctorMove") && !argc(0)) return "bad-op";
      if ((op == "ctorCopy" || op == "ctorMove") && !y.specified) return "precond";
      if ((op == "ctorN" || op == "ctorNX") && a[0] > 64) return "precond";
      destroy(x);
      if (op == "ctorN") { construct(x, std::size_t(a[0])); x.o = std::vector<T>(std::size_t(a[0])); }
      else if (op == "ctorNX")
      {
        const T val(conv<T>::make(int(a[1])));
        construct(x, std::size_t(a[0]), val);
        x.o = std::vector<T>(std::size_t(a[0]), val);
      }
      else if (op == "ctorList")
      {
        // an initializer_list of run-time length: copy-construct from a vector of the same type
        // built with the initializer_list constructor for the small lengths, else via insert
        std::vector<T> vals;
        for (std::size_t i = 1; i < a.size(); ++i) vals.push_back(conv<T>::make(int(a[i])));
        switch (vals.size())
        {
        case 0: construct(x, std::initializer_list<T>{}); break;
        case 1: construct(x, std::initializer_list<T>{vals[0]}); break;
        case 2: construct(x, std::initializer_list<T>{vals[0], vals[1]}); break;
        case 3: construct(x, std::initializer_list<T>{vals[0], vals[1], vals[2]}); break;
        case 4: construct(x, std::initializer_list<T>{vals[0], vals[1], vals[2], vals[3]}); break;
        case 5: construct(x, std::initializer_list<T>{vals[0], vals[1], vals[2], vals[3], vals[4]}); break;
        case 6: construct(x, std::initializer_list<T>{vals[0], vals[1], vals[2], vals[3], vals[4], vals[5]}); break;
        case 7: construct(x, std::initializer_list<T>{vals[0], vals[1], vals[2], vals[3], vals[4], vals[5], vals[6]}); break;
        case 8: construct(x, std::initializer_list<T>{vals[0], vals[1], vals[2], vals[3], vals[4], vals[5], vals[6], vals[7]}); break;
        case 9: construct(x, std::initializer_list<T>{vals[0], vals[1], vals[2], vals[3], vals[4], vals[5], vals[6], vals[7], vals[8]}); break;
        case 10: construct(x, std::initializer_list<T>{vals[0], vals[1], vals[2], vals[3], vals[4], vals[5], vals[6], vals[7], vals[8], vals[9]}); break;
        default: return "precond";
        }
        x.o = vals;
      }
      else if (op == "ctorCopy") { construct(x, static_cast<const SV &>(*y.v)); x.o = y.o; }
      else { construct(x, std::move(*y.v)); x.o = std::move(y.o); y.o.clear(); y.specified = false; }
      x.specified = true;
    }
    else if (op == "assignCopy")
    {
      if (!argc(0)) return "bad-op";
      if (!y.specified) return "precond";
      *x.v = static_cast<const SV &>(*y.v);
      x.o = y.o;
      x.specified = true;
    }
    else if (op == "assignMove")
    {
      if (!argc(0)) return "bad-op";
      if (!y.specified) return "precond";
      *x.v = std::move(*y.v);
      x.o = std::move(y.o);
      y.o.clear();
      x.specified = true;
      y.specified = false;
    }
    else if (op == "assignSelf")
    {
      if (!argc(0)) return "bad-op";
      SV &alias = *x.v;
      *x.v = static_cast<const SV &>(alias);
    }
    else if (op == "clear")
    {
      if (!argc(0)) return "bad-op";
      x.v->clear();
      x.o.clear();
      x.specified = true;
    }
    else
    {
      // everything below needs a vector with specified contents
      static const char *known[] = {"pushBack", "emplaceBack", "insert", "insertL", "resize", "reserve", "setAt",
        "getAt", "cmpEq", "cmpLt", "cmp", "cmpMixed", "front", "back", "setFront", "setBack", "dataAt", "setData",
        "iterFwd", "iterRev", "empty", "size", "capOk", "maxSize"};
      bool ok = false;
      for (const char *k : known) ok = ok || op == k;
      if (!ok) return "bad-op";
      const bool ins = op == "insert" || op == "insertL";
      if (ins && (a.size() < 2 || a.size() != std::size_t(a[1]) + 2)) return "bad-op";
      if ((op == "pushBack" || op == "emplaceBack" || op == "resize" || op == "reserve" || op == "getAt"
           || op == "setFront" || op == "setBack" || op == "dataAt") && !argc(1)) return "bad-op";
      if ((op == "setAt" || op == "setData") && !argc(2)) return "bad-op";
      if ((op == "cmpEq" || op == "cmpLt" || op == "cmp" || op == "front" || op == "back" || op == "iterFwd"
           || op == "iterRev" || op == "empty" || op == "size" || op == "capOk" || op == "maxSize") && !argc(0))
        return "bad-op";
      if (nargs >= 2 && (std::is_same_v<T, int> || std::is_same_v<T, double>)) return "bad-op";
      if (nargs == 0 && a[0] != 0) return "bad-op";
      const SV &cv = *x.v;
      if (op == "maxSize")
      {
        obs = std::to_string(cv.max_size());
        if (cv.size() > cv.max_size()) obs = "X";
      }
      else if (!x.specified) return "precond";
      else if (op == "front" || op == "back" || op == "setFront" || op == "setBack")
      {
        if (x.v->empty()) return "precond";
        const bool fr = op == "front" || op == "setFront";
        if (op[0] == 's')
        {
          (fr ? x.v->front() : x.v->back()) = conv<T>::make(int(a[0]));
          (fr ? x.o.front() : x.o.back()) = conv<T>::make(int(a[0]));
        }
        else
        {
          const T &cr = fr ? cv.front() : cv.back();
          T &r = fr ? x.v->front() : x.v->back();
          obs = conv<T>::show(cr);
          if (&cr != &r || &r != (fr ? x.v->data() : x.v->data() + (x.v->size() - 1))) obs = "X";
        }
      }
      else if (op == "dataAt" || op == "setData")
      {
        if (std::size_t(a[0]) >= x.v->size()) return "precond";
        const std::size_t i = std::size_t(a[0]);
        if (op == "setData")
        {
          if (i % 2) *(x.v->begin() + i) = conv<T>::make(int(a[1]));
          else x.v->data()[i] = conv<T>::make(int(a[1]));
          x.o[i] = conv<T>::make(int(a[1]));
        }
        else
        {
          obs = conv<T>::show(cv.data()[i]);
          if (cv.data() != x.v->data() || x.v->data() != x.v->begin() || cv.begin() != cv.cbegin()
              || cv.data() != cv.begin()) obs = "X";
        }
      }
      else if (op == "iterFwd")
      {
        std::vector<std::string> l1, l2, l3, l4;
        for (auto it = x.v->begin(); it != x.v->end(); ++it) l1.push_back(conv<T>::show(*it));
        for (auto it = cv.begin(); it != cv.end(); ++it) l2.push_back(conv<T>::show(*it));
        for (auto it = cv.cbegin(); it != cv.cend(); ++it) l3.push_back(conv<T>::show(*it));
        for (const T &e : cv) l4.push_back(conv<T>::show(e));
        obs = (l1 == l2 && l2 == l3 && l3 == l4) ? show_list(l1) : "X";
      }
      else if (op == "iterRev")
      {
        std::vector<std::string> l1, l2;
        for (auto it = x.v->rbegin(); it != x.v->rend(); ++it) l1.push_back(conv<T>::show(*it));
        for (auto it = cv.rbegin(); it != cv.rend(); ++it) l2.push_back(conv<T>::show(*it));
        obs = (l1 == l2 && x.v->rbegin().base() == x.v->end() && x.v->rend().base() == x.v->begin())
              ? show_list(l1) : "X";
      }
      else if (op == "empty") obs = cv.empty() ? "1" : "0";
      else if (op == "size")
      {
        obs = std::to_string(cv.size());
        if (std::size_t(cv.end() - cv.begin()) != cv.size() || std::size_t(x.v->end() - x.v->begin()) != cv.size()
            || std::size_t(cv.cend() - cv.cbegin()) != cv.size()) obs = "X";
      }
      else if (op == "capOk") obs = (cv.capacity() >= std::max(S, cv.size())) ? "1" : "0";
      else if (nargs >= 0)
      {
        emk<T>::go(*x.v, nargs, int(a[0]));
        emk<T>::go(x.o, nargs, int(a[0]));
      }
      else if (op == "pushBack" || op == "emplaceBack")
      {
        if (self)
        {
          if (std::size_t(a[0]) >= x.v->size()) return "precond";
          if (op == "pushBack") x.v->push_back((*x.v)[std::size_t(a[0])]);
          else x.v->emplace_back((*x.v)[std::size_t(a[0])]);
          x.o.push_back(T(x.o[std::size_t(a[0])]));
        }
        else
        {
          if (op == "pushBack") x.v->push_back(conv<T>::make(int(a[0])));
          else x.v->emplace_back(conv<T>::make(int(a[0])));
          x.o.push_back(conv<T>::make(int(a[0])));
        }
      }
      else if (op == "insert")
      {
        if (std::size_t(a[0]) > x.v->size()) return "precond";
        std::vector<T> vals;
        for (std::size_t i = 2; i < a.size(); ++i) vals.push_back(conv<T>::make(int(a[i])));
        auto it = x.v->insert(x.v->begin() + a[0], vals.begin(), vals.end());
        obs = std::to_string(it - x.v->begin());
        x.o.insert(x.o.begin() + a[0], vals.begin(), vals.end());
      }
      else if (op == "insertL")      // bidirectional (non random access) source iterators
      {
        if (std::size_t(a[0]) > x.v->size()) return "precond";
        std::list<T> vals;
        for (std::size_t i = 2; i < a.size(); ++i) vals.push_back(conv<T>::make(int(a[i])));
        auto it = x.v->insert(x.v->begin() + a[0], vals.begin(), vals.end());
        obs = std::to_string(it - x.v->begin());
        x.o.insert(x.o.begin() + a[0], vals.begin(), vals.end());
      }
      else if (op == "resize")
      {
        if (a[0] > 64) return "precond";
        x.v->resize(std::size_t(a[0]));
        x.o.resize(std::size_t(a[0]));
      }
      else if (op == "reserve")
      {
        if (a[0] > 64) return "precond";
        x.v->reserve(std::size_t(a[0]));
        if (x.v->capacity() < std::size_t(a[0])) obs = "cap-too-small";
      }
      else if (op == "setAt")
      {
        if (std::size_t(a[0]) >= x.v->size()) return "precond";
        (*x.v)[std::size_t(a[0])] = conv<T>::make(int(a[1]));
        x.o[std::size_t(a[0])] = conv<T>::make(int(a[1]));
      }
      else if (op == "getAt")
      {
        if (std::size_t(a[0]) >= x.v->size()) return "precond";
        const SV &cv = *x.v;
        obs = conv<T>::show(cv[std::size_t(a[0])]);
      }
      else if (op == "cmpMixed")
      {
        if (!y.specified) return "precond";
        const bool flip = a[1] == 1;
        obs = a[0] == 1 ? cmp_mixed<1>(x, y, ck, flip) : a[0] == 4 ? cmp_mixed<4>(x, y, ck, flip)
                                                                  : cmp_mixed<8>(x, y, ck, flip);
      }
      else  // cmp, cmpEq, cmpLt: all six operators against the six operators of std::vector
      {
        if (!y.specified) return "precond";
        const SV &cy = *y.v;
        obs = cmp_obs(six(cv, cy), six(x.o, y.o), ck);
      }
    }
    std::string s = "ok " + obs + " | " + show(r_[0]) + " | " + show(r_[1]) + " | ev";
    const unsigned long e1[5] = {ev_coa, ev_draw, ev_araw, ev_rraw, ev_rmoved};
    for (int i = 0; i < 5; ++i) s += " " + std::to_string(e1[i] - e0[i]);
    return s;
  }

  std::string finish() override
  {
    const unsigned long e0[5] = {ev_coa, ev_draw, ev_araw, ev_rraw, ev_rmoved};
    destroy(r_[0]);
    destroy(r_[1]);
    r_[0].o.clear(); r_[0].o.shrink_to_fit();
    r_[1].o.clear(); r_[1].o.shrink_to_fit();
    const unsigned long e1[5] = {ev_coa, ev_draw, ev_araw, ev_rraw, ev_rmoved};
    const auto live(registry.size());
    registry.clear();
    const long blocks = live_allocs - base_allocs;   // before any string of the answer is built
    std::string s = "end live " + std::to_string(live);
    s += " blocks " + std::to_string(blocks) + " ev";
    for (int i = 0; i < 5; ++i) s += " " + std::to_string(e1[i] - e0[i]);
    return s;
  }
};

template<class T> std::unique_ptr<session> make_s(long s)
{
  switch (s)
  {
  case 1: return std::make_unique<session_impl<T, 1>>();
  case 2: return std::make_unique<session_impl<T, 2>>();
  case 3: return std::make_unique<session_impl<T, 3>>();
  case 4: return std::make_unique<session_impl<T, 4>>();
  case 5: return std::make_unique<session_impl<T, 5>>();
  case 6: return std::make_unique<session_impl<T, 6>>();
  case 7: return std::make_unique<session_impl<T, 7>>();
  case 8: return std::make_unique<session_impl<T, 8>>();
  default: return nullptr;
  }
}
std::unique_ptr<session> make_int(long);
std::unique_ptr<session> make_double(long);
std::unique_ptr<session> make_string(long);
std::unique_ptr<session> make_tracked(long);
std::unique_ptr<session> make_pod(long);
#if C20_HAS(1)
std::unique_ptr<session> make_int(long s) { return make_s<int>(s); }
#endif
#if C20_HAS(2)
std::unique_ptr<session> make_double(long s) { return make_s<double>(s); }
#endif
#if C20_HAS(3)
std::unique_ptr<session> make_string(long s) { return make_s<std::string>(s); }
#endif
#if C20_HAS(4)
std::unique_ptr<session> make_tracked(long s) { return make_s<Tracked>(s); }
#endif
#if C20_HAS(5)
std::unique_ptr<session> make_pod(long s) { return make_s<Pod>(s); }
#endif
}  // namespace c20

#if C20_HAS(0)
int main()
{
  using namespace c20;
  std::unique_ptr<session> cur;
  std::string line;
  line.reserve(1 << 16);       // keep the harness's own allocations out of the per-script balance
  registry.reserve(1 << 12);
  while (std::getline(std::cin, line))
  {
    const auto t = verif::split(line);
    // a request that does not terminate (e.g. a destroy loop that ran past `end`) is a result:
    // SIGVTALRM after 2 s of CPU time spent in one request kills the process
    struct itimerval tv = {{0, 0}, {2, 0}};
    setitimer(ITIMER_VIRTUAL, &tv, nullptr);
    if (t.empty()) { std::cout << "bad-op" << std::endl; continue; }
    if (t[0] == "new")
    {
      long s;
      if (t.size() != 3 || !num(t[2], s)) { std::cout << "bad-op" << std::endl; continue; }
      cur.reset();
      registry.clear();
      if (t[1] == "int") cur = make_int(s);
      else if (t[1] == "double") cur = make_double(s);
      else if (t[1] == "string") cur = make_string(s);
      else if (t[1] == "tracked") cur = make_tracked(s);
      else if (t[1] == "pod") cur = make_pod(s);
      std::cout << (cur ? "ok new" : "bad-op") << std::endl;
      continue;
    }
    if (t[0] == "end")
    {
      if (!cur) { std::cout << "bad-op" << std::endl; continue; }
      std::cout << cur->finish() << std::endl;
      cur.reset();
      continue;
    }
    if (!cur) { std::cout << "bad-op" << std::endl; continue; }
    std::cout << cur->apply(t) << std::endl;
  }
  return 0;
}
#endif
