// Shared helpers for the correspondence harnesses (line protocol, canonical output).
#ifndef VERIF_COMMON_H
#define VERIF_COMMON_H

#include <cstdint>
#include <cstdio>
#include <cstring>
#include <iostream>
#include <sstream>
#include <string>
#include <vector>

namespace verif
{

// ---- one PRNG for every random choice of a harness (seeded from argv / VERIF_SEED)
struct splitmix
{
  std::uint64_t s;
  explicit splitmix(std::uint64_t seed) : s(seed * 0x9E3779B97F4A7C15ull + 0x1234567ull) {}
  std::uint64_t next()
  {
    s += 0x9E3779B97F4A7C15ull;
    std::uint64_t z = s;
    z = (z ^ (z >> 30)) * 0xBF58476D1CE4E5B9ull;
    z = (z ^ (z >> 27)) * 0x94D049BB133111EBull;
    return z ^ (z >> 31);
  }
  std::uint64_t below(std::uint64_t n) { return n ? next() % n : 0; }
  std::int64_t between(std::int64_t a, std::int64_t b) { return a + (std::int64_t)below((std::uint64_t)(b - a)); }
  bool chance(double p) { return (next() >> 11) * (1.0 / 9007199254740992.0) < p; }
  template<class C> auto &pick(C &c) { return c[below(c.size())]; }
};

inline std::uint64_t bits(double d) { std::uint64_t u; std::memcpy(&u, &d, 8); return u; }
inline double from_bits(std::uint64_t u) { double d; std::memcpy(&d, &u, 8); return d; }

inline std::string hex(const std::string &s)
{
  static const char *d = "0123456789abcdef";
  std::string r;
  for (unsigned char c : s) { r += d[c >> 4]; r += d[c & 15]; }
  return r.empty() ? std::string("-") : r;   // "-" = empty string (keeps tokens non-empty)
}

inline std::string unhex(const std::string &h)
{
  if (h == "-") return {};
  std::string r;
  auto v = [](char c) { return c <= '9' ? c - '0' : c - 'a' + 10; };
  for (std::size_t i = 0; i + 1 < h.size(); i += 2) r += char(v(h[i]) * 16 + v(h[i + 1]));
  return r;
}

inline std::vector<std::string> split(const std::string &l)
{
  std::vector<std::string> t;
  std::istringstream ss(l);
  std::string w;
  while (ss >> w) t.push_back(w);
  return t;
}

// ---- UBSan: count reports instead of dying (harness compiled with -fsanitize-recover=undefined)
inline volatile unsigned long ubsan_reports = 0;

}  // namespace verif

// define VERIF_UBSAN_HOOK in exactly one translation unit (the harness main) before including
#ifdef VERIF_UBSAN_HOOK
extern "C" void __ubsan_on_report(void) { ++verif::ubsan_reports; }
#endif

#endif
