/-
  C01 — the interpreter made of the EXTRACTED member functions (ModelG.lean) computes exactly what
  the hand-written model (Model.lean) computes; every theorem about the model therefore holds for the
  code as extracted.  Each lemma below unfolds one generated term: when a source change alters the
  behaviour of a member function, the lemma named after it stops checking.
-/
import Vita.C01.ModelG
import Vita.C01.Lemmas

namespace Vita.C01
open Vita Vita.C01.Lang

set_option linter.unusedSimpArgs false

variable {F : Type}

theorem gen_fetch_opaque_arg_eq (g : Genome F) (src : Bool) (e : Option (List (Val F)))
    (ev : Locus → XS F → Out F × XS F) (ev' : St F → Option (Val F) × St F)
    (hev : ∀ s, ev s.ip (s, e) = toOut (ev' s) e) (i : Nat) (s : St F) :
    exec g (ext (cConst g src) .eval fun l _ x => ev l x) GenInterp.fetch_opaque_arg { iarg := i } (s, e) =
      toOut (fetchOpaqueWith g ev' i s) e := by
  have h1 := hev { memo := s.memo, ip := (g.gene s.ip).locusOfArg i,
                   ok := s.ok && decide (g.inB s.ip) && decide (i < (g.gene s.ip).args.length) }
  simp only [] at h1
  simp [GenInterp.fetch_opaque_arg, exec, mkCtx, LocE.eval, GeneE.eval, IdxE.eval, ext, setOk, Env.loc,
    Env.val, fetchOpaqueWith, List.lookup, h1]
  rcases ev' { memo := s.memo, ip := (g.gene s.ip).locusOfArg i,
               ok := s.ok && decide (g.inB s.ip) && decide (i < (g.gene s.ip).args.length) } with ⟨_ | v, s'⟩ <;>
    simp [toOut]

theorem gen_fetch_arg_eq (g : Genome F) (src : Bool) (e : Option (List (Val F)))
    (ev : Locus → XS F → Out F × XS F) (ev' : St F → Option (Val F) × St F)
    (hev : ∀ s, ev s.ip (s, e) = toOut (ev' s) e) (i : Nat) (s : St F) :
    exec g (ext (ext (cConst g src) .eval fun l _ x => ev l x) .fetchOpaqueArg fun _ i x =>
        exec g (ext (cConst g src) .eval fun l _ x => ev l x) GenInterp.fetch_opaque_arg { iarg := i } x)
      GenInterp.fetch_arg { iarg := i } (s, e) =
      toOut (fetchArgWith g ev' i s) e := by
  simp [GenInterp.fetch_arg, exec, mkCtx, LocE.eval, GeneE.eval, IdxE.eval, ext, setOk, setMemo, Env.loc,
    Env.val, fetchArgWith, List.lookup, gen_fetch_opaque_arg_eq g src e ev ev' hev]
  simp only [Bool.and_assoc]
  split
  · simp [toOut]
  · generalize fetchOpaqueWith g ev' i _ = r
    rcases r with ⟨_ | v, s'⟩ <;> simp [toOut]
    funext l
    by_cases hl : l = (g.gene s.ip).locusOfArg i <;> simp [hl]

/-- the example `fetch_var` reads: `example_` for a `src_interpreter`, nothing for the base class -/
def exOf (src : Bool) (e : Option (List (Val F))) : List (Val F) :=
  if src then e.getD [] else []

theorem gen_fetch_var_eq (g : Genome F) (src : Bool) (ev : Locus → XS F → Out F × XS F) (i : Nat) (x : XS F) :
    outValD (cArg g src ev .fetchVar ⟨0, 0⟩ i x) = varOf (exOf src x.2) i := by
  rcases x with ⟨s, e⟩
  cases src <;> cases e <;>
    simp [cArg, cConst, ext, exec, mkCtx, IdxE.eval, GenInterp.src_fetch_var, GenInterp.params_fetch_var,
      exOf, varOf, setOk, outValD]

theorem gen_fetch_param_eq (g : Genome F) (src : Bool) (ev : Locus → XS F → Out F × XS F) (x : XS F) :
    outPar (g.gene x.1.ip).par (cArg g src ev .fetchParam ⟨0, 0⟩ 0 x) = (g.gene x.1.ip).par := by
  simp [cArg, cConst, ext, exec, mkCtx, LocE.eval, GeneE.eval, GenInterp.fetch_param, Env.loc, outPar]

theorem gen_eval_eq (g : Genome F) (src : Bool) (e : Option (List (Val F))) :
    ∀ f (s : St F), evalG g src f s.ip (s, e) = toOut (evalAt g (exOf src e) f s) e := by
  intro f
  induction f with
  | zero => intro s; simp [evalG, evalAt, toOut, setOk]
  | succ f ih =>
    intro s
    have hfa : (fun i (s : St F) =>
        let o := outVal (exec g (cArg g src (evalG g src f)) GenInterp.params_subscript { iarg := i } (s, e))
        (o.1, o.2.1)) = fetchArgWith g (evalAt g (exOf src e) f) := by
      funext i s
      have := gen_fetch_arg_eq g src e (evalG g src f) (evalAt g (exOf src e) f) ih i s
      simp [GenInterp.params_subscript, exec, mkCtx, LocE.eval, IdxE.eval, cArg, ext, setOk] at this ⊢
      rw [this]
      rcases fetchArgWith g (evalAt g (exOf src e) f) i s with ⟨_ | v, s'⟩ <;> simp [toOut, outVal]
    have hfp : (fun (s : St F) => outPar (g.gene s.ip).par
        (cArg g src (evalG g src f) .fetchParam ⟨0, 0⟩ 0 (s, e))) = fun s => (g.gene s.ip).par := by
      funext s; exact gen_fetch_param_eq g src _ (s, e)
    have hfv : (fun i => outValD (cArg g src (evalG g src f) .fetchVar ⟨0, 0⟩ i (s, e))) =
        varOf (exOf src e) := by
      funext i; exact gen_fetch_var_eq g src _ i (s, e)
    simp only [evalG, evalAt]
    rw [hfa, hfp, hfv]

theorem gen_run_locus_eq (g : Genome F) (src : Bool) (e : Option (List (Val F))) (l : Locus) (s : St F) :
    runLocusG g src l (s, e) = toOut (runLocus g (exOf src e) l s) e := by
  have h := gen_eval_eq g src e g.rows { memo := fun m => (false, (s.memo m).2), ip := l, ok := s.ok }
  simp only [] at h
  simp [runLocusG, GenInterp.run_locus, exec, mkCtx, LocE.eval, IdxE.eval, cTop, cArg, ext, setOk, setMemo,
    runLocus, h]

theorem gen_core_run_eq (g : Genome F) (src : Bool) (e : Option (List (Val F))) (s : St F) :
    coreRunG g src (s, e) = toOut (run g (exOf src e) s) e := by
  have h := gen_run_locus_eq g src e g.best s
  simp [coreRunG, GenInterp.core_run, runNviG, GenInterp.run_nvi, exec, mkCtx, LocE.eval, IdxE.eval, cRunNvi,
    cRunLocus, ext, setOk, run, h]

theorem gen_src_run_eq (g : Genome F) (ex : List (Val F)) (e : Option (List (Val F))) (s : St F) :
    srcRunG g true ex (s, e) = toOut (run g ex s) (some ex) := by
  have h := gen_core_run_eq g true (some ex) s
  simp [srcRunG, GenInterp.src_run, exec, mkCtx, LocE.eval, IdxE.eval, cRun, ext, setOk, h, exOf]

/-- `src_interpreter::run(ex)` as extracted = the hand-written model's `run` -/
theorem runG_eq (g : Genome F) (ex : List (Val F)) (x : XS F) :
    runG g ex x = ((run g ex x.1).1, ((run g ex x.1).2, some ex)) := by
  rcases x with ⟨s, e⟩
  simp only [runG, gen_src_run_eq]
  rcases run g ex s with ⟨_ | v, s'⟩ <;> simp [toOut, outVal]

/-- `interpreter<i_mep>::run()` as extracted = the hand-written model's `run` on the empty example -/
theorem run0G_eq (g : Genome F) (x : XS F) :
    run0G g x = ((run g [] x.1).1, ((run g [] x.1).2, x.2)) := by
  rcases x with ⟨s, e⟩
  simp only [run0G, gen_core_run_eq]
  rcases h : run g (exOf false e) s with ⟨_ | v, s'⟩ <;> simp [exOf] at h <;> simp [toOut, outVal, h]

/-! ### penalty -/

/-- `comparison_function_penalty` on the argument indices of a gene -/
def cmpPen (args : List Nat) : Nat :=
  (if args.getD 0 0 = args.getD 1 0 then 1 else 0) + (if args.getD 2 0 = args.getD 3 0 then 1 else 0)

/-- reference: the penalty of a program is the penalty of the symbol at its start locus -/
def penDenote (g : Genome F) (pen : Locus → Bool) : Nat :=
  if pen g.best then cmpPen (g.gene g.best).args else 0

theorem gen_penalty_eq (g : Genome F) (src : Bool) (pen : Locus → Bool) (s : St F) (e : Option (List (Val F))) :
    penaltyG g src pen (s, e) =
      (some (penDenote g pen),
       ({ s with ip := g.best,
                 ok := s.ok && decide (g.inB g.best) &&
                       (!pen g.best || decide (4 ≤ (g.gene g.best).args.length)) }, e)) := by
  by_cases hp : pen g.best = true
  · simp [penaltyG, corePenaltyG, penaltyNviG, penaltyLocusG, symPenaltyG, symPenaltyNviG, cmpPenaltyG,
      GenInterp.core_penalty, GenInterp.penalty_nvi, GenInterp.penalty_locus, GenInterp.symbol_penalty,
      GenInterp.penalty_override, GenInterp.comparison_function_penalty, GenInterp.fetch_index,
      exec, mkCtx, LocE.eval, GeneE.eval, IdxE.eval, ext, cConst, setOk, Env.loc, Env.idx, List.lookup, hp,
      penDenote, cmpPen]
    by_cases h4 : 4 ≤ (g.gene g.best).args.length
    · have h0 : 0 < (g.gene g.best).args.length := by omega
      have h1 : 1 < (g.gene g.best).args.length := by omega
      have h2 : 2 < (g.gene g.best).args.length := by omega
      have h3 : 3 < (g.gene g.best).args.length := by omega
      simp [h0, h1, h2, h3, h4]
    · have h3 : ¬ 3 < (g.gene g.best).args.length := by omega
      simp [h3, h4]
  · simp [penaltyG, corePenaltyG, penaltyNviG, penaltyLocusG, symPenaltyG, symPenaltyNviG,
      GenInterp.core_penalty, GenInterp.penalty_nvi, GenInterp.penalty_locus, GenInterp.symbol_penalty,
      GenInterp.symbol_penalty_nvi, exec, mkCtx, LocE.eval, GeneE.eval, IdxE.eval, ext, cConst, setOk, hp,
      penDenote]

end Vita.C01
