/-
  C01 line-protocol driver (model `Vita.C01` executed on hardware `Float`).

    prog R C BI BC ; i c desc par n a0 c0 … ; …     load a program (R×C genes; genes not listed are
                                                    empty terminals), new interpreter object
          desc = F:<symbol name> (looked up in `Vita.C01.table`) | X:<k> variable | K:<value> constant
          par  = 16 hex digits (the gene's parameter), n = number of arguments, (a_j, c_j) = locus of argument j
        -> ok wf=<0|1> size=<nodes of the expression tree, capped> reach=<distinct active loci>
    new                                             a freshly constructed interpreter object   -> ok
    stale                                           (model only) fill the object with rubbish: every memo
                                                    entry valid with a wrong value, ip elsewhere -> ok
    run v0 v1 …                                     src_interpreter::run(example) on the current object
        -> <model interpreter> <denote | skip> ok=<0|1>
  anything else -> bad-op
-/
import Vita.C01.Model
import Vita.C01.Prims
import Vita.C13.Wire
open Vita Vita.C01 Vita.Wire

structure DState where
  g : Genome Float
  st : St Float
  size : Nat

def emptyGene : Gene Float := ⟨constP .void, 0.0, [], []⟩

def emptyGenome : Genome Float := ⟨0, 0, fun _ => emptyGene, ⟨0, 0⟩⟩

def splitOnSemi (ts : List String) : List (List String) :=
  let rec go (ts : List String) (cur : List String) (acc : List (List String)) : List (List String) :=
    match ts with
    | [] => (cur.reverse :: acc).reverse
    | ";" :: r => go r [] (cur.reverse :: acc)
    | t :: r => go r (t :: cur) acc
  go ts [] []

def pairs : List Nat → Option (List (Nat × Nat))
  | [] => some []
  | [_] => none
  | a :: c :: r => (pairs r).map fun t => (a, c) :: t

def decodeBody (desc : String) (nargs : Nat) : Option (Prog Float (Val Float)) :=
  match desc.toList with
  | 'F' :: ':' :: r =>
    let name := String.ofList r
    match (table (F := Float)).find? (fun e => e.name == name) with
    | some e => if e.arity == nargs then some e.body else none
    | none => none
  | 'X' :: ':' :: r => if nargs == 0 then (String.ofList r).toNat?.map varP else none
  | 'K' :: ':' :: r => if nargs == 0 then (decodeVal? (String.ofList r)).map constP else none
  | _ => none

def decodeGene (ts : List String) : Option (Nat × Nat × Gene Float) :=
  match ts with
  | i :: c :: desc :: par :: n :: rest =>
    match i.toNat?, c.toNat?, hexNat? par, n.toNat?, rest.mapM String.toNat? with
    | some i, some c, some p, some n, some xs =>
      match pairs xs, decodeBody desc n with
      | some ps, some body =>
        if ps.length == n then
          some (i, c, ⟨body, Float.ofBits (UInt64.ofNat p), ps.map (·.1), ps.map (·.2)⟩)
        else none
      | _, _ => none
    | _, _, _, _, _ => none
  | _ => none

/-- number of nodes of the expression tree rooted at each locus (capped), bottom-up -/
def treeSizes (rows cats : Nat) (gene : Locus → Gene Float) (cap : Nat) : Array (Array Nat) := Id.run do
  let mut t : Array (Array Nat) := Array.replicate rows (Array.replicate cats 1)
  for k in [0:rows] do
    let i := rows - 1 - k
    for c in [0:cats] do
      let gn := gene ⟨i, c⟩
      let mut s := 1
      for j in [0:gn.args.length] do
        let a := gn.locusOfArg j
        s := s + ((t.getD a.index #[]).getD a.cat cap)
      t := t.set! i ((t.getD i #[]).set! c (min s cap))
  return t

def cap : Nat := 300000

/-- number of distinct loci reachable from the start locus (the active code) -/
def reachCount (g : Genome Float) : Nat := Id.run do
  let mut seen : Array (Array Bool) := Array.replicate g.rows (Array.replicate g.cats false)
  if g.best.index < g.rows && g.best.cat < g.cats then
    seen := seen.set! g.best.index ((seen.getD g.best.index #[]).set! g.best.cat true)
  let mut n := 0
  for i in [0:g.rows] do
    for c in [0:g.cats] do
      if (seen.getD i #[]).getD c false then
        n := n + 1
        let gn := g.gene ⟨i, c⟩
        for j in [0:gn.args.length] do
          let a := gn.locusOfArg j
          if a.index < g.rows && a.cat < g.cats then
            seen := seen.set! a.index ((seen.getD a.index #[]).set! a.cat true)
  return n

def loadProg (ts : List String) : Option DState :=
  match splitOnSemi ts with
  | [r, c, bi, bc] :: genes =>
    match r.toNat?, c.toNat?, bi.toNat?, bc.toNat?, (genes.filter (· ≠ [])).mapM decodeGene with
    | some r, some c, some bi, some bc, some gs =>
      let base : Array (Array (Gene Float)) := Array.replicate r (Array.replicate c emptyGene)
      let arr := gs.foldl (fun (m : Array (Array (Gene Float))) (t : Nat × Nat × Gene Float) =>
        m.set! t.1 ((m.getD t.1 #[]).set! t.2.1 t.2.2)) base
      let gene : Locus → Gene Float := fun l => (arr.getD l.index #[]).getD l.cat emptyGene
      let g : Genome Float := ⟨r, c, gene, ⟨bi, bc⟩⟩
      let sz := ((treeSizes r c gene cap).getD bi #[]).getD bc cap
      some ⟨g, St.init g, sz⟩
    | _, _, _, _, _ => none
  | _ => none

def staleOf (g : Genome Float) : St Float :=
  ⟨fun l => (true, .int (1000 + l.index)), ⟨g.rows - 1, 0⟩, true⟩

def step (d : DState) (line : String) : DState × String :=
  match (line.trimAscii.toString.splitOn " ").filter (· ≠ "") with
  | "prog" :: ts =>
    match loadProg ts with
    | some d' =>
      let wf := wfStruct d'.g && decide (d'.g.inB d'.g.best)
      (d', s!"ok wf={if wf then 1 else 0} size={d'.size} reach={reachCount d'.g}")
    | none => (d, "bad-op")
  | ["new"] => ({ d with st := St.init d.g }, "ok")
  | ["stale"] => ({ d with st := staleOf d.g }, "ok")
  | "run" :: vs =>
    match vs.mapM decodeVal? with
    | some ex =>
      let r := run d.g ex d.st
      let den := if d.size < cap then encodeOut (denote d.g ex d.g.best) else "skip"
      ({ d with st := r.2 }, s!"{encodeOut r.1} {den} ok={if r.2.ok then 1 else 0}")
    | none => (d, "bad-op")
  | _ => (d, "bad-op")

partial def loop (h : IO.FS.Stream) (out : IO.FS.Stream) (d : DState) : IO Unit := do
  let line ← h.getLine
  if line.isEmpty then return ()
  let (d', a) := step d line
  out.putStrLn a
  loop h out d'

def main : IO Unit := do
  loop (← IO.getStdin) (← IO.getStdout) ⟨emptyGenome, St.init emptyGenome, 0⟩
