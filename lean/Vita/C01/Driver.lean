/-
  C01 line-protocol driver: the interpreter made of the member functions EXTRACTED from the current
  sources (Vita/C01/GenInterp.lean run by the semantics of Lang.lean, wiring in ModelG.lean), executed on
  hardware `Float`; `denote` is the reference semantics.

    prog R C BI BC ; i c desc par n a0 c0 … ; …     load a program (R×C genes; genes not listed are
                                                    empty terminals), new interpreter object
          desc = F:<symbol name> (looked up in `Vita.C01.table`) | X:<k> variable | K:<value> constant
          par  = 16 hex digits (the gene's parameter), n = number of arguments, (a_j, c_j) = locus of argument j
        -> ok wf=<0|1> size=<nodes of the expression tree, capped> reach=<distinct active loci>
    reprog R C BI BC ; …                            another program of the same shape behind the SAME interpreter
                                                    object (the individual the object points to was assigned to):
                                                    the object's memo / ip_ / example_ are kept
        -> ok wf=… size=… reach=…
    new                                             a freshly constructed interpreter object   -> ok
    stale                                           (model only) fill the object with rubbish: every memo
                                                    entry valid with a wrong value, ip elsewhere -> ok
    run v0 v1 …                                     src_interpreter::run(example) on the current object
        -> <model interpreter> <denote | skip> ok=<0|1>
    run0                                            interpreter<i_mep>::run() (no example; base-class fetch_var)
        -> <model interpreter> <denote on the empty example | skip> ok=<0|1>
    pen                                             penalty() on the current object
        -> <penalty | T> <reference: penalty of the start gene> ok=<0|1>
    rep n v0 v1 …                                   the same example n times in a row on the current object
        -> <model interpreter, last run> <denote | skip> ok=<0|1> same=<1 iff all n answers are equal>
    an example may be written sparsely:  @<size> <default> <index>:<value> …

  After every run the driver re-tabulates the memo of the state over the rows×cats loci of the genome
  (a representation change only: the model's memo is a function and would otherwise grow a closure per
  run; entries inside the matrix are preserved exactly, and under `WF` the interpreter never reads any
  other – theorem `in_bounds`).
  anything else -> bad-op
-/
import Vita.C01.Model
import Vita.C01.ModelG
import Vita.C01.Prims
import Vita.C13.Wire
open Vita Vita.C01 Vita.C01.Lang Vita.Wire

structure DState where
  g : Genome Float
  pen : Locus → Bool          -- the symbol at a locus overrides `penalty_nvi` (GenInterp.shipped)
  st : XS Float
  size : Nat

def emptyGene : Gene Float := ⟨constP .void, 0.0, [], []⟩

def emptyGenome : Genome Float := ⟨0, 0, fun _ => emptyGene, ⟨0, 0⟩⟩

def splitOnSemi (ts : List String) : List (List String) :=
  let rec go (ts : List String) (cur : List String) (acc : List (List String)) : List (List String) :=
    match ts with
    | [] => (cur.reverse :: acc).reverse
    | ";" :: r => go r [] (cur.reverse :: acc)
    | t :: r => go r (t :: cur) acc
  go ts [] []

def pairs : List Nat → Option (List (Nat × Nat))
  | [] => some []
  | [_] => none
  | a :: c :: r => (pairs r).map fun t => (a, c) :: t

/-- body and "overrides penalty_nvi" of a symbol -/
def decodeBody (desc : String) (nargs : Nat) : Option (Prog Float (Val Float) × Bool) :=
  match desc.toList with
  | 'F' :: ':' :: r =>
    let name := String.ofList r
    match (table (F := Float)).find? (fun e => e.name == name) with
    | some e =>
      if e.arity == nargs then
        some (e.body, GenInterp.shipped.any fun s => s.2.1 == name && s.2.2.1 == nargs && s.2.2.2)
      else none
    | none => none
  | 'X' :: ':' :: r => if nargs == 0 then (String.ofList r).toNat?.map fun k => (varP k, false) else none
  | 'K' :: ':' :: r => if nargs == 0 then (decodeVal? (String.ofList r)).map fun v => (constP v, false) else none
  | _ => none

def decodeGene (ts : List String) : Option (Nat × Nat × Gene Float × Bool) :=
  match ts with
  | i :: c :: desc :: par :: n :: rest =>
    match i.toNat?, c.toNat?, hexNat? par, n.toNat?, rest.mapM String.toNat? with
    | some i, some c, some p, some n, some xs =>
      match pairs xs, decodeBody desc n with
      | some ps, some (body, pen) =>
        if ps.length == n then
          some (i, c, ⟨body, Float.ofBits (UInt64.ofNat p), ps.map (·.1), ps.map (·.2)⟩, pen)
        else none
      | _, _ => none
    | _, _, _, _, _ => none
  | _ => none

/-- number of nodes of the expression tree rooted at each locus (capped), bottom-up -/
def treeSizes (rows cats : Nat) (gene : Locus → Gene Float) (cap : Nat) : Array (Array Nat) := Id.run do
  let mut t : Array (Array Nat) := Array.replicate rows (Array.replicate cats 1)
  for k in [0:rows] do
    let i := rows - 1 - k
    for c in [0:cats] do
      let gn := gene ⟨i, c⟩
      let mut s := 1
      for j in [0:gn.args.length] do
        let a := gn.locusOfArg j
        s := s + ((t.getD a.index #[]).getD a.cat cap)
      t := t.set! i ((t.getD i #[]).set! c (min s cap))
  return t

def cap : Nat := 300000

/-- number of distinct loci reachable from the start locus (the active code) -/
def reachCount (g : Genome Float) : Nat := Id.run do
  let mut seen : Array (Array Bool) := Array.replicate g.rows (Array.replicate g.cats false)
  if g.best.index < g.rows && g.best.cat < g.cats then
    seen := seen.set! g.best.index ((seen.getD g.best.index #[]).set! g.best.cat true)
  let mut n := 0
  for i in [0:g.rows] do
    for c in [0:g.cats] do
      if (seen.getD i #[]).getD c false then
        n := n + 1
        let gn := g.gene ⟨i, c⟩
        for j in [0:gn.args.length] do
          let a := gn.locusOfArg j
          if a.index < g.rows && a.cat < g.cats then
            seen := seen.set! a.index ((seen.getD a.index #[]).set! a.cat true)
  return n

def loadProg (ts : List String) : Option DState :=
  match splitOnSemi ts with
  | [r, c, bi, bc] :: genes =>
    match r.toNat?, c.toNat?, bi.toNat?, bc.toNat?, (genes.filter (· ≠ [])).mapM decodeGene with
    | some r, some c, some bi, some bc, some gs =>
      let base : Array (Array (Gene Float × Bool)) := Array.replicate r (Array.replicate c (emptyGene, false))
      let arr := gs.foldl (fun (m : Array (Array (Gene Float × Bool))) (t : Nat × Nat × Gene Float × Bool) =>
        m.set! t.1 ((m.getD t.1 #[]).set! t.2.1 t.2.2)) base
      let gene : Locus → Gene Float := fun l => ((arr.getD l.index #[]).getD l.cat (emptyGene, false)).1
      let pen : Locus → Bool := fun l => ((arr.getD l.index #[]).getD l.cat (emptyGene, false)).2
      let g : Genome Float := ⟨r, c, gene, ⟨bi, bc⟩⟩
      let sz := ((treeSizes r c gene cap).getD bi #[]).getD bc cap
      some ⟨g, pen, XS.init g, sz⟩
    | _, _, _, _, _ => none
  | _ => none

/-- the example of a `run` / `rep` line (dense, or sparse `@n default i:v …`) -/
def decodeExample (vs : List String) : Option (List (Val Float)) :=
  match vs with
  | hd :: dflt :: rest =>
    match hd.toList with
    | '@' :: n =>
      match (String.ofList n).toNat?, decodeVal? dflt with
      | some n, some d =>
        rest.foldlM (fun (acc : Array (Val Float)) (t : String) =>
          match t.splitOn ":" with
          | [i, v] =>
            match i.toNat?, decodeVal? v with
            | some i, some v => if i < acc.size then some (acc.set! i v) else none
            | _, _ => none
          | _ => none) (Array.replicate n d) |>.map Array.toList
      | _, _ => none
    | _ => vs.mapM decodeVal?
  | _ => vs.mapM decodeVal?

/-- same state, memo stored as a table over the loci of the genome -/
def tabulate (g : Genome Float) (x : XS Float) : XS Float :=
  let s := x.1
  let tbl : Array (Array (Bool × Val Float)) :=
    (Array.range g.rows).map fun i => (Array.range g.cats).map fun c => s.memo ⟨i, c⟩
  ({ s with memo := fun l => (tbl.getD l.index #[]).getD l.cat (false, .void) }, x.2)

def staleOf (g : Genome Float) : XS Float :=
  (⟨fun l => (true, .int (1000 + l.index)), ⟨g.rows - 1, 0⟩, true⟩, some [.str "stale", .int 77])

def okStr (x : XS Float) : String := if x.1.ok then "ok=1" else "ok=0"

/-- reference: the four-term comparison penalty of the start gene if its symbol has one, else 0 -/
def penDenoteD (d : DState) : Nat :=
  let gn := d.g.gene d.g.best
  if d.pen d.g.best then
    (if gn.args.getD 0 0 == gn.args.getD 1 0 then 1 else 0) + (if gn.args.getD 2 0 == gn.args.getD 3 0 then 1 else 0)
  else 0

def step (d : DState) (line : String) : DState × String :=
  match (line.trimAscii.toString.splitOn " ").filter (· ≠ "") with
  | "prog" :: ts =>
    match loadProg ts with
    | some d' =>
      let wf := wfStruct d'.g && decide (d'.g.inB d'.g.best)
      (d', s!"ok wf={if wf then 1 else 0} size={d'.size} reach={reachCount d'.g}")
    | none => (d, "bad-op")
  | "reprog" :: ts =>
    match loadProg ts with
    | some d' =>
      if d'.g.rows == d.g.rows && d'.g.cats == d.g.cats then
        let wf := wfStruct d'.g && decide (d'.g.inB d'.g.best)
        ({ d' with st := d.st }, s!"ok wf={if wf then 1 else 0} size={d'.size} reach={reachCount d'.g}")
      else (d, "bad-op")
    | none => (d, "bad-op")
  | ["new"] => ({ d with st := XS.init d.g }, "ok")
  | ["stale"] => ({ d with st := staleOf d.g }, "ok")
  | ["run0"] =>
    let r := run0G d.g d.st
    let den := if d.size < cap then encodeOut (denote d.g [] d.g.best) else "skip"
    ({ d with st := tabulate d.g r.2 }, s!"{encodeOut r.1} {den} {okStr r.2}")
  | ["pen"] =>
    let r := penaltyG d.g true d.pen d.st
    let o := match r.1 with
      | some n => toString n
      | none => "T"
    ({ d with st := r.2 }, s!"{o} {penDenoteD d} {okStr r.2}")
  | "run" :: vs =>
    match decodeExample vs with
    | some ex =>
      let r := runG d.g ex d.st
      let den := if d.size < cap then encodeOut (denote d.g ex d.g.best) else "skip"
      ({ d with st := tabulate d.g r.2 }, s!"{encodeOut r.1} {den} {okStr r.2}")
    | none => (d, "bad-op")
  | "rep" :: n :: vs =>
    match n.toNat?, decodeExample vs with
    | some n, some ex =>
      if n == 0 then (d, "bad-op") else
      let den := if d.size < cap then encodeOut (denote d.g ex d.g.best) else "skip"
      let (st, last, same) := (List.range n).foldl
        (fun (acc : XS Float × String × Bool) _ =>
          let r := runG d.g ex acc.1
          let o := encodeOut r.1
          (tabulate d.g r.2, o, acc.2.2 && (acc.2.1 == "" || acc.2.1 == o)))
        (d.st, "", true)
      ({ d with st := st }, s!"{last} {den} {okStr st} same={if same then 1 else 0}")
    | _, _ => (d, "bad-op")
  | _ => (d, "bad-op")

partial def loop (h : IO.FS.Stream) (out : IO.FS.Stream) (d : DState) : IO Unit := do
  let line ← h.getLine
  if line.isEmpty then return ()
  let (d', a) := step d line
  out.putStrLn a
  loop h out d'

def main : IO Unit := do
  loop (← IO.getStdin) (← IO.getStdout) ⟨emptyGenome, fun _ => false, XS.init emptyGenome, 0⟩
