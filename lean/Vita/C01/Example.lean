/-
  C01 — a concrete two-category DAG genome (over the toy number model of C13) used for the
  non-vacuity examples in Props.lean:

      [0,1] FIFL [1,0] [2,0] [2,1] [3,1]     start locus, category 1
      [1,0] X0                               variable 0
      [2,0] FADD [3,0] [3,0]                 uses the gene [3,0] twice
      [2,1] FMUL [3,1] [3,1]                 "then" branch
      [3,0] X1                               variable 1
      [3,1] 2                                constant; reached directly (lazy "else" branch of
                                             FIFL) AND through [2,1] (its "then" branch)
  ([0,0] and [1,1] are introns.)
-/
import Vita.C01.Model
import Vita.C01.Prims
import Vita.C13.Model

namespace Vita.C01
open Vita Vita.C13

def leaf (b : Prog Toy (Val Toy)) : Gene Toy := ⟨b, none, [], []⟩

def exampleG : Genome Toy where
  rows := 4
  cats := 2
  best := ⟨0, 1⟩
  gene l :=
    match l.index, l.cat with
    | 0, 1 => ⟨C13.Gen.iflP, none, [1, 2, 2, 3], [0, 0, 1, 1]⟩
    | 1, 0 => leaf (varP 0)
    | 2, 0 => ⟨C13.Gen.addP, none, [3, 3], [0, 0]⟩
    | 2, 1 => ⟨C13.Gen.mulP, none, [3, 3], [1, 1]⟩
    | 3, 0 => leaf (varP 1)
    | 3, 1 => leaf (constP (.dbl (some 2)))
    | _, _ => leaf (constP .void)

/-- the same expression laid out differently: 5 rows, the constant duplicated, other introns -/
def exampleG' : Genome Toy where
  rows := 5
  cats := 2
  best := ⟨0, 1⟩
  gene l :=
    match l.index, l.cat with
    | 0, 1 => ⟨C13.Gen.iflP, none, [2, 1, 1, 4], [0, 0, 1, 1]⟩
    | 2, 0 => leaf (varP 0)
    | 1, 0 => ⟨C13.Gen.addP, none, [3, 3], [0, 0]⟩
    | 1, 1 => ⟨C13.Gen.mulP, none, [3, 4], [1, 1]⟩
    | 3, 0 => leaf (varP 1)
    | 3, 1 => leaf (constP (.dbl (some 2)))
    | 4, 1 => leaf (constP (.dbl (some 2)))
    | 0, 0 => ⟨C13.Gen.subP, none, [1, 2], [0, 0]⟩
    | _, _ => leaf (constP (.dbl (some 7)))

/-- a state full of stale rubbish: every memo entry "valid" with a wrong value, wrong `ip_` -/
def staleSt : St Toy := ⟨fun _ => (true, .dbl (some 99)), ⟨3, 0⟩, true⟩

end Vita.C01
