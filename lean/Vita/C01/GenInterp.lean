-- GENERATED placeholder (hand-written first version; tools/translate_interp.py overwrites it)
import Vita.C01.Lang
namespace Vita.C01.GenInterp
open Vita.C01.Lang

def run_locus : Code :=
  .invalidateAll <|
  .setIp .arg <|
  .tail .eval .ip (.lit 0)

def run_nvi : Code :=
  .tail .runLocus .best (.lit 0)

def fetch_param : Code :=
  .letGene 0 .ip <|
  .retPar (.ref 0)

def fetch_arg : Code :=
  .letGene 0 .ip <|
  .letElem 1 (.argOf (.ref 0) .arg) <|
  .ifValid 1
    (.retElem 1)
    (.call 0 .fetchOpaqueArg .ip .arg <|
     .setValue 1 0 <|
     .setValid 1 true <|
     .retElem 1)

def fetch_opaque_arg : Code :=
  .letGene 0 .ip <|
  .letLoc 1 .ip <|
  .setIp (.argOf (.ref 0) .arg) <|
  .call 0 .eval .ip (.lit 0) <|
  .setIp (.var 1) <|
  .retVal 0

def fetch_index : Code :=
  .letGene 0 .ip <|
  .retIdx (.argsAt (.ref 0) .arg)

def penalty_locus : Code :=
  .setIp .arg <|
  .tail .symPenalty .ip (.lit 0)

def penalty_nvi : Code :=
  .tail .penaltyLocus .best (.lit 0)

def core_run : Code := .tail .runNvi .ip (.lit 0)
def core_penalty : Code := .tail .penaltyNvi .ip (.lit 0)
def params_subscript : Code := .tail .fetchArg .ip .arg
def params_fetch_var : Code := .retVoid
def src_run : Code := .setExample <| .tail .run .ip (.lit 0)
def src_fetch_var : Code := .retExample .arg
def symbol_penalty : Code := .tail .symPenaltyNvi .arg (.lit 0)
def symbol_penalty_nvi : Code := .retIdx (.lit 0)
def comparison_function_penalty : Code :=
  .letIdx 0 (.fetchIndex (.lit 0)) <|
  .letIdx 1 (.fetchIndex (.lit 1)) <|
  .letIdx 2 (.fetchIndex (.lit 2)) <|
  .letIdx 3 (.fetchIndex (.lit 3)) <|
  .retIdx (.add (.eqb (.var 0) (.var 1)) (.eqb (.var 2) (.var 3)))
def penalty_override : Code := .tail .cmpPenalty .arg (.lit 0)
def penaltyOverrides : List String := ["FIFE", "FIFL", "IFE", "IFL", "IFZ"]
def locus_of_argument : SelfE × SelfE := (.args, .argCat)

end Vita.C01.GenInterp
