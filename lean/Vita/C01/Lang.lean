/-
  C01 — the statement language the member functions of the interpreters are EXTRACTED into
  (tools/translate_interp.py -> Vita/C01/GenInterp.lean) and its semantics, written once.

  The language is exactly as large as interpreter.cc / core_interpreter.h / gp/src/interpreter.tcc
  need: locus / gene / index expressions, locals, assignment to `ip_`, the memo (`cache_`) read,
  written and swept, calls of other member functions (through a table of call-backs, so that virtual
  dispatch and recursion are resolved by the model, not by the language), `if (elem.valid)`, `return`.
  Sequencing is by continuation (`k`): an `if` carries the whole rest of the function in both branches,
  so early returns need no extra machinery.  An exception (`Out.exc`) leaves the function at once –
  nothing after the call is executed (the C++ has no RAII object there).

  Ghost flag `ok` (see Model.lean): cleared by `(*prg_)[l]` / `cache_(l)` with `l` outside the genome
  matrix and by `args[i]` / `locus_of_argument(i)` with `i` beyond the arity of the gene.
-/
import Vita.C01.Model

namespace Vita.C01.Lang
open Vita Vita.C01

/-- the functions a body may call (virtual functions are named by their slot) -/
inductive Fn where
  | eval            -- `(*prg_)[l].sym->eval(*this)`
  | symPenalty      -- `(*prg_)[l].sym->penalty(this)`
  | symPenaltyNvi   -- `symbol::penalty_nvi(ci)` (virtual), `this` = the symbol of the gene at `l`
  | cmpPenalty      -- `comparison_function_penalty(ci)`
  | fetchArg | fetchOpaqueArg | fetchIndex | fetchParam | fetchVar
  | runLocus | runNvi | run
  | penaltyLocus | penaltyNvi | penalty
  deriving DecidableEq, Repr

mutual
/-- locus-valued expressions -/
inductive LocE where
  | ip                              -- `ip_`
  | arg                             -- the function's `const locus &` parameter / the gene `this` belongs to
  | best                            -- `prg_->best()`
  | var (n : Nat)                   -- a local of type `locus`
  | argOf (g : GeneE) (i : IdxE)    -- `g.locus_of_argument(i)`
  | mk (ix : IdxE) (c : IdxE)       -- `locus{ix, c}` / the two-argument `cache_(ix, c)`
/-- references to genes -/
inductive GeneE where
  | at (l : LocE)                   -- `(*prg_)[l]`
  | ref (n : Nat)                   -- a local `const gene &g(…)`
/-- unsigned integers -/
inductive IdxE where
  | arg                             -- the function's `unsigned` parameter
  | lit (n : Nat)
  | var (n : Nat)                   -- a local integer
  | argsAt (g : GeneE) (i : IdxE)   -- `g.args[i]`
  | indexOf (l : LocE)              -- `l.index`
  | catOf (l : LocE)                -- `l.category`
  | fetchIndex (i : IdxE)           -- `this->fetch_index(i)`
  | eqb (a b : IdxE)                -- `(a == b)` as 0 / 1
  | add (a b : IdxE)
end

inductive Code where
  | letLoc (n : Nat) (e : LocE) (k : Code)        -- `const locus n(e);`
  | letGene (n : Nat) (e : LocE) (k : Code)       -- `const gene &n((*prg_)[e]);`
  | letElem (n : Nat) (e : LocE) (k : Code)       -- `auto &n(cache_(e));`
  | letIdx (n : Nat) (e : IdxE) (k : Code)        -- `const auto n(e);`
  | setIp (e : LocE) (k : Code)                   -- `ip_ = e;`
  | invalidateAll (k : Code)                      -- `for (auto &e : cache_) e.valid = false;`
  | setValid (elem : Nat) (b : Bool) (k : Code)   -- `elem.valid = b;`
  | setValue (elem : Nat) (v : Nat) (k : Code)    -- `elem.value = v;`
  | setExample (k : Code)                         -- `example_ = &ex;`
  | call (dst : Nat) (f : Fn) (l : LocE) (i : IdxE) (k : Code)   -- `const auto dst(f(…));`
  | tail (f : Fn) (l : LocE) (i : IdxE)           -- `return f(…);`
  | ifValid (elem : Nat) (t e : Code)             -- `if (elem.valid) t else e`
  | retVal (v : Nat)                              -- `return v;`
  | retElem (elem : Nat)                          -- `return elem.value;`
  | retVoid                                       -- `return {};`
  | retPar (g : GeneE)                            -- `return g.par;`
  | retIdx (e : IdxE)                             -- `return e;`
  | retExample (i : IdxE)                         -- `return (*example_)[i];`

variable {F : Type}

/-- parameters and locals of one activation -/
structure Env (F : Type) where
  iarg : Nat := 0
  larg : Locus := ⟨0, 0⟩
  xarg : List (Val F) := []
  locs : List (Nat × Locus) := []
  idxs : List (Nat × Nat) := []
  vals : List (Nat × Val F) := []

def Env.loc (env : Env F) (n : Nat) : Locus := (env.locs.lookup n).getD ⟨0, 0⟩
def Env.idx (env : Env F) (n : Nat) : Nat := (env.idxs.lookup n).getD 0
def Env.val (env : Env F) (n : Nat) : Val F := (env.vals.lookup n).getD .void

/-- what expressions can see -/
structure Ctx (F : Type) where
  g : Genome F
  env : Env F
  ip : Locus
  index : Nat → Nat × Bool          -- `fetch_index(i)`: value, in bounds

mutual
/-- value and "every access was in bounds" -/
def LocE.eval (cx : Ctx F) : LocE → Locus × Bool
  | .ip => (cx.ip, true)
  | .arg => (cx.env.larg, true)
  | .best => (cx.g.best, true)
  | .var n => (cx.env.loc n, true)
  | .argOf ge i =>
    let gl := ge.eval cx
    let iv := i.eval cx
    ((cx.g.gene gl.1).locusOfArg iv.1, gl.2 && iv.2 && decide (iv.1 < (cx.g.gene gl.1).args.length))
  | .mk ix c =>
    let a := ix.eval cx
    let b := c.eval cx
    (⟨a.1, b.1⟩, a.2 && b.2)
/-- the locus of the gene referred to -/
def GeneE.eval (cx : Ctx F) : GeneE → Locus × Bool
  | .at l =>
    let r := l.eval cx
    (r.1, r.2 && decide (cx.g.inB r.1))
  | .ref n => (cx.env.loc n, true)
def IdxE.eval (cx : Ctx F) : IdxE → Nat × Bool
  | .arg => (cx.env.iarg, true)
  | .lit n => (n, true)
  | .var n => (cx.env.idx n, true)
  | .argsAt ge i =>
    let gl := ge.eval cx
    let iv := i.eval cx
    ((cx.g.gene gl.1).args.getD iv.1 0, gl.2 && iv.2 && decide (iv.1 < (cx.g.gene gl.1).args.length))
  | .indexOf l => let r := l.eval cx; (r.1.index, r.2)
  | .catOf l => let r := l.eval cx; (r.1.cat, r.2)
  | .fetchIndex i =>
    let iv := i.eval cx
    let r := cx.index iv.1
    (r.1, iv.2 && r.2)
  | .eqb a b =>
    let x := a.eval cx
    let y := b.eval cx
    ((if x.1 = y.1 then 1 else 0), x.2 && y.2)
  | .add a b =>
    let x := a.eval cx
    let y := b.eval cx
    (x.1 + y.1, x.2 && y.2)
end

/-- the interpreter object: `cache_`, `ip_` (+ ghost flag) and `example_` (`none` = `nullptr`) -/
abbrev XS (F : Type) := St F × Option (List (Val F))

/-- what a function hands back -/
inductive Out (F : Type) where
  | val (v : Val F)
  | par (p : F)
  | nat (n : Nat)
  | exc                           -- an exception is propagating

abbrev Calls (F : Type) := Fn → Locus → Nat → XS F → Out F × XS F

def setOk (x : XS F) (b : Bool) : XS F := ({ x.1 with ok := x.1.ok && b }, x.2)

def setMemo (x : XS F) (m : Locus → Bool × Val F) : XS F := ({ x.1 with memo := m }, x.2)

def mkCtx (g : Genome F) (calls : Calls F) (env : Env F) (x : XS F) : Ctx F :=
  ⟨g, env, x.1.ip, fun i =>
    match calls .fetchIndex ⟨0, 0⟩ i x with
    | (.nat n, x') => (n, x'.1.ok)
    | (_, _) => (0, false)⟩

/-- the semantics of a function body -/
def exec (g : Genome F) (calls : Calls F) : Code → Env F → XS F → Out F × XS F
  | .letLoc n e k, env, x =>
    let r := e.eval (mkCtx g calls env x)
    exec g calls k { env with locs := (n, r.1) :: env.locs } (setOk x r.2)
  | .letGene n e k, env, x =>
    let r := e.eval (mkCtx g calls env x)
    exec g calls k { env with locs := (n, r.1) :: env.locs } (setOk x (r.2 && decide (g.inB r.1)))
  | .letElem n e k, env, x =>
    let r := e.eval (mkCtx g calls env x)
    exec g calls k { env with locs := (n, r.1) :: env.locs } (setOk x (r.2 && decide (g.inB r.1)))
  | .letIdx n e k, env, x =>
    let r := e.eval (mkCtx g calls env x)
    exec g calls k { env with idxs := (n, r.1) :: env.idxs } (setOk x r.2)
  | .setIp e k, env, x =>
    let r := e.eval (mkCtx g calls env x)
    exec g calls k env (setOk ({ x.1 with ip := r.1 }, x.2) r.2)
  | .invalidateAll k, env, x =>
    exec g calls k env (setMemo x fun l => (false, (x.1.memo l).2))
  | .setValid n b k, env, x =>
    exec g calls k env (setMemo x fun l => if l = env.loc n then (b, (x.1.memo l).2) else x.1.memo l)
  | .setValue n v k, env, x =>
    exec g calls k env
      (setMemo x fun l => if l = env.loc n then ((x.1.memo l).1, env.val v) else x.1.memo l)
  | .setExample k, env, x => exec g calls k env (x.1, some env.xarg)
  | .call dst f l i k, env, x =>
    let lr := l.eval (mkCtx g calls env x)
    let ir := i.eval (mkCtx g calls env x)
    match calls f lr.1 ir.1 (setOk x (lr.2 && ir.2)) with
    | (.val v, x') => exec g calls k { env with vals := (dst, v) :: env.vals } x'
    | (.exc, x') => (.exc, x')
    | (_, x') => (.exc, setOk x' false)
  | .tail f l i, env, x =>
    let lr := l.eval (mkCtx g calls env x)
    let ir := i.eval (mkCtx g calls env x)
    calls f lr.1 ir.1 (setOk x (lr.2 && ir.2))
  | .ifValid n t e, env, x =>
    if (x.1.memo (env.loc n)).1 then exec g calls t env x else exec g calls e env x
  | .retVal v, env, x => (.val (env.val v), x)
  | .retElem n, env, x => (.val (x.1.memo (env.loc n)).2, x)
  | .retVoid, _, x => (.val .void, x)
  | .retPar ge, env, x =>
    let r := ge.eval (mkCtx g calls env x)
    (.par (g.gene r.1).par, setOk x r.2)
  | .retIdx e, env, x =>
    let r := e.eval (mkCtx g calls env x)
    (.nat r.1, setOk x r.2)
  | .retExample i, env, x =>
    let r := i.eval (mkCtx g calls env x)
    match x.2 with
    | some ex => (.val (ex.getD r.1 .void), setOk x r.2)
    | none => (.val .void, setOk x false)

/-- no function may be called -/
def noCalls : Calls F := fun _ _ _ x => (.exc, setOk x false)

/-- `gene::locus_of_argument(i)` is extracted as a locus expression over `this` gene:
    a pair (index, category) of these -/
inductive SelfE where
  | args       -- `args[i]` (`i` the parameter)
  | argCat     -- `function::cast(sym)->arg_category(i)`
  deriving DecidableEq, Repr

def SelfE.eval (gn : Gene F) (i : Nat) : SelfE → Nat
  | .args => gn.args.getD i 0
  | .argCat => gn.argCats.getD i 0

end Vita.C01.Lang
