/-
  C01 — helper lemmas (the property theorems are in Props.lean).
-/
import Vita.C01.Model

namespace Vita.C01
open Vita

variable {F : Type}

/-! ### fuel of the reference semantics -/

theorem wf_arg (g : Genome F) (h : WF g) (l : Locus) (hl : g.inB l) (i : Nat)
    (hi : i < (g.gene l).args.length) :
    g.inB ((g.gene l).locusOfArg i) ∧ l.index < ((g.gene l).locusOfArg i).index := by
  have := (h.genes l hl).2.1 i hi
  simp only [Gene.locusOfArg, Genome.inB]
  omega

/-- any two sufficient amounts of fuel give the same value -/
theorem denoteF_fuel (g : Genome F) (h : WF g) (ex : List (Val F)) :
    ∀ f1 f2 l, g.inB l → g.rows - l.index ≤ f1 → g.rows - l.index ≤ f2 →
      denoteF g ex f1 l = denoteF g ex f2 l := by
  intro f1
  induction f1 with
  | zero => intro f2 l hl h1; have := hl.1; omega
  | succ f1 ih =>
    intro f2 l hl h1 h2
    cases f2 with
    | zero => have := hl.1; omega
    | succ f2 =>
      simp only [denoteF]
      apply Prog.runPure_congr_bounded _ _ _ _ _ _ (h.genes l hl).2.2
      intro i hi
      simp only [hi, if_true]
      have ha := wf_arg g h l hl i hi
      apply ih
      · exact ha.1
      · omega
      · omega

theorem denoteF_eq_denote (g : Genome F) (h : WF g) (ex : List (Val F)) (f : Nat) (l : Locus)
    (hl : g.inB l) (hf : g.rows - l.index ≤ f) : denoteF g ex f l = denote g ex l :=
  denoteF_fuel g h ex f _ l hl hf (Nat.le_refl _)

/-! ### generic specification of `runBody` -/

/-- One proof for every primitive: if the `fetch_arg` call-back returns the value `argv i` of each
    argument `i < n`, always keeps the weak invariant `W` and keeps the strong invariant `I` unless it
    raised, then executing any body that only asks for arguments `< n` returns what the reference
    semantics `runPure` returns, keeps `W`, and keeps `I` unless it raised. -/
theorem runBody_spec_gen (fa : Nat → St F → Option (Val F) × St F) (fp : St F → F) (fv : Nat → Val F)
    (argv : Nat → Option (Val F)) (par : F) (n : Nat) (I W : St F → Prop)
    (hIW : ∀ s, I s → W s)
    (hfa : ∀ i s, i < n → I s →
      (fa i s).1 = argv i ∧ W (fa i s).2 ∧ ((fa i s).1 ≠ none → I (fa i s).2))
    (hfp : ∀ s, I s → fp s = par) :
    ∀ p : Prog F (Val F), p.Bounded n → ∀ s, I s →
      (runBody fa fp fv p s).1 = p.runPure argv par fv ∧ W (runBody fa fp fv p s).2 ∧
      ((runBody fa fp fv p s).1 ≠ none → I (runBody fa fp fv p s).2) := by
  intro p
  induction p with
  | ret v => intro _ s hs; exact ⟨rfl, hIW s hs, fun _ => hs⟩
  | throw => intro _ s hs; exact ⟨rfl, hIW s hs, fun h => absurd rfl h⟩
  | fetch i k ih =>
    intro hb s hs
    have h := hfa i s hb.1 hs
    simp only [runBody, Prog.runPure]
    rcases hr : fa i s with ⟨r, s'⟩
    rw [hr] at h
    cases r with
    | none =>
      simp only at h ⊢
      rw [← h.1]
      exact ⟨rfl, h.2.1, fun hh => absurd rfl hh⟩
    | some v =>
      simp only at h ⊢
      rw [← h.1]
      exact ih v (hb.2 v) s' (h.2.2 (by simp))
  | param k ih =>
    intro hb s hs
    simp only [runBody, Prog.runPure]
    rw [hfp s hs]
    exact ih par (hb par) s hs
  | var i k ih =>
    intro hb s hs
    simp only [runBody, Prog.runPure]
    exact ih (fv i) (hb _) s hs

/-! ### the interpreter invariant -/

/-- strong invariant while the gene at `l` is being evaluated -/
def Inv (g : Genome F) (ex : List (Val F)) (l : Locus) (ok0 : Bool) (s : St F) : Prop :=
  MemoOK g ex s.memo ∧ s.ip = l ∧ s.ok = ok0

theorem evalAt_spec_gen (g : Genome F) (h : WF g) (ex : List (Val F)) :
    ∀ f l ok0 s, g.inB l → g.rows - l.index ≤ f → Inv g ex l ok0 s →
      (evalAt g ex f s).1 = denote g ex l ∧ (evalAt g ex f s).2.ok = ok0 ∧
      ((evalAt g ex f s).1 ≠ none → Inv g ex l ok0 (evalAt g ex f s).2) := by
  intro f
  induction f with
  | zero => intro l ok0 s hl hf; have := hl.1; omega
  | succ f ih =>
    intro l ok0 s hl hf hs
    obtain ⟨hm, hip, hok⟩ := hs
    simp only [evalAt]
    have hwf := h.genes l hl
    have key := runBody_spec_gen (fetchArgWith g (evalAt g ex f)) (fun s => (g.gene s.ip).par) (varOf ex)
      (fun i => if i < (g.gene l).args.length then denoteF g ex f ((g.gene l).locusOfArg i) else none)
      (g.gene l).par (g.gene l).args.length (Inv g ex l ok0) (fun s => s.ok = ok0)
      (fun s hs => hs.2.2)
      (by
        intro i s hi hs
        obtain ⟨hm, hip, hok⟩ := hs
        have ha := wf_arg g h l hl i hi
        have hfa : g.rows - ((g.gene l).locusOfArg i).index ≤ f := by omega
        simp only [hi, if_true]
        rw [denoteF_eq_denote g h ex f _ ha.1 hfa]
        simp only [fetchArgWith, hip]
        have hd1 : decide (g.inB l) = true := decide_eq_true hl
        have hd2 : decide (i < (g.gene l).args.length) = true := decide_eq_true hi
        have hd3 : decide (g.inB ((g.gene l).locusOfArg i)) = true := decide_eq_true ha.1
        simp only [hd1, hd2, hd3, Bool.and_true]
        by_cases hv : (s.memo ((g.gene l).locusOfArg i)).1 = true
        · -- memo hit
          simp only [hv, if_true]
          refine ⟨(hm _ hv).symm, hok, fun _ => ⟨hm, rfl, hok⟩⟩
        · -- memo miss: fetch_opaque_arg
          simp only [hv, Bool.false_eq_true, if_false, fetchOpaqueWith, hd1, hd2, Bool.and_true]
          have hrec := ih ((g.gene l).locusOfArg i) ok0
            { s with ip := (g.gene l).locusOfArg i } ha.1 hfa ⟨hm, rfl, hok⟩
          rcases hr : evalAt g ex f { s with ip := (g.gene l).locusOfArg i } with ⟨r, s'⟩
          rw [hr] at hrec
          cases r with
          | none =>
            simp only at hrec ⊢
            exact ⟨hrec.1, hrec.2.1, fun hh => absurd rfl hh⟩
          | some v =>
            simp only at hrec ⊢
            have hI := hrec.2.2 (by simp)
            refine ⟨hrec.1, hrec.2.1, fun _ => ⟨?_, rfl, hrec.2.1⟩⟩
            intro m hmv
            by_cases hma : m = (g.gene l).locusOfArg i
            · subst hma; simp only [if_true]; exact hrec.1.symm
            · simp only [hma, if_false] at hmv ⊢; exact hI.1 m hmv)
      (by intro s hs; simp only [hs.2.1])
    have hd1 : decide (g.inB l) = true := decide_eq_true hl
    have hI0 : Inv g ex l ok0 { s with ok := s.ok && decide (g.inB s.ip) } := by
      refine ⟨hm, hip, ?_⟩
      simp only [hip, hd1, Bool.and_true, hok]
    have res := key (g.gene l).body hwf.2.2 _ hI0
    rw [hip]
    rw [hip] at res
    have hden : denote g ex l = denoteF g ex (f + 1) l := (denoteF_eq_denote g h ex (f + 1) l hl hf).symm
    rw [hden]
    simp only [denoteF]
    exact res

/-- the executable check implies the structural clauses of `WF` -/
theorem wf_of_check (g : Genome F) (hc : wfStruct g = true)
    (hb : ∀ l, g.inB l → (g.gene l).body.Bounded (g.gene l).args.length) (hbest : g.inB g.best) :
    WF g := by
  refine ⟨?_, hbest⟩
  intro l hl
  obtain ⟨i, c⟩ := l
  simp only [wfStruct, List.all_eq_true, List.mem_range, Bool.and_eq_true, beq_iff_eq,
    decide_eq_true_eq] at hc
  have h1 := hc i hl.1 c hl.2
  refine ⟨h1.1, ?_, hb _ hl⟩
  intro k hk
  have h2 := h1.2 k hk
  exact ⟨h2.1.1, h2.1.2, h2.2⟩

/-- `run` returns the denotation from every state (restated as `interp_eq_denote` in Props.lean) -/
theorem run_eq_denote (g : Genome F) (h : WF g) (s : St F) (ex : List (Val F)) :
    (run g ex s).1 = denote g ex g.best := by
  unfold run runLocus
  have hm : MemoOK g ex (fun l => (false, (s.memo l).2)) := by
    intro l hl; simp at hl
  exact (evalAt_spec_gen g h ex g.rows g.best s.ok
    { memo := fun l => (false, (s.memo l).2), ip := g.best, ok := s.ok } h.best (by omega) ⟨hm, rfl, rfl⟩).1

/-! ### trees -/

theorem denoteF_eq_unfold (g : Genome F) (ex : List (Val F)) :
    ∀ f l, denoteF g ex f l = (unfold g f l).eval (varOf ex) := by
  intro f
  induction f with
  | zero => intro l; rfl
  | succ f ih =>
    intro l
    simp only [denoteF, unfold, Tree.eval]
    congr 1
    funext i
    by_cases hi : i < (g.gene l).args.length
    · simp only [hi, if_true]; exact ih _
    · simp only [hi, if_false]; rfl

theorem reach_trans (g : Genome F) {a b c : Locus} (h1 : Reach g a b) (h2 : Reach g b c) :
    Reach g a c := by
  induction h2 with
  | refl => exact h1
  | step i _ hi ih => exact Reach.step i ih hi

/-- the value at `l` only depends on the genes reachable from `l` -/
theorem denoteF_congr_reach (g g' : Genome F) (ex : List (Val F)) :
    ∀ f l, (∀ m, Reach g l m → g'.gene m = g.gene m) →
      denoteF g' ex f l = denoteF g ex f l := by
  intro f
  induction f with
  | zero => intro l _; rfl
  | succ f ih =>
    intro l hreach
    simp only [denoteF]
    rw [hreach l (Reach.refl l)]
    congr 1
    funext i
    by_cases hi : i < (g.gene l).args.length
    · simp only [hi, if_true]
      apply ih
      intro m hm
      exact hreach m (reach_trans g (Reach.step i (Reach.refl l) hi) hm)
    · simp only [hi, if_false]

end Vita.C01
