/-
  C01 — model of `interpreter<i_mep>` / `src_interpreter<i_mep>` and the reference semantics.

  Implementation model (what the code does, src/kernel/gp/mep/interpreter.cc):
    * `St`            : the mutable part of the interpreter object – the per-locus memo
                        `cache_` (valid flag + value), the instruction pointer `ip_`, and a
                        ghost flag `ok` that is cleared by any access outside the genome matrix.
    * `runBody`       : executes a symbol's `eval` body (an interaction tree) against the three
                        call-backs `fetch_arg`, `fetch_param`, `fetch_var`; an exception unwinds.
    * `fetchArgWith`  : `fetch_arg(i)` – memo look-up keyed by the argument's locus (index AND
                        category), else `fetch_opaque_arg(i)` and store.
    * `fetchOpaqueWith` : `fetch_opaque_arg(i)` – save `ip_`, jump to the argument's locus,
                        evaluate the gene there, restore `ip_` (not restored when an exception
                        passes through, as in the code).
    * `evalAt`        : `(*prg_)[ip_].sym->eval(*this)`; the fuel only makes the definition total
                        (under `WF` it is never exhausted: `evalAt_spec`).
    * `runLocus`/`run`: invalidate the whole memo (values stay, flags cleared), set `ip_`, evaluate.
                        `run g ex s` is `src_interpreter::run(ex)`; `interpreter::run()` is the
                        case `ex = []` (`fetch_var` then answers the undefined value).
  Reference semantics:
    * `denoteF`/`denote` : plain recursion on the genome, no state.
    * `unfold`/`tree`    : the expression tree rooted at a locus; `Tree.eval` (Common/Prog.lean).
-/
import Vita.Common.Prog
import Vita.Common.FloatOps

namespace Vita.C01
open Vita

structure Locus where
  index : Nat
  cat : Nat
  deriving DecidableEq, Repr

/-- `basic_gene`: the symbol (represented by the body of its `eval`), the parameter, the packed
    argument indices, and `function::arg_category(i)` for each argument. -/
structure Gene (F : Type) where
  body : Prog F (Val F)
  par : F
  args : List Nat
  argCats : List Nat

/-- `gene::locus_of_argument(i)` -/
def Gene.locusOfArg {F : Type} (g : Gene F) (i : Nat) : Locus :=
  ⟨g.args.getD i 0, g.argCats.getD i 0⟩

/-- `i_mep`: a `rows × cats` matrix of genes and the starting locus. -/
structure Genome (F : Type) where
  rows : Nat
  cats : Nat
  gene : Locus → Gene F
  best : Locus

variable {F : Type}

def Genome.inB (g : Genome F) (l : Locus) : Prop := l.index < g.rows ∧ l.cat < g.cats

instance (g : Genome F) (l : Locus) : Decidable (g.inB l) := by unfold Genome.inB; exact inferInstance

/-- What `i_mep::is_valid()` guarantees and the interpreter relies on (typing of the categories is
    NOT needed): arity matches, every argument index points strictly forward and inside the genome,
    argument categories exist, a body only asks for arguments it has, `best` is inside. -/
structure WF (g : Genome F) : Prop where
  genes : ∀ l, g.inB l →
    (g.gene l).argCats.length = (g.gene l).args.length ∧
    (∀ i, i < (g.gene l).args.length →
        l.index < (g.gene l).args.getD i 0 ∧ (g.gene l).args.getD i 0 < g.rows ∧
        (g.gene l).argCats.getD i 0 < g.cats) ∧
    (g.gene l).body.Bounded (g.gene l).args.length
  best : g.inB g.best

/-! ### reference semantics -/

/-- the example as seen by `fetch_var` -/
def varOf (ex : List (Val F)) (i : Nat) : Val F := ex.getD i .void

def denoteF (g : Genome F) (ex : List (Val F)) : Nat → Locus → Option (Val F)
  | 0, _ => none
  | f + 1, l =>
    (g.gene l).body.runPure
      (fun i => if i < (g.gene l).args.length then denoteF g ex f ((g.gene l).locusOfArg i) else none)
      (g.gene l).par (varOf ex)

/-- value of the gene at locus `l` on example `ex`: recursive evaluation, each symbol applied to
    the values of the arguments it asks for, each variable reading the example -/
def denote (g : Genome F) (ex : List (Val F)) (l : Locus) : Option (Val F) :=
  denoteF g ex (g.rows - l.index) l

def unfold (g : Genome F) : Nat → Locus → Tree F (Val F)
  | 0, _ => .nil
  | f + 1, l =>
    .node (g.gene l).body (g.gene l).par
      (fun i => if i < (g.gene l).args.length then unfold g f ((g.gene l).locusOfArg i) else .nil)

/-- the expression tree rooted at `l` (sharing and layout forgotten) -/
def tree (g : Genome F) (l : Locus) : Tree F (Val F) := unfold g (g.rows - l.index) l

/-- loci of the active code reachable from `l` (what `i_mep`'s iterator visits) -/
inductive Reach (g : Genome F) : Locus → Locus → Prop where
  | refl (l : Locus) : Reach g l l
  | step {l m : Locus} (i : Nat) : Reach g l m → i < (g.gene m).args.length →
      Reach g l ((g.gene m).locusOfArg i)

/-! ### the interpreter object -/

structure St (F : Type) where
  memo : Locus → Bool × Val F
  ip : Locus
  ok : Bool

/-- state after construction: `cache_(size, categories)` value-initialised, `ip_(best)` -/
def St.init (g : Genome F) : St F := ⟨fun _ => (false, .void), g.best, true⟩

def runBody (fa : Nat → St F → Option (Val F) × St F) (fp : St F → F) (fv : Nat → Val F) :
    Prog F (Val F) → St F → Option (Val F) × St F
  | .ret v, s => (some v, s)
  | .throw, s => (none, s)
  | .fetch i k, s =>
    match fa i s with
    | (none, s') => (none, s')
    | (some v, s') => runBody fa fp fv (k v) s'
  | .param k, s => runBody fa fp fv (k (fp s)) s
  | .var i k, s => runBody fa fp fv (k (fv i)) s

/-- `fetch_opaque_arg(i)`; `ev` evaluates the gene at the current `ip_` -/
def fetchOpaqueWith (g : Genome F) (ev : St F → Option (Val F) × St F) (i : Nat) (s : St F) :
    Option (Val F) × St F :=
  let gn := g.gene s.ip
  let backup := s.ip
  let s1 : St F := { s with ip := gn.locusOfArg i,
                            ok := s.ok && decide (g.inB s.ip) && decide (i < gn.args.length) }
  let r := ev s1
  match r.1 with
  | none => (none, r.2)
  | some v => (some v, { r.2 with ip := backup })

/-- `fetch_arg(i)` -/
def fetchArgWith (g : Genome F) (ev : St F → Option (Val F) × St F) (i : Nat) (s : St F) :
    Option (Val F) × St F :=
  let gn := g.gene s.ip
  let a := gn.locusOfArg i
  let s0 : St F := { s with ok := s.ok && decide (g.inB s.ip) && decide (i < gn.args.length) &&
                                  decide (g.inB a) }
  let e := s.memo a
  if e.1 then (some e.2, s0)
  else
    match fetchOpaqueWith g ev i s0 with
    | (none, s') => (none, s')
    | (some v, s') => (some v, { s' with memo := fun l => if l = a then (true, v) else s'.memo l })

/-- `(*prg_)[ip_].sym->eval(*this)` -/
def evalAt (g : Genome F) (ex : List (Val F)) : Nat → St F → Option (Val F) × St F
  | 0, s => (none, { s with ok := false })
  | f + 1, s =>
    runBody (fetchArgWith g (evalAt g ex f)) (fun s => (g.gene s.ip).par) (varOf ex)
      (g.gene s.ip).body { s with ok := s.ok && decide (g.inB s.ip) }

/-- `run_locus(ip)`: every memo entry is invalidated (the stale values stay where they are) -/
def runLocus (g : Genome F) (ex : List (Val F)) (ip : Locus) (s : St F) : Option (Val F) × St F :=
  evalAt g ex g.rows { memo := fun l => (false, (s.memo l).2), ip := ip, ok := s.ok }

/-- `src_interpreter::run(ex)` (= `interpreter::run()` when `ex = []`) -/
def run (g : Genome F) (ex : List (Val F)) (s : St F) : Option (Val F) × St F :=
  runLocus g ex g.best s

/-- one interpreter object used on a sequence of examples -/
def runMany (g : Genome F) : St F → List (List (Val F)) → List (Option (Val F)) × St F
  | s, [] => ([], s)
  | s, ex :: rest =>
    let r := run g ex s
    let q := runMany g r.2 rest
    (r.1 :: q.1, q.2)

/-- every valid memo entry holds the value of its locus -/
def MemoOK (g : Genome F) (ex : List (Val F)) (m : Locus → Bool × Val F) : Prop :=
  ∀ l, (m l).1 = true → denote g ex l = some (m l).2

/-- executable check of the structural clauses of `WF` (used by the driver on every program it is
    given, and by the non-vacuity example) -/
def wfStruct (g : Genome F) : Bool :=
  (List.range g.rows).all fun i => (List.range g.cats).all fun c =>
    let gn := g.gene ⟨i, c⟩
    gn.argCats.length == gn.args.length &&
    (List.range gn.args.length).all fun k =>
      decide (i < gn.args.getD k 0) && decide (gn.args.getD k 0 < g.rows) &&
      decide (gn.argCats.getD k 0 < g.cats)

end Vita.C01
