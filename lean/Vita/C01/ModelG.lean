/-
  C01 — the interpreter whose member functions are the terms EXTRACTED from the current sources
  (Vita/C01/GenInterp.lean, written by tools/translate_interp.py) executed by the semantics of
  Vita/C01/Lang.lean.  Hand-written here is only the wiring the C++ language provides: which body a
  call reaches (virtual dispatch over the two dynamic classes `interpreter<i_mep>` /
  `src_interpreter<i_mep>`, and over the symbols for `penalty_nvi`), recursion (fuel), and how a
  symbol's `eval` talks to the object (`runBody` with the three call-backs of `symbol_params`).

  `src = true`  : the object is a `src_interpreter<i_mep>` (its `fetch_var` reads `example_`),
  `src = false` : a plain `interpreter<i_mep>` (`symbol_params::fetch_var` answers `{}`).
  `pen l`       : the symbol of the gene at `l` overrides `penalty_nvi` (GenInterp.penaltyOverrides).
-/
import Vita.C01.Lang
import Vita.C01.GenInterp

namespace Vita.C01
open Vita Vita.C01.Lang

variable {F : Type}

/-- extend a call table by one entry -/
def ext (base : Calls F) (f0 : Fn) (h : Locus → Nat → XS F → Out F × XS F) : Calls F :=
  fun f l i x => if f = f0 then h l i x else base f l i x

def outVal : Out F × XS F → Option (Val F) × XS F
  | (.val v, x) => (some v, x)
  | (.exc, x) => (none, x)
  | (_, x) => (none, setOk x false)

def outPar (d : F) : Out F × XS F → F
  | (.par p, _) => p
  | _ => d

def outValD : Out F × XS F → Val F
  | (.val v, _) => v
  | _ => .void

/-- the answer of a symbol body in the vocabulary of the statement language -/
def toOut (r : Option (Val F) × St F) (e : Option (List (Val F))) : Out F × XS F :=
  (match r.1 with
   | some v => .val v
   | none => .exc, (r.2, e))

section
variable (g : Genome F) (src : Bool)

/-- the const members: `fetch_index`, `fetch_param`, `fetch_var` -/
def cConst : Calls F :=
  ext (ext (ext noCalls
    .fetchIndex fun _ i x => exec g noCalls GenInterp.fetch_index { iarg := i } x)
    .fetchParam fun _ _ x => exec g noCalls GenInterp.fetch_param {} x)
    .fetchVar fun _ i x =>
      exec g noCalls (if src then GenInterp.src_fetch_var else GenInterp.params_fetch_var) { iarg := i } x

/-- … + `sym->eval(*this)` + `fetch_opaque_arg` + `fetch_arg` + `operator[]` -/
def cArg (ev : Locus → XS F → Out F × XS F) : Calls F :=
  let c1 := ext (cConst g src) .eval fun l _ x => ev l x
  let c2 := ext c1 .fetchOpaqueArg fun _ i x => exec g c1 GenInterp.fetch_opaque_arg { iarg := i } x
  ext c2 .fetchArg fun _ i x => exec g c2 GenInterp.fetch_arg { iarg := i } x

/-- `(*prg_)[l].sym->eval(*this)`: the body of the symbol at `l` run against the object -/
def evalG : Nat → Locus → XS F → Out F × XS F
  | 0, _, x => (.exc, setOk x false)
  | f + 1, l, x =>
    let calls := cArg g src (evalG f)
    toOut (runBody
      (fun i s =>
        let o := outVal (exec g calls GenInterp.params_subscript { iarg := i } (s, x.2))
        (o.1, o.2.1))
      (fun s => outPar (g.gene s.ip).par (calls .fetchParam ⟨0, 0⟩ 0 (s, x.2)))
      (fun i => outValD (calls .fetchVar ⟨0, 0⟩ i x))
      (g.gene l).body { x.1 with ok := x.1.ok && decide (g.inB l) }) x.2

def cTop : Calls F := cArg g src (evalG g src g.rows)

def runLocusG (l : Locus) (x : XS F) : Out F × XS F :=
  exec g (cTop g src) GenInterp.run_locus { larg := l } x

def cRunLocus : Calls F := ext (cTop g src) .runLocus fun l _ x => runLocusG g src l x

def runNviG (x : XS F) : Out F × XS F := exec g (cRunLocus g src) GenInterp.run_nvi {} x

def cRunNvi : Calls F := ext (cRunLocus g src) .runNvi fun _ _ x => runNviG g src x

/-- `core_interpreter::run()` -/
def coreRunG (x : XS F) : Out F × XS F := exec g (cRunNvi g src) GenInterp.core_run {} x

def cRun : Calls F := ext (cRunNvi g src) .run fun _ _ x => coreRunG g src x

/-- `src_interpreter::run(ex)` -/
def srcRunG (ex : List (Val F)) (x : XS F) : Out F × XS F :=
  exec g (cRun g src) GenInterp.src_run { xarg := ex } x

/-! ### penalty -/
variable (pen : Locus → Bool)

def cmpPenaltyG (x : XS F) : Out F × XS F :=
  exec g (cConst g src) GenInterp.comparison_function_penalty {} x

/-- `symbol::penalty_nvi` – virtual: the override or the base version -/
def symPenaltyNviG (l : Locus) (x : XS F) : Out F × XS F :=
  if pen l then
    exec g (ext (cConst g src) .cmpPenalty fun _ _ x => cmpPenaltyG g src x) GenInterp.penalty_override
      { larg := l } x
  else exec g (cConst g src) GenInterp.symbol_penalty_nvi { larg := l } x

def symPenaltyG (l : Locus) (x : XS F) : Out F × XS F :=
  exec g (ext (cConst g src) .symPenaltyNvi fun l _ x => symPenaltyNviG g src pen l x)
    GenInterp.symbol_penalty { larg := l } (setOk x (decide (g.inB l)))

def penaltyLocusG (l : Locus) (x : XS F) : Out F × XS F :=
  exec g (ext (cConst g src) .symPenalty fun l _ x => symPenaltyG g src pen l x)
    GenInterp.penalty_locus { larg := l } x

def penaltyNviG (x : XS F) : Out F × XS F :=
  exec g (ext (cConst g src) .penaltyLocus fun l _ x => penaltyLocusG g src pen l x)
    GenInterp.penalty_nvi {} x

/-- `core_interpreter::penalty()` -/
def corePenaltyG (x : XS F) : Out F × XS F :=
  exec g (ext (cConst g src) .penaltyNvi fun _ _ x => penaltyNviG g src pen x) GenInterp.core_penalty {} x

end

/-! ### the observable API -/

/-- `src_interpreter<i_mep>::run(ex)` on an object in state `x` -/
def runG (g : Genome F) (ex : List (Val F)) (x : XS F) : Option (Val F) × XS F :=
  outVal (srcRunG g true ex x)

/-- `interpreter<i_mep>::run()` (no example) -/
def run0G (g : Genome F) (x : XS F) : Option (Val F) × XS F :=
  outVal (coreRunG g false x)

/-- `penalty()` of either class -/
def penaltyG (g : Genome F) (src : Bool) (pen : Locus → Bool) (x : XS F) : Option Nat × XS F :=
  match corePenaltyG g src pen x with
  | (.nat n, x') => (some n, x')
  | (_, x') => (none, setOk x' false)

/-- the object after construction: `src_interpreter(prg)` sets `example_(nullptr)` -/
def XS.init (g : Genome F) : XS F := (St.init g, none)

/-- one object, a sequence of examples -/
def runManyG (g : Genome F) : XS F → List (List (Val F)) → List (Option (Val F)) × XS F
  | x, [] => ([], x)
  | x, ex :: rest =>
    let r := runG g ex x
    let q := runManyG g r.2 rest
    (r.1 :: q.1, q.2)

/-- a team: every member is run on its own interpreter object (`reg_lambda_f_storage<team<T>>` keeps one
    `reg_lambda_f_storage<T>` – individual + `src_interpreter` – per member) -/
def teamRunG (gs : List (Genome F)) (xs : List (XS F)) (ex : List (Val F)) :
    List (Option (Val F) × XS F) :=
  List.zipWith (fun g x => runG g ex x) gs xs

/-- the team evaluated on a sequence of examples, the members' objects being reused -/
def teamRunManyG (gs : List (Genome F)) : List (XS F) → List (List (Val F)) → List (List (Option (Val F)))
  | _, [] => []
  | xs, ex :: rest =>
    let r := teamRunG gs xs ex
    r.map (·.1) :: teamRunManyG gs (r.map (·.2)) rest

end Vita.C01
