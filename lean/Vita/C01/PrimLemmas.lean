/-
  C01 — helper lemmas about the symbol bodies of Prims.lean (`progOfE` and friends only ask for the
  argument positions that occur in the expression); used by `table_bounded` in Props.lean.
-/
import Vita.C01.Prims

set_option linter.unusedSimpArgs false
set_option linter.unusedSectionVars false

namespace Vita.C01
open Vita

variable {F : Type}

theorem fetchInts_bounded [FloatOps F] (n : Nat) :
    ∀ (is : List Nat) (ρ : List (Nat × Int)) (k : List (Nat × Int) → Prog F (Val F)),
      (∀ i ∈ is, i < n) → (∀ ρ, (k ρ).Bounded n) → (fetchInts is ρ k).Bounded n := by
  intro is
  induction is with
  | nil => intro ρ k _ hk; exact hk ρ
  | cons i is ih =>
    intro ρ k hi hk
    simp only [fetchInts, Prog.Bounded]
    refine ⟨hi i (by simp), ?_⟩
    intro v
    cases v <;> simp only [Val.withInt, Prog.Bounded]
    exact ih _ k (fun j hj => hi j (by simp [hj])) hk

theorem tailE_bounded [FloatOps F] (n : Nat) (ρ : IntE.Env) :
    ∀ e : IntE.E, (∀ i ∈ eArgs e, i < n) → (tailE (F := F) ρ e).Bounded n := by
  intro e
  induction e with
  | ite c t e _ iht ihe =>
    intro h
    simp only [tailE]
    split
    · split
      · exact iht (fun i hi => h i (by simp [eArgs, hi]))
      · exact ihe (fun i hi => h i (by simp [eArgs, hi]))
    · trivial
  | arg i => intro h; simp only [tailE, Prog.Bounded]; exact ⟨h i (by simp [eArgs]), fun _ => trivial⟩
  | lit n => intro _; simp only [tailE]; split <;> trivial
  | var i => intro _; simp only [tailE]; split <;> trivial
  | bin op w a b _ _ => intro _; simp only [tailE]; split <;> trivial
  | cmp op a b _ _ => intro _; simp only [tailE]; split <;> trivial
  | not a _ => intro _; simp only [tailE]; split <;> trivial
  | and a b _ _ => intro _; simp only [tailE]; split <;> trivial
  | or a b _ _ => intro _; simp only [tailE]; split <;> trivial
  | cast w a _ => intro _; simp only [tailE]; split <;> trivial

theorem progOfE_bounded [FloatOps F] (e : IntE.E) (n : Nat)
    (hv : ∀ i ∈ positions (eVars e) 8, i < n) (ha : ∀ i ∈ eArgs e, i < n) :
    (progOfE (F := F) e).Bounded n := by
  unfold progOfE
  exact fetchInts_bounded n _ _ _ hv (fun ρ => tailE_bounded n _ e ha)


theorem idx_add : (∀ i ∈ positions (eVars C14.Gen.addE) 8, i < 2) ∧ (∀ i ∈ eArgs C14.Gen.addE, i < 2) := by decide
theorem idx_sub : (∀ i ∈ positions (eVars C14.Gen.subE) 8, i < 2) ∧ (∀ i ∈ eArgs C14.Gen.subE, i < 2) := by decide
theorem idx_mul : (∀ i ∈ positions (eVars C14.Gen.mulE) 8, i < 2) ∧ (∀ i ∈ eArgs C14.Gen.mulE, i < 2) := by decide
theorem idx_div : (∀ i ∈ positions (eVars C14.Gen.divE) 8, i < 2) ∧ (∀ i ∈ eArgs C14.Gen.divE, i < 2) := by decide
theorem idx_mod : (∀ i ∈ positions (eVars C14.Gen.modE) 8, i < 2) ∧ (∀ i ∈ eArgs C14.Gen.modE, i < 2) := by decide
theorem idx_shl : (∀ i ∈ positions (eVars C14.Gen.shlE) 8, i < 2) ∧ (∀ i ∈ eArgs C14.Gen.shlE, i < 2) := by decide
theorem idx_ife : (∀ i ∈ positions (eVars C14.Gen.ifeE) 8, i < 4) ∧ (∀ i ∈ eArgs C14.Gen.ifeE, i < 4) := by decide
theorem idx_ifl : (∀ i ∈ positions (eVars C14.Gen.iflE) 8, i < 4) ∧ (∀ i ∈ eArgs C14.Gen.iflE, i < 4) := by decide
theorem idx_ifz : (∀ i ∈ positions (eVars C14.Gen.ifzE) 8, i < 3) ∧ (∀ i ∈ eArgs C14.Gen.ifzE, i < 3) := by decide

macro "bounded_steps" : tactic =>
  `(tactic| (repeat' (first
      | (simp only [Prog.Bounded, Val.withDbl, Val.withStr, Val.withInt, and_true, true_and])
      | intro _ | constructor | split | trivial | omega)))


end Vita.C01
