/-
  C01 — the `eval` bodies of the shipped symbols as interaction trees.

  * real family, `str::ife`: the terms GENERATED from real.h / string.h (Vita.C13.Gen);
  * integer family: the `E` terms GENERATED from int.h (Vita.C14.Gen), lifted by `progOfE`
    (request and cast the operands that occur, in increasing position – the source order of
    `const auto v0(integer::cast(args[0])); const auto v1(…)` – then follow the `if`/`?:` spine:
    a `return args[i]` leaf requests that argument lazily, any other leaf is computed with the
    checked semantics `evalC`; a fault – undefined behaviour in C++ – ends the run like an exception;
    by C14 it never happens for 32-bit operands);
  * boolean family, variables, constants, the integer ephemeral constant: the terms GENERATED from bool.h,
    variable.h, constant.h, int.h `number` by tools/translate_prims01.py (Vita.C01.GenPrims); `varP` / `constP`
    are only shorter names for them.
-/
import Vita.Common.Prog
import Vita.Common.FloatOps
import Vita.Common.IntE
import Vita.C13.Gen
import Vita.C14.Gen
import Vita.C01.GenPrims

namespace Vita.C01
open Vita Vita.IntE

variable {F : Type} [FloatOps F]

/-! ### integer expressions -/

/-- argument positions whose cast value (`var`) an expression uses -/
def eVars : E → List Nat
  | .lit _ => []
  | .var i => [i]
  | .arg _ => []
  | .bin _ _ a b => eVars a ++ eVars b
  | .cmp _ a b => eVars a ++ eVars b
  | .not a => eVars a
  | .and a b => eVars a ++ eVars b
  | .or a b => eVars a ++ eVars b
  | .ite c t e => eVars c ++ eVars t ++ eVars e
  | .cast _ a => eVars a

/-- argument positions handed back unchanged (`return args[i]`) -/
def eArgs : E → List Nat
  | .arg i => [i]
  | .ite _ t e => eArgs t ++ eArgs e
  | _ => []

/-- sorted, duplicate-free positions `< n` that occur in `l` -/
def positions (l : List Nat) (n : Nat) : List Nat := (List.range n).filter (fun i => l.contains i)

def envOf (ρ : List (Nat × Int)) : Env :=
  ⟨fun i => (ρ.lookup i).getD 0, fun _ => 0⟩

/-- request and cast the operands, in order -/
def fetchInts : List Nat → List (Nat × Int) → (List (Nat × Int) → Prog F (Val F)) → Prog F (Val F)
  | [], ρ, k => k ρ
  | i :: is, ρ, k => .fetch i fun v => Val.withInt v fun n => fetchInts is ((i, n) :: ρ) k

/-- follow the conditional spine of the expression -/
def tailE (ρ : Env) : E → Prog F (Val F)
  | .ite c t e =>
    match evalC ρ c with
    | .ok x => if x ≠ 0 then tailE ρ t else tailE ρ e
    | .error _ => .throw
  | .arg i => .fetch i fun v => .ret v
  | e =>
    match evalC ρ e with
    | .ok x => .ret (.int x)
    | .error _ => .throw

def progOfE (e : E) : Prog F (Val F) :=
  fetchInts (positions (eVars e) 8) [] fun ρ => tailE (envOf ρ) e

/-! ### terminals (generated bodies under their old names) -/

/-- `variable::eval`: `p.fetch_var(var_)` -/
def varP (k : Nat) : Prog F (Val F) := GenPrims.variableP k

/-- `constant<T>::eval`: the stored value -/
def constP (v : Val F) : Prog F (Val F) := GenPrims.constantP v

/-! ### the table: symbol name (as in `symbol::name()`) ↦ arity and body -/

structure Entry (F : Type) where
  name : String
  arity : Nat
  body : Prog F (Val F)

/-- functions and parametric terminals, by the name vita gives them (`symbol::name()`);
    `real::real` and `real::integer` share the name REAL and the body -/
def table : List (Entry F) :=
  [⟨"FABS", 1, C13.Gen.absP⟩,
   ⟨"FADD", 2, C13.Gen.addP⟩,
   ⟨"AQ", 2, C13.Gen.aqP⟩,
   ⟨"FCOS", 1, C13.Gen.cosP⟩,
   ⟨"FDIV", 2, C13.Gen.divP⟩,
   ⟨">", 2, C13.Gen.gtP⟩,
   ⟨"FIDIV", 2, C13.Gen.idivP⟩,
   ⟨"FIFB", 5, C13.Gen.ifbP⟩,
   ⟨"FIFE", 4, C13.Gen.ifeP⟩,
   ⟨"FIFL", 4, C13.Gen.iflP⟩,
   ⟨"FIFZ", 3, C13.Gen.ifzP⟩,
   ⟨"FLENGTH", 1, C13.Gen.lengthP⟩,
   ⟨"FLN", 1, C13.Gen.lnP⟩,
   ⟨"<", 2, C13.Gen.ltP⟩,
   ⟨"FMAX", 2, C13.Gen.maxP⟩,
   ⟨"FMOD", 2, C13.Gen.modP⟩,
   ⟨"FMUL", 2, C13.Gen.mulP⟩,
   ⟨"FSIN", 1, C13.Gen.sinP⟩,
   ⟨"FSQRT", 1, C13.Gen.sqrtP⟩,
   ⟨"FSUB", 2, C13.Gen.subP⟩,
   ⟨"FSIGMOID", 1, C13.Gen.sigmoidP⟩,
   ⟨"REAL", 0, C13.Gen.realP⟩,
   ⟨"SIFE", 4, C13.Gen.sifeP⟩,
   ⟨"ADD", 2, progOfE C14.Gen.addE⟩,
   ⟨"SUB", 2, progOfE C14.Gen.subE⟩,
   ⟨"MUL", 2, progOfE C14.Gen.mulE⟩,
   ⟨"DIV", 2, progOfE C14.Gen.divE⟩,
   ⟨"MOD", 2, progOfE C14.Gen.modE⟩,
   ⟨"SHL", 2, progOfE C14.Gen.shlE⟩,
   ⟨"IFE", 4, progOfE C14.Gen.ifeE⟩,
   ⟨"IFL", 4, progOfE C14.Gen.iflE⟩,
   ⟨"IFZ", 3, progOfE C14.Gen.ifzE⟩,
   ⟨"INT", 0, GenPrims.integer_numberP⟩,
   ⟨"AND", 2, GenPrims.boolean_l_andP⟩,
   ⟨"OR", 2, GenPrims.boolean_l_orP⟩,
   ⟨"NOT", 1, GenPrims.boolean_l_notP⟩,
   ⟨"0", 0, GenPrims.boolean_zeroP⟩,
   ⟨"1", 0, GenPrims.boolean_oneP⟩]

end Vita.C01
