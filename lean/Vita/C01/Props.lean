/-
  C01 — the interpreter returns the denotation of the program.

  Model: Vita/C01/Model.lean (what interpreter.cc does: per-locus memo with valid flags, `ip_`
  save/restore, invalidation at the start of every run, exceptions unwinding through the
  recursion).  Reference: `denote` (plain recursion on the genome) and `Tree.eval (tree g l)`.

  All theorems are for every number type `F`, every well-formed genome `g` (any number of rows and
  categories, any sharing), every example and EVERY initial interpreter state.
-/
import Vita.C01.Lemmas
import Vita.C01.PrimLemmas
import Vita.C01.Example

set_option linter.unusedSimpArgs false
set_option linter.unusedSectionVars false
set_option linter.unusedVariables false

namespace Vita.C01
open Vita

variable {F : Type}

/-! ### one specification for every symbol body -/

/-- Executing a symbol body against call-backs that behave like the arguments' values returns what
    the reference semantics returns, and preserves the interpreter invariant (see
    `runBody_spec_gen` for the roles of `I` and `W`).  Proved once, by induction on the
    interaction tree: no per-primitive work. -/
theorem runBody_spec (fa : Nat → St F → Option (Val F) × St F) (fp : St F → F) (fv : Nat → Val F)
    (argv : Nat → Option (Val F)) (par : F) (n : Nat) (I W : St F → Prop)
    (hIW : ∀ s, I s → W s)
    (hfa : ∀ i s, i < n → I s →
      (fa i s).1 = argv i ∧ W (fa i s).2 ∧ ((fa i s).1 ≠ none → I (fa i s).2))
    (hfp : ∀ s, I s → fp s = par)
    (p : Prog F (Val F)) (hb : p.Bounded n) (s : St F) (hs : I s) :
    (runBody fa fp fv p s).1 = p.runPure argv par fv ∧ W (runBody fa fp fv p s).2 ∧
    ((runBody fa fp fv p s).1 ≠ none → I (runBody fa fp fv p s).2) :=
  runBody_spec_gen fa fp fv argv par n I W hIW hfa hfp p hb s hs

/-- the defining equation of the denotation: the symbol at `l` applied to the denotations of the
    arguments it asks for, its own parameter, and the example's features -/
theorem denote_eq (g : Genome F) (h : WF g) (ex : List (Val F)) (l : Locus) (hl : g.inB l) :
    denote g ex l =
      (g.gene l).body.runPure
        (fun i => if i < (g.gene l).args.length then denote g ex ((g.gene l).locusOfArg i) else none)
        (g.gene l).par (varOf ex) := by
  have hf : g.rows - l.index ≤ (g.rows - l.index - 1) + 1 := by omega
  rw [← denoteF_eq_denote g h ex _ l hl hf]
  simp only [denoteF]
  apply Prog.runPure_congr_bounded _ _ _ _ _ _ (h.genes l hl).2.2
  intro i hi
  simp only [hi, if_true]
  have ha := wf_arg g h l hl i hi
  exact denoteF_eq_denote g h ex _ _ ha.1 (by have := hl.1; omega)

/-- a variable reads the example's feature at its position -/
theorem var_reads_feature [FloatOps F] (g : Genome F) (h : WF g) (ex : List (Val F)) (l : Locus)
    (hl : g.inB l) (k : Nat) (hb : (g.gene l).body = varP k) :
    denote g ex l = some (ex.getD k .void) := by
  rw [denote_eq g h ex l hl, hb]; rfl

/-- Evaluating the gene at `ip_ = l` with a sound memo returns its denotation, leaves the memo sound,
    restores `ip_` (unless an exception passed through) and never leaves the genome. -/
theorem evalAt_spec (g : Genome F) (h : WF g) (ex : List (Val F)) (f : Nat) (l : Locus) (s : St F)
    (hl : g.inB l) (hf : g.rows - l.index ≤ f) (hm : MemoOK g ex s.memo) (hip : s.ip = l) :
    (evalAt g ex f s).1 = denote g ex l ∧ (evalAt g ex f s).2.ok = s.ok ∧
    ((evalAt g ex f s).1 ≠ none → MemoOK g ex (evalAt g ex f s).2.memo ∧ (evalAt g ex f s).2.ip = l) := by
  have r := evalAt_spec_gen g h ex f l s.ok s hl hf ⟨hm, hip, rfl⟩
  exact ⟨r.1, r.2.1, fun hne => ⟨(r.2.2 hne).1, (r.2.2 hne).2.1⟩⟩

/-- THE PROPERTY.  Whatever state the interpreter object is in (stale memo values, stale flags,
    stale `ip_`, left there by earlier runs, by runs of other programs of the same shape, or by an
    exception), `run` returns the denotation of the program on the example. -/
theorem interp_eq_denote (g : Genome F) (h : WF g) (s : St F) (ex : List (Val F)) :
    (run g ex s).1 = denote g ex g.best := by
  unfold run runLocus
  have hm : MemoOK g ex (fun l => (false, (s.memo l).2)) := by
    intro l hl; simp at hl
  exact (evalAt_spec g h ex g.rows g.best _ h.best (by omega) hm rfl).1

/-- … in particular the answer does not depend on what the same object executed before: a sequence
    of runs on one interpreter object returns, run by run, the denotations -/
theorem run_history_indep (g : Genome F) (h : WF g) :
    ∀ (exs : List (List (Val F))) (s : St F),
      (runMany g s exs).1 = exs.map (fun ex => denote g ex g.best) := by
  intro exs
  induction exs with
  | nil => intro s; rfl
  | cons ex rest ih =>
    intro s
    simp only [runMany, List.map_cons]
    rw [interp_eq_denote g h s ex, ih]

/-- … nor on an earlier run of a different program through the same state -/
theorem run_after_other_program (g g' : Genome F) (h : WF g) (s : St F) (ex ex' : List (Val F)) :
    (run g ex (run g' ex' s).2).1 = denote g ex g.best :=
  interp_eq_denote g h _ ex

/-- a successful run leaves a sound memo and `ip_` back at the start locus -/
theorem run_restores (g : Genome F) (h : WF g) (s : St F) (ex : List (Val F))
    (hne : (run g ex s).1 ≠ none) :
    MemoOK g ex (run g ex s).2.memo ∧ (run g ex s).2.ip = g.best := by
  unfold run runLocus at *
  have hm : MemoOK g ex (fun l => (false, (s.memo l).2)) := by
    intro l hl; simp at hl
  exact (evalAt_spec g h ex g.rows g.best _ h.best (by omega) hm rfl).2.2 hne

/-- no access outside the genome matrix (`(*prg_)[ip_]`, `cache_(locus)`, `args[i]`), ever -/
theorem in_bounds (g : Genome F) (h : WF g) (s : St F) (ex : List (Val F)) (hok : s.ok = true) :
    (run g ex s).2.ok = true := by
  unfold run runLocus
  have hm : MemoOK g ex (fun l => (false, (s.memo l).2)) := by
    intro l hl; simp at hl
  rw [(evalAt_spec g h ex g.rows g.best _ h.best (by omega) hm rfl).2.1]
  exact hok

theorem in_bounds_many (g : Genome F) (h : WF g) :
    ∀ (exs : List (List (Val F))) (s : St F), s.ok = true → (runMany g s exs).2.ok = true := by
  intro exs
  induction exs with
  | nil => intro s hs; exact hs
  | cons ex rest ih =>
    intro s hs
    simp only [runMany]
    exact ih _ (in_bounds g h s ex hs)

/-! ### layout, introns, unused arguments -/

/-- the denotation is the recursive evaluation of the expression tree -/
theorem denote_eq_tree (g : Genome F) (ex : List (Val F)) (l : Locus) :
    denote g ex l = (tree g l).eval (varOf ex) :=
  denoteF_eq_unfold g ex _ l

/-- hence programs with the same expression tree (however shared sub-expressions are laid out in
    the two genomes) compute the same function -/
theorem layout_indep (g g' : Genome F) (l l' : Locus) (ht : tree g l = tree g' l')
    (ex : List (Val F)) : denote g ex l = denote g' ex l' := by
  rw [denote_eq_tree, denote_eq_tree, ht]

/-- … and so do the interpreters -/
theorem interp_layout_indep (g g' : Genome F) (h : WF g) (h' : WF g')
    (ht : tree g g.best = tree g' g'.best) (s s' : St F) (ex : List (Val F)) :
    (run g ex s).1 = (run g' ex s').1 := by
  rw [interp_eq_denote g h, interp_eq_denote g' h', layout_indep g g' _ _ ht]

/-- genes outside the active code (not reachable from the start locus) are irrelevant -/
theorem intron_indep (g g' : Genome F) (hr : g'.rows = g.rows) (l : Locus)
    (hsame : ∀ m, Reach g l m → g'.gene m = g.gene m) (ex : List (Val F)) :
    denote g' ex l = denote g ex l := by
  unfold denote
  rw [hr]
  exact denoteF_congr_reach g g' ex _ l hsame

theorem interp_intron_indep (g g' : Genome F) (h : WF g) (h' : WF g') (hr : g'.rows = g.rows)
    (hb : g'.best = g.best) (hsame : ∀ m, Reach g g.best m → g'.gene m = g.gene m)
    (s s' : St F) (ex : List (Val F)) : (run g' ex s').1 = (run g ex s).1 := by
  rw [interp_eq_denote g h, interp_eq_denote g' h', hb, intron_indep g g' hr g.best hsame]

/-- arguments a symbol does not ask for on this input are never needed: replacing their sub-trees
    by anything leaves the value unchanged -/
theorem needs_only_asked (body : Prog F (Val F)) (par : F) (kids kids' : Nat → Tree F (Val F))
    (vars : Nat → Val F)
    (hsame : ∀ i ∈ body.asked (fun i => (kids i).eval vars) par vars, kids' i = kids i) :
    (Tree.node body par kids').eval vars = (Tree.node body par kids).eval vars := by
  simp only [Tree.eval]
  symm
  apply Prog.runPure_congr_asked
  intro i hi
  rw [hsame i hi]

/-! ### the shipped symbol bodies only ask for arguments they have -/

/-- every shipped function / parametric terminal only asks for arguments below its arity, so the
    `Bounded` clause of `WF` holds for every genome built from the table -/
theorem table_bounded [FloatOps F] : ∀ e ∈ (table : List (Entry F)), e.body.Bounded e.arity := by
  intro e he
  simp only [table, List.mem_cons, List.not_mem_nil, or_false] at he
  rcases he with rfl | rfl | rfl | rfl | rfl | rfl | rfl | rfl | rfl | rfl | rfl | rfl | rfl | rfl | rfl | rfl | rfl | rfl | rfl | rfl | rfl | rfl | rfl | rfl | rfl | rfl | rfl | rfl | rfl | rfl | rfl | rfl | rfl | rfl | rfl | rfl | rfl | rfl
  · show (C13.Gen.absP : Prog F (Val F)).Bounded _; unfold C13.Gen.absP; bounded_steps
  · show (C13.Gen.addP : Prog F (Val F)).Bounded _; unfold C13.Gen.addP; bounded_steps
  · show (C13.Gen.aqP : Prog F (Val F)).Bounded _; unfold C13.Gen.aqP; bounded_steps
  · show (C13.Gen.cosP : Prog F (Val F)).Bounded _; unfold C13.Gen.cosP; bounded_steps
  · show (C13.Gen.divP : Prog F (Val F)).Bounded _; unfold C13.Gen.divP; bounded_steps
  · show (C13.Gen.gtP : Prog F (Val F)).Bounded _; unfold C13.Gen.gtP; bounded_steps
  · show (C13.Gen.idivP : Prog F (Val F)).Bounded _; unfold C13.Gen.idivP; bounded_steps
  · show (C13.Gen.ifbP : Prog F (Val F)).Bounded _; unfold C13.Gen.ifbP; bounded_steps
  · show (C13.Gen.ifeP : Prog F (Val F)).Bounded _; unfold C13.Gen.ifeP; bounded_steps
  · show (C13.Gen.iflP : Prog F (Val F)).Bounded _; unfold C13.Gen.iflP; bounded_steps
  · show (C13.Gen.ifzP : Prog F (Val F)).Bounded _; unfold C13.Gen.ifzP; bounded_steps
  · show (C13.Gen.lengthP : Prog F (Val F)).Bounded _; unfold C13.Gen.lengthP; bounded_steps
  · show (C13.Gen.lnP : Prog F (Val F)).Bounded _; unfold C13.Gen.lnP; bounded_steps
  · show (C13.Gen.ltP : Prog F (Val F)).Bounded _; unfold C13.Gen.ltP; bounded_steps
  · show (C13.Gen.maxP : Prog F (Val F)).Bounded _; unfold C13.Gen.maxP; bounded_steps
  · show (C13.Gen.modP : Prog F (Val F)).Bounded _; unfold C13.Gen.modP; bounded_steps
  · show (C13.Gen.mulP : Prog F (Val F)).Bounded _; unfold C13.Gen.mulP; bounded_steps
  · show (C13.Gen.sinP : Prog F (Val F)).Bounded _; unfold C13.Gen.sinP; bounded_steps
  · show (C13.Gen.sqrtP : Prog F (Val F)).Bounded _; unfold C13.Gen.sqrtP; bounded_steps
  · show (C13.Gen.subP : Prog F (Val F)).Bounded _; unfold C13.Gen.subP; bounded_steps
  · show (C13.Gen.sigmoidP : Prog F (Val F)).Bounded _; unfold C13.Gen.sigmoidP; bounded_steps
  · show (C13.Gen.realP : Prog F (Val F)).Bounded _; unfold C13.Gen.realP; bounded_steps
  · show (C13.Gen.sifeP : Prog F (Val F)).Bounded _; unfold C13.Gen.sifeP; bounded_steps
  · exact progOfE_bounded _ _ idx_add.1 idx_add.2
  · exact progOfE_bounded _ _ idx_sub.1 idx_sub.2
  · exact progOfE_bounded _ _ idx_mul.1 idx_mul.2
  · exact progOfE_bounded _ _ idx_div.1 idx_div.2
  · exact progOfE_bounded _ _ idx_mod.1 idx_mod.2
  · exact progOfE_bounded _ _ idx_shl.1 idx_shl.2
  · exact progOfE_bounded _ _ idx_ife.1 idx_ife.2
  · exact progOfE_bounded _ _ idx_ifl.1 idx_ifl.2
  · exact progOfE_bounded _ _ idx_ifz.1 idx_ifz.2
  · show (intErcP : Prog F (Val F)).Bounded _; unfold intErcP; bounded_steps
  · show (landP : Prog F (Val F)).Bounded _; unfold landP; bounded_steps
  · show (lorP : Prog F (Val F)).Bounded _; unfold lorP; bounded_steps
  · show (lnotP : Prog F (Val F)).Bounded _; unfold lnotP; bounded_steps
  · show (boolP false : Prog F (Val F)).Bounded _; unfold boolP; bounded_steps
  · show (boolP true : Prog F (Val F)).Bounded _; unfold boolP; bounded_steps

theorem varP_bounded [FloatOps F] (k n : Nat) : (varP k : Prog F (Val F)).Bounded n := by
  unfold varP; bounded_steps

theorem constP_bounded [FloatOps F] (v : Val F) (n : Nat) : (constP v : Prog F (Val F)).Bounded n := by
  unfold constP; bounded_steps

/-! ### non-vacuity: a two-category DAG with a gene shared between two lazy paths is well formed,
    and on it the statements bite -/

theorem exampleG_wf : WF exampleG := by
  apply wf_of_check
  · decide
  · intro l hl
    obtain ⟨i, c⟩ := l
    have hi : i < 4 := hl.1
    have hc : c < 2 := hl.2
    have : i = 0 ∨ i = 1 ∨ i = 2 ∨ i = 3 := by omega
    have : c = 0 ∨ c = 1 := by omega
    rcases ‹i = 0 ∨ i = 1 ∨ i = 2 ∨ i = 3› with rfl | rfl | rfl | rfl <;>
      rcases ‹c = 0 ∨ c = 1› with rfl | rfl <;>
      simp only [exampleG, leaf, varP, constP, C13.Gen.iflP, C13.Gen.addP, C13.Gen.mulP] <;>
      bounded_steps
  · decide

example : ∃ g : Genome C13.Toy, WF g := ⟨exampleG, exampleG_wf⟩

/-- x0 = 1 < x1+x1 = 6: the "then" branch 2·2 is taken – from a fresh object … -/
example : (run exampleG [.dbl (some 1), .dbl (some 3)] (St.init exampleG)).1 = some (.dbl (some 4)) := by
  decide

/-- … and from an object whose memo is full of stale "valid" entries and whose `ip_` is elsewhere -/
example : (run exampleG [.dbl (some 1), .dbl (some 3)] staleSt).1 = some (.dbl (some 4)) := by
  decide

/-- x0 = 9 ≥ 6: the "else" branch hands back the shared constant itself -/
example : (run exampleG [.dbl (some 9), .dbl (some 3)] staleSt).1 = some (.dbl (some 2)) := by
  decide

/-- a missing feature is the undefined value and propagates -/
example : (run exampleG [.dbl (some 9)] staleSt).1 = some .void := by
  decide

/-- the same expression in another layout (5 rows, the constant duplicated, different introns) gives
    the same answers (an instance of `interp_layout_indep`, checked here by evaluation) -/
example : (run exampleG' [.dbl (some 1), .dbl (some 3)] staleSt).1 =
    (run exampleG [.dbl (some 1), .dbl (some 3)] (St.init exampleG)).1 := by
  decide

example : (run exampleG' [.dbl (some 9), .dbl (some 3)] (St.init exampleG')).1 =
    (run exampleG [.dbl (some 9), .dbl (some 3)] staleSt).1 := by
  decide

/-- one object, three examples in a row -/
example : (runMany exampleG staleSt [[.dbl (some 1), .dbl (some 3)], [.dbl (some 9), .dbl (some 3)], []]).1 =
    [some (.dbl (some 4)), some (.dbl (some 2)), some .void] := by
  decide

end Vita.C01
