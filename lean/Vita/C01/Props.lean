/-
  C01 — the interpreter returns the denotation of the program.

  Model: Vita/C01/Model.lean (what interpreter.cc does: per-locus memo with valid flags, `ip_`
  save/restore, invalidation at the start of every run, exceptions unwinding through the
  recursion).  Reference: `denote` (plain recursion on the genome) and `Tree.eval (tree g l)`.

  All theorems are for every number type `F`, every well-formed genome `g` (any number of rows and
  categories, any sharing), every example and EVERY initial interpreter state.
-/
import Vita.C01.Lemmas
import Vita.C01.PrimLemmas
import Vita.C01.Example
import Vita.C01.Bridge

set_option linter.unusedSimpArgs false
set_option linter.unusedSectionVars false
set_option linter.unusedVariables false

namespace Vita.C01
open Vita Vita.C01.Lang

variable {F : Type}

/-! ### one specification for every symbol body -/

/-- Executing a symbol body against call-backs that behave like the arguments' values returns what
    the reference semantics returns, and preserves the interpreter invariant (see
    `runBody_spec_gen` for the roles of `I` and `W`).  Proved once, by induction on the
    interaction tree: no per-primitive work. -/
theorem runBody_spec (fa : Nat → St F → Option (Val F) × St F) (fp : St F → F) (fv : Nat → Val F)
    (argv : Nat → Option (Val F)) (par : F) (n : Nat) (I W : St F → Prop)
    (hIW : ∀ s, I s → W s)
    (hfa : ∀ i s, i < n → I s →
      (fa i s).1 = argv i ∧ W (fa i s).2 ∧ ((fa i s).1 ≠ none → I (fa i s).2))
    (hfp : ∀ s, I s → fp s = par)
    (p : Prog F (Val F)) (hb : p.Bounded n) (s : St F) (hs : I s) :
    (runBody fa fp fv p s).1 = p.runPure argv par fv ∧ W (runBody fa fp fv p s).2 ∧
    ((runBody fa fp fv p s).1 ≠ none → I (runBody fa fp fv p s).2) :=
  runBody_spec_gen fa fp fv argv par n I W hIW hfa hfp p hb s hs

/-- the defining equation of the denotation: the symbol at `l` applied to the denotations of the
    arguments it asks for, its own parameter, and the example's features -/
theorem denote_eq (g : Genome F) (h : WF g) (ex : List (Val F)) (l : Locus) (hl : g.inB l) :
    denote g ex l =
      (g.gene l).body.runPure
        (fun i => if i < (g.gene l).args.length then denote g ex ((g.gene l).locusOfArg i) else none)
        (g.gene l).par (varOf ex) := by
  have hf : g.rows - l.index ≤ (g.rows - l.index - 1) + 1 := by omega
  rw [← denoteF_eq_denote g h ex _ l hl hf]
  simp only [denoteF]
  apply Prog.runPure_congr_bounded _ _ _ _ _ _ (h.genes l hl).2.2
  intro i hi
  simp only [hi, if_true]
  have ha := wf_arg g h l hl i hi
  exact denoteF_eq_denote g h ex _ _ ha.1 (by have := hl.1; omega)

/-- a variable reads the example's feature at its position -/
theorem var_reads_feature [FloatOps F] (g : Genome F) (h : WF g) (ex : List (Val F)) (l : Locus)
    (hl : g.inB l) (k : Nat) (hb : (g.gene l).body = varP k) :
    denote g ex l = some (ex.getD k .void) := by
  rw [denote_eq g h ex l hl, hb]; rfl

/-- Evaluating the gene at `ip_ = l` with a sound memo returns its denotation, leaves the memo sound,
    restores `ip_` (unless an exception passed through) and never leaves the genome. -/
theorem evalAt_spec (g : Genome F) (h : WF g) (ex : List (Val F)) (f : Nat) (l : Locus) (s : St F)
    (hl : g.inB l) (hf : g.rows - l.index ≤ f) (hm : MemoOK g ex s.memo) (hip : s.ip = l) :
    (evalAt g ex f s).1 = denote g ex l ∧ (evalAt g ex f s).2.ok = s.ok ∧
    ((evalAt g ex f s).1 ≠ none → MemoOK g ex (evalAt g ex f s).2.memo ∧ (evalAt g ex f s).2.ip = l) := by
  have r := evalAt_spec_gen g h ex f l s.ok s hl hf ⟨hm, hip, rfl⟩
  exact ⟨r.1, r.2.1, fun hne => ⟨(r.2.2 hne).1, (r.2.2 hne).2.1⟩⟩

/-- THE PROPERTY.  Whatever state the interpreter object is in (stale memo values, stale flags,
    stale `ip_`, left there by earlier runs, by runs of other programs of the same shape, or by an
    exception), `run` returns the denotation of the program on the example. -/
theorem interp_eq_denote (g : Genome F) (h : WF g) (s : St F) (ex : List (Val F)) :
    (run g ex s).1 = denote g ex g.best := by
  unfold run runLocus
  have hm : MemoOK g ex (fun l => (false, (s.memo l).2)) := by
    intro l hl; simp at hl
  exact (evalAt_spec g h ex g.rows g.best _ h.best (by omega) hm rfl).1

/-- … in particular the answer does not depend on what the same object executed before: a sequence
    of runs on one interpreter object returns, run by run, the denotations -/
theorem run_history_indep (g : Genome F) (h : WF g) :
    ∀ (exs : List (List (Val F))) (s : St F),
      (runMany g s exs).1 = exs.map (fun ex => denote g ex g.best) := by
  intro exs
  induction exs with
  | nil => intro s; rfl
  | cons ex rest ih =>
    intro s
    simp only [runMany, List.map_cons]
    rw [interp_eq_denote g h s ex, ih]

/-- … nor on an earlier run of a different program through the same state -/
theorem run_after_other_program (g g' : Genome F) (h : WF g) (s : St F) (ex ex' : List (Val F)) :
    (run g ex (run g' ex' s).2).1 = denote g ex g.best :=
  interp_eq_denote g h _ ex

/-- a successful run leaves a sound memo and `ip_` back at the start locus -/
theorem run_restores (g : Genome F) (h : WF g) (s : St F) (ex : List (Val F))
    (hne : (run g ex s).1 ≠ none) :
    MemoOK g ex (run g ex s).2.memo ∧ (run g ex s).2.ip = g.best := by
  unfold run runLocus at *
  have hm : MemoOK g ex (fun l => (false, (s.memo l).2)) := by
    intro l hl; simp at hl
  exact (evalAt_spec g h ex g.rows g.best _ h.best (by omega) hm rfl).2.2 hne

/-- no access outside the genome matrix (`(*prg_)[ip_]`, `cache_(locus)`, `args[i]`), ever -/
theorem in_bounds (g : Genome F) (h : WF g) (s : St F) (ex : List (Val F)) (hok : s.ok = true) :
    (run g ex s).2.ok = true := by
  unfold run runLocus
  have hm : MemoOK g ex (fun l => (false, (s.memo l).2)) := by
    intro l hl; simp at hl
  rw [(evalAt_spec g h ex g.rows g.best _ h.best (by omega) hm rfl).2.1]
  exact hok

theorem in_bounds_many (g : Genome F) (h : WF g) :
    ∀ (exs : List (List (Val F))) (s : St F), s.ok = true → (runMany g s exs).2.ok = true := by
  intro exs
  induction exs with
  | nil => intro s hs; exact hs
  | cons ex rest ih =>
    intro s hs
    simp only [runMany]
    exact ih _ (in_bounds g h s ex hs)

/-! ### layout, introns, unused arguments -/

/-- the denotation is the recursive evaluation of the expression tree -/
theorem denote_eq_tree (g : Genome F) (ex : List (Val F)) (l : Locus) :
    denote g ex l = (tree g l).eval (varOf ex) :=
  denoteF_eq_unfold g ex _ l

/-- hence programs with the same expression tree (however shared sub-expressions are laid out in
    the two genomes) compute the same function -/
theorem layout_indep (g g' : Genome F) (l l' : Locus) (ht : tree g l = tree g' l')
    (ex : List (Val F)) : denote g ex l = denote g' ex l' := by
  rw [denote_eq_tree, denote_eq_tree, ht]

/-- … and so do the interpreters -/
theorem interp_layout_indep (g g' : Genome F) (h : WF g) (h' : WF g')
    (ht : tree g g.best = tree g' g'.best) (s s' : St F) (ex : List (Val F)) :
    (run g ex s).1 = (run g' ex s').1 := by
  rw [interp_eq_denote g h, interp_eq_denote g' h', layout_indep g g' _ _ ht]

/-- genes outside the active code (not reachable from the start locus) are irrelevant -/
theorem intron_indep (g g' : Genome F) (hr : g'.rows = g.rows) (l : Locus)
    (hsame : ∀ m, Reach g l m → g'.gene m = g.gene m) (ex : List (Val F)) :
    denote g' ex l = denote g ex l := by
  unfold denote
  rw [hr]
  exact denoteF_congr_reach g g' ex _ l hsame

theorem interp_intron_indep (g g' : Genome F) (h : WF g) (h' : WF g') (hr : g'.rows = g.rows)
    (hb : g'.best = g.best) (hsame : ∀ m, Reach g g.best m → g'.gene m = g.gene m)
    (s s' : St F) (ex : List (Val F)) : (run g' ex s').1 = (run g ex s).1 := by
  rw [interp_eq_denote g h, interp_eq_denote g' h', hb, intron_indep g g' hr g.best hsame]

/-- arguments a symbol does not ask for on this input are never needed: replacing their sub-trees
    by anything leaves the value unchanged -/
theorem needs_only_asked (body : Prog F (Val F)) (par : F) (kids kids' : Nat → Tree F (Val F))
    (vars : Nat → Val F)
    (hsame : ∀ i ∈ body.asked (fun i => (kids i).eval vars) par vars, kids' i = kids i) :
    (Tree.node body par kids').eval vars = (Tree.node body par kids).eval vars := by
  simp only [Tree.eval]
  symm
  apply Prog.runPure_congr_asked
  intro i hi
  rw [hsame i hi]

/-! ### the shipped symbol bodies only ask for arguments they have -/

/-- every shipped function / parametric terminal only asks for arguments below its arity, so the
    `Bounded` clause of `WF` holds for every genome built from the table -/
theorem table_bounded [FloatOps F] : ∀ e ∈ (table : List (Entry F)), e.body.Bounded e.arity := by
  intro e he
  simp only [table, List.mem_cons, List.not_mem_nil, or_false] at he
  rcases he with rfl | rfl | rfl | rfl | rfl | rfl | rfl | rfl | rfl | rfl | rfl | rfl | rfl | rfl | rfl | rfl | rfl | rfl | rfl | rfl | rfl | rfl | rfl | rfl | rfl | rfl | rfl | rfl | rfl | rfl | rfl | rfl | rfl | rfl | rfl | rfl | rfl | rfl
  · show (C13.Gen.absP : Prog F (Val F)).Bounded _; unfold C13.Gen.absP; bounded_steps
  · show (C13.Gen.addP : Prog F (Val F)).Bounded _; unfold C13.Gen.addP; bounded_steps
  · show (C13.Gen.aqP : Prog F (Val F)).Bounded _; unfold C13.Gen.aqP; bounded_steps
  · show (C13.Gen.cosP : Prog F (Val F)).Bounded _; unfold C13.Gen.cosP; bounded_steps
  · show (C13.Gen.divP : Prog F (Val F)).Bounded _; unfold C13.Gen.divP; bounded_steps
  · show (C13.Gen.gtP : Prog F (Val F)).Bounded _; unfold C13.Gen.gtP; bounded_steps
  · show (C13.Gen.idivP : Prog F (Val F)).Bounded _; unfold C13.Gen.idivP; bounded_steps
  · show (C13.Gen.ifbP : Prog F (Val F)).Bounded _; unfold C13.Gen.ifbP; bounded_steps
  · show (C13.Gen.ifeP : Prog F (Val F)).Bounded _; unfold C13.Gen.ifeP; bounded_steps
  · show (C13.Gen.iflP : Prog F (Val F)).Bounded _; unfold C13.Gen.iflP; bounded_steps
  · show (C13.Gen.ifzP : Prog F (Val F)).Bounded _; unfold C13.Gen.ifzP; bounded_steps
  · show (C13.Gen.lengthP : Prog F (Val F)).Bounded _; unfold C13.Gen.lengthP; bounded_steps
  · show (C13.Gen.lnP : Prog F (Val F)).Bounded _; unfold C13.Gen.lnP; bounded_steps
  · show (C13.Gen.ltP : Prog F (Val F)).Bounded _; unfold C13.Gen.ltP; bounded_steps
  · show (C13.Gen.maxP : Prog F (Val F)).Bounded _; unfold C13.Gen.maxP; bounded_steps
  · show (C13.Gen.modP : Prog F (Val F)).Bounded _; unfold C13.Gen.modP; bounded_steps
  · show (C13.Gen.mulP : Prog F (Val F)).Bounded _; unfold C13.Gen.mulP; bounded_steps
  · show (C13.Gen.sinP : Prog F (Val F)).Bounded _; unfold C13.Gen.sinP; bounded_steps
  · show (C13.Gen.sqrtP : Prog F (Val F)).Bounded _; unfold C13.Gen.sqrtP; bounded_steps
  · show (C13.Gen.subP : Prog F (Val F)).Bounded _; unfold C13.Gen.subP; bounded_steps
  · show (C13.Gen.sigmoidP : Prog F (Val F)).Bounded _; unfold C13.Gen.sigmoidP; bounded_steps
  · show (C13.Gen.realP : Prog F (Val F)).Bounded _; unfold C13.Gen.realP; bounded_steps
  · show (C13.Gen.sifeP : Prog F (Val F)).Bounded _; unfold C13.Gen.sifeP; bounded_steps
  · exact progOfE_bounded _ _ idx_add.1 idx_add.2
  · exact progOfE_bounded _ _ idx_sub.1 idx_sub.2
  · exact progOfE_bounded _ _ idx_mul.1 idx_mul.2
  · exact progOfE_bounded _ _ idx_div.1 idx_div.2
  · exact progOfE_bounded _ _ idx_mod.1 idx_mod.2
  · exact progOfE_bounded _ _ idx_shl.1 idx_shl.2
  · exact progOfE_bounded _ _ idx_ife.1 idx_ife.2
  · exact progOfE_bounded _ _ idx_ifl.1 idx_ifl.2
  · exact progOfE_bounded _ _ idx_ifz.1 idx_ifz.2
  · show (GenPrims.integer_numberP : Prog F (Val F)).Bounded _; unfold GenPrims.integer_numberP; bounded_steps
  · show (GenPrims.boolean_l_andP : Prog F (Val F)).Bounded _; unfold GenPrims.boolean_l_andP; bounded_steps
  · show (GenPrims.boolean_l_orP : Prog F (Val F)).Bounded _; unfold GenPrims.boolean_l_orP; bounded_steps
  · show (GenPrims.boolean_l_notP : Prog F (Val F)).Bounded _; unfold GenPrims.boolean_l_notP; bounded_steps
  · show (GenPrims.boolean_zeroP : Prog F (Val F)).Bounded _; unfold GenPrims.boolean_zeroP; bounded_steps
  · show (GenPrims.boolean_oneP : Prog F (Val F)).Bounded _; unfold GenPrims.boolean_oneP; bounded_steps

/-- `integer::number` (body generated from int.h): whatever the gene's parameter is – NaN, ±inf, beyond the
    `int` range (a parameter read by `i_mep::load`) – the body asks for nothing, never throws and returns an
    `int`: the saturation bounds when the parameter is at or beyond them, 0 for a NaN (`p ≠ p`), the
    truncation otherwise -/
theorem number_returns_int [FloatOps F] (argv : Nat → Option (Val F)) (p : F) (vars : Nat → Val F) :
    (GenPrims.integer_numberP : Prog F (Val F)).runPure argv p vars =
      some (.int (if FloatOps.le (FloatOps.ofInt 2147483647) p = true then 2147483647
                  else if FloatOps.le p (FloatOps.ofInt (-2147483648)) = true then -2147483648
                  else if FloatOps.eq p p = false then 0
                  else FloatOps.toInt p)) := by
  unfold GenPrims.integer_numberP
  simp only [Prog.runPure]
  repeat' split
  all_goals simp_all [Prog.runPure]

theorem varP_bounded [FloatOps F] (k n : Nat) : (varP k : Prog F (Val F)).Bounded n := by
  unfold varP GenPrims.variableP; bounded_steps

theorem constP_bounded [FloatOps F] (v : Val F) (n : Nat) : (constP v : Prog F (Val F)).Bounded n := by
  unfold constP GenPrims.constantP; bounded_steps

/-! ### the interpreter EXTRACTED from the current sources

`runG` / `run0G` / `penaltyG` (ModelG.lean) execute the terms that tools/translate_interp.py extracts from
interpreter.cc, core_interpreter.h, gp/src/interpreter.tcc, symbol.h/.cc, comp_penalty.h (GenInterp.lean)
with the semantics of Lang.lean.  `XS` = `cache_`, `ip_`, `example_`. -/

/-- the extracted `src_interpreter::run(ex)` IS the model's `run` (value and object state) -/
theorem gen_run_eq_model (g : Genome F) (ex : List (Val F)) (x : XS F) :
    runG g ex x = ((run g ex x.1).1, ((run g ex x.1).2, some ex)) :=
  runG_eq g ex x

/-- … and the extracted `interpreter<i_mep>::run()` is `run` on the empty example -/
theorem gen_run0_eq_model (g : Genome F) (x : XS F) :
    run0G g x = ((run g [] x.1).1, ((run g [] x.1).2, x.2)) :=
  run0G_eq g x

/-- THE PROPERTY for the code as extracted: from every state of the object (memo, `ip_`, `example_`
    left by anything before) `src_interpreter::run(ex)` returns the denotation of the program -/
theorem gen_interp_eq_denote (g : Genome F) (h : WF g) (x : XS F) (ex : List (Val F)) :
    (runG g ex x).1 = denote g ex g.best := by
  rw [runG_eq]; exact interp_eq_denote g h x.1 ex

theorem gen_interp0_eq_denote (g : Genome F) (h : WF g) (x : XS F) :
    (run0G g x).1 = denote g [] g.best := by
  rw [run0G_eq]; exact interp_eq_denote g h x.1 []

/-- the value is the recursive evaluation of the active expression tree -/
theorem gen_interp_eq_tree (g : Genome F) (h : WF g) (x : XS F) (ex : List (Val F)) :
    (runG g ex x).1 = (tree g g.best).eval (varOf ex) := by
  rw [gen_interp_eq_denote g h, denote_eq_tree]

/-- history independence of the extracted code: one object, any sequence of examples, any start state -/
theorem gen_run_history_indep (g : Genome F) (h : WF g) :
    ∀ (exs : List (List (Val F))) (x : XS F),
      (runManyG g x exs).1 = exs.map (fun ex => denote g ex g.best) := by
  intro exs
  induction exs with
  | nil => intro x; rfl
  | cons ex rest ih =>
    intro x
    simp only [runManyG, List.map_cons]
    rw [gen_interp_eq_denote g h x ex, ih]

/-- interleaving with runs of another program (of any shape) through the same object changes nothing -/
theorem gen_run_after_other_program (g g' : Genome F) (h : WF g) (x : XS F) (ex ex' : List (Val F)) :
    (runG g ex (runG g' ex' x).2).1 = denote g ex g.best :=
  gen_interp_eq_denote g h _ ex

/-- layout independence for the extracted code -/
theorem gen_layout_indep (g g' : Genome F) (h : WF g) (h' : WF g')
    (ht : tree g g.best = tree g' g'.best) (x x' : XS F) (ex : List (Val F)) :
    (runG g ex x).1 = (runG g' ex x').1 := by
  rw [gen_interp_eq_denote g h, gen_interp_eq_denote g' h', layout_indep g g' _ _ ht]

/-- intron independence for the extracted code -/
theorem gen_intron_indep (g g' : Genome F) (h : WF g) (h' : WF g') (hr : g'.rows = g.rows)
    (hb : g'.best = g.best) (hsame : ∀ m, Reach g g.best m → g'.gene m = g.gene m)
    (x x' : XS F) (ex : List (Val F)) : (runG g' ex x').1 = (runG g ex x).1 := by
  rw [gen_interp_eq_denote g h, gen_interp_eq_denote g' h', hb, intron_indep g g' hr g.best hsame]

/-- no access outside the genome matrix / beyond a gene's arguments by the extracted code -/
theorem gen_in_bounds (g : Genome F) (h : WF g) (x : XS F) (ex : List (Val F)) (hok : x.1.ok = true) :
    (runG g ex x).2.1.ok = true := by
  rw [runG_eq]; exact in_bounds g h x.1 ex hok

/-- a successful run leaves a sound memo, `ip_` at the start locus and `example_` at the example -/
theorem gen_run_restores (g : Genome F) (h : WF g) (x : XS F) (ex : List (Val F))
    (hne : (runG g ex x).1 ≠ none) :
    MemoOK g ex (runG g ex x).2.1.memo ∧ (runG g ex x).2.1.ip = g.best ∧ (runG g ex x).2.2 = some ex := by
  rw [runG_eq] at hne ⊢
  exact ⟨(run_restores g h x.1 ex hne).1, (run_restores g h x.1 ex hne).2, rfl⟩

/-- a team: each member, run on its own object (in whatever state), returns its own denotation -/
theorem team_members_eq_denote (gs : List (Genome F)) (h : ∀ g ∈ gs, WF g) :
    ∀ (xs : List (XS F)), xs.length = gs.length → ∀ ex : List (Val F),
      (teamRunG gs xs ex).map (·.1) = gs.map (fun g => denote g ex g.best) := by
  induction gs with
  | nil => intro xs _ ex; simp [teamRunG]
  | cons g gs ih =>
    intro xs hl ex
    cases xs with
    | nil => simp at hl
    | cons x xs =>
      simp only [teamRunG, List.zipWith_cons_cons, List.map_cons]
      rw [gen_interp_eq_denote g (h g (by simp)) x ex]
      have := ih (fun g' hg' => h g' (by simp [hg'])) xs (by simpa using hl) ex
      simp only [teamRunG] at this
      rw [this]

/-- … over any sequence of examples with the members' objects reused -/
theorem team_history_indep (gs : List (Genome F)) (h : ∀ g ∈ gs, WF g) :
    ∀ (exs : List (List (Val F))) (xs : List (XS F)), xs.length = gs.length →
      teamRunManyG gs xs exs = exs.map (fun ex => gs.map (fun g => denote g ex g.best)) := by
  intro exs
  induction exs with
  | nil => intro xs _; rfl
  | cons ex rest ih =>
    intro xs hl
    simp only [teamRunManyG, List.map_cons]
    rw [team_members_eq_denote gs h xs hl ex, ih]
    simp [teamRunG, hl]

/-- `gene::locus_of_argument` as extracted is the model's `Gene.locusOfArg` -/
theorem gen_locus_of_argument (gn : Gene F) (i : Nat) :
    (⟨GenInterp.locus_of_argument.1.eval gn i, GenInterp.locus_of_argument.2.eval gn i⟩ : Locus) =
      gn.locusOfArg i := rfl

/-- the constructors build what `St.init` / `XS.init` say: a memo of the genome's shape, `ip_` at the
    start locus, no example -/
theorem gen_ctor_shape :
    GenInterp.ctor = [("vita::core_interpreter", "()"), ("prg_", "ind"),
                      ("cache_", "(ind->size(), ind->categories())"), ("ip_", "ind->best()")] ∧
    GenInterp.src_ctor = [("interpreter<vita::i_mep>", "(prg)"), ("example_", "nullptr")] := by
  decide

/-! ### penalty() -/

/-- `penalty()` of either class, from every state: the penalty of the symbol at the start locus (0 unless
    it overrides `penalty_nvi`; the override is the four-term comparison penalty over the gene's argument
    indices); the memo and `example_` are untouched, `ip_` ends at the start locus; the ghost flag records
    exactly whether the start locus is inside the genome and an overriding symbol has four arguments -/
theorem penalty_spec (g : Genome F) (src : Bool) (pen : Locus → Bool) (x : XS F) :
    (penaltyG g src pen x).1 = some (penDenote g pen) ∧
    (penaltyG g src pen x).2.1.memo = x.1.memo ∧ (penaltyG g src pen x).2.1.ip = g.best ∧
    (penaltyG g src pen x).2.2 = x.2 ∧
    (penaltyG g src pen x).2.1.ok =
      (x.1.ok && decide (g.inB g.best) && (!pen g.best || decide (4 ≤ (g.gene g.best).args.length))) := by
  rcases x with ⟨s, e⟩
  rw [gen_penalty_eq]
  exact ⟨rfl, rfl, rfl, rfl, rfl⟩

/-- the penalty does not depend on the state of the object -/
theorem penalty_history_indep (g : Genome F) (src src' : Bool) (pen : Locus → Bool) (x y : XS F) :
    (penaltyG g src pen x).1 = (penaltyG g src' pen y).1 := by
  rw [(penalty_spec g src pen x).1, (penalty_spec g src' pen y).1]

/-- in bounds when every overriding symbol has (at least) four arguments -/
theorem penalty_in_bounds (g : Genome F) (h : WF g) (src : Bool) (pen : Locus → Bool) (x : XS F)
    (hp : pen g.best = true → 4 ≤ (g.gene g.best).args.length) (hok : x.1.ok = true) :
    (penaltyG g src pen x).2.1.ok = true := by
  rw [(penalty_spec g src pen x).2.2.2.2, hok]
  have hb : decide (g.inB g.best) = true := decide_eq_true h.best
  cases hpb : pen g.best with
  | false => simp [hb]
  | true => simp [hb, hp hpb]

/-- the documented range `{0, 1, 2}` -/
theorem penalty_le_two (g : Genome F) (pen : Locus → Bool) : penDenote g pen ≤ 2 := by
  unfold penDenote cmpPen
  split <;> (repeat' split) <;> omega

/-- a penalty query between two runs changes no answer, and a run changes no penalty -/
theorem run_after_penalty (g : Genome F) (h : WF g) (pen : Locus → Bool) (x : XS F) (ex : List (Val F)) :
    (runG g ex (penaltyG g true pen x).2).1 = denote g ex g.best :=
  gen_interp_eq_denote g h _ ex

theorem penalty_after_run (g : Genome F) (pen : Locus → Bool) (x : XS F) (ex : List (Val F)) :
    (penaltyG g true pen (runG g ex x).2).1 = some (penDenote g pen) :=
  (penalty_spec g true pen _).1

/-- every shipped primitive that overrides `penalty_nvi` (with the four-term comparison penalty) has four
    arguments: with `penalty_in_bounds`, `penalty()` never reads beyond a gene's arguments -/
theorem shipped_penalty_in_bounds :
    ∀ e ∈ GenInterp.shipped, e.2.2.2 = true → 4 ≤ e.2.2.1 := by
  decide

/-- every shipped primitive class (AST of real.h, int.h, bool.h, string.h) has a body of the same name and
    arity in the model's table -/
theorem shipped_covered :
    ∀ e ∈ GenInterp.shipped, (e.2.1, e.2.2.1) ∈ (table (F := C13.Toy)).map (fun t => (t.name, t.arity)) := by
  decide

/-! ### non-vacuity: a two-category DAG with a gene shared between two lazy paths is well formed,
    and on it the statements bite -/

theorem exampleG_wf : WF exampleG := by
  apply wf_of_check
  · decide
  · intro l hl
    obtain ⟨i, c⟩ := l
    have hi : i < 4 := hl.1
    have hc : c < 2 := hl.2
    have : i = 0 ∨ i = 1 ∨ i = 2 ∨ i = 3 := by omega
    have : c = 0 ∨ c = 1 := by omega
    rcases ‹i = 0 ∨ i = 1 ∨ i = 2 ∨ i = 3› with rfl | rfl | rfl | rfl <;>
      rcases ‹c = 0 ∨ c = 1› with rfl | rfl <;>
      simp only [exampleG, leaf, varP, constP, GenPrims.variableP, GenPrims.constantP, C13.Gen.iflP, C13.Gen.addP, C13.Gen.mulP] <;>
      bounded_steps
  · decide

example : ∃ g : Genome C13.Toy, WF g := ⟨exampleG, exampleG_wf⟩

/-- x0 = 1 < x1+x1 = 6: the "then" branch 2·2 is taken – from a fresh object … -/
example : (run exampleG [.dbl (some 1), .dbl (some 3)] (St.init exampleG)).1 = some (.dbl (some 4)) := by
  decide

/-- … and from an object whose memo is full of stale "valid" entries and whose `ip_` is elsewhere -/
example : (run exampleG [.dbl (some 1), .dbl (some 3)] staleSt).1 = some (.dbl (some 4)) := by
  decide

/-- x0 = 9 ≥ 6: the "else" branch hands back the shared constant itself -/
example : (run exampleG [.dbl (some 9), .dbl (some 3)] staleSt).1 = some (.dbl (some 2)) := by
  decide

/-- a missing feature is the undefined value and propagates -/
example : (run exampleG [.dbl (some 9)] staleSt).1 = some .void := by
  decide

/-- the same expression in another layout (5 rows, the constant duplicated, different introns) gives
    the same answers (an instance of `interp_layout_indep`, checked here by evaluation) -/
example : (run exampleG' [.dbl (some 1), .dbl (some 3)] staleSt).1 =
    (run exampleG [.dbl (some 1), .dbl (some 3)] (St.init exampleG)).1 := by
  decide

example : (run exampleG' [.dbl (some 9), .dbl (some 3)] (St.init exampleG')).1 =
    (run exampleG [.dbl (some 9), .dbl (some 3)] staleSt).1 := by
  decide

/-- one object, three examples in a row -/
example : (runMany exampleG staleSt [[.dbl (some 1), .dbl (some 3)], [.dbl (some 9), .dbl (some 3)], []]).1 =
    [some (.dbl (some 4)), some (.dbl (some 2)), some .void] := by
  decide


/-- the extracted interpreter on the example genome: fresh object, then rubbish-filled object -/
example : (runG exampleG [.dbl (some 1), .dbl (some 3)] (XS.init exampleG)).1 = some (.dbl (some 4)) := by
  rw [gen_run_eq_model]; decide

example : (runG exampleG [.dbl (some 9), .dbl (some 3)] (staleSt, some [.str "x"])).1 = some (.dbl (some 2)) := by
  rw [gen_run_eq_model]; decide

/-- the start gene of `exampleG` is FIFL [1,0] [2,0] [2,1] [3,1]: no constraint broken … -/
example : (penaltyG exampleG true (fun l => l == ⟨0, 1⟩) (staleSt, none)).1 = some 0 := by
  rw [(penalty_spec _ _ _ _).1]; decide

/-- … `exampleG'` compares [2,0] with [1,0] and hands back [1,1] or [4,1]: none either; a FIFL whose two
    branches are the same gene is penalised -/
example : cmpPen [1, 2, 3, 3] = 1 ∧ cmpPen [2, 2, 3, 3] = 2 ∧ cmpPen [1, 2, 3, 4] = 0 := by decide

example : ∃ (g : Genome C13.Toy) (pen : Locus → Bool), WF g ∧ pen g.best = true ∧
    4 ≤ (g.gene g.best).args.length :=
  ⟨exampleG, fun l => l == ⟨0, 1⟩, exampleG_wf, by decide, by decide⟩

end Vita.C01
