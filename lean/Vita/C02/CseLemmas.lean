/-
  C02 — the model function `cse` satisfies the step relation `CseStep`.

  Invariant of the double loop (rows descending, categories ascending), parametrised by the set
  `D` of loci already rewritten:
    * symbols / parameters / number of arguments never change;
    * loci outside `D` still hold their original gene;
    * every argument of a locus in `D` designates a strictly later row whose gene (in the
      argument's column) equals the gene the original argument designates;
    * every table entry (key, l) has `l ∈ D` and `key` = the current gene at `l`;
    * the gene of every locus in `D` is found in the table, at a row not before it.
-/
import Vita.C02.Lemmas
namespace Vita.C02

theorem foldl_range_inv {β} (P : Nat → β → Prop) (f : β → Nat → β) (n : Nat) (b : β)
    (h0 : P 0 b) (hs : ∀ k, k < n → ∀ b, P k b → P (k + 1) (f b k)) :
    P n ((List.range n).foldl f b) := by
  induction n with
  | zero => simpa using h0
  | succ n ih =>
    rw [List.range_succ, List.foldl_append]
    simp only [List.foldl_cons, List.foldl_nil]
    apply hs n (Nat.lt_succ_self n)
    exact ih (fun k hk b hb => hs k (Nat.lt_succ_of_lt hk) b hb)

theorem foldl_range_rev_inv {β} (P : Nat → β → Prop) (f : β → Nat → β) (n : Nat) (b : β)
    (h0 : P n b) (hs : ∀ k, k < n → ∀ b, P (k + 1) b → P k (f b k)) :
    P 0 ((List.range n).reverse.foldl f b) := by
  induction n generalizing b with
  | zero => simpa using h0
  | succ n ih =>
    rw [List.range_succ, List.reverse_append]
    simp only [List.reverse_cons, List.reverse_nil, List.nil_append, List.cons_append,
      List.foldl_cons]
    apply ih
    · exact hs n (Nat.lt_succ_self n) b h0
    · exact fun k hk b hb => hs k (Nat.lt_succ_of_lt hk) b hb

theorem getD_zipWith {α β γ} (f : α → β → γ) (as : List α) (bs : List β) (j : Nat)
    (da : α) (db : β) (dc : γ) (ha : j < as.length) (hb : j < bs.length) :
    (List.zipWith f as bs).getD j dc = f (as.getD j da) (bs.getD j db) := by
  have hl : j < (List.zipWith f as bs).length := by simp [List.length_zipWith]; omega
  rw [getD_eq_getElem' _ _ _ hl, getD_eq_getElem' _ _ _ ha, getD_eq_getElem' _ _ _ hb]
  simp [List.getElem_zipWith]

/-! ### the table -/

theorem cseFind_some {t : CseTable} {g : Gene} {l : Locus} (h : cseFind t g = some l) :
    (g, l) ∈ t := by
  unfold cseFind at h
  cases hf : t.find? (fun e => e.1 == g) with
  | none => simp [hf] at h
  | some e =>
    simp [hf] at h
    have h1 := List.find?_some hf
    have h2 := List.mem_of_find?_eq_some hf
    simp at h1
    have : e = (g, l) := by cases e; simp_all
    rw [← this]; exact h2

theorem cseFind_append_of_some {t : CseTable} {g : Gene} {l : Locus} (e : Gene × Locus)
    (h : cseFind t g = some l) : cseFind (t ++ [e]) g = some l := by
  unfold cseFind at h ⊢
  rw [List.find?_append]
  cases hf : t.find? (fun e => e.1 == g) with
  | none => simp [hf] at h
  | some e' => simpa [hf] using h

theorem cseFind_append_self {t : CseTable} {g : Gene} (l : Locus)
    (h : (cseFind t g).isSome = false) : cseFind (t ++ [(g, l)]) g = some l := by
  unfold cseFind at h ⊢
  rw [List.find?_append]
  cases hf : t.find? (fun e => e.1 == g) with
  | none => simp
  | some e' => simp [hf] at h

/-! ### the invariant -/

structure CseInv (pre : Ind) (D : Nat → Nat → Prop) (s : Ind × CseTable) : Prop where
  rows : s.1.rows = pre.rows
  cols : s.1.cols = pre.cols
  best : s.1.best = pre.best
  age : s.1.age = pre.age
  xover : s.1.xover = pre.xover
  same : ∀ r, r < pre.rows → ∀ k, k < pre.cols →
    (s.1.gene r k).sym = (pre.gene r k).sym ∧ (s.1.gene r k).par = (pre.gene r k).par ∧
    (s.1.gene r k).args.length = (pre.gene r k).args.length
  todo : ∀ r, r < pre.rows → ∀ k, k < pre.cols → ¬ D r k → s.1.gene r k = pre.gene r k
  done : ∀ r, r < pre.rows → ∀ k, k < pre.cols → D r k →
    ∀ j, j < (pre.gene r k).args.length →
      r < (s.1.gene r k).args.getD j 0 ∧ (s.1.gene r k).args.getD j 0 < pre.rows ∧
      s.1.gene ((s.1.gene r k).args.getD j 0) ((pre.gene r k).sym.argCats.getD j 0)
        = s.1.gene ((pre.gene r k).args.getD j 0) ((pre.gene r k).sym.argCats.getD j 0)
  table : ∀ e, e ∈ s.2 → e.2.idx < pre.rows ∧ e.2.cat < pre.cols ∧ D e.2.idx e.2.cat ∧
    s.1.gene e.2.idx e.2.cat = e.1
  found : ∀ r, r < pre.rows → ∀ k, k < pre.cols → D r k →
    ∃ l, cseFind s.2 (s.1.gene r k) = some l ∧ r ≤ l.idx

theorem CseInv.congr {pre : Ind} {D D' : Nat → Nat → Prop} {s : Ind × CseTable}
    (h : CseInv pre D s) (hd : ∀ r, r < pre.rows → ∀ k, k < pre.cols → (D r k ↔ D' r k)) :
    CseInv pre D' s where
  rows := h.rows
  cols := h.cols
  best := h.best
  age := h.age
  xover := h.xover
  same := h.same
  todo := fun r hr k hk hn => h.todo r hr k hk (fun hd' => hn ((hd r hr k hk).1 hd'))
  done := fun r hr k hk hd' => h.done r hr k hk ((hd r hr k hk).2 hd')
  table := fun e he =>
    let ⟨a, b, c, d⟩ := h.table e he
    ⟨a, b, (hd _ a _ b).1 c, d⟩
  found := fun r hr k hk hd' => h.found r hr k hk ((hd r hr k hk).2 hd')

theorem CseInv.init (pre : Ind) : CseInv pre (fun _ _ => False) (pre, []) where
  rows := rfl
  cols := rfl
  best := rfl
  age := rfl
  xover := rfl
  same := fun _ _ _ _ => ⟨rfl, rfl, rfl⟩
  todo := fun _ _ _ _ _ => rfl
  done := fun _ _ _ _ h => h.elim
  table := fun e he => by simp at he
  found := fun _ _ _ _ h => h.elim

/-- one cell of the double loop -/
theorem CseInv.cell {ss : SymSet} {pre : Ind} (hw : WF ss pre) (hp : pre.rows ≤ PACK)
    {D : Nat → Nat → Prop} {s : Ind × CseTable} (h : CseInv pre D s) {i c : Nat}
    (hi : i < pre.rows) (hc : c < pre.cols) (hnd : ¬ D i c)
    (hlater : ∀ r, r < pre.rows → ∀ k, k < pre.cols → i < r → D r k)
    (hge : ∀ r k, D r k → i ≤ r) :
    CseInv pre (fun r k => D r k ∨ (r = i ∧ k = c)) (cseCell i c s) := by
  -- the gene being rewritten is still the original one
  have hg0 : s.1.gene i c = pre.gene i c := h.todo i hi c hc hnd
  have hwg := hw.genes i hi c hc
  obtain ⟨_, _, hlen, hargs, hcats⟩ := hwg
  -- facts about every argument position
  have harg : ∀ j, j < (pre.gene i c).args.length →
      ∃ l, cseFind s.2 (s.1.gene ((pre.gene i c).args.getD j 0) ((pre.gene i c).sym.argCats.getD j 0))
          = some l ∧ i < l.idx ∧ l.idx < pre.rows ∧
        s.1.gene l.idx ((pre.gene i c).sym.argCats.getD j 0)
          = s.1.gene ((pre.gene i c).args.getD j 0) ((pre.gene i c).sym.argCats.getD j 0) := by
    intro j hj
    have hj' : j < (pre.gene i c).sym.argCats.length := by rw [← Sym.arity, ← hlen]; exact hj
    have ha := hargs _ (getD_mem_of_lt _ j 0 hj)
    have hk := hcats _ (getD_mem_of_lt _ j 0 hj')
    obtain ⟨l, hl, hle⟩ := h.found _ ha.2 _ hk (hlater _ ha.2 _ hk ha.1)
    have hmem := cseFind_some hl
    obtain ⟨t1, t2, _, t4⟩ := h.table _ hmem
    simp only at t1 t2 t4
    refine ⟨l, hl, by omega, t1, ?_⟩
    -- the entry sits in the argument's column: categories are a per-column discipline
    have hcatl : l.cat = (pre.gene i c).sym.argCats.getD j 0 := by
      have e1 := (h.same l.idx t1 l.cat t2).1
      have e2 := (h.same _ ha.2 _ hk).1
      have c1 := (hw.genes l.idx t1 l.cat t2).2.1
      have c2 := (hw.genes _ ha.2 _ hk).2.1
      rw [← e1, t4, e2] at c1
      omega
    rw [hcatl] at t4; exact t4
  -- the rewritten argument list
  have hzip : ∀ j, j < (pre.gene i c).args.length →
      (List.zipWith
        (fun a ac => match cseFind s.2 (s.1.gene a ac) with
                     | none => a
                     | some l => l.idx % PACK) (s.1.gene i c).args (s.1.gene i c).sym.argCats).getD j 0
      = (match cseFind s.2 (s.1.gene ((pre.gene i c).args.getD j 0)
            ((pre.gene i c).sym.argCats.getD j 0)) with
         | none => (pre.gene i c).args.getD j 0
         | some l => l.idx % PACK) := by
    intro j hj
    have hj' : j < (pre.gene i c).sym.argCats.length := by rw [← Sym.arity, ← hlen]; exact hj
    rw [hg0]
    exact getD_zipWith _ _ _ j 0 0 0 hj hj'
  have hzlen : (List.zipWith
        (fun a ac => match cseFind s.2 (s.1.gene a ac) with
                     | none => a
                     | some l => l.idx % PACK) (s.1.gene i c).args (s.1.gene i c).sym.argCats).length
      = (pre.gene i c).args.length := by
    rw [hg0, List.length_zipWith, hlen, Sym.arity]; simp
  -- name the pieces of `cseCell`
  unfold cseCell
  simp only
  generalize hA : List.zipWith
        (fun a ac => match cseFind s.2 (s.1.gene a ac) with
                     | none => a
                     | some l => l.idx % PACK) (s.1.gene i c).args (s.1.gene i c).sym.argCats = args' at *
  have hnew : ∀ j, j < (pre.gene i c).args.length →
      i < args'.getD j 0 ∧ args'.getD j 0 < pre.rows ∧
      s.1.gene (args'.getD j 0) ((pre.gene i c).sym.argCats.getD j 0)
        = s.1.gene ((pre.gene i c).args.getD j 0) ((pre.gene i c).sym.argCats.getD j 0) := by
    intro j hj
    obtain ⟨l, hl, h1, h2, h3⟩ := harg j hj
    have := hzip j hj
    rw [hl] at this
    simp only at this
    rw [this, Nat.mod_eq_of_lt (by omega)]
    exact ⟨h1, h2, h3⟩
  -- other loci keep their gene under the update at (i, c)
  have hkeep : ∀ r k, ¬ (r = i ∧ k = c) →
      (setGene s.1 i c { s.1.gene i c with args := args' }).gene r k = s.1.gene r k := by
    intro r k hne
    rw [setGene_gene]; simp [hne]
  have hself : (setGene s.1 i c { s.1.gene i c with args := args' }).gene i c
      = { s.1.gene i c with args := args' } := by
    rw [setGene_gene]; simp
  refine
    { rows := h.rows, cols := h.cols, best := h.best, age := h.age, xover := h.xover,
      same := ?_, todo := ?_, done := ?_, table := ?_, found := ?_ }
  · intro r hr k hk
    by_cases hrc : r = i ∧ k = c
    · obtain ⟨rfl, rfl⟩ := hrc
      show ((setGene s.1 r k _).gene r k).sym = _ ∧ _
      rw [hself]
      simp only
      rw [hg0]
      exact ⟨rfl, rfl, hzlen⟩
    · show ((setGene s.1 i c _).gene r k).sym = _ ∧ _
      rw [hkeep r k hrc]; exact h.same r hr k hk
  · intro r hr k hk hn
    have hrc : ¬ (r = i ∧ k = c) := fun hh => hn (Or.inr hh)
    show (setGene s.1 i c _).gene r k = _
    rw [hkeep r k hrc]
    exact h.todo r hr k hk (fun hd => hn (Or.inl hd))
  · intro r hr k hk hd j hj
    -- loci designated by arguments live in rows > r ≥ i: they are not the updated locus
    have hne : ∀ a b, i < a → ¬ (a = i ∧ b = c) := fun a b ha hh => by omega
    by_cases hrc : r = i ∧ k = c
    · obtain ⟨rfl, rfl⟩ := hrc
      show r < ((setGene s.1 r k _).gene r k).args.getD j 0 ∧ _
      rw [hself]
      simp only
      obtain ⟨n1, n2, n3⟩ := hnew j hj
      have hj' : j < (pre.gene r k).sym.argCats.length := by rw [← Sym.arity, ← hlen]; exact hj
      have ha := hargs _ (getD_mem_of_lt _ j 0 hj)
      refine ⟨n1, n2, ?_⟩
      rw [hkeep _ _ (hne _ _ n1), hkeep _ _ (hne _ _ ha.1)]
      exact n3
    · have hd' : D r k := by
        rcases hd with hd | hd
        · exact hd
        · exact absurd hd hrc
      have hir : i ≤ r := hge r k hd'
      obtain ⟨d1, d2, d3⟩ := h.done r hr k hk hd' j hj
      have hj' : j < (pre.gene r k).sym.argCats.length := by
        have := (hw.genes r hr k hk).2.2.1
        rw [← Sym.arity, ← this]; exact hj
      have ha := (hw.genes r hr k hk).2.2.2.1 _ (getD_mem_of_lt _ j 0 hj)
      show r < ((setGene s.1 i c _).gene r k).args.getD j 0 ∧ _
      rw [hkeep r k hrc]
      refine ⟨d1, d2, ?_⟩
      rw [hkeep _ _ (hne _ _ (by omega)), hkeep _ _ (hne _ _ (by omega))]
      exact d3
  · -- table entries
    intro e he
    have hold : ∀ e, e ∈ s.2 → e.2.idx < pre.rows ∧ e.2.cat < pre.cols ∧
        (D e.2.idx e.2.cat ∨ (e.2.idx = i ∧ e.2.cat = c)) ∧
        (setGene s.1 i c { s.1.gene i c with args := args' }).gene e.2.idx e.2.cat = e.1 := by
      intro e he
      obtain ⟨t1, t2, t3, t4⟩ := h.table e he
      have hrc : ¬ (e.2.idx = i ∧ e.2.cat = c) := fun hh => hnd (by rw [← hh.1, ← hh.2]; exact t3)
      exact ⟨t1, t2, Or.inl t3, by rw [hkeep _ _ hrc]; exact t4⟩
    split at he
    · exact hold e he
    · simp only [List.mem_append, List.mem_singleton] at he
      rcases he with he | he
      · exact hold e he
      · subst he
        exact ⟨hi, hc, Or.inr ⟨rfl, rfl⟩, hself⟩
  · intro r hr k hk hd
    by_cases hrc : r = i ∧ k = c
    · obtain ⟨rfl, rfl⟩ := hrc
      show ∃ l, cseFind _ ((setGene s.1 r k _).gene r k) = some l ∧ _
      rw [hself]
      split
      · rename_i hsome
        cases hf : cseFind s.2 { s.1.gene r k with args := args' } with
        | none => simp [hf] at hsome
        | some l =>
          refine ⟨l, rfl, ?_⟩
          obtain ⟨_, _, t3, _⟩ := h.table _ (cseFind_some hf)
          exact hge _ _ t3
      · rename_i hnone
        refine ⟨⟨r, k⟩, cseFind_append_self _ (by simpa using hnone), Nat.le_refl _⟩
    · have hd' : D r k := by
        rcases hd with hd | hd
        · exact hd
        · exact absurd hd hrc
      obtain ⟨l, hl, hle⟩ := h.found r hr k hk hd'
      show ∃ l, cseFind _ ((setGene s.1 i c _).gene r k) = some l ∧ _
      rw [hkeep r k hrc]
      split
      · exact ⟨l, hl, hle⟩
      · exact ⟨l, cseFind_append_of_some _ hl, hle⟩

theorem CseInv.row {ss : SymSet} {pre : Ind} (hw : WF ss pre) (hp : pre.rows ≤ PACK)
    {s : Ind × CseTable} {i : Nat} (hi : i < pre.rows)
    (h : CseInv pre (fun r _ => i < r) s) :
    CseInv pre (fun r _ => i ≤ r) (cseRow pre.cols s i) := by
  unfold cseRow
  have := foldl_range_inv
    (P := fun c s => CseInv pre (fun r k => i < r ∨ (r = i ∧ k < c)) s)
    (f := fun s c => cseCell i c s) pre.cols s
    (h.congr (fun r _ k _ => by simp))
    (by
      intro c hc s hs
      have := CseInv.cell hw hp hs hi hc (by omega) (fun r _ k _ hr => Or.inl hr)
        (fun r k hd => by omega)
      exact this.congr (fun r _ k _ => by
        constructor
        · rintro (h1 | h1)
          · rcases h1 with h1 | h1
            · exact Or.inl h1
            · exact Or.inr ⟨h1.1, by omega⟩
          · exact Or.inr ⟨h1.1, by omega⟩
        · rintro (h1 | h1)
          · exact Or.inl (Or.inl h1)
          · by_cases hk : k = c
            · exact Or.inr ⟨h1.1, hk⟩
            · exact Or.inl (Or.inr ⟨h1.1, by omega⟩)))
  exact this.congr (fun r _ k hk => by
    constructor
    · rintro (h1 | h1) <;> omega
    · intro h1
      by_cases hr : i < r
      · exact Or.inl hr
      · exact Or.inr ⟨by omega, hk⟩)

theorem cse_inv {ss : SymSet} {x : Ind} (hw : WF ss x) (hp : x.rows ≤ PACK) :
    CseInv x (fun _ _ => True) ((List.range x.rows).reverse.foldl (cseRow x.cols) (x, [])) := by
  have := foldl_range_rev_inv
    (P := fun k s => CseInv x (fun r _ => k ≤ r) s) (f := cseRow x.cols) x.rows (x, [])
    ((CseInv.init x).congr (fun r hr k _ => by simp; omega))
    (by
      intro k hk s hs
      exact CseInv.row hw hp hk (hs.congr (fun r _ _ _ => by omega)))
  exact this.congr (fun r _ k _ => by simp)

end Vita.C02
