/-
  C02 line-protocol driver.

    ss <id> <cats> <nsyms> { <opcode> <cat> <parametric> <weight> <arity> <argcat>* }
    IND := <rows> <cols> <best_i> <best_c> <age> <xover> { <opcode> <par> <nargs> <arg>* }^(rows*cols)
    random    <ss> <pl> IND                                   (env.code_length = rows of IND)
    mutation  <ss> <env code_length> <env patch_length> <zero?> IND(pre) IND(post) <n>
              the environment is the one of the problem handed to `mutation`; it need not fit the
              operand (the relation `MutStep` reads its patch length only)
    crossover <ss> IND(lhs) IND(rhs) IND(post)
    getblock  <ss> <i> <c> IND(pre) IND(post)
    replace   <ss> <i> <c> IND(pre) IND(post)
    destroy   <ss> <idx> IND(pre) IND(post)
    cse       <ss> IND(pre) IND(post)
    incage    <ss> IND(pre) IND(post)
    trandom   <ss> <pl> <k> IND^k                             (env.team.individuals = k)
    tmutation <ss> <env code_length> <env patch_length> <zero?> <k> IND^k(pre) IND^k(post) <n>
    tcrossover <ss> <k> IND^k(lhs) IND^k(rhs) IND^k(post)
    tincage   <ss> <k> IND^k(pre) IND^k(post)
    tmembers  <ss> <k> IND^k(given) IND^k(post)          team(std::vector<i_mep>)

  answer: `ok`  |  `fail <failed checks…>`  |  `bad-op <why>`
  The checks are the decidable relations of Vita.C02.Model (`WF`, `…Step`) – the very
  predicates the theorems of Vita.C02.Props are about.
-/
import Vita.C02.Model
open Vita.C02

abbrev PM := ReaderT (Array String) (StateT Nat (Except String))

def nextTok : PM String := do
  let toks ← read
  let p ← get
  match toks[p]? with
  | none => throw "eof"
  | some t => set (p + 1); pure t

def nextNat : PM Nat := do
  let t ← nextTok
  match t.toNat? with
  | none => throw s!"nat:{t}"
  | some n => pure n

def atEnd : PM Bool := do
  let toks ← read
  let p ← get
  pure (p ≥ toks.size)

def repN {α} (n : Nat) (m : PM α) : PM (Array α) := do
  let mut out := Array.mkEmpty n
  for _ in [0:n] do
    out := out.push (← m)
  pure out

def parseSym : PM Sym := do
  let opcode ← nextNat
  let cat ← nextNat
  let par ← nextNat
  let weight ← nextNat
  let arity ← nextNat
  let ac ← repN arity nextNat
  pure { opcode, cat, argCats := ac.toList, parametric := par != 0, weight }

def parseSS : PM (Nat × SymSet) := do
  let id ← nextNat
  let cats ← nextNat
  let n ← nextNat
  let syms ← repN n parseSym
  pure (id, { cats, syms := syms.toList })

def parseGene (ss : SymSet) : PM Gene := do
  let op ← nextNat
  let par ← nextNat
  let n ← nextNat
  let args ← repN n nextNat
  match ss.syms.find? (fun s => s.opcode == op) with
  | none => throw s!"unknown-opcode:{op}"
  | some s => pure { sym := s, par, args := args.toList }

def parseInd (ss : SymSet) : PM Ind := do
  let rows ← nextNat
  let cols ← nextNat
  let bi ← nextNat
  let bc ← nextNat
  let age ← nextNat
  let xo ← nextNat
  if rows * cols > 1000000 then throw "too-big"
  let genes ← repN (rows * cols) (parseGene ss)
  pure { rows, cols, gene := fun i c => if c < cols then genes.getD (i * cols + c) default else default,
         best := ⟨bi, bc⟩, age, xover := xo }

/-- first violated clause of `WF`, for the replay file -/
def wfWhy (ss : SymSet) (x : Ind) : String := Id.run do
  if x.rows = 0 then return "rows=0"
  if x.cols ≠ ss.cats then return "cols≠categories"
  if ¬ (x.best.idx < x.rows ∧ x.best.cat < x.cols) then return "best-outside"
  for i in [0:x.rows] do
    for c in [0:x.cols] do
      let g := x.gene i c
      if ¬ (g.sym ∈ ss.syms) then return s!"[{i},{c}]:symbol-not-in-set"
      if g.sym.cat ≠ c then return s!"[{i},{c}]:category-{g.sym.cat}-in-column-{c}"
      if g.args.length ≠ g.sym.arity then return s!"[{i},{c}]:arity-{g.sym.arity}-args-{g.args.length}"
      for a in g.args do
        if ¬ (i < a ∧ a < x.rows) then return s!"[{i},{c}]:arg-{a}-not-in-({i},{x.rows})"
      for k in g.sym.argCats do
        if ¬ (k < x.cols) then return s!"[{i},{c}]:arg-category-{k}"
  for c in [0:x.cols] do
    if ¬ (x.gene (x.rows - 1) c).sym.terminal then return s!"last-row-function-in-column-{c}"
  return "?"

def chk (name : String) (b : Bool) (acc : List String) : List String := if b then acc else acc ++ [name]

def chkWF (name : String) (ss : SymSet) (x : Ind) (acc : List String) : List String :=
  if WFb ss x then acc else acc ++ [s!"{name}({wfWhy ss x})"]

def verdict (fails : List String) : String :=
  if fails.isEmpty then "ok" else "fail " ++ " ".intercalate fails

def sumChanged (pre post : Array Ind) : Nat := Id.run do
  let mut n := 0
  for k in [0:pre.size] do
    n := n + (changedLoci (pre.getD k teamMutation.default_ind) (post.getD k teamMutation.default_ind)).length
  return n

def runOp (tbl : List (Nat × SymSet)) (op : String) : PM String := do
  let id ← nextNat
  let some ss := tbl.lookup id | throw s!"unknown-symbol-set:{id}"
  let finish (fails : List String) : PM String := do
    if !(← atEnd) then throw "trailing-tokens"
    pure (verdict fails)
  match op with
  | "random" =>
    let pl ← nextNat
    let post ← parseInd ss
    finish (chkWF "wf-post" ss post (chk "step" (decide (RandomStep ss ⟨post.rows, pl, 1⟩ post)) []))
  | "mutation" =>
    let cl ← nextNat
    let pl ← nextNat
    let env : MepEnv := ⟨cl, pl, 1⟩
    let isZero ← nextNat
    let pre ← parseInd ss
    let post ← parseInd ss
    let n ← nextNat
    let f := chkWF "wf-pre" ss pre []
    let f := chk "step" (mutStepStrongB ss env pre post n) f
    let f := if isZero != 0 then chk "zero-id" (decide (SameGenes pre post) && n == 0) f else f
    finish (chkWF "wf-post" ss post f)
  | "crossover" =>
    let lhs ← parseInd ss
    let rhs ← parseInd ss
    let post ← parseInd ss
    let f := chkWF "wf-lhs" ss lhs []
    let f := chkWF "wf-rhs" ss rhs f
    let f := chk "same-size" (decide (rhs.rows = lhs.rows ∧ rhs.cols = lhs.cols)) f
    let f := chk "step" (crossStepB lhs rhs post) f
    finish (chkWF "wf-post" ss post f)
  | "getblock" =>
    let i ← nextNat
    let c ← nextNat
    let pre ← parseInd ss
    let post ← parseInd ss
    let f := chkWF "wf-pre" ss pre []
    let f := chk "locus-inside" (decide (Inside pre ⟨i, c⟩)) f
    let f := chk "step" (decide (GetBlockStep pre ⟨i, c⟩ post)) f
    finish (chkWF "wf-post" ss post f)
  | "replace" =>
    let i ← nextNat
    let c ← nextNat
    let pre ← parseInd ss
    let post ← parseInd ss
    let g := post.gene i c
    let f := chkWF "wf-pre" ss pre []
    let f := chk "compatible" (decide (Compatible ss pre ⟨i, c⟩ g)) f
    let f := chk "step" (decide (ReplaceStep pre ⟨i, c⟩ g post)) f
    finish (chkWF "wf-post" ss post f)
  | "destroy" =>
    let idx ← nextNat
    let pre ← parseInd ss
    let post ← parseInd ss
    let f := chkWF "wf-pre" ss pre []
    let f := chk "index-inside" (decide (idx < pre.rows)) f
    let f := chk "step" (decide (DestroyStep ss pre idx post)) f
    finish (chkWF "wf-post" ss post f)
  | "incage" =>
    let pre ← parseInd ss
    let post ← parseInd ss
    let f := chkWF "wf-pre" ss pre []
    let f := chk "step" (decide (IncAgeStep pre post)) f
    finish (chkWF "wf-post" ss post f)
  | "cse" =>
    let pre ← parseInd ss
    let post ← parseInd ss
    let f := chkWF "wf-pre" ss pre []
    let f := chk "step" (decide (CseStep pre post)) f
    finish (chkWF "wf-post" ss post f)
  | "trandom" =>
    let pl ← nextNat
    let k ← nextNat
    let post ← repN k (parseInd ss)
    let rows := (post.getD 0 teamMutation.default_ind).rows
    let f := chk "step" (decide (TeamRandomStep ss ⟨rows, pl, k⟩ post.toList)) []
    finish (post.foldl (fun f x => chkWF "wf-post" ss x f) f)
  | "tmutation" =>
    let cl ← nextNat
    let pl ← nextNat
    let env : MepEnv := ⟨cl, pl, 1⟩
    let isZero ← nextNat
    let k ← nextNat
    let pre ← repN k (parseInd ss)
    let post ← repN k (parseInd ss)
    let n ← nextNat
    let f := pre.foldl (fun f x => chkWF "wf-pre" ss x f) []
    let f := chk "step" (decide (TeamMutStep ss env pre.toList post.toList)) f
    let f := chk "exons-only" ((List.range k).all (fun j =>
      let a := pre.getD j teamMutation.default_ind
      let b := post.getD j teamMutation.default_ind
      mutStepStrongB ss env a b (changedLoci a b).length)) f
    let f := chk "count" (sumChanged pre post == n) f
    let f := if isZero != 0 then chk "zero-id" (n == 0 && sumChanged pre post == 0) f else f
    finish (post.foldl (fun f x => chkWF "wf-post" ss x f) f)
  | "tcrossover" =>
    let k ← nextNat
    let lhs ← repN k (parseInd ss)
    let rhs ← repN k (parseInd ss)
    let post ← repN k (parseInd ss)
    let f := lhs.foldl (fun f x => chkWF "wf-lhs" ss x f) []
    let f := rhs.foldl (fun f x => chkWF "wf-rhs" ss x f) f
    let f := chk "step" (decide (post.size = lhs.size) && (List.range k).all (fun j =>
      crossStepB (lhs.getD j teamMutation.default_ind) (rhs.getD j teamMutation.default_ind)
        (post.getD j teamMutation.default_ind))) f
    finish (post.foldl (fun f x => chkWF "wf-post" ss x f) f)
  | "tincage" =>
    let k ← nextNat
    let pre ← repN k (parseInd ss)
    let post ← repN k (parseInd ss)
    let f := pre.foldl (fun f x => chkWF "wf-pre" ss x f) []
    let f := chk "step" (decide (TeamIncAgeStep pre.toList post.toList)) f
    finish (post.foldl (fun f x => chkWF "wf-post" ss x f) f)
  | "tmembers" =>
    let k ← nextNat
    let pre ← repN k (parseInd ss)
    let post ← repN k (parseInd ss)
    let f := pre.foldl (fun f x => chkWF "wf-pre" ss x f) []
    let f := chk "step" (decide (TeamOfMembersStep pre.toList post.toList)) f
    finish (post.foldl (fun f x => chkWF "wf-post" ss x f) f)
  | _ => throw "unknown-op"

def answer (tbl : List (Nat × SymSet)) (line : String) : String × List (Nat × SymSet) :=
  let toks := ((line.trimAscii.toString.splitOn " ").filter (· ≠ "")).toArray
  match toks[0]? with
  | none => ("bad-op empty", tbl)
  | some "ss" =>
    match (parseSS.run toks).run 1 with
    | .ok (r, _) => (s!"ok ss {r.1} {r.2.syms.length}", (r.1, r.2) :: tbl)
    | .error e => ("bad-op " ++ e, tbl)
  | some op =>
    match ((runOp tbl op).run toks).run 1 with
    | .ok (r, _) => (r, tbl)
    | .error e => ("bad-op " ++ e, tbl)

partial def loop (h : IO.FS.Stream) (out : IO.FS.Stream) (tbl : List (Nat × SymSet)) : IO Unit := do
  let line ← h.getLine
  if line.isEmpty then return ()
  let (a, tbl') := answer tbl line
  out.putStrLn a
  loop h out tbl'

def main : IO Unit := do
  loop (← IO.getStdin) (← IO.getStdout) []
