/-
  C02 — environments used to read the generated tables (Vita/C02/Gen.lean) at a genome cell.
  The theorems about the tables are in Props.lean (`gen_*`).
-/
import Vita.C02.Gen
import Vita.C02.Lemmas
namespace Vita.C02
open Vita.IntE GenSem

/-- construction / mutation / destroy_block: cell `(i, c)` of a `rows × cats` genome, patch length
    `pl`, first integer parameter `p0` (destroy_block: `index`) -/
def cellEnv (rows pl cats i c : Nat) (p0 : Nat := 0) : Env :=
  ({ rows := rows, patch := pl, cats := cats, i := i, c := c, p0 := p0 } : Vars).env

/-- crossover: cell `(i, c)`, the integers drawn so far are `d0`, `d1` -/
def xEnv (rows cats : Nat) (d0 d1 : Int) (i c : Nat) : Env :=
  ({ rows := rows, cats := cats, i := i, c := c, d0 := d0, d1 := d1 } : Vars).env

/-- gene(s, from, sup) -/
def geneEnv (lo sup : Nat) : Env := ({ p0 := lo, p1 := sup } : Vars).env

/-- team loops: `n` members, member index `k` -/
def teamEnv (n k : Nat) : Env := ({ n := n, k := k } : Vars).env

end Vita.C02
