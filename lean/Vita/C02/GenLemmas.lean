/-
  C02 — environments used to read the generated tables (Vita/C02/Gen.lean) at a genome cell.
  The theorems about the tables are in Props.lean (`gen_*`).
-/
import Vita.C02.Gen
import Vita.C02.Lemmas
namespace Vita.C02
open Vita.IntE GenSem

/-- mutation / destroy_block: cell `(i, c)` of an individual with `rows × cats` genes – ITS OWN
    geometry – handled under the environment `env` of the problem passed to the operator (whose
    `code_length` need not be `rows`); first integer parameter `p0` (destroy_block: `index`) -/
def cellEnv (rows : Nat) (env : MepEnv) (cats i c : Nat) (p0 : Nat := 0) : Env :=
  ({ rows := rows, patch := env.patchLength, cats := cats, i := i, c := c, p0 := p0,
     codeLen := env.codeLength, ssCats := cats } : Vars).env

/-- `i_mep(problem)`: the genome is built as `genome_(dims.1, dims.2)` from the fields of the problem
    (`Gen.ctorDims`); inside the body `size()` / `categories()` are the dimensions just built -/
def ctorEnv (env : MepEnv) (sscats i c : Nat) : Env :=
  let ρ0 := ({ patch := env.patchLength, codeLen := env.codeLength, ssCats := sscats } : Vars).env
  ({ rows := evalZ ρ0 Gen.ctorDims.1, cats := evalZ ρ0 Gen.ctorDims.2, patch := env.patchLength,
     i := i, c := c, codeLen := env.codeLength, ssCats := sscats } : Vars).env

/-- crossover: cell `(i, c)`, the integers drawn so far are `d0`, `d1` -/
def xEnv (rows cats : Nat) (d0 d1 : Int) (i c : Nat) : Env :=
  ({ rows := rows, cats := cats, i := i, c := c, d0 := d0, d1 := d1 } : Vars).env

/-- gene(s, from, sup) -/
def geneEnv (lo sup : Nat) : Env := ({ p0 := lo, p1 := sup } : Vars).env

/-- team loops: `n` members (`team(problem)`: `env.team.individuals`; `crossover(team, team)`:
    `lhs.individuals()`), member index `k` -/
def teamEnv (n k : Nat) : Env := ({ n := n, k := k } : Vars).env

end Vita.C02
