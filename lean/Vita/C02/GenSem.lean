/-
  C02 — meaning of the tables that tools/translate_mep_ops.py extracts from the clang AST of
  i_mep.cc / gene.tcc / team.tcc (Vita/C02/Gen.lean, generated).

  The translator produces SYNTAX only: integer expressions (`E` of Vita/Common/IntE.lean) for loop
  bounds, draw ranges and index expressions, and small records saying which cell is written from
  what.  Here is what those records mean; Props.lean (`gen_*`) proves, from the generated values,
  that they denote the operators of Model.lean and the range facts the well-formedness proofs use.
-/
import Vita.Common.IntE
import Vita.C02.Model

namespace Vita.C02.GenSem
open Vita.IntE Vita.C02

/-! ## Variable numbering (shared with the translator) -/

/-- the integer variables an extracted expression may mention -/
structure Vars where
  rows : Int := 0     -- 0: size() of the INDIVIDUAL (`i_sup`, `i_size`) – its own geometry
  patch : Int := 0    -- 1: env.mep.patch_length of the problem handed to the operator
  cats : Int := 0     -- 2: categories() of the INDIVIDUAL (`c_sup`)
  i : Int := 0        -- 3: row of the cell being written (row loop variable / iterator locus)
  c : Int := 0        -- 4: its column
  d0 : Int := 0       -- 5: first integer drawn in the block (one point: cut; two points: cut1)
  d1 : Int := 0       -- 6: second integer drawn (two points: cut2)
  p0 : Int := 0       -- 7: first integer parameter (destroy_block: index; gene(s, from, sup): from)
  p1 : Int := 0       -- 8: second integer parameter (gene(s, from, sup): sup)
  n : Int := 0        -- 9: team: number of members
  k : Int := 0        -- 10: team: member index
  codeLen : Int := 0  -- 11: env.mep.code_length of the problem handed to the operator
  ssCats : Int := 0   -- 12: sset.categories() of the problem handed to the operator

def Vars.env (x : Vars) : Env :=
  { v := fun j => match j with
      | 0 => x.rows | 1 => x.patch | 2 => x.cats | 3 => x.i | 4 => x.c | 5 => x.d0 | 6 => x.d1
      | 7 => x.p0 | 8 => x.p1 | 9 => x.n | 10 => x.k | 11 => x.codeLen | 12 => x.ssCats | _ => 0
    a := fun _ => 0 }

def isVar : E → Nat → Bool
  | .var j, k => j == k
  | _, _ => false

/-! ## Records -/

/-- what is assigned to a genome cell -/
inductive Src
  | roulette (cat lo sup : E)     -- gene(sset.roulette(cat), lo, sup)
  | terminal (cat : E)            -- gene(sset.roulette_terminal(cat))
  | copy (row col : E)            -- from[{row, col}]
  | cond (c : E) (a b : Src)      -- c ? a : b

/-- `for (v = lo; v < hi; ++v)` (`ne`: the test is `v != hi`) -/
structure Range where
  lo : E
  hi : E
  ne : Bool

/-- one assignment `genome_(row, col) = src` with its enclosing loops; when there is a row
    (column) loop its variable is `.var 3` (`.var 4`) and IS the target row (column) -/
structure Write where
  rows : Option Range
  cols : Option Range
  row : E
  col : E
  src : Src
  coin : Bool           -- executed only when `random::boolean()` holds

/-- `v = cond ? between(lo, sup) : other` / `between(lo, sup)` / `sup(sup)` -/
structure Draw where
  cond : Option E
  lo : E
  sup : E
  other : Option E
  isSup : Bool

structure XBlock where
  draws : List Draw
  writes : List Write

structure GeneArgs where
  count : String
  lo : E
  sup : E
  bits : Nat

structure TeamLoop where
  range : Range
  op : String
  n : String

/-! ## Meaning -/

def Range.has (ρ : Env) (r : Range) (v : Int) : Prop := evalZ ρ r.lo ≤ v ∧ v < evalZ ρ r.hi

instance (ρ r v) : Decidable (Range.has ρ r v) := by unfold Range.has; infer_instance

def orange (ρ : Env) : Option Range → Int → Prop
  | none, _ => True
  | some r, v => r.has ρ v

instance (ρ o v) : Decidable (orange ρ o v) := by cases o <;> unfold orange <;> infer_instance

/-- a `!=` loop terminates (and covers `[lo, hi)`) only when it starts at or below its bound -/
def Range.sane (ρ : Env) (r : Range) : Prop := r.ne = true → evalZ ρ r.lo ≤ evalZ ρ r.hi

def Write.sane (ρ : Env) (w : Write) : Prop :=
  (match w.rows with | some r => r.sane ρ | none => True) ∧
  (match w.cols with | some r => r.sane ρ | none => True)

/-- syntactic sanity of a write: loop variables are the coordinates of the target -/
def Write.ok (w : Write) : Bool :=
  (w.rows.isNone || isVar w.row 3) && (w.cols.isNone || isVar w.col 4)

/-- the write reaches cell `(i, c)`; `ρ` binds variable 3 to `i` and variable 4 to `c` -/
def Write.covers (w : Write) (ρ : Env) (i c : Int) : Prop :=
  orange ρ w.rows i ∧ orange ρ w.cols c ∧ evalZ ρ w.row = i ∧ evalZ ρ w.col = c

instance (w ρ i c) : Decidable (Write.covers w ρ i c) := by unfold Write.covers; infer_instance

/-- the gene a source denotes (`frm` = the donor individual, `d` = the draws of this cell) -/
def Src.gene (ss : SymSet) (ρ : Env) (frm : Ind) (d : GDraw) : Src → Gene
  | .roulette cat _ _ => geneOfSym (ss.roulette (evalZ ρ cat).toNat d) d
  | .terminal cat => geneOfTerminal (ss.rouletteT (evalZ ρ cat).toNat d) d
  | .copy r c => frm.gene (evalZ ρ r).toNat (evalZ ρ c).toNat
  | .cond c a b => if evalZ ρ c ≠ 0 then a.gene ss ρ frm d else b.gene ss ρ frm d

/-- the contract of the draws a source consumes -/
def Src.drawOK (ss : SymSet) (ρ : Env) (d : GDraw) : Src → Prop
  | .roulette cat lo sup =>
      GDrawOK ss (evalZ ρ cat).toNat (evalZ ρ lo).toNat (evalZ ρ sup).toNat d
  | .terminal cat => TDrawOK ss (evalZ ρ cat).toNat d
  | .copy _ _ => True
  | .cond c a b => if evalZ ρ c ≠ 0 then a.drawOK ss ρ d else b.drawOK ss ρ d

/-- the `[from, sup)` handed to `gene(symbol, from, sup)` by the source that is selected -/
def Src.range (ρ : Env) : Src → Option (Int × Int)
  | .roulette _ lo sup => some (evalZ ρ lo, evalZ ρ sup)
  | .cond c a b => if evalZ ρ c ≠ 0 then a.range ρ else b.range ρ
  | _ => none

/-- the genome after a list of writes (program order: a later write wins) at cell `(i, c)` -/
def denote (ss : SymSet) (mk : Nat → Nat → Env) (frm : Ind) (d : Nat → Nat → GDraw)
    (coin : Nat → Nat → Bool) (ws : List Write) (base : Nat → Nat → Gene) (i c : Nat) : Gene :=
  ws.foldl (fun g w =>
    if w.covers (mk i c) i c ∧ (w.coin = true → coin i c = true)
    then w.src.gene ss (mk i c) frm (d i c) else g) (base i c)

/-- value of a drawn variable given the raw value `v` of the random primitive -/
def Draw.value (ρ : Env) (dr : Draw) (v : Int) : Int :=
  match dr.cond, dr.other with
  | some c, some o => if evalZ ρ c ≠ 0 then v else evalZ ρ o
  | _, _ => v

/-- contract of the random primitive: `lo ≤ v < sup` whenever it is called -/
def Draw.ok (ρ : Env) (dr : Draw) (v : Int) : Prop :=
  (match dr.cond with | some c => evalZ ρ c ≠ 0 | none => True) → evalZ ρ dr.lo ≤ v ∧ v < evalZ ρ dr.sup

/-- the primitive's own precondition (`Expects(min < sup)` / `Expects(sup)`) -/
def Draw.callable (ρ : Env) (dr : Draw) : Prop :=
  (match dr.cond with | some c => evalZ ρ c ≠ 0 | none => True) → evalZ ρ dr.lo < evalZ ρ dr.sup

/-- every intermediate value of an unsigned computation is a natural number (no wrap-around);
    of a conditional only the branch that is evaluated counts -/
def nowrap (ρ : Env) : E → Prop
  | .bin op _ a b => nowrap ρ a ∧ nowrap ρ b ∧ 0 ≤ binZ op (evalZ ρ a) (evalZ ρ b)
  | .cmp _ a b => nowrap ρ a ∧ nowrap ρ b
  | .ite c a b => nowrap ρ c ∧ (if evalZ ρ c ≠ 0 then nowrap ρ a else nowrap ρ b)
  | .lit n => 0 ≤ n
  | .var _ => True
  | _ => False

def Range.nowrap (ρ : Env) (r : Range) : Prop := GenSem.nowrap ρ r.lo ∧ GenSem.nowrap ρ r.hi

def Src.nowrap (ρ : Env) : Src → Prop
  | .roulette cat lo sup => GenSem.nowrap ρ cat ∧ GenSem.nowrap ρ lo ∧ GenSem.nowrap ρ sup
  | .terminal cat => GenSem.nowrap ρ cat
  | .copy r c => GenSem.nowrap ρ r ∧ GenSem.nowrap ρ c
  | .cond c a b => GenSem.nowrap ρ c ∧ (if evalZ ρ c ≠ 0 then a.nowrap ρ else b.nowrap ρ)

def Write.nowrap (ρ : Env) (w : Write) : Prop :=
  (match w.rows with | some r => r.nowrap ρ | none => True) ∧
  (match w.cols with | some r => r.nowrap ρ | none => True) ∧
  GenSem.nowrap ρ w.row ∧ GenSem.nowrap ρ w.col ∧ w.src.nowrap ρ

def Draw.nowrap (ρ : Env) (dr : Draw) : Prop :=
  (match dr.cond with | some c => GenSem.nowrap ρ c | none => True) ∧
  GenSem.nowrap ρ dr.lo ∧ GenSem.nowrap ρ dr.sup ∧
  (match dr.other with | some o => GenSem.nowrap ρ o | none => True)

/-! ## `sum_container::roulette` (symbol_set.cc): the wedge loop

  `const auto slot(random::sup(sum())); std::size_t i(0);`
  `for (auto wedge(elems_[i].weight); wedge <= slot; wedge += elems_[++i].weight) {}`
  `return *elems_[i].sym;`

  The translator extracts the loop as a tiny program over the state (index, accumulator): initial
  values, the test, the assignments of one iteration IN EVALUATION ORDER (`wedge += elems_[++i].weight`
  is `idx := idx + 1; acc := acc + weight[idx]`), the index returned.  Reading `elems_[k]` with `k`
  past the end of the container has no value (`none`): the loop "ran past the container". -/

/-- integer expressions over the state of the wedge loop -/
inductive WE
  | lit (n : Nat)
  | idx                 -- the index variable
  | acc                 -- the accumulator (`wedge`)
  | slot                -- the drawn slot
  | wt (e : WE)         -- `elems_[e].weight`
  | add (a b : WE)
deriving Repr

inductive WVar | idx | acc
deriving DecidableEq, Repr

structure WedgeLoop where
  slotSup : String              -- argument of `random::sup` that yields the slot
  idx0 : WE                     -- initial index
  acc0 : WE                     -- initial accumulator (may read the index)
  cmp : CmpOp                   -- the loop continues while `lhs cmp rhs`
  lhs : WE
  rhs : WE
  step : List (WVar × WE)       -- assignments of one iteration, in evaluation order
  ret : WE                      -- index of the element returned

structure WState where
  idx : Nat
  acc : Nat

def WE.eval (ws : List Nat) (slot : Nat) (s : WState) : WE → Option Nat
  | .lit n => some n
  | .idx => some s.idx
  | .acc => some s.acc
  | .slot => some slot
  | .wt e => (e.eval ws slot s).bind (fun k => ws[k]?)
  | .add a b => (a.eval ws slot s).bind (fun u => (b.eval ws slot s).map (fun v => u + v))

def WState.set (s : WState) : WVar → Nat → WState
  | .idx, v => { s with idx := v }
  | .acc, v => { s with acc := v }

def wstep (ws : List Nat) (slot : Nat) : List (WVar × WE) → WState → Option WState
  | [], s => some s
  | (v, e) :: rest, s => (e.eval ws slot s).bind (fun n => wstep ws slot rest (s.set v n))

/-- at most `fuel` evaluations of the test -/
def WedgeLoop.iter (w : WedgeLoop) (ws : List Nat) (slot : Nat) : Nat → WState → Option Nat
  | 0, _ => none
  | f + 1, s =>
    match w.lhs.eval ws slot s, w.rhs.eval ws slot s with
    | some a, some b =>
      if cmpZ w.cmp (a : Int) (b : Int) then (wstep ws slot w.step s).bind (w.iter ws slot f)
      else w.ret.eval ws slot s
    | _, _ => none

/-- the index the loop returns on a container with weights `ws` (`none`: it left the container) -/
def WedgeLoop.run (w : WedgeLoop) (ws : List Nat) (slot : Nat) : Option Nat :=
  (w.idx0.eval ws slot ⟨0, 0⟩).bind (fun i0 =>
    (w.acc0.eval ws slot ⟨i0, 0⟩).bind (fun a0 => w.iter ws slot (ws.length + 1) ⟨i0, a0⟩))

/-- `elems_[run].sym` -/
def WedgeLoop.pick (w : WedgeLoop) (l : List Sym) (slot : Nat) : Option Sym :=
  (w.run (l.map (·.weight)) slot).bind (fun i => l[i]?)

/-! ## `symbol_set::roulette(c)` / `roulette_terminal(c)`: which view of category `c` is asked -/

/-- the views `symbol_set::insert` maintains per category (`views_[c].<name>`) -/
def view (ss : SymSet) (c : Nat) (name : String) : List Sym :=
  if name = "functions" then ss.functions c
  else if name = "terminals" then ss.terminals c
  else if name = "all" then ss.syms.filter (fun s => s.cat == c)
  else []

/-- `if (random::boolean() && views_[c].<guard>.size()) return views_[c].<thenV>.roulette();`
    `return views_[c].<elseV>.roulette();` -/
structure Sel where
  coin : Bool               -- the guard starts with `random::boolean()`
  guardView : String        -- the view whose `size()` is tested
  thenView : String
  elseView : String

def Sel.useThen (sel : Sel) (ss : SymSet) (c : Nat) (d : GDraw) : Bool :=
  (!sel.coin || d.b) && !(view ss c sel.guardView).isEmpty

def Sel.run (sel : Sel) (w : WedgeLoop) (ss : SymSet) (c : Nat) (d : GDraw) : Option Sym :=
  if sel.useThen ss c d then w.pick (view ss c sel.thenView) d.slotF
  else w.pick (view ss c sel.elseView) d.slotT

/-! ## `locus::operator<` and `random_locus` (the exon walk over a `std::set<locus>`) -/

/-- variables of the extracted `operator<(l1, l2)`: 0 `l1.index`, 1 `l1.category`, 2 `l2.index`,
    3 `l2.category` -/
def lessEnv (a b : Locus) : Env :=
  { v := fun j => match j with
      | 0 => a.idx | 1 => a.cat | 2 => b.idx | 3 => b.cat | _ => 0
    a := fun _ => 0 }

def lessBy (less : E) (a b : Locus) : Bool := evalZ (lessEnv a b) less != 0

/-- the least element of a list w.r.t. `less` -/
def minL (less : Locus → Locus → Bool) : List Locus → Option Locus
  | [] => none
  | l :: t =>
    match minL less t with
    | none => some l
    | some m => if less m l then some m else some l

/-- `++iter` on an ordered set holding the elements of `S`: the least element after `cur`
    (`none` = `end()`) -/
def nextIn (less : Locus → Locus → Bool) (S : List Locus) (cur : Locus) : Option Locus :=
  minL less (S.filter (fun l => less cur l))

/-- `do { exons.insert(args of *iter) } while (++iter != exons.end())` on an ordered set: elements
    inserted BEFORE the cursor are never visited, those inserted after it are (in order) -/
def walkFrom (less : Locus → Locus → Bool) (x : Ind) : Nat → List Locus → Locus → List Locus
  | 0, S, _ => S
  | f + 1, S, cur =>
    match nextIn less (S ++ (x.gene cur.idx cur.cat).argLoci) cur with
    | none => S ++ (x.gene cur.idx cur.cat).argLoci
    | some n => walkFrom less x f (S ++ (x.gene cur.idx cur.cat).argLoci) n

/-- the shape of `random_locus(prg)` as read off the AST -/
structure Walk where
  container : String     -- type of the work set
  init : String          -- its initial content
  cursor : String        -- where the iteration starts
  expand : String        -- what one iteration inserts
  advance : String       -- how the loop advances / ends
  result : String        -- what is returned

def Walk.known (w : Walk) : Bool :=
  w.container == "std::set<locus>" && w.init == "{prg.best()}" && w.cursor == "begin()" &&
  w.expand == "insert:prg[*iter].arguments()" && w.advance == "do-while:++iter!=end()" &&
  w.result == "random::element(set)"

/-- the set `random_locus` draws from (`[]` when the shape is not the known one) -/
def Walk.run (w : Walk) (less : E) (x : Ind) : List Locus :=
  if w.known then walkFrom (lessBy less) x (x.rows * x.cols) [x.best] x.best else []

/-! ## `i_mep::basic_iterator`: what `for (i = begin(); i != end(); ++i)` scans

  `loci_` (a `std::set<locus>`) is the FRONTIER: it starts as `{best()}`; `*it` is the gene at its least
  element; `++it` removes that element and inserts its arguments (`erase(begin())` for a terminal,
  `extract(begin())`-re-key-`insert` + `insert(rest)` otherwise: the same set); `it == end()` iff the
  frontier is empty. -/

structure Frontier where
  container : String
  init : String
  sentinel : String
  deref : String
  advance : String
  atEnd : String
  beginEnd : String

def Frontier.known (w : Frontier) : Bool :=
  w.container == "std::set<locus>" && w.init == "{id.best()}" && w.sentinel == "loci_()" &&
  w.deref == "ind_->genome_(*loci_.cbegin())" &&
  w.advance == "if(!empty){args:=(**this).arguments();empty?erase(begin()):replace(begin(),args.front())+insert(rest)}" &&
  w.atEnd == "both-empty||same-cbegin" && w.beginEnd == "begin():iterator(*this);end():iterator()"

/-- the loci visited, in order (`F` = the frontier, `acc` = visited so far) -/
def frontierFrom (less : Locus → Locus → Bool) (x : Ind) : Nat → List Locus → List Locus → List Locus
  | 0, _, acc => acc
  | f + 1, F, acc =>
    match minL less F with
    | none => acc
    | some m =>
      frontierFrom less x f (F.filter (fun l => l != m) ++ (x.gene m.idx m.cat).argLoci) (acc ++ [m])

def Frontier.run (w : Frontier) (less : E) (x : Ind) : List Locus :=
  if w.known then frontierFrom (lessBy less) x (x.rows * x.cols) [x.best] [] else []

end Vita.C02.GenSem
