/-
  C02 — meaning of the tables that tools/translate_mep_ops.py extracts from the clang AST of
  i_mep.cc / gene.tcc / team.tcc (Vita/C02/Gen.lean, generated).

  The translator produces SYNTAX only: integer expressions (`E` of Vita/Common/IntE.lean) for loop
  bounds, draw ranges and index expressions, and small records saying which cell is written from
  what.  Here is what those records mean; Props.lean (`gen_*`) proves, from the generated values,
  that they denote the operators of Model.lean and the range facts the well-formedness proofs use.
-/
import Vita.Common.IntE
import Vita.C02.Model

namespace Vita.C02.GenSem
open Vita.IntE Vita.C02

/-! ## Variable numbering (shared with the translator) -/

/-- the integer variables an extracted expression may mention -/
structure Vars where
  rows : Int := 0     -- 0: size() of the INDIVIDUAL (`i_sup`, `i_size`) – its own geometry
  patch : Int := 0    -- 1: env.mep.patch_length of the problem handed to the operator
  cats : Int := 0     -- 2: categories() of the INDIVIDUAL (`c_sup`)
  i : Int := 0        -- 3: row of the cell being written (row loop variable / iterator locus)
  c : Int := 0        -- 4: its column
  d0 : Int := 0       -- 5: first integer drawn in the block (one point: cut; two points: cut1)
  d1 : Int := 0       -- 6: second integer drawn (two points: cut2)
  p0 : Int := 0       -- 7: first integer parameter (destroy_block: index; gene(s, from, sup): from)
  p1 : Int := 0       -- 8: second integer parameter (gene(s, from, sup): sup)
  n : Int := 0        -- 9: team: number of members
  k : Int := 0        -- 10: team: member index
  codeLen : Int := 0  -- 11: env.mep.code_length of the problem handed to the operator
  ssCats : Int := 0   -- 12: sset.categories() of the problem handed to the operator

def Vars.env (x : Vars) : Env :=
  { v := fun j => match j with
      | 0 => x.rows | 1 => x.patch | 2 => x.cats | 3 => x.i | 4 => x.c | 5 => x.d0 | 6 => x.d1
      | 7 => x.p0 | 8 => x.p1 | 9 => x.n | 10 => x.k | 11 => x.codeLen | 12 => x.ssCats | _ => 0
    a := fun _ => 0 }

def isVar : E → Nat → Bool
  | .var j, k => j == k
  | _, _ => false

/-! ## Records -/

/-- what is assigned to a genome cell -/
inductive Src
  | roulette (cat lo sup : E)     -- gene(sset.roulette(cat), lo, sup)
  | terminal (cat : E)            -- gene(sset.roulette_terminal(cat))
  | copy (row col : E)            -- from[{row, col}]
  | cond (c : E) (a b : Src)      -- c ? a : b

/-- `for (v = lo; v < hi; ++v)` (`ne`: the test is `v != hi`) -/
structure Range where
  lo : E
  hi : E
  ne : Bool

/-- one assignment `genome_(row, col) = src` with its enclosing loops; when there is a row
    (column) loop its variable is `.var 3` (`.var 4`) and IS the target row (column) -/
structure Write where
  rows : Option Range
  cols : Option Range
  row : E
  col : E
  src : Src
  coin : Bool           -- executed only when `random::boolean()` holds

/-- `v = cond ? between(lo, sup) : other` / `between(lo, sup)` / `sup(sup)` -/
structure Draw where
  cond : Option E
  lo : E
  sup : E
  other : Option E
  isSup : Bool

structure XBlock where
  draws : List Draw
  writes : List Write

structure GeneArgs where
  count : String
  lo : E
  sup : E
  bits : Nat

structure TeamLoop where
  range : Range
  op : String
  n : String

/-! ## Meaning -/

def Range.has (ρ : Env) (r : Range) (v : Int) : Prop := evalZ ρ r.lo ≤ v ∧ v < evalZ ρ r.hi

instance (ρ r v) : Decidable (Range.has ρ r v) := by unfold Range.has; infer_instance

def orange (ρ : Env) : Option Range → Int → Prop
  | none, _ => True
  | some r, v => r.has ρ v

instance (ρ o v) : Decidable (orange ρ o v) := by cases o <;> unfold orange <;> infer_instance

/-- a `!=` loop terminates (and covers `[lo, hi)`) only when it starts at or below its bound -/
def Range.sane (ρ : Env) (r : Range) : Prop := r.ne = true → evalZ ρ r.lo ≤ evalZ ρ r.hi

def Write.sane (ρ : Env) (w : Write) : Prop :=
  (match w.rows with | some r => r.sane ρ | none => True) ∧
  (match w.cols with | some r => r.sane ρ | none => True)

/-- syntactic sanity of a write: loop variables are the coordinates of the target -/
def Write.ok (w : Write) : Bool :=
  (w.rows.isNone || isVar w.row 3) && (w.cols.isNone || isVar w.col 4)

/-- the write reaches cell `(i, c)`; `ρ` binds variable 3 to `i` and variable 4 to `c` -/
def Write.covers (w : Write) (ρ : Env) (i c : Int) : Prop :=
  orange ρ w.rows i ∧ orange ρ w.cols c ∧ evalZ ρ w.row = i ∧ evalZ ρ w.col = c

instance (w ρ i c) : Decidable (Write.covers w ρ i c) := by unfold Write.covers; infer_instance

/-- the gene a source denotes (`frm` = the donor individual, `d` = the draws of this cell) -/
def Src.gene (ss : SymSet) (ρ : Env) (frm : Ind) (d : GDraw) : Src → Gene
  | .roulette cat _ _ => geneOfSym (ss.roulette (evalZ ρ cat).toNat d) d
  | .terminal cat => geneOfTerminal (ss.rouletteT (evalZ ρ cat).toNat d) d
  | .copy r c => frm.gene (evalZ ρ r).toNat (evalZ ρ c).toNat
  | .cond c a b => if evalZ ρ c ≠ 0 then a.gene ss ρ frm d else b.gene ss ρ frm d

/-- the contract of the draws a source consumes -/
def Src.drawOK (ss : SymSet) (ρ : Env) (d : GDraw) : Src → Prop
  | .roulette cat lo sup =>
      GDrawOK ss (evalZ ρ cat).toNat (evalZ ρ lo).toNat (evalZ ρ sup).toNat d
  | .terminal cat => TDrawOK ss (evalZ ρ cat).toNat d
  | .copy _ _ => True
  | .cond c a b => if evalZ ρ c ≠ 0 then a.drawOK ss ρ d else b.drawOK ss ρ d

/-- the `[from, sup)` handed to `gene(symbol, from, sup)` by the source that is selected -/
def Src.range (ρ : Env) : Src → Option (Int × Int)
  | .roulette _ lo sup => some (evalZ ρ lo, evalZ ρ sup)
  | .cond c a b => if evalZ ρ c ≠ 0 then a.range ρ else b.range ρ
  | _ => none

/-- the genome after a list of writes (program order: a later write wins) at cell `(i, c)` -/
def denote (ss : SymSet) (mk : Nat → Nat → Env) (frm : Ind) (d : Nat → Nat → GDraw)
    (coin : Nat → Nat → Bool) (ws : List Write) (base : Nat → Nat → Gene) (i c : Nat) : Gene :=
  ws.foldl (fun g w =>
    if w.covers (mk i c) i c ∧ (w.coin = true → coin i c = true)
    then w.src.gene ss (mk i c) frm (d i c) else g) (base i c)

/-- value of a drawn variable given the raw value `v` of the random primitive -/
def Draw.value (ρ : Env) (dr : Draw) (v : Int) : Int :=
  match dr.cond, dr.other with
  | some c, some o => if evalZ ρ c ≠ 0 then v else evalZ ρ o
  | _, _ => v

/-- contract of the random primitive: `lo ≤ v < sup` whenever it is called -/
def Draw.ok (ρ : Env) (dr : Draw) (v : Int) : Prop :=
  (match dr.cond with | some c => evalZ ρ c ≠ 0 | none => True) → evalZ ρ dr.lo ≤ v ∧ v < evalZ ρ dr.sup

/-- the primitive's own precondition (`Expects(min < sup)` / `Expects(sup)`) -/
def Draw.callable (ρ : Env) (dr : Draw) : Prop :=
  (match dr.cond with | some c => evalZ ρ c ≠ 0 | none => True) → evalZ ρ dr.lo < evalZ ρ dr.sup

/-- every intermediate value of an unsigned computation is a natural number (no wrap-around);
    of a conditional only the branch that is evaluated counts -/
def nowrap (ρ : Env) : E → Prop
  | .bin op _ a b => nowrap ρ a ∧ nowrap ρ b ∧ 0 ≤ binZ op (evalZ ρ a) (evalZ ρ b)
  | .cmp _ a b => nowrap ρ a ∧ nowrap ρ b
  | .ite c a b => nowrap ρ c ∧ (if evalZ ρ c ≠ 0 then nowrap ρ a else nowrap ρ b)
  | .lit n => 0 ≤ n
  | .var _ => True
  | _ => False

def Range.nowrap (ρ : Env) (r : Range) : Prop := GenSem.nowrap ρ r.lo ∧ GenSem.nowrap ρ r.hi

def Src.nowrap (ρ : Env) : Src → Prop
  | .roulette cat lo sup => GenSem.nowrap ρ cat ∧ GenSem.nowrap ρ lo ∧ GenSem.nowrap ρ sup
  | .terminal cat => GenSem.nowrap ρ cat
  | .copy r c => GenSem.nowrap ρ r ∧ GenSem.nowrap ρ c
  | .cond c a b => GenSem.nowrap ρ c ∧ (if evalZ ρ c ≠ 0 then a.nowrap ρ else b.nowrap ρ)

def Write.nowrap (ρ : Env) (w : Write) : Prop :=
  (match w.rows with | some r => r.nowrap ρ | none => True) ∧
  (match w.cols with | some r => r.nowrap ρ | none => True) ∧
  GenSem.nowrap ρ w.row ∧ GenSem.nowrap ρ w.col ∧ w.src.nowrap ρ

def Draw.nowrap (ρ : Env) (dr : Draw) : Prop :=
  (match dr.cond with | some c => GenSem.nowrap ρ c | none => True) ∧
  GenSem.nowrap ρ dr.lo ∧ GenSem.nowrap ρ dr.sup ∧
  (match dr.other with | some o => GenSem.nowrap ρ o | none => True)

end Vita.C02.GenSem
