/-
  C02 — helper lemmas (roulette, gene construction, fold invariants, reach, unfold).
-/
import Vita.C02.Model
namespace Vita.C02

/-! ### generic fold invariant -/

theorem foldl_inv {α β} (P : β → Prop) (f : β → α → β) (l : List α) (b : β)
    (hb : P b) (hf : ∀ b a, a ∈ l → P b → P (f b a)) : P (l.foldl f b) := by
  induction l generalizing b with
  | nil => simpa using hb
  | cons a t ih =>
    simp only [List.foldl_cons]
    apply ih
    · exact hf b a (by simp) hb
    · intro b' a' ha' hb'
      exact hf b' a' (by simp [ha']) hb'

/-! ### symbols -/

theorem Sym.terminal_iff_arity (s : Sym) : s.terminal = true ↔ s.arity = 0 := by
  unfold Sym.terminal Sym.arity
  cases s.argCats <;> simp

theorem Sym.terminal_argCats (s : Sym) (h : s.terminal = true) : s.argCats = [] := by
  unfold Sym.terminal at h
  cases hs : s.argCats with
  | nil => rfl
  | cons a t => simp [hs] at h

/-! ### the wedge loop -/

theorem wedgeIdx_some (l : List Sym) (acc slot : Nat) (hacc : acc ≤ slot)
    (h : slot < acc + wsum l) : ∃ i, wedgeIdx l acc slot = some i ∧ i < l.length := by
  induction l generalizing acc with
  | nil => simp [wsum] at h; omega
  | cons s rest ih =>
    unfold wedgeIdx
    by_cases hc : acc + s.weight ≤ slot
    · simp only [hc, if_true]
      have h' : slot < (acc + s.weight) + wsum rest := by
        simp [wsum] at h ⊢; omega
      obtain ⟨i, hi, hlt⟩ := ih (acc + s.weight) hc h'
      exact ⟨i + 1, by simp [hi], by simp; omega⟩
    · simp only [hc, if_false]
      exact ⟨0, rfl, by simp⟩

theorem wedgeIdx_none_of_zero (l : List Sym) (acc slot : Nat) (hacc : acc ≤ slot)
    (h : ∀ s ∈ l, s.weight = 0) : wedgeIdx l acc slot = none := by
  induction l generalizing acc with
  | nil => rfl
  | cons s rest ih =>
    have hs : s.weight = 0 := h s (by simp)
    unfold wedgeIdx
    have hc : acc + s.weight ≤ slot := by omega
    simp only [hc, if_true]
    rw [ih (acc + s.weight) hc (fun t ht => h t (by simp [ht]))]
    rfl

theorem rouletteOf_mem (l : List Sym) (slot : Nat) (h : slot < wsum l) :
    ∃ s, rouletteOf l slot = some s ∧ s ∈ l := by
  obtain ⟨i, hi, hlt⟩ := wedgeIdx_some l 0 slot (by omega) (by omega)
  refine ⟨l[i], ?_, List.getElem_mem hlt⟩
  simp [rouletteOf, hi, List.getElem?_eq_getElem hlt]

theorem rouletteD_mem (l : List Sym) (slot : Nat) (h : slot < wsum l) : rouletteD l slot ∈ l := by
  obtain ⟨s, hs, hm⟩ := rouletteOf_mem l slot h
  simp [rouletteD, hs, hm]

theorem mem_functions {ss : SymSet} {c : Nat} {s : Sym} (h : s ∈ ss.functions c) :
    s ∈ ss.syms ∧ s.cat = c ∧ s.terminal = false := by
  simp [SymSet.functions] at h
  exact ⟨h.1, h.2.1, h.2.2⟩

theorem mem_terminals {ss : SymSet} {c : Nat} {s : Sym} (h : s ∈ ss.terminals c) :
    s ∈ ss.syms ∧ s.cat = c ∧ s.terminal = true := by
  simp [SymSet.terminals] at h
  exact ⟨h.1, h.2.1, h.2.2⟩

theorem roulette_mem {ss : SymSet} {c lo sup : Nat} {d : GDraw} (h : GDrawOK ss c lo sup d) :
    ss.roulette c d ∈ ss.syms ∧ (ss.roulette c d).cat = c := by
  unfold SymSet.roulette
  by_cases hu : ss.useF c d = true
  · simp only [hu, if_true]
    have := mem_functions (rouletteD_mem _ _ (h.1 hu))
    exact ⟨this.1, this.2.1⟩
  · have hu' : ss.useF c d = false := by simpa using hu
    simp only [hu', Bool.false_eq_true, if_false]
    have := mem_terminals (rouletteD_mem _ _ (h.2.1 hu'))
    exact ⟨this.1, this.2.1⟩

theorem rouletteT_mem {ss : SymSet} {c : Nat} {d : GDraw} (h : TDrawOK ss c d) :
    ss.rouletteT c d ∈ ss.syms ∧ (ss.rouletteT c d).cat = c ∧ (ss.rouletteT c d).terminal = true :=
  mem_terminals (rouletteD_mem _ _ h)

/-! ### genes -/

theorem geneOfTerminal_wf {ss : SymSet} {rows cols i c : Nat} {s : Sym} (d : GDraw)
    (hs : s ∈ ss.syms) (hc : s.cat = c) (ht : s.terminal = true) :
    GeneWF ss rows cols i c (geneOfTerminal s d) ∧ (geneOfTerminal s d).sym.terminal = true := by
  have h0 := (Sym.terminal_iff_arity s).1 ht
  have ha := Sym.terminal_argCats s ht
  refine ⟨⟨hs, hc, ?_, ?_, ?_⟩, ht⟩
  · simp [geneOfTerminal, h0]
  · simp [geneOfTerminal]
  · simp [geneOfTerminal, ha]

theorem geneOfSym_wf {ss : SymSet} (hv : ss.Valid) {rows i c lo : Nat} {s : Sym} (d : GDraw)
    (hs : s ∈ ss.syms) (hc : s.cat = c) (hlo : i < lo) (hp : rows ≤ PACK)
    (hd : ∀ k, lo ≤ d.args k ∧ d.args k < rows) :
    GeneWF ss rows ss.cats i c (geneOfSym s d) := by
  unfold geneOfSym
  by_cases h0 : s.arity = 0
  · simp only [h0, if_true]
    exact (geneOfTerminal_wf d hs hc ((Sym.terminal_iff_arity s).2 h0)).1
  · simp only [h0, if_false]
    refine ⟨hs, hc, by simp, ?_, ?_⟩
    · intro a ha
      simp only [List.mem_map, List.mem_range] at ha
      obtain ⟨k, _, rfl⟩ := ha
      have := hd k
      have hm : d.args k % PACK = d.args k := Nat.mod_eq_of_lt (by omega)
      rw [hm]; omega
    · intro k hk
      exact hv.arg_lt s hs k hk

theorem drawGene_fresh {ss : SymSet} (hv : ss.Valid) {rows pl i c : Nat} {d : GDraw}
    (hp : rows ≤ PACK) (hd : DrawOK ss rows pl i c d) :
    FreshGeneOK ss rows ss.cats pl i c (drawGene ss rows pl i c d) := by
  unfold drawGene
  unfold DrawOK at hd
  by_cases hi : i < rows - pl
  · simp only [hi, if_true] at hd ⊢
    have hm := roulette_mem hd
    exact ⟨geneOfSym_wf hv d hm.1 hm.2 (Nat.lt_succ_self i) hp hd.2.2, by omega⟩
  · simp only [hi, if_false] at hd ⊢
    have hm := rouletteT_mem hd
    have := geneOfTerminal_wf (ss := ss) (rows := rows) (cols := ss.cats) (i := i) d hm.1 hm.2.1 hm.2.2
    exact ⟨this.1, fun _ => this.2⟩

/-- a well-formed gene in the last row is a terminal (it has no room for an argument) -/
theorem GeneWF.last_terminal {ss : SymSet} {rows cols c : Nat} {g : Gene}
    (h : GeneWF ss rows cols (rows - 1) c g) : g.sym.terminal = true := by
  obtain ⟨_, _, hl, ha, _⟩ := h
  rw [Sym.terminal_iff_arity, ← hl]
  cases hg : g.args with
  | nil => rfl
  | cons a t =>
    have := ha a (by simp [hg])
    omega

/-! ### setGene -/

@[simp] theorem setGene_rows (x : Ind) (i c g) : (setGene x i c g).rows = x.rows := rfl
@[simp] theorem setGene_cols (x : Ind) (i c g) : (setGene x i c g).cols = x.cols := rfl
@[simp] theorem setGene_best (x : Ind) (i c g) : (setGene x i c g).best = x.best := rfl
@[simp] theorem setGene_age (x : Ind) (i c g) : (setGene x i c g).age = x.age := rfl
@[simp] theorem setGene_xover (x : Ind) (i c g) : (setGene x i c g).xover = x.xover := rfl
theorem setGene_gene (x : Ind) (i c g i' c') :
    (setGene x i c g).gene i' c' = if i' = i ∧ c' = c then g else x.gene i' c' := rfl

/-- the shape of well-formedness: it only speaks about each gene at its own locus -/
theorem wf_of_genes {ss : SymSet} {x : Ind} (hr : 0 < x.rows) (hc : x.cols = ss.cats)
    (hb : x.best.idx < x.rows ∧ x.best.cat < x.cols)
    (hg : ∀ i, i < x.rows → ∀ c, c < x.cols → GeneWF ss x.rows x.cols i c (x.gene i c)) :
    WF ss x :=
  ⟨hr, hc, hg, fun c hc' => (hg (x.rows - 1) (by omega) c hc').last_terminal, hb⟩

theorem wf_setGene {ss : SymSet} {x : Ind} (h : WF ss x) {i c : Nat} {g : Gene}
    (hg : GeneWF ss x.rows x.cols i c g) : WF ss (setGene x i c g) := by
  apply wf_of_genes (x := setGene x i c g) h.rows_pos h.cols_eq h.best
  intro i' hi' c' hc'
  rw [setGene_gene]
  by_cases hh : i' = i ∧ c' = c
  · simp only [hh, and_self, if_true]
    obtain ⟨rfl, rfl⟩ := hh
    exact hg
  · simp only [hh, if_false]
    exact h.genes i' hi' c' hc'

/-! ### argument loci -/

theorem mem_argLoci {g : Gene} {l : Locus} (h : l ∈ g.argLoci) :
    l.idx ∈ g.args ∧ l.cat ∈ g.sym.argCats := by
  unfold Gene.argLoci at h
  generalize g.args = as at h
  generalize g.sym.argCats = cs at h
  induction as generalizing cs with
  | nil => simp at h
  | cons a t ih =>
    cases cs with
    | nil => simp at h
    | cons c ct =>
      simp only [List.zipWith_cons_cons, List.mem_cons] at h
      rcases h with h | h
      · subst h; simp
      · have := ih ct h
        exact ⟨by simp [this.1], by simp [this.2]⟩

theorem argLoci_inside {ss : SymSet} {rows cols i c : Nat} {g : Gene}
    (h : GeneWF ss rows cols i c g) {l : Locus} (hl : l ∈ g.argLoci) :
    i < l.idx ∧ l.idx < rows ∧ l.cat < cols := by
  have := mem_argLoci hl
  obtain ⟨_, _, _, ha, hk⟩ := h
  exact ⟨(ha _ this.1).1, (ha _ this.1).2, hk _ this.2⟩

/-! ### reach stays inside a well-formed genome -/

theorem reachRow_inside {ss : SymSet} {x : Ind} (h : WF ss x) (i : Nat) (hi : i < x.rows)
    (act : List Locus) (ha : ∀ l ∈ act, Inside x l) : ∀ l ∈ reachRow x i act, Inside x l := by
  unfold reachRow
  apply foldl_inv (P := fun act => ∀ l ∈ act, Inside x l)
  · exact ha
  · intro act c hc hact
    simp only [List.mem_range] at hc
    split
    · intro l hl
      simp only [List.mem_append] at hl
      rcases hl with hl | hl
      · exact hact l hl
      · have := argLoci_inside (h.genes i hi c hc) hl
        exact ⟨this.2.1, this.2.2⟩
    · exact hact

theorem reach_inside {ss : SymSet} {x : Ind} (h : WF ss x) {l0 : Locus} (h0 : Inside x l0) :
    ∀ l ∈ reach x l0, Inside x l := by
  unfold reach
  apply foldl_inv (P := fun act => ∀ l ∈ act, Inside x l)
  · intro l hl; simp at hl; subst hl; exact h0
  · intro act i hi hact
    simp only [List.mem_range] at hi
    exact reachRow_inside h i hi act hact

/-! ### step relations preserve well-formedness (per relation) -/

theorem SameShape.refl (x : Ind) : SameShape x x := ⟨rfl, rfl⟩

theorem MutStep.refl (ss : SymSet) (env : MepEnv) (x : Ind) : MutStep ss env x x :=
  ⟨SameShape.refl x, rfl, rfl, rfl, fun _ _ _ _ => Or.inl rfl⟩

theorem MutStep.set {ss : SymSet} {env : MepEnv} {pre y : Ind} (h : MutStep ss env pre y)
    {i c : Nat} {g : Gene} (hg : FreshGeneOK ss pre.rows pre.cols env.patchLength i c g) :
    MutStep ss env pre (setGene y i c g) := by
  obtain ⟨hs, hb, ha, hx, hgen⟩ := h
  refine ⟨hs, hb, ha, hx, ?_⟩
  intro i' hi' c' hc'
  rw [setGene_gene]
  by_cases hh : i' = i ∧ c' = c
  · simp only [hh, and_self, if_true]
    obtain ⟨rfl, rfl⟩ := hh
    exact Or.inr hg
  · simp only [hh, if_false]
    exact hgen i' hi' c' hc'

theorem getD_eq_getElem' {α} (l : List α) (k : Nat) (d : α) (h : k < l.length) :
    l.getD k d = l[k] := by
  simp [List.getD, List.getElem?_eq_getElem h]

theorem getD_mem_of_lt {α} (l : List α) (k : Nat) (d : α) (h : k < l.length) : l.getD k d ∈ l := by
  rw [getD_eq_getElem' _ _ _ h]
  exact List.getElem_mem h

theorem exists_getD_of_mem {α} {l : List α} {a : α} (d : α) (h : a ∈ l) :
    ∃ k, k < l.length ∧ l.getD k d = a := by
  obtain ⟨k, hk, rfl⟩ := List.getElem_of_mem h
  exact ⟨k, hk, getD_eq_getElem' _ _ _ hk⟩

/-! ### unfold -/

theorem unfoldF_same_gene (x : Ind) (f i c i' c' : Nat) (h : x.gene i c = x.gene i' c') :
    unfoldF x f i c = unfoldF x f i' c' := by
  cases f with
  | zero => simp [unfoldF, h]
  | succ f => simp [unfoldF, h]

theorem map_zipWith_congr {β} (F F' : Locus → β) (as as' cs : List Nat)
    (hl : as'.length = as.length)
    (h : ∀ k, k < as.length → k < cs.length →
      F' ⟨as'.getD k 0, cs.getD k 0⟩ = F ⟨as.getD k 0, cs.getD k 0⟩) :
    (List.zipWith Locus.mk as' cs).map F' = (List.zipWith Locus.mk as cs).map F := by
  induction as generalizing as' cs with
  | nil =>
    cases as' with
    | nil => simp
    | cons a t => simp at hl
  | cons a t ih =>
    cases as' with
    | nil => simp at hl
    | cons a' t' =>
      cases cs with
      | nil => simp
      | cons c ct =>
        simp only [List.zipWith_cons_cons, List.map_cons, List.cons.injEq]
        constructor
        · have := h 0 (by simp) (by simp)
          simpa using this
        · apply ih
          · simpa using hl
          · intro k hk hk'
            have := h (k + 1) (by simp; omega) (by simp; omega)
            simpa using this

theorem unfoldF_stable {ss : SymSet} {x : Ind} (h : WF ss x) :
    ∀ f1 f2 i c, i < x.rows → c < x.cols → x.rows - i ≤ f1 → x.rows - i ≤ f2 →
      unfoldF x f1 i c = unfoldF x f2 i c := by
  intro f1
  induction f1 with
  | zero => intro f2 i c hi _ h1 _; omega
  | succ f1 ih =>
    intro f2 i c hi hc h1 h2
    cases f2 with
    | zero => omega
    | succ f2 =>
      simp only [unfoldF, Tree.node.injEq, true_and]
      apply List.map_congr_left
      intro l hl
      have := argLoci_inside (h.genes i hi c hc) hl
      exact ih f2 l.idx l.cat this.2.1 this.2.2 (by omega) (by omega)

/-! ### executable forms of the relations -/

theorem mutStepStrongB_iff (ss : SymSet) (env : MepEnv) (pre post : Ind) (n : Nat) :
    mutStepStrongB ss env pre post n = true ↔ MutStepStrong ss env pre post n := by
  simp [mutStepStrongB, MutStepStrong, List.all_eq_true, and_assoc]

theorem treeXB_iff (frm to post : Ind) : treeXB frm to post = true ↔ TreeX frm to post := by
  simp [treeXB, TreeX, List.any_eq_true, List.all_eq_true]

theorem flavourB_iff (k : Nat) (frm to post : Ind) :
    flavourB k frm to post = true ↔ Flavour k frm to post := by
  unfold flavourB Flavour
  split
  · simp
  · split
    · simp
    · split
      · simp
      · exact treeXB_iff frm to post

theorem crossDirB_iff (frm to post : Ind) : crossDirB frm to post = true ↔ CrossDir frm to post := by
  simp [crossDirB, CrossDir, flavourB_iff, and_assoc]

theorem crossStepB_iff (lhs rhs post : Ind) :
    crossStepB lhs rhs post = true ↔ CrossStep lhs rhs post := by
  simp [crossStepB, CrossStep, crossDirB_iff]

theorem sum_eq_zero_of_all (l : List Nat) (h : ∀ n ∈ l, n = 0) : l.sum = 0 := by
  induction l with
  | nil => rfl
  | cons a t ih =>
    simp only [List.sum_cons]
    have := h a (by simp)
    have := ih (fun n hn => h n (by simp [hn]))
    omega

theorem getD_map_range {α} (f : Nat → α) (n k : Nat) (d : α) (h : k < n) :
    ((List.range n).map f).getD k d = f k := by
  have hl : k < ((List.range n).map f).length := by simp [h]
  rw [getD_eq_getElem' _ _ _ hl]
  simp

end Vita.C02
